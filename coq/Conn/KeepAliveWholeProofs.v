(* C07 on the whole connection: soundness of the timed predicate transformer [tsafe]. *)
From Passage Require Import Lib.Bytes Codec.VarInt Codec.Desc Gen.PacketsGen Gen.ConstsGen
  Codec.PacketCheck Conn.Types Conn.Prog Conn.Sem1 Conn.Monitor Conn.KeepAlive Conn.KeepAliveProofs
  Conn.KeepAliveWhole.

Local Opaque P.

Lemma P_pos : 0 < P. Proof. pose proof P_gt. lia. Qed.

(* ---------- the interval arithmetic of receive_packet(false) ---------- *)

Lemma fire_bounds d n : d <= n -> n < fire d n <= n + P.
Proof.
  intros Hdn. unfold fire. pose proof P_gt as HP.
  destruct (Z.ltb_spec (d + 5) n) as [Hl|Hl].
  - pose proof (Z.mod_pos_bound (n - d) P P_pos). lia.
  - lia.
Qed.

Lemma skip_ticks_bounds d now t :
  now <= t -> d <= now + P -> t < skip_ticks d now t <= t + P.
Proof.
  intros Hnt Hd. unfold skip_ticks.
  destruct (Z.ltb_spec t d) as [Hl|Hl]; [lia|].
  pose proof (fire_bounds d (Z.max d now) ltac:(lia)) as Hf.
  set (d1 := fire d (Z.max d now)) in *.
  destruct (Z.ltb_spec t d1) as [Hl1|Hl1]; [lia|].
  pose proof (Z.div_mod (t - d1) P ltac:(pose proof P_pos; lia)) as Hdm.
  pose proof (Z.mod_pos_bound (t - d1) P P_pos) as Hm.
  lia.
Qed.

(* ---------- harmless events ---------- *)

Lemma c07_step_recv st t id body : exists st', c07_step st (t, TRecv id body) = Some st'.
Proof.
  destruct st as [ref out]. unfold c07_step.
  destruct (ka_echo id body) as [kid|]; [|eexists; reflexivity].
  destruct out as [o|]; [|eexists; reflexivity]. destruct (o =? kid); eexists; reflexivity.
Qed.

Lemma c07_step_call st t c : timeout_call c = false -> c07_step st (t, TCall c) = Some st.
Proof.
  destruct st as [ref out]. unfold c07_step, timeout_call. destruct c; try reflexivity.
  intros ->. reflexivity.
Qed.

Lemma c07_step_send st t pk vs : is_ka pk = false -> c07_step st (t, TSend pk vs) = Some st.
Proof. destruct st as [ref out]. unfold c07_step, is_ka. intros ->. reflexivity. Qed.

Lemma c07_step_end st t o : o <> OErr KMissedKA -> c07_step st (t, TEnd o) = Some st.
Proof.
  destruct st as [ref out]. unfold c07_step. destruct o as [|k|]; try reflexivity.
  destruct k; try reflexivity. congruence.
Qed.

Lemma is_ls_not_ka pk : is_ls pk = true -> is_ka pk = false.
Proof.
  unfold is_ls, is_ka, is_pkt. intros H.
  apply andb_true_iff in H as [H H3]. apply andb_true_iff in H as [H1 H2].
  apply String.eqb_eq in H1, H2, H3. rewrite H1, H2, H3. vm_compute. reflexivity.
Qed.

Section Sound.
  Variable cfg : conn_cfg.
  Variable e : env.

  Lemma next_frame_pre s t ev s' :
    next_frame s = Some (t, ev, s') -> pre_inv s ->
    pre_inv s' /\ s_now s' = t /\ t < s_dl s' /\ s_dl s' <= t + P.
  Proof.
    unfold next_frame, pre_inv. destruct (s_in s) as [|[t0 ev0] rest]; [discriminate|].
    intros H [Hka Hdl]. inversion H; subst; clear H. cbn [s_ka s_now s_dl].
    pose proof (skip_ticks_bounds (s_dl s) (s_now s) (Z.max t0 (s_now s)) ltac:(lia) Hdl) as Hb.
    repeat split; try assumption; lia.
  Qed.

  Local Notation exec := (exec cfg e).

  Definition sound_at (p : prog) : Prop := forall s,
    (tsafe KPre p -> pre_inv s -> c07_from_config (exec p s) = true) /\
    (tsafe KJust p -> pre_inv s -> forall t pk vs, is_ls pk = true ->
        c07_from_config ((t, TSend pk vs) :: exec p s) = true) /\
    (tsafe KConf p -> forall ref, conf_inv ref s -> c07_run (ref, s_ka s) (exec p s) <> None) /\
    (tsafe KTail p -> forall st, c07_run st (exec p s) <> None).

  Lemma from_config_ls t pk vs r :
    is_ls pk = true ->
    c07_from_config ((t, TSend pk vs) :: r) =
    match r with
    | (t1, TRecv _ _) :: r1 => match c07_run (t1, None) r1 with Some _ => true | None => false end
    | _ => true
    end.
  Proof. unfold is_ls. intros H. cbn [c07_from_config]. rewrite H. reflexivity. Qed.

  Lemma from_config_nls t pk vs r :
    is_ls pk = false -> c07_from_config ((t, TSend pk vs) :: r) = c07_from_config r.
  Proof. unfold is_ls. intros H. cbn [c07_from_config]. rewrite H. reflexivity. Qed.

  Lemma run_cons_some st ev r st' : c07_step st ev = Some st' -> c07_run st (ev :: r) = c07_run st' r.
  Proof. intros H. cbn [c07_run]. rewrite H. reflexivity. Qed.

  Lemma sa_pre p : sound_at p -> forall s, tsafe KPre p -> pre_inv s -> c07_from_config (exec p s) = true.
  Proof. intros H s. apply (H s). Qed.
  Lemma sa_just p : sound_at p -> forall s, tsafe KJust p -> pre_inv s -> forall t pk vs, is_ls pk = true ->
        c07_from_config ((t, TSend pk vs) :: exec p s) = true.
  Proof. intros H s. apply (H s). Qed.
  Lemma sa_conf p : sound_at p -> forall s, tsafe KConf p -> forall ref, conf_inv ref s ->
        c07_run (ref, s_ka s) (exec p s) <> None.
  Proof. intros H s. apply (H s). Qed.
  Lemma sa_tail p : sound_at p -> forall s, tsafe KTail p -> forall st, c07_run st (exec p s) <> None.
  Proof. intros H s. apply (H s). Qed.

  Theorem tsafe_sound : forall p, sound_at p.
  Proof.
    induction p as [o|k IH|loc k IH|loc c k IH|c k IH|pk vs k IH|ss k IH|w k IH|k IH]; intros s.
    - (* Ret *)
      cbn [tsafe Sem1.exec]. repeat split.
      + intros _ _ t pk vs Hls. rewrite from_config_ls by exact Hls. reflexivity.
      + intros Ho ref _. rewrite (run_cons_some _ _ _ _ (c07_step_end _ _ _ Ho)). discriminate.
      + intros Ho st. rewrite (run_cons_some _ _ _ _ (c07_step_end _ _ _ Ho)). discriminate.
    - (* Expect *)
      cbn [tsafe Sem1.exec].
      destruct (next_frame s) as [[[t ev] s']|] eqn:Hnf.
      2:{ repeat split.
          - intros _ _ t pk vs Hls. rewrite from_config_ls by exact Hls. reflexivity.
          - intros _ ref _. cbn. discriminate.
          - intros _ [r o]. cbn. discriminate. }
      destruct ev as [id body| |].
      2:{ repeat split.
          - intros _ _ t' pk vs Hls. rewrite from_config_ls by exact Hls. reflexivity.
          - intros _ ref _. cbn. discriminate.
          - intros _ [r o]. cbn. discriminate. }
      2:{ repeat split.
          - intros _ _ t' pk vs Hls. rewrite from_config_ls by exact Hls. reflexivity.
          - intros _ ref _. cbn. discriminate.
          - intros _ [r o]. cbn. discriminate. }
      assert (Hill : forall st, c07_run st [(t, TRecv id body); (t, TEnd (OErr KIllegalLen))] <> None).
      { intros st. destruct (c07_step_recv st t id body) as [st' Hst'].
        rewrite (run_cons_some _ _ _ _ Hst').
        assert (Hne : OErr KIllegalLen <> OErr KMissedKA) by discriminate.
        rewrite (run_cons_some _ _ _ st' (c07_step_end st' t _ Hne)). discriminate. }
      assert (Htail : (forall id body, tsafe KTail (k id body)) ->
                      forall st, c07_run st (if negb (len_ok cfg id body)
                                             then [(t, TRecv id body); (t, TEnd (OErr KIllegalLen))]
                                             else (t, TRecv id body) :: exec (k id body) s') <> None).
      { intros Hk st. destruct (negb (len_ok cfg id body)); [apply Hill|].
        destruct (c07_step_recv st t id body) as [st' Hst'].
        rewrite (run_cons_some _ _ _ _ Hst'). apply (sa_tail _ (IH id body)). apply Hk. }
      split; [|split; [|split]].
      + intros Hk Hpre. destruct (next_frame_pre _ _ _ _ Hnf Hpre) as (Hpre' & _).
        destruct (negb (len_ok cfg id body)); [reflexivity|].
        cbn [c07_from_config]. apply (sa_pre _ (IH id body)); [apply Hk | exact Hpre'].
      + intros Hk Hpre t0 pk vs Hls. rewrite from_config_ls by exact Hls.
        destruct (next_frame_pre _ _ _ _ Hnf Hpre) as ((Hka' & _) & Hnow & Hlt & Hle).
        destruct (negb (len_ok cfg id body)).
        * cbn. reflexivity.
        * assert (Hinv : conf_inv t s') by (unfold conf_inv; lia).
          pose proof (sa_conf _ (IH id body) s' (Hk id body) t Hinv) as Hr.
          rewrite Hka' in Hr. destruct (c07_run (t, None) (exec (k id body) s')); [reflexivity | congruence].
      + intros Hk ref _. apply Htail. exact Hk.
      + intros Hk st. apply Htail. exact Hk.
    - (* WaitInfo *)
      cbn [tsafe Sem1.exec]. split; [intros []|]. split; [intros []|]. split; [|intros []].
      intros Hk ref (H1 & H2 & H3).
      pose proof (ka_loop_c07 cfg e true loc None (s_in s) (s_now s) (s_dl s) (s_ka s) (s_nka s) (s_nnow s) ref H1 H2 H3) as Hl.
      destruct (ka_loop cfg e true loc None (s_in s) (s_now s) (s_dl s) (s_ka s) (s_nka s) (s_nnow s)) as [tr [vs s'|s'|o]].
      + destruct Hl as (ref' & Hr & Hinv). rewrite c07_run_app, Hr.
        apply (sa_conf _ (IH vs)); [apply Hk | exact Hinv].
      + destruct Hl as (ref' & Hr & Hinv). rewrite c07_run_app, Hr. cbn. discriminate.
      + exact Hl.
    - (* Race *)
      cbn [tsafe Sem1.exec]. split; [intros []|]. split; [intros []|]. split; [|intros []].
      intros [Hc Hk] ref (H1 & H2 & H3).
      destruct (e_res e c) as [r lat].
      pose proof (ka_loop_c07 cfg e false loc (Some (s_now s + Z.max lat 1)) (s_in s) (s_now s) (s_dl s) (s_ka s) (s_nka s) (s_nnow s) ref H1 H2 H3) as Hl.
      destruct (ka_loop cfg e false loc (Some (s_now s + Z.max lat 1)) (s_in s) (s_now s) (s_dl s) (s_ka s) (s_nka s) (s_nnow s)) as [tr [vs s'|s'|o]].
      + rewrite (run_cons_some _ _ _ _ (c07_step_call _ _ _ Hc)).
        destruct Hl as (ref' & Hr & _). rewrite Hr. discriminate.
      + cbn [app]. rewrite (run_cons_some _ _ _ _ (c07_step_call _ _ _ Hc)).
        destruct Hl as (ref' & Hr & Hinv). rewrite c07_run_app, Hr.
        cbn [c07_run c07_step].
        apply (sa_conf _ (IH r)); [apply Hk | exact Hinv].
      + rewrite (run_cons_some _ _ _ _ (c07_step_call _ _ _ Hc)). exact Hl.
    - (* Call *)
      cbn [tsafe Sem1.exec]. destruct (e_res e c) as [r lat].
      assert (Htail : timeout_call c = false /\ (forall r, tsafe KTail (k r)) ->
                forall st, c07_run st ((s_now s, TCall c) :: (s_now s + Z.max lat 0, TRes c r)
                                        :: exec (k r) (set_now s (s_now s + Z.max lat 0))) <> None).
      { intros [Hc Hk] st. rewrite (run_cons_some _ _ _ _ (c07_step_call _ _ _ Hc)).
        destruct st as [r0 o0].
        cbn [c07_run c07_step]. apply (sa_tail _ (IH r)). apply Hk. }
      split; [|split; [intros []|split]].
      + intros Hk [Hka Hdl]. cbn [c07_from_config]. apply (sa_pre _ (IH r)); [apply Hk|].
        unfold pre_inv, set_now. cbn [s_ka s_now s_dl]. split; [exact Hka | lia].
      + intros H ref _. apply Htail. exact H.
      + intros H st. apply Htail. exact H.
    - (* Send *)
      cbn [tsafe Sem1.exec]. split; [|split; [intros []|split]].
      + intros Hk Hpre. destruct (is_ls pk) eqn:Hls.
        * apply (sa_just _ IH); assumption.
        * rewrite from_config_nls by exact Hls. apply (sa_pre _ IH); assumption.
      + intros [Hka Hk] ref Hinv. rewrite (run_cons_some _ _ _ _ (c07_step_send _ _ _ _ Hka)).
        apply (sa_conf _ IH); assumption.
      + intros [Hka Hk] st. rewrite (run_cons_some _ _ _ _ (c07_step_send _ _ _ _ Hka)).
        apply (sa_tail _ IH); assumption.
    - (* EncOn *)
      cbn [tsafe Sem1.exec]. split; [|split; [intros []|split]].
      + intros Hk Hpre. cbn [c07_from_config]. apply (sa_pre _ IH); assumption.
      + intros Hk ref Hinv. cbn [c07_run c07_step]. apply (sa_conf _ IH); assumption.
      + intros Hk [r o]. cbn [c07_run c07_step]. apply (sa_tail _ IH); assumption.
    - (* Fresh *)
      cbn [tsafe Sem1.exec]. split; [|split; [intros []|split]].
      + intros Hk Hpre. destruct w; cbn [c07_from_config]; apply (sa_pre _ (IH _)); try apply Hk; assumption.
      + intros Hk ref Hinv.
        destruct w; cbn [c07_run c07_step]; apply (sa_conf _ (IH _)); try apply Hk; assumption.
      + intros Hk [r o].
        destruct w; cbn [c07_run c07_step]; apply (sa_tail _ (IH _)); apply Hk.
    - (* Now *)
      cbn [tsafe Sem1.exec]. split; [|split; [intros []|split]].
      + intros Hk [Hka Hdl]. cbn [c07_from_config]. apply (sa_pre _ (IH _)); [apply Hk|].
        unfold pre_inv. cbn [s_ka s_now s_dl]. split; assumption.
      + intros Hk ref Hinv. cbn [c07_run c07_step].
        match goal with |- c07_run (ref, s_ka s) (exec _ ?s2) <> None =>
          change (s_ka s) with (s_ka s2); apply (sa_conf _ (IH _)); [apply Hk | exact Hinv] end.
      + intros Hk [r o]. cbn [c07_run c07_step]. apply (sa_tail _ (IH _)). apply Hk.
  Qed.

  Lemma init1_pre ib : pre_inv (init1 ib).
  Proof. unfold pre_inv, init1. cbn. pose proof P_pos. split; [reflexivity | lia]. Qed.

  Corollary tsafe_whole p ib : tsafe KPre p -> c07_from_config (exec p (init1 ib)) = true.
  Proof. intros H. apply (sa_pre _ (tsafe_sound p)); [exact H | apply init1_pre]. Qed.
End Sound.

(* ================================================================================== *)
(* exact behaviour of the ticks in a state with now <= dl *)
Section Ticks.
  Variable cfg : conn_cfg.
  Variable e : env.

  Lemma tick_at_some loc tt dl x nka :
    tick_at e loc tt dl (Some x) nka = (timeout_trace e loc tt, None).
  Proof.
    unfold tick_at, timeout_trace. destruct (fst (e_res e (CLocalize loc key_timeout))); reflexivity.
  Qed.

  Lemma tick_at_none loc tt dl nka :
    tick_at e loc tt dl None nka =
    (keepalive_trace e tt nka, Some (fire dl tt, Some (be_dec (e_fresh e RKeepAlive nka)), S nka)).
  Proof. reflexivity. Qed.

  Lemma ticks_until_early loc now dl ka nka t :
    t < dl -> ticks_until e loc now dl ka nka t = ([], Some (dl, ka, nka)).
  Proof. intros H. unfold ticks_until. destruct (Z.ltb_spec t dl); [reflexivity | lia]. Qed.

  Lemma ticks_until_unanswered loc now dl x nka t :
    now <= dl -> dl <= t -> ticks_until e loc now dl (Some x) nka t = (timeout_trace e loc dl, None).
  Proof.
    intros H1 H2. unfold ticks_until. destruct (Z.ltb_spec t dl); [lia|].
    replace (Z.max dl now) with dl by lia. rewrite tick_at_some. reflexivity.
  Qed.

  Lemma ticks_until_one loc now dl nka t :
    now <= dl -> dl <= t -> t < dl + P ->
    ticks_until e loc now dl None nka t =
    (keepalive_trace e dl nka, Some (dl + P, Some (be_dec (e_fresh e RKeepAlive nka)), S nka)).
  Proof.
    intros H1 H2 H3. unfold ticks_until. destruct (Z.ltb_spec t dl); [lia|].
    replace (Z.max dl now) with dl by lia. rewrite tick_at_none, fire_on_time.
    destruct (Z.ltb_spec t (dl + P)); [reflexivity | lia].
  Qed.

  Lemma ticks_until_two loc now dl nka t :
    now <= dl -> dl + P <= t ->
    ticks_until e loc now dl None nka t =
    (keepalive_trace e dl nka ++ timeout_trace e loc (dl + P), None).
  Proof.
    intros H1 H2. pose proof P_pos. unfold ticks_until. destruct (Z.ltb_spec t dl); [lia|].
    replace (Z.max dl now) with dl by lia. rewrite tick_at_none, fire_on_time.
    destruct (Z.ltb_spec t (dl + P)); [lia|]. rewrite tick_at_some. reflexivity.
  Qed.

  (* the client-side description [alive_step] is exactly what the ticks do *)
  Lemma ticks_until_alive loc now dl ka nka t :
    now <= dl -> snd (ticks_until e loc now dl ka nka t) = alive_step e dl ka nka t.
  Proof.
    intros H. unfold alive_step.
    destruct (Z.ltb_spec t dl) as [Hl|Hl]; [rewrite ticks_until_early by exact Hl; reflexivity|].
    destruct ka as [x|]; [rewrite ticks_until_unanswered by assumption; reflexivity|].
    destruct (Z.ltb_spec t (dl + P)) as [Hl2|Hl2].
    - rewrite ticks_until_one by assumption. reflexivity.
    - rewrite ticks_until_two by assumption. reflexivity.
  Qed.

  Lemma alive_step_bounds dl ka nka t dl' ka' nka' :
    alive_step e dl ka nka t = Some (dl', ka', nka') -> t < dl' /\ dl <= dl'.
  Proof.
    unfold alive_step. pose proof P_pos.
    destruct (Z.ltb_spec t dl); [intros H'; inversion H'; subst; lia|].
    destruct ka; [discriminate|].
    destruct (Z.ltb_spec t (dl + P)); [intros H'; inversion H'; subst; lia | discriminate].
  Qed.

  (* what a race does with a well-formed ignorable frame *)
  Lemma conf_frame_ignorable ka id body :
    wf_ignorable cfg id body = true ->
    conf_frame cfg false ka id body = FCont (clear ka (ka_echo id body)).
  Proof.
    unfold wf_ignorable, conf_frame, ka_echo, clear.
    destruct (negb (len_ok cfg id body)); [discriminate|].
    destruct (id =? p_id configuration_sb_KeepAlivePacket).
    - destruct (dec vi vl (rkinds configuration_sb_KeepAlivePacket) body) as [[|[] [|? ?]] ?|]; try discriminate.
      intros _. destruct ka; reflexivity.
    - intros H. destruct (id =? p_id configuration_sb_ClientInformationPacket).
      + destruct (dec vi vl (rkinds configuration_sb_ClientInformationPacket) body); [|discriminate].
        destruct ka; reflexivity.
      + destruct ((id =? p_id configuration_sb_PluginMessagePacket)
                  || (id =? p_id configuration_sb_ResourcePackResponsePacket)
                  || (id =? p_id configuration_sb_CookieResponsePacket)); [|discriminate].
        match goal with |- context [dec vi vl ?k body] => destruct (dec vi vl k body) end; [|discriminate].
        destruct ka; reflexivity.
  Qed.

  (* ---------- C07_survive ---------- *)
  Theorem ka_loop_survive : forall loc h ib now dl ka nka nnow,
    now <= dl ->
    cooperative cfg e h ib now dl ka nka = true ->
    exists tr s', ka_loop cfg e false loc (Some h) ib now dl ka nka nnow = (tr, KDone s')
                  /\ s_now s' = Z.max now h /\ s_now s' <= s_dl s'.
  Proof.
    intros loc h ib. induction ib as [|[t ev] rest IH]; intros now dl ka nka nnow Hnd Hco.
    - cbn [ka_loop cooperative] in *.
      pose proof (ticks_until_alive loc now dl ka nka (h - 1) Hnd) as Ha.
      destruct (ticks_until e loc now dl ka nka (h - 1)) as [tr [[[dl' ka'] nka']|]]; cbn [snd] in Ha.
      + eexists _, _. split; [reflexivity|]. cbn [s_now s_dl]. split; [reflexivity|].
        symmetry in Ha. apply alive_step_bounds in Ha. lia.
      + rewrite <- Ha in Hco. discriminate.
    - cbn [ka_loop cooperative] in *.
      destruct (Z.leb_spec h (Z.max t now)) as [Hb|Hb].
      + pose proof (ticks_until_alive loc now dl ka nka (h - 1) Hnd) as Ha.
        destruct (ticks_until e loc now dl ka nka (h - 1)) as [tr [[[dl' ka'] nka']|]]; cbn [snd] in Ha.
        * eexists _, _. split; [reflexivity|]. cbn [s_now s_dl]. split; [reflexivity|].
          symmetry in Ha. apply alive_step_bounds in Ha. lia.
        * rewrite <- Ha in Hco. discriminate.
      + pose proof (ticks_until_alive loc now dl ka nka (Z.max t now) Hnd) as Ha.
        destruct (ticks_until e loc now dl ka nka (Z.max t now)) as [tr [[[dl' ka'] nka']|]]; cbn [snd] in Ha;
          rewrite <- Ha in Hco; [|discriminate].
        destruct ev as [id body| |]; try discriminate.
        apply andb_true_iff in Hco as [Hwf Hco].
        rewrite (conf_frame_ignorable ka' id body Hwf).
        symmetry in Ha. apply alive_step_bounds in Ha.
        destruct (IH (Z.max t now) dl' (clear ka' (ka_echo id body)) nka' nnow ltac:(lia) Hco) as (tr2 & s' & Hl & Hn & Hd).
        rewrite Hl. eexists _, _. split; [reflexivity|]. split; [lia | exact Hd].
  Qed.

  (* ---------- C07_timeout ---------- *)
  Theorem ka_loop_timeout : forall info loc hz x ib now dl nka nnow,
    now <= dl -> later_than hz dl ->
    unechoed cfg info (Some x) dl ib now = true ->
    ka_loop cfg e info loc hz ib now dl (Some x) nka nnow =
    (recvs_before dl ib now ++ timeout_trace e loc dl, KEnd (OErr KMissedKA)).
  Proof.
    intros info loc hz x ib. induction ib as [|[t ev] rest IH]; intros now dl nka nnow Hnd Hh Hun.
    - cbn [ka_loop recvs_before app]. destruct hz as [h|]; cbn [later_than] in Hh.
      + rewrite ticks_until_unanswered by lia. reflexivity.
      + pose proof P_pos. rewrite ticks_until_unanswered by lia. reflexivity.
    - cbn [ka_loop recvs_before unechoed] in *.
      destruct (Z.leb_spec dl (Z.max t now)) as [Hd|Hd].
      + cbn [app].
        destruct hz as [h|]; cbn [later_than] in Hh.
        * destruct (Z.leb_spec h (Z.max t now)); rewrite ticks_until_unanswered by lia; reflexivity.
        * rewrite ticks_until_unanswered by lia. reflexivity.
      + assert (Hb : match hz with Some h => h <=? Z.max t now | None => false end = false).
        { destruct hz as [h|]; [|reflexivity]. cbn [later_than] in Hh. apply Z.leb_gt. lia. }
        rewrite Hb. rewrite ticks_until_early by exact Hd.
        destruct ev as [id body| |]; try discriminate.
        destruct (conf_frame cfg info (Some x) id body) as [[y|]|vs|o]; try discriminate.
        apply andb_true_iff in Hun as [Hxy Hun]. apply Z.eqb_eq in Hxy. subst y.
        rewrite (IH (Z.max t now) dl nka nnow ltac:(lia) Hh Hun). reflexivity.
  Qed.

  (* the whole life of a Keep Alive nobody answers: no id outstanding, the tick at dl sends a
     fresh id, nothing echoes it before dl + P, the tick at dl + P ends the connection *)
  Lemma ka_loop_silent_from_tick : forall info loc hz ib now dl nka nnow,
    now <= dl -> later_than hz (dl + P) ->
    (match ib with [] => True | (t, _) :: _ => dl <= Z.max t now end) ->
    unechoed cfg info (Some (be_dec (e_fresh e RKeepAlive nka))) (dl + P) ib now = true ->
    ka_loop cfg e info loc hz ib now dl None nka nnow =
    (keepalive_trace e dl nka ++ recvs_before (dl + P) ib now ++ timeout_trace e loc (dl + P),
     KEnd (OErr KMissedKA)).
  Proof.
    intros info loc hz ib now dl nka nnow Hnd Hh Hfirst Hun. pose proof P_pos as HP.
    destruct ib as [|[t ev] rest].
    - cbn [ka_loop recvs_before app]. destruct hz as [h|]; cbn [later_than] in Hh.
      + rewrite ticks_until_two by lia. reflexivity.
      + rewrite ticks_until_two by lia. reflexivity.
    - cbn [ka_loop recvs_before unechoed] in *.
      destruct (Z.leb_spec (dl + P) (Z.max t now)) as [Hd|Hd].
      + cbn [app].
        destruct hz as [h|]; cbn [later_than] in Hh.
        * destruct (Z.leb_spec h (Z.max t now)); rewrite ticks_until_two by lia; reflexivity.
        * rewrite ticks_until_two by lia. reflexivity.
      + assert (Hb : match hz with Some h => h <=? Z.max t now | None => false end = false).
        { destruct hz as [h|]; [|reflexivity]. cbn [later_than] in Hh. apply Z.leb_gt. lia. }
        rewrite Hb. rewrite ticks_until_one by lia.
        destruct ev as [id body| |]; try discriminate.
        destruct (conf_frame cfg info (Some (be_dec (e_fresh e RKeepAlive nka))) id body) as [[y|]|vs|o]; try discriminate.
        apply andb_true_iff in Hun as [Hxy Hun]. apply Z.eqb_eq in Hxy. subst y.
        rewrite (ka_loop_timeout info loc hz _ rest (Z.max t now) (dl + P) (S nka) nnow ltac:(lia) Hh Hun).
        cbn [app]. reflexivity.
  Qed.

  Theorem ka_loop_silent : forall info loc hz ib now dl nka nnow,
    now <= dl -> later_than hz (dl + P) ->
    unechoed cfg info None dl ib now = true ->
    (let (ib1, now1) := rest_after dl ib now in
     unechoed cfg info (Some (be_dec (e_fresh e RKeepAlive nka))) (dl + P) ib1 now1 = true) ->
    ka_loop cfg e info loc hz ib now dl None nka nnow =
    (let (ib1, now1) := rest_after dl ib now in
     recvs_before dl ib now ++ keepalive_trace e dl nka
       ++ recvs_before (dl + P) ib1 now1 ++ timeout_trace e loc (dl + P),
     KEnd (OErr KMissedKA)).
  Proof.
    intros info loc hz ib. pose proof P_pos as HP.
    induction ib as [|[t ev] rest IH]; intros now dl nka nnow Hnd Hh Hun1 Hun2.
    - cbn [rest_after recvs_before app] in *.
      apply ka_loop_silent_from_tick; try assumption. exact I.
    - cbn [rest_after recvs_before unechoed] in *.
      destruct (Z.leb_spec dl (Z.max t now)) as [Hd|Hd].
      + cbn [app]. apply ka_loop_silent_from_tick; assumption.
      + destruct ev as [id body| |]; try discriminate.
        cbn [ka_loop].
        assert (Hb : match hz with Some h => h <=? Z.max t now | None => false end = false).
        { destruct hz as [h|]; [|reflexivity]. cbn [later_than] in Hh. apply Z.leb_gt. lia. }
        rewrite Hb. rewrite ticks_until_early by exact Hd.
        destruct (conf_frame cfg info None id body) as [[y|]|vs|o]; try discriminate.
        rewrite (IH (Z.max t now) dl nka nnow ltac:(lia) Hh Hun1 Hun2).
        destruct (rest_after dl rest (Z.max t now)) as [ib1 now1]. reflexivity.
  Qed.
End Ticks.

(* ================================================================================== *)
(* the completion instant of a race, and what exec does around the loops *)
Section Completion.
  Variable cfg : conn_cfg.
  Variable e : env.

  Lemma tick_at_times loc tt dl ka nka :
    Forall (fun ev : timed => fst ev = tt) (fst (tick_at e loc tt dl ka nka)).
  Proof.
    unfold tick_at. destruct ka as [x|].
    - destruct (fst (e_res e (CLocalize loc key_timeout))); cbn [fst]; repeat constructor.
    - cbn [fst]. repeat constructor.
  Qed.

  Lemma Forall_times_le (tr : trace) a b :
    a <= b -> Forall (fun ev : timed => fst ev = a) tr -> Forall (fun ev : timed => fst ev <= b) tr.
  Proof. intros Hab H. eapply Forall_impl; [|exact H]. cbn beta. intros ev Hev. lia. Qed.

  Lemma ticks_until_times loc now dl ka nka t :
    Forall (fun ev : timed => fst ev <= Z.max now t) (fst (ticks_until e loc now dl ka nka t)).
  Proof.
    unfold ticks_until. destruct (Z.ltb_spec t dl) as [Hl|Hl]; [constructor|].
    pose proof (tick_at_times loc (Z.max dl now) dl ka nka) as H1.
    apply (Forall_times_le _ (Z.max dl now) (Z.max now t) ltac:(lia)) in H1.
    destruct (tick_at e loc (Z.max dl now) dl ka nka) as [tr1 [[[dl1 ka1] nka1]|]]; cbn [fst] in *; [|exact H1].
    destruct (Z.ltb_spec t dl1) as [Hl1|Hl1]; [exact H1|].
    pose proof (tick_at_times loc dl1 dl1 ka1 nka1) as H2.
    apply (Forall_times_le _ dl1 (Z.max now t) ltac:(lia)) in H2.
    destruct (tick_at e loc dl1 dl1 ka1 nka1) as [tr2 [x|]]; cbn [fst] in *; apply Forall_app; split; assumption.
  Qed.

  (* a race that hands on does so exactly at the completion instant of the adapter, with every
     event of the loop strictly before it; a loop without horizon never hands on that way *)
  Lemma ka_loop_done : forall info loc h ib now dl ka nka nnow,
    now < h ->
    match ka_loop cfg e info loc (Some h) ib now dl ka nka nnow with
    | (tr, KDone s') => s_now s' = h /\ Forall (fun ev : timed => fst ev < h) tr
    | (tr, _) => Forall (fun ev : timed => fst ev < h) tr
    end.
  Proof.
    intros info loc h ib. induction ib as [|[t ev] rest IH]; intros now dl ka nka nnow Hnh.
    - cbn [ka_loop].
      pose proof (ticks_until_times loc now dl ka nka (h - 1)) as Ht.
      assert (Ht' : Forall (fun ev : timed => fst ev < h) (fst (ticks_until e loc now dl ka nka (h - 1)))).
      { eapply Forall_impl; [|exact Ht]. cbn beta. intros; lia. }
      destruct (ticks_until e loc now dl ka nka (h - 1)) as [tr [[[dl' ka'] nka']|]]; cbn [fst s_now] in *.
      + split; [lia | exact Ht'].
      + exact Ht'.
    - cbn [ka_loop].
      destruct (Z.leb_spec h (Z.max t now)) as [Hb|Hb].
      + pose proof (ticks_until_times loc now dl ka nka (h - 1)) as Ht.
        assert (Ht' : Forall (fun ev : timed => fst ev < h) (fst (ticks_until e loc now dl ka nka (h - 1)))).
        { eapply Forall_impl; [|exact Ht]. cbn beta. intros; lia. }
        destruct (ticks_until e loc now dl ka nka (h - 1)) as [tr [[[dl' ka'] nka']|]]; cbn [fst s_now] in *.
        * split; [lia | exact Ht'].
        * exact Ht'.
      + pose proof (ticks_until_times loc now dl ka nka (Z.max t now)) as Ht.
        assert (Ht' : Forall (fun ev : timed => fst ev < h) (fst (ticks_until e loc now dl ka nka (Z.max t now)))).
        { eapply Forall_impl; [|exact Ht]. cbn beta. intros; lia. }
        destruct (ticks_until e loc now dl ka nka (Z.max t now)) as [tr [[[dl' ka'] nka']|]]; cbn [fst] in *; [|exact Ht'].
        assert (Hone : forall x : tev, Forall (fun ev : timed => fst ev < h) [(Z.max t now, x)])
          by (intros x; constructor; [cbn; lia | constructor]).
        destruct ev as [id body| |]; try (apply Forall_app; split; [exact Ht' | apply Hone]).
        destruct (conf_frame cfg info ka' id body) as [ka''|vs|o].
        * specialize (IH (Z.max t now) dl' ka'' nka' nnow Hb).
          destruct (ka_loop cfg e info loc (Some h) rest (Z.max t now) dl' ka'' nka' nnow) as [tr2 r].
          assert (Hall : Forall (fun ev : timed => fst ev < h) tr2 ->
                         Forall (fun ev : timed => fst ev < h) (tr ++ (Z.max t now, TRecv id body) :: tr2)).
          { intros H2. apply Forall_app; split; [exact Ht'|]. constructor; [cbn; lia | exact H2]. }
          destruct r as [vs s'|s'|o]; [apply Hall; exact IH | | apply Hall; exact IH].
          destruct IH as [Hs H2]. split; [exact Hs | apply Hall; exact H2].
        * apply Forall_app; split; [exact Ht' | apply Hone].
        * apply Forall_app; split; [exact Ht'|]. constructor; [cbn; lia | apply Hone].
  Qed.

  Lemma ka_loop_nohorizon_not_done : forall info loc ib now dl ka nka nnow tr s',
    ka_loop cfg e info loc None ib now dl ka nka nnow <> (tr, KDone s').
  Proof.
    intros info loc ib. induction ib as [|[t ev] rest IH]; intros now dl ka nka nnow tr0 s0.
    - cbn [ka_loop]. destruct (ticks_until e loc now dl ka nka (Z.max now dl + 2 * P)) as [tr [x|]]; congruence.
    - cbn [ka_loop]. destruct (ticks_until e loc now dl ka nka (Z.max t now)) as [tr [[[dl' ka'] nka']|]]; [|congruence].
      destruct ev as [id body| |]; try congruence.
      destruct (conf_frame cfg info ka' id body) as [ka''|vs|o]; try congruence.
      specialize (IH (Z.max t now) dl' ka'' nka' nnow).
      destruct (ka_loop cfg e info loc None rest (Z.max t now) dl' ka'' nka' nnow) as [tr2 r].
      intros H. inversion H; subst. eapply IH. reflexivity.
  Qed.

  Local Notation exec := (exec cfg e).

  (* ---------- C07_transfer_after_routing, on exec ---------- *)
  Theorem exec_race_done : forall loc c k s tr s',
    let r := fst (e_res e c) in
    let h := s_now s + Z.max (snd (e_res e c)) 1 in
    ka_loop cfg e false loc (Some h) (s_in s) (s_now s) (s_dl s) (s_ka s) (s_nka s) (s_nnow s) = (tr, KDone s') ->
    exec (Race loc c k) s = (s_now s, TCall c) :: tr ++ (h, TRes c r) :: exec (k r) s'
    /\ s_now s' = h
    /\ Forall (fun ev : timed => fst ev < h) tr.
  Proof.
    intros loc c k s tr s' r h Hl. subst r h. cbn [Sem1.exec].
    destruct (e_res e c) as [r lat]. cbn [fst snd] in *.
    pose proof (ka_loop_done false loc (s_now s + Z.max lat 1) (s_in s) (s_now s) (s_dl s) (s_ka s) (s_nka s) (s_nnow s) ltac:(lia)) as Hd.
    rewrite Hl in *. destruct Hd as [Hs Hf]. split; [reflexivity|]. split; assumption.
  Qed.

  Lemma instant_times : forall p s, instant p -> Forall (fun ev : timed => fst ev = s_now s) (exec p s).
  Proof.
    induction p as [o|k IH|loc k IH|loc c k IH|c k IH|pk vs k IH|ss k IH|w k IH|k IH]; intros s Hi;
      cbn [instant] in Hi; try contradiction; cbn [Sem1.exec].
    - repeat constructor.
    - constructor; [reflexivity | apply IH; exact Hi].
    - constructor; [reflexivity | apply IH; exact Hi].
    - destruct w; (constructor; [reflexivity | apply IH; apply Hi]).
    - constructor; [reflexivity|].
      match goal with |- Forall _ (exec _ ?s2) => change (s_now s) with (s_now s2); apply IH; apply Hi end.
  Qed.

  Lemma routing_unfold o host port proto should_auth session name uuid props loc rest :
    routing o cfg host port proto should_auth session name uuid props (VB loc :: rest) =
    Race (Some loc) CDiscover (fun r =>
      match r with
      | RTargets ts =>
        Race (Some loc) (CFilter (cf_client cfg) host port proto name uuid ts) (fun r =>
          match r with
          | RTargets ts' =>
            Race (Some loc) (CSelect (cf_client cfg) host port proto name uuid ts')
                 (select_k o cfg host port should_auth session name uuid props (Some loc))
          | _ => Ret (OErr KAdapter)
          end)
      | _ => Ret (OErr KAdapter)
      end).
  Proof. reflexivity. Qed.

  (* once selection answers with a target, everything up to and including Transfer and the
     successful end happens at that very instant *)
  Lemma select_k_transfer o host port should_auth session name uuid props locale t s :
    instant (select_k o cfg host port should_auth session name uuid props locale (RTarget (Some t)))
    /\ exists mid,
       exec (select_k o cfg host port should_auth session name uuid props locale (RTarget (Some t))) s =
       mid ++ [(s_now s, TSend configuration_cb_TransferPacket [VB (sa_ip (t_addr t)); VZ (sa_port (t_addr t))]);
               (s_now s, TEnd OOk)].
  Proof.
    unfold select_k. destruct should_auth; [destruct (cf_secret cfg)|]; destruct session; cbn [instant Sem1.exec s_now];
      (split; [intros; exact I || (intros; exact I) |]);
      match goal with |- exists mid, ?l = _ => exists (removelast (removelast l)); reflexivity end.
  Qed.

  Theorem exec_select_transfer : forall o host port proto should_auth session name uuid props loc ts s tr s' t,
    let c := CSelect (cf_client cfg) host port proto name uuid ts in
    let h := s_now s + Z.max (snd (e_res e c)) 1 in
    fst (e_res e c) = RTarget (Some t) ->
    ka_loop cfg e false (Some loc) (Some h) (s_in s) (s_now s) (s_dl s) (s_ka s) (s_nka s) (s_nnow s) = (tr, KDone s') ->
    exists mid,
      exec (Race (Some loc) c (select_k o cfg host port should_auth session name uuid props (Some loc))) s =
      (s_now s, TCall c) :: tr ++ (h, TRes c (RTarget (Some t))) :: mid
        ++ [(h, TSend configuration_cb_TransferPacket [VB (sa_ip (t_addr t)); VZ (sa_port (t_addr t))]);
            (h, TEnd OOk)]
      /\ Forall (fun ev : timed => fst ev < h) tr
      /\ Forall (fun ev : timed => fst ev = h) mid.
  Proof.
    intros o host port proto should_auth session name uuid props loc ts s tr s' t c h Hr Hl.
    destruct (exec_race_done (Some loc) c (select_k o cfg host port should_auth session name uuid props (Some loc)) s tr s' Hl)
      as (He & Hs & Hf).
    fold c in He. fold h in He, Hs, Hf. rewrite Hr in He.
    destruct (select_k_transfer o host port should_auth session name uuid props (Some loc) t s') as (Hi & mid & Hm).
    pose proof (instant_times _ s' Hi) as Ht. rewrite Hm, Hs in Ht. apply Forall_app in Ht as [Ht _].
    exists mid. rewrite He, Hm, Hs. split; [reflexivity|]. split; assumption.
  Qed.

  (* ---------- survival and timeout seen from exec ---------- *)
  Theorem exec_race_survive : forall loc c k s,
    let r := fst (e_res e c) in
    let h := s_now s + Z.max (snd (e_res e c)) 1 in
    s_now s <= s_dl s ->
    cooperative cfg e h (s_in s) (s_now s) (s_dl s) (s_ka s) (s_nka s) = true ->
    exists tr s',
      exec (Race loc c k) s = (s_now s, TCall c) :: tr ++ (h, TRes c r) :: exec (k r) s'
      /\ s_now s' = h /\ s_now s' <= s_dl s'
      /\ Forall (fun ev : timed => fst ev < h) tr.
  Proof.
    intros loc c k s r h Hnd Hco.
    destruct (ka_loop_survive cfg e loc h (s_in s) (s_now s) (s_dl s) (s_ka s) (s_nka s) (s_nnow s) Hnd Hco)
      as (tr & s' & Hl & _ & Hd).
    destruct (exec_race_done loc c k s tr s' Hl) as (He & Hs & Hf).
    exists tr, s'. repeat split; assumption.
  Qed.

  Theorem exec_race_timeout : forall loc c k s x,
    let h := s_now s + Z.max (snd (e_res e c)) 1 in
    s_now s <= s_dl s -> s_ka s = Some x -> s_dl s < h ->
    unechoed cfg false (Some x) (s_dl s) (s_in s) (s_now s) = true ->
    exec (Race loc c k) s =
    (s_now s, TCall c) :: recvs_before (s_dl s) (s_in s) (s_now s) ++ timeout_trace e loc (s_dl s).
  Proof.
    intros loc c k s x h Hnd Hka Hh Hun. subst h. cbn [Sem1.exec].
    destruct (e_res e c) as [r lat]. cbn [snd] in Hh. rewrite Hka.
    rewrite (ka_loop_timeout cfg e false loc (Some (s_now s + Z.max lat 1)) x (s_in s) (s_now s) (s_dl s)
               (s_nka s) (s_nnow s) Hnd Hh Hun).
    reflexivity.
  Qed.

  Theorem exec_waitinfo_timeout : forall loc k s x,
    s_now s <= s_dl s -> s_ka s = Some x ->
    unechoed cfg true (Some x) (s_dl s) (s_in s) (s_now s) = true ->
    exec (WaitInfo loc k) s = recvs_before (s_dl s) (s_in s) (s_now s) ++ timeout_trace e loc (s_dl s).
  Proof.
    intros loc k s x Hnd Hka Hun. cbn [Sem1.exec]. rewrite Hka.
    rewrite (ka_loop_timeout cfg e true loc None x (s_in s) (s_now s) (s_dl s) (s_nka s) (s_nnow s) Hnd I Hun).
    reflexivity.
  Qed.
End Completion.

(* ================================================================================== *)
(* the gap monitor: "at least every P" on the whole connection *)
Definition lift_g (x : option (Z * option Z)) : option (Z * option Z * bool) :=
  match x with Some st => Some (st, true) | None => None end.

Lemma c07g_run_app st a b :
  c07g_run st (a ++ b) = match c07g_run st a with Some st' => c07g_run st' b | None => None end.
Proof.
  revert st; induction a as [|x a IH]; intros st; cbn [app c07g_run]; [reflexivity|].
  destruct (c07g_step st x); [apply IH | reflexivity].
Qed.

Lemma c07_step_ref ref out t ev ref' out' :
  c07_step (ref, out) (t, ev) = Some (ref', out') -> ref' = ref \/ ref' = t.
Proof.
  unfold c07_step. intros H.
  repeat match type of H with
         | context [match ?x with _ => _ end] => destruct x; try discriminate
         end; inversion H; auto.
Qed.

Lemma c07g_step_live ref out t ev :
  t <= ref + P -> is_select_res ev = false ->
  c07g_step (ref, out, true) (t, ev) = lift_g (c07_step (ref, out) (t, ev)).
Proof.
  intros Ht Hs. unfold c07g_step. cbn [fst snd andb]. rewrite Hs.
  destruct (Z.ltb_spec (ref + P) t); [lia|]. cbn [negb]. reflexivity.
Qed.

(* once routing has completed the gap monitor is the plain monitor *)
Lemma c07g_run_off : forall tr ref out,
  c07g_run (ref, out, false) tr =
  match c07_run (ref, out) tr with Some st => Some (st, false) | None => None end.
Proof.
  induction tr as [|[t ev] tr IH]; intros ref out; cbn [c07g_run c07_run]; [reflexivity|].
  unfold c07g_step. cbn [andb]. destruct (c07_step (ref, out) (t, ev)) as [[r' o']|]; [apply IH | reflexivity].
Qed.

Lemma c07g_run_same_time tt : forall tr ref out,
  Forall (fun ev : timed => fst ev = tt /\ is_select_res (snd ev) = false) tr ->
  tt <= ref + P ->
  c07g_run (ref, out, true) tr = lift_g (c07_run (ref, out) tr).
Proof.
  induction tr as [|[t ev] tr IH]; intros ref out Hf Ht; cbn [c07g_run c07_run]; [reflexivity|].
  apply Forall_cons_iff in Hf as [[Hx1 Hx2] Hf']. cbn [fst snd] in Hx1, Hx2. subst t.
  rewrite c07g_step_live by assumption.
  destruct (c07_step (ref, out) (tt, ev)) as [[r' o']|] eqn:Hst; cbn [lift_g]; [|reflexivity].
  apply IH; [exact Hf'|]. pose proof P_pos. destruct (c07_step_ref _ _ _ _ _ _ Hst); lia.
Qed.

Section Gap.
  Variable cfg : conn_cfg.
  Variable e : env.

  Lemma tick_at_shape loc tt dl ka nka :
    Forall (fun ev : timed => fst ev = tt /\ is_select_res (snd ev) = false) (fst (tick_at e loc tt dl ka nka)).
  Proof.
    unfold tick_at. destruct ka as [x|].
    - destruct (fst (e_res e (CLocalize loc key_timeout))); cbn [fst]; repeat constructor.
    - cbn [fst]. repeat constructor.
  Qed.

  Lemma tick_at_c07g loc tt dl ka nka ref :
    tt <= ref + P ->
    match tick_at e loc tt dl ka nka with
    | (tr, None) => c07g_run (ref, ka, true) tr <> None
    | (tr, Some (dl', ka', nka')) =>
        ka = None /\ dl' = fire dl tt /\ exists id, ka' = Some id /\ c07g_run (ref, ka, true) tr = Some (tt, Some id, true)
    end.
  Proof.
    intros Ht. pose proof (tick_at_c07 e loc tt dl ka nka ref Ht) as H.
    pose proof (tick_at_shape loc tt dl ka nka) as Hs.
    destruct (tick_at e loc tt dl ka nka) as [tr [[[dl' ka'] nka']|]]; cbn [fst] in Hs;
      rewrite (c07g_run_same_time tt tr ref ka Hs Ht).
    - destruct H as (A & B & id & C & D). split; [exact A|]. split; [exact B|]. exists id. split; [exact C|].
      rewrite D. reflexivity.
    - destruct (c07_run (ref, ka) tr); [discriminate | contradiction].
  Qed.

  Lemma ticks_until_c07g loc now dl ka nka t ref :
    ref <= now -> now <= dl -> dl <= ref + P ->
    match ticks_until e loc now dl ka nka t with
    | (tr, None) => c07g_run (ref, ka, true) tr <> None
    | (tr, Some (dl', ka', nka')) =>
        exists ref', c07g_run (ref, ka, true) tr = Some (ref', ka', true)
                     /\ t < dl' /\ dl <= dl' /\ dl' <= ref' + P /\ ref <= ref' /\ (ref' <= Z.max now t)
    end.
  Proof.
    intros H1 H2 H3. unfold ticks_until.
    destruct (Z.ltb_spec t dl) as [Hlt|Hge].
    - exists ref. cbn. repeat split; try lia.
    - replace (Z.max dl now) with dl by lia.
      pose proof (tick_at_c07g loc dl dl ka nka ref H3) as T1.
      destruct (tick_at e loc dl dl ka nka) as [tr1 [[[dl1 ka1] nka1]|]]; [|exact T1].
      destruct T1 as (Hka & Hdl1 & id & Hka1 & Hrun). rewrite fire_on_time in Hdl1. subst dl1 ka1.
      destruct (Z.ltb_spec t (dl + P)) as [Hlt2|Hge2].
      + exists dl. split; [exact Hrun|]. pose proof P_gt. repeat split; lia.
      + assert (Hb : dl + P <= dl + P) by lia.
        pose proof (tick_at_c07g loc (dl + P) (dl + P) (Some id) nka1 dl Hb) as T2.
        destruct (tick_at e loc (dl + P) (dl + P) (Some id) nka1) as [tr2 [[[dl2 ka2] nka2]|]].
        * destruct T2 as (Hc & _). discriminate.
        * rewrite c07g_run_app, Hrun. exact T2.
  Qed.

  Theorem ka_loop_c07g : forall info loc hz ib now dl ka nka nnow ref,
    ref <= now -> now <= dl -> dl <= ref + P ->
    match ka_loop cfg e info loc hz ib now dl ka nka nnow with
    | (tr, KGot _ s') | (tr, KDone s') =>
        exists ref', c07g_run (ref, ka, true) tr = Some (ref', s_ka s', true)
                     /\ ref' <= s_now s' /\ s_now s' <= s_dl s' /\ s_dl s' <= ref' + P
    | (tr, KEnd _) => c07g_run (ref, ka, true) tr <> None
    end.
  Proof.
    intros info loc hz ib. induction ib as [|[t ev] rest IH]; intros now dl ka nka nnow ref H1 H2 H3.
    - cbn [ka_loop]. destruct hz as [h|].
      + pose proof (ticks_until_c07g loc now dl ka nka (h - 1) ref H1 H2 H3) as T.
        destruct (ticks_until e loc now dl ka nka (h - 1)) as [tr [[[dl' ka'] nka']|]]; [|exact T].
        destruct T as (ref' & Hr & A & B & C & D & E). exists ref'. cbn [s_ka s_now s_dl]. repeat split; try assumption; lia.
      + pose proof (ticks_until_c07g loc now dl ka nka (Z.max now dl + 2 * P) ref H1 H2 H3) as T.
        destruct (ticks_until e loc now dl ka nka (Z.max now dl + 2 * P)) as [tr [[[dl' ka'] nka']|]]; [|exact T].
        destruct T as (ref' & Hr & A & B & C & D & E). rewrite c07g_run_app, Hr. cbn [c07g_run].
        rewrite c07g_step_live by (try reflexivity; lia). cbn. discriminate.
    - cbn [ka_loop].
      destruct (match hz with Some h => h <=? Z.max t now | None => false end) eqn:Hb.
      + destruct hz as [h|]; [|discriminate].
        pose proof (ticks_until_c07g loc now dl ka nka (h - 1) ref H1 H2 H3) as T.
        destruct (ticks_until e loc now dl ka nka (h - 1)) as [tr [[[dl' ka'] nka']|]]; [|exact T].
        destruct T as (ref' & Hr & A & B & C & D & E). exists ref'. cbn [s_ka s_now s_dl]. repeat split; try assumption; lia.
      + pose proof (ticks_until_c07g loc now dl ka nka (Z.max t now) ref H1 H2 H3) as T.
        destruct (ticks_until e loc now dl ka nka (Z.max t now)) as [tr [[[dl' ka'] nka']|]]; [|exact T].
        destruct T as (ref' & Hr & A & B & C & D & E).
        assert (Hlive : forall x, is_select_res x = false ->
                  c07g_step (ref', ka', true) (Z.max t now, x) = lift_g (c07_step (ref', ka') (Z.max t now, x))).
        { intros x Hx. apply c07g_step_live; [lia | exact Hx]. }
        destruct ev as [id body| |].
        * pose proof (conf_frame_c07 cfg info ka' id body ref' (Z.max t now)) as F.
          destruct (conf_frame cfg info ka' id body) as [ka''|vs|o].
          -- assert (G1 : ref' <= Z.max t now) by lia.
             assert (G2 : Z.max t now <= dl') by lia.
             specialize (IH (Z.max t now) dl' ka'' nka' nnow ref' G1 G2 C).
             destruct (ka_loop cfg e info loc hz rest (Z.max t now) dl' ka'' nka' nnow) as [tr2 r].
             assert (Hpre : c07g_run (ref, ka, true) (tr ++ (Z.max t now, TRecv id body) :: tr2) = c07g_run (ref', ka'', true) tr2).
             { rewrite c07g_run_app, Hr. cbn [c07g_run]. rewrite Hlive by reflexivity. rewrite F. reflexivity. }
             destruct r as [vs s'|s'|o]; rewrite Hpre; exact IH.
          -- exists ref'. cbn [s_ka s_now s_dl].
             rewrite c07g_run_app, Hr. cbn [c07g_run]. rewrite Hlive by reflexivity. rewrite F.
             split; [reflexivity|]. repeat split; lia.
          -- destruct F as [[st' F] Hno]. rewrite c07g_run_app, Hr. cbn [c07g_run].
             rewrite Hlive by reflexivity. rewrite F. destruct st' as [r' o']. cbn [lift_g].
             destruct (c07_step_ref _ _ _ _ _ _ F) as [-> | ->];
               (rewrite c07g_step_live by (try reflexivity; pose proof P_pos; lia));
               rewrite (c07_step_end _ _ _ Hno); discriminate.
        * rewrite c07g_run_app, Hr. cbn [c07g_run]. rewrite Hlive by reflexivity. cbn. discriminate.
        * rewrite c07g_run_app, Hr. cbn [c07g_run]. rewrite Hlive by reflexivity. cbn. discriminate.
  Qed.
End Gap.

Section GapSound.
  Variable cfg : conn_cfg.
  Variable e : env.
  Local Notation exec := (exec cfg e).

  Lemma gsafe_off p : gsafe GOff p = tsafe KTail p.
  Proof. destruct p; reflexivity. Qed.

  Lemma goff_sound p s ref out : gsafe GOff p -> c07g_run (ref, out, false) (exec p s) <> None.
  Proof.
    rewrite gsafe_off. intros H. rewrite c07g_run_off.
    pose proof (sa_tail cfg e p (tsafe_sound cfg e p) s H (ref, out)) as Hr.
    destruct (c07_run (ref, out) (exec p s)); [discriminate | contradiction].
  Qed.

  Definition sound_g (p : prog) : Prop := forall s,
    (gsafe GPre p -> pre_inv s -> c07g_from_config (exec p s) = true) /\
    (gsafe GJust p -> pre_inv s -> forall t pk vs, is_ls pk = true ->
        c07g_from_config ((t, TSend pk vs) :: exec p s) = true) /\
    (gsafe GLive p -> forall ref, conf_inv ref s -> c07g_run (ref, s_ka s, true) (exec p s) <> None).

  Lemma sg_pre p : sound_g p -> forall s, gsafe GPre p -> pre_inv s -> c07g_from_config (exec p s) = true.
  Proof. intros H s. apply (H s). Qed.
  Lemma sg_just p : sound_g p -> forall s, gsafe GJust p -> pre_inv s -> forall t pk vs, is_ls pk = true ->
        c07g_from_config ((t, TSend pk vs) :: exec p s) = true.
  Proof. intros H s. apply (H s). Qed.
  Lemma sg_live p : sound_g p -> forall s, gsafe GLive p -> forall ref, conf_inv ref s ->
        c07g_run (ref, s_ka s, true) (exec p s) <> None.
  Proof. intros H s. apply (H s). Qed.

  Lemma g_from_config_ls t pk vs r :
    is_ls pk = true ->
    c07g_from_config ((t, TSend pk vs) :: r) =
    match r with
    | (t1, TRecv _ _) :: r1 => match c07g_run (t1, None, true) r1 with Some _ => true | None => false end
    | _ => true
    end.
  Proof. unfold is_ls. intros H. cbn [c07g_from_config]. rewrite H. reflexivity. Qed.

  Lemma g_from_config_nls t pk vs r :
    is_ls pk = false -> c07g_from_config ((t, TSend pk vs) :: r) = c07g_from_config r.
  Proof. unfold is_ls. intros H. cbn [c07g_from_config]. rewrite H. reflexivity. Qed.

  (* one harmless event inside the live phase *)
  Lemma g_cons_live ref out t ev r st' :
    t <= ref + P -> is_select_res ev = false -> c07_step (ref, out) (t, ev) = Some st' ->
    c07g_run (ref, out, true) ((t, ev) :: r) = c07g_run (st', true) r.
  Proof. intros Ht Hs Hst. cbn [c07g_run]. rewrite c07g_step_live by assumption. rewrite Hst. reflexivity. Qed.

  Theorem gsafe_sound : forall p, sound_g p.
  Proof.
    induction p as [o|k IH|loc k IH|loc c k IH|c k IH|pk vs k IH|ss k IH|w k IH|k IH]; intros s.
    - (* Ret *)
      cbn [gsafe Sem1.exec]. repeat split.
      + intros _ _ t pk vs Hls. rewrite g_from_config_ls by exact Hls. reflexivity.
      + intros Ho ref (H1 & H2 & H3).
        rewrite (g_cons_live ref (s_ka s) (s_now s) (TEnd o) [] _ ltac:(lia) eq_refl (c07_step_end _ _ _ Ho)).
        discriminate.
    - (* Expect *)
      cbn [gsafe Sem1.exec].
      destruct (next_frame s) as [[[t ev] s']|] eqn:Hnf.
      2:{ repeat split.
          - intros _ _ t pk vs Hls. rewrite g_from_config_ls by exact Hls. reflexivity.
          - intros []. }
      destruct ev as [id body| |].
      2:{ repeat split.
          - intros _ _ t' pk vs Hls. rewrite g_from_config_ls by exact Hls. reflexivity.
          - intros []. }
      2:{ repeat split.
          - intros _ _ t' pk vs Hls. rewrite g_from_config_ls by exact Hls. reflexivity.
          - intros []. }
      split; [|split].
      + intros Hk Hpre. destruct (next_frame_pre _ _ _ _ Hnf Hpre) as (Hpre' & _).
        destruct (negb (len_ok cfg id body)); [reflexivity|].
        cbn [c07g_from_config]. apply (sg_pre _ (IH id body)); [apply Hk | exact Hpre'].
      + intros Hk Hpre t0 pk vs Hls. rewrite g_from_config_ls by exact Hls.
        destruct (next_frame_pre _ _ _ _ Hnf Hpre) as ((Hka' & _) & Hnow & Hlt & Hle).
        destruct (negb (len_ok cfg id body)).
        * pose proof P_pos.
          assert (Hne : OErr KIllegalLen <> OErr KMissedKA) by discriminate.
          rewrite (g_cons_live t None t (TEnd (OErr KIllegalLen)) [] _ ltac:(lia) eq_refl (c07_step_end _ _ _ Hne)).
          reflexivity.
        * assert (Hinv : conf_inv t s') by (unfold conf_inv; lia).
          pose proof (sg_live _ (IH id body) s' (Hk id body) t Hinv) as Hr.
          rewrite Hka' in Hr. destruct (c07g_run (t, None, true) (exec (k id body) s')); [reflexivity | congruence].
      + intros [].
    - (* WaitInfo *)
      cbn [gsafe Sem1.exec]. split; [intros []|]. split; [intros []|].
      intros Hk ref (H1 & H2 & H3).
      pose proof (ka_loop_c07g cfg e true loc None (s_in s) (s_now s) (s_dl s) (s_ka s) (s_nka s) (s_nnow s) ref H1 H2 H3) as Hl.
      destruct (ka_loop cfg e true loc None (s_in s) (s_now s) (s_dl s) (s_ka s) (s_nka s) (s_nnow s)) as [tr [vs s'|s'|o]].
      + destruct Hl as (ref' & Hr & Hinv). rewrite c07g_run_app, Hr.
        apply (sg_live _ (IH vs)); [apply Hk | exact Hinv].
      + destruct Hl as (ref' & Hr & Hi1 & Hi2 & Hi3). rewrite c07g_run_app, Hr.
        rewrite (g_cons_live ref' (s_ka s') (s_now s') (TEnd OHang) [] (ref', s_ka s') ltac:(lia) eq_refl eq_refl).
        discriminate.
      + exact Hl.
    - (* Race *)
      cbn [gsafe Sem1.exec]. split; [intros []|]. split; [intros []|].
      intros [Hc Hk] ref (H1 & H2 & H3).
      destruct (e_res e c) as [r lat].
      pose proof (ka_loop_c07g cfg e false loc (Some (s_now s + Z.max lat 1)) (s_in s) (s_now s) (s_dl s) (s_ka s) (s_nka s) (s_nnow s) ref H1 H2 H3) as Hl.
      pose proof (ka_loop_done cfg e false loc (s_now s + Z.max lat 1) (s_in s) (s_now s) (s_dl s) (s_ka s) (s_nka s) (s_nnow s) ltac:(lia)) as Hd.
      assert (Hcall : forall r0, c07g_run (ref, s_ka s, true) ((s_now s, TCall c) :: r0) = c07g_run (ref, s_ka s, true) r0).
      { intros r0. apply g_cons_live; [lia | reflexivity | apply c07_step_call; exact Hc]. }
      destruct (ka_loop cfg e false loc (Some (s_now s + Z.max lat 1)) (s_in s) (s_now s) (s_dl s) (s_ka s) (s_nka s) (s_nnow s)) as [tr [vs s'|s'|o]].
      + rewrite Hcall. destruct Hl as (ref' & Hr & _). rewrite Hr. discriminate.
      + cbn [app]. rewrite Hcall.
        destruct Hl as (ref' & Hr & Hi1 & Hi2 & Hi3). destruct Hd as [Hs _].
        rewrite c07g_run_app, Hr. cbn [c07g_run]. unfold c07g_step. cbn [fst snd andb is_select_res].
        destruct (Z.ltb_spec (ref' + P) (s_now s + Z.max lat 1)); [lia|].
        cbn [c07_step]. specialize (Hk r). destruct (is_select c); cbn [negb].
        * apply goff_sound. exact Hk.
        * apply (sg_live _ (IH r)); [exact Hk | unfold conf_inv; lia].
      + rewrite Hcall. exact Hl.
    - (* Call *)
      cbn [gsafe Sem1.exec]. destruct (e_res e c) as [r lat].
      split; [|split; intros []].
      intros Hk [Hka Hdl]. cbn [c07g_from_config]. apply (sg_pre _ (IH r)); [apply Hk|].
      unfold pre_inv, set_now. cbn [s_ka s_now s_dl]. split; [exact Hka | lia].
    - (* Send *)
      cbn [gsafe Sem1.exec]. split; [|split; [intros []|]].
      + intros Hk Hpre. destruct (is_ls pk) eqn:Hls.
        * apply (sg_just _ IH); assumption.
        * rewrite g_from_config_nls by exact Hls. apply (sg_pre _ IH); assumption.
      + intros [Hka Hk] ref Hinv. pose proof Hinv as (H1 & H2 & H3).
        rewrite (g_cons_live ref (s_ka s) (s_now s) (TSend pk vs) _ _ ltac:(lia) eq_refl (c07_step_send _ _ _ _ Hka)).
        apply (sg_live _ IH); assumption.
    - (* EncOn *)
      cbn [gsafe Sem1.exec]. split; [|split; [intros []|]].
      + intros Hk Hpre. cbn [c07g_from_config]. apply (sg_pre _ IH); assumption.
      + intros Hk ref Hinv. pose proof Hinv as (H1 & H2 & H3).
        rewrite (g_cons_live ref (s_ka s) (s_now s) (TEnc ss) _ (ref, s_ka s) ltac:(lia) eq_refl eq_refl).
        apply (sg_live _ IH); assumption.
    - (* Fresh *)
      cbn [gsafe Sem1.exec]. split; [|split; [intros []|]].
      + intros Hk Hpre. destruct w; cbn [c07g_from_config]; apply (sg_pre _ (IH _)); try apply Hk; assumption.
      + intros Hk ref Hinv. pose proof Hinv as (H1 & H2 & H3).
        destruct w;
          match goal with |- context [TFresh ?w ?v] =>
            rewrite (g_cons_live ref (s_ka s) (s_now s) (TFresh w v) _ (ref, s_ka s) ltac:(lia) eq_refl eq_refl) end;
          apply (sg_live _ (IH _)); try apply Hk; assumption.
    - (* Now *)
      cbn [gsafe Sem1.exec]. split; [|split; [intros []|]].
      + intros Hk [Hka Hdl]. cbn [c07g_from_config]. apply (sg_pre _ (IH _)); [apply Hk|].
        unfold pre_inv. cbn [s_ka s_now s_dl]. split; assumption.
      + intros Hk ref Hinv. pose proof Hinv as (H1 & H2 & H3).
        rewrite (g_cons_live ref (s_ka s) (s_now s) (TNow (e_now e (s_nnow s))) _ (ref, s_ka s) ltac:(lia) eq_refl eq_refl).
        match goal with |- c07g_run (ref, s_ka s, true) (exec _ ?s2) <> None =>
          change (s_ka s) with (s_ka s2); apply (sg_live _ (IH _)); [apply Hk | exact Hinv] end.
  Qed.

  Corollary gsafe_whole p ib : gsafe GPre p -> c07g_from_config (exec p (init1 ib)) = true.
  Proof. intros H. apply (sg_pre _ (gsafe_sound p)); [exact H | apply init1_pre]. Qed.
End GapSound.

(* the gap monitor implies the plain one *)
Lemma c07g_run_implies : forall tr ref out live,
  c07g_run (ref, out, live) tr <> None -> c07_run (ref, out) tr <> None.
Proof.
  induction tr as [|[t ev] tr IH]; intros ref out live; cbn [c07g_run c07_run]; [discriminate|].
  unfold c07g_step. destruct (live && (ref + P <? fst (t, ev))); [congruence|].
  destruct (c07_step (ref, out) (t, ev)) as [[r' o']|]; [apply IH | congruence].
Qed.

Lemma c07g_from_config_implies : forall tr, c07g_from_config tr = true -> c07_from_config tr = true.
Proof.
  induction tr as [|[t ev] tr IH]; [reflexivity|]. cbn [c07g_from_config c07_from_config].
  destruct ev; try exact IH. destruct (is_pkt p login_cb_LoginSuccessPacket); [|exact IH].
  destruct tr as [|[t1 ev1] r1]; [reflexivity|]. destruct ev1; try reflexivity.
  pose proof (c07g_run_implies r1 t1 None true) as H.
  destruct (c07g_run (t1, None, true) r1); [|discriminate].
  intros _. destruct (c07_run (t1, None) r1); [reflexivity|]. exfalso. apply H; [discriminate | reflexivity].
Qed.

(* ---------- the gap monitor in plain terms ---------- *)
Lemma c07_step_ref_ka ref out t ev ref' out' :
  c07_step (ref, out) (t, ev) = Some (ref', out') ->
  match ev with
  | TSend p _ => if is_ka p then ref' = t else ref' = ref
  | _ => ref' = ref
  end.
Proof.
  unfold c07_step, is_ka. intros H.
  destruct ev as [id body|p vs|c|c r|w v|n|ss| |o].
  - destruct (ka_echo id body), out as [x|]; try (inversion H; reflexivity).
    destruct (x =? z); inversion H; reflexivity.
  - destruct (is_pkt p configuration_cb_KeepAlivePacket); [|inversion H; reflexivity].
    destruct out; [discriminate|]. destruct vs as [|[] [|? ?]]; try discriminate.
    destruct (t <=? ref + P); inversion H; reflexivity.
  - destruct c; try (inversion H; reflexivity).
    destruct (beq key key_timeout); [|inversion H; reflexivity].
    destruct out; [|discriminate]. destruct (t <=? ref + P); inversion H; reflexivity.
  - inversion H; reflexivity.
  - inversion H; reflexivity.
  - inversion H; reflexivity.
  - inversion H; reflexivity.
  - inversion H; reflexivity.
  - destruct o as [|k|]; try (inversion H; reflexivity).
    destruct k; try (inversion H; reflexivity). destruct out; [inversion H; reflexivity | discriminate].
Qed.

Lemma c07g_covered : forall mid ref out T ev post,
  no_select_res mid = true ->
  c07g_run (ref, out, true) (mid ++ (T, ev) :: post) <> None ->
  covered ref (ka_send_times mid) T.
Proof.
  induction mid as [|[t0 ev0] mid IH]; intros ref out T ev post Hns Hrun.
  - cbn [app c07g_run] in Hrun. cbn [ka_send_times flat_map covered].
    unfold c07g_step in Hrun. cbn [fst andb] in Hrun.
    destruct (Z.ltb_spec (ref + P) T); [congruence | lia].
  - cbn [no_select_res forallb snd] in Hns. apply andb_true_iff in Hns as [Hn0 Hns].
    apply negb_true_iff in Hn0.
    cbn [app c07g_run] in Hrun. unfold c07g_step in Hrun. cbn [fst snd andb] in Hrun.
    destruct (Z.ltb_spec (ref + P) t0) as [Hgt|Hle]; [congruence|].
    destruct (c07_step (ref, out) (t0, ev0)) as [[ref' out']|] eqn:Hst; [|congruence].
    rewrite Hn0 in Hrun. cbn [negb] in Hrun.
    pose proof (c07_step_ref_ka _ _ _ _ _ _ Hst) as Href.
    specialize (IH ref' out' T ev post Hns Hrun).
    unfold ka_send_times. cbn [flat_map fst snd]. fold (ka_send_times mid).
    destruct ev0; try (subst ref'; exact IH).
    destruct (is_ka p); subst ref'; cbn [app covered]; [split; [lia | exact IH] | exact IH].
Qed.

Lemma c07g_from_config_split : forall pre t pk vs t1 id body rest,
  no_ls pre = true -> is_ls pk = true ->
  c07g_from_config (pre ++ (t, TSend pk vs) :: (t1, TRecv id body) :: rest) = true ->
  c07g_run (t1, None, true) rest <> None.
Proof.
  induction pre as [|[t0 ev0] pre IH]; intros t pk vs t1 id body rest Hnl Hls H.
  - cbn [app c07g_from_config] in H. unfold is_ls in Hls. rewrite Hls in H.
    destruct (c07g_run (t1, None, true) rest); [discriminate | discriminate].
  - cbn [no_ls forallb snd] in Hnl. apply andb_true_iff in Hnl as [Hn0 Hnl].
    cbn [app c07g_from_config] in H.
    destruct ev0; try (apply (IH _ _ _ _ _ _ _ Hnl Hls H)).
    apply negb_true_iff in Hn0. unfold is_ls in Hn0. rewrite Hn0 in H.
    apply (IH _ _ _ _ _ _ _ Hnl Hls H).
Qed.

(* ================================================================================== *)
(* cooperation composes: a client that is cooperative up to h is cooperative for a race that
   completes earlier, and still cooperative (up to h) in the state that race hands on - so
   one description of the client covers discovery, filtering and selection together *)
Section Compose.
  Variable cfg : conn_cfg.
  Variable e : env.

  Lemma alive_step_compose dl ka nka t1 t2 dl1 ka1 nka1 :
    alive_step e dl ka nka t1 = Some (dl1, ka1, nka1) -> t1 <= t2 ->
    alive_step e dl1 ka1 nka1 t2 = alive_step e dl ka nka t2.
  Proof.
    unfold alive_step. intros H Ht. pose proof P_pos.
    destruct (Z.ltb_spec t1 dl) as [Ha|Ha].
    - inversion H; subst. reflexivity.
    - destruct ka as [x|]; [discriminate|].
      destruct (Z.ltb_spec t1 (dl + P)) as [Hb|Hb]; [|discriminate].
      inversion H; subst; clear H.
      destruct (Z.ltb_spec t2 dl); [lia|].
      destruct (Z.ltb_spec t2 (dl + P)); reflexivity.
  Qed.

  Lemma alive_step_mono dl ka nka t1 t2 :
    t1 <= t2 -> alive_b (alive_step e dl ka nka t2) = true -> alive_b (alive_step e dl ka nka t1) = true.
  Proof.
    unfold alive_step. intros Ht.
    destruct (Z.ltb_spec t2 dl); destruct (Z.ltb_spec t1 dl); try reflexivity; try lia.
    destruct ka; [intros; assumption|].
    destruct (Z.ltb_spec t2 (dl + P)); destruct (Z.ltb_spec t1 (dl + P)); try reflexivity; try lia.
    intros; assumption.
  Qed.

  Theorem cooperative_split : forall loc h h' ib now dl ka nka nnow,
    now <= dl -> h' <= h ->
    cooperative cfg e h ib now dl ka nka = true ->
    exists tr s', ka_loop cfg e false loc (Some h') ib now dl ka nka nnow = (tr, KDone s')
                  /\ s_now s' = Z.max now h' /\ s_now s' <= s_dl s'
                  /\ cooperative cfg e h (s_in s') (s_now s') (s_dl s') (s_ka s') (s_nka s') = true.
  Proof.
    intros loc h h' ib. induction ib as [|[t ev] rest IH]; intros now dl ka nka nnow Hnd Hh Hco.
    - cbn [ka_loop cooperative] in *.
      pose proof (alive_step_mono dl ka nka (h' - 1) (h - 1) ltac:(lia) Hco) as Hal.
      pose proof (ticks_until_alive e loc now dl ka nka (h' - 1) Hnd) as Ha.
      destruct (ticks_until e loc now dl ka nka (h' - 1)) as [tr [[[dl' ka'] nka']|]]; cbn [snd] in Ha;
        rewrite <- Ha in Hal; [|discriminate].
      symmetry in Ha. eexists _, _. split; [reflexivity|]. cbn [s_now s_dl s_in s_ka s_nka cooperative].
      split; [reflexivity|]. split; [apply alive_step_bounds in Ha; lia|].
      rewrite (alive_step_compose _ _ _ _ (h - 1) _ _ _ Ha ltac:(lia)). exact Hco.
    - cbn [cooperative] in Hco. cbn [ka_loop].
      destruct (Z.leb_spec h (Z.max t now)) as [Hb|Hb].
      + (* beyond both horizons *)
        destruct (Z.leb_spec h' (Z.max t now)) as [Hb'|Hb']; [|lia].
        pose proof (alive_step_mono dl ka nka (h' - 1) (h - 1) ltac:(lia) Hco) as Hal.
        pose proof (ticks_until_alive e loc now dl ka nka (h' - 1) Hnd) as Ha.
        destruct (ticks_until e loc now dl ka nka (h' - 1)) as [tr [[[dl' ka'] nka']|]]; cbn [snd] in Ha;
          rewrite <- Ha in Hal; [|discriminate].
        symmetry in Ha. eexists _, _. split; [reflexivity|]. cbn [s_now s_dl s_in s_ka s_nka cooperative].
        split; [reflexivity|]. split; [apply alive_step_bounds in Ha; lia|].
        destruct (Z.leb_spec h (Z.max t (Z.max now h'))); [|lia].
        rewrite (alive_step_compose _ _ _ _ (h - 1) _ _ _ Ha ltac:(lia)). exact Hco.
      + destruct (alive_step e dl ka nka (Z.max t now)) as [[[dl1 ka1] nka1]|] eqn:Hal1; [|discriminate].
        destruct (Z.leb_spec h' (Z.max t now)) as [Hb'|Hb'].
        * (* the earlier race completes before this frame *)
          assert (Hal : alive_b (alive_step e dl ka nka (h' - 1)) = true).
          { apply (alive_step_mono dl ka nka (h' - 1) (Z.max t now)); [lia|]. rewrite Hal1. reflexivity. }
          pose proof (ticks_until_alive e loc now dl ka nka (h' - 1) Hnd) as Ha.
          destruct (ticks_until e loc now dl ka nka (h' - 1)) as [tr [[[dl' ka'] nka']|]]; cbn [snd] in Ha;
            rewrite <- Ha in Hal; [|discriminate].
          symmetry in Ha. eexists _, _. split; [reflexivity|]. cbn [s_now s_dl s_in s_ka s_nka cooperative].
          split; [reflexivity|]. split; [apply alive_step_bounds in Ha; lia|].
          replace (Z.max t (Z.max now h')) with (Z.max t now) by lia.
          destruct (Z.leb_spec h (Z.max t now)); [lia|].
          rewrite (alive_step_compose _ _ _ _ (Z.max t now) _ _ _ Ha ltac:(lia)). rewrite Hal1. exact Hco.
        * (* the frame is consumed by the earlier race *)
          pose proof (ticks_until_alive e loc now dl ka nka (Z.max t now) Hnd) as Ha.
          rewrite Hal1 in Ha.
          destruct (ticks_until e loc now dl ka nka (Z.max t now)) as [tr [[[dl' ka'] nka']|]]; cbn [snd] in Ha;
            [|discriminate].
          inversion Ha; subst dl' ka' nka'; clear Ha.
          destruct ev as [id body| |]; try discriminate.
          apply andb_true_iff in Hco as [Hwf Hco].
          rewrite (conf_frame_ignorable cfg ka1 id body Hwf).
          apply alive_step_bounds in Hal1.
          destruct (IH (Z.max t now) dl1 (clear ka1 (ka_echo id body)) nka1 nnow ltac:(lia) Hh Hco)
            as (tr2 & s' & Hl & Hn & Hd & Hc).
          rewrite Hl. eexists _, _. split; [reflexivity|]. split; [lia|]. split; assumption.
  Qed.
End Compose.

(* ---------- the whole of routing for a cooperative client ---------- *)
Section RoutingSurvive.
  Variable cfg : conn_cfg.
  Variable e : env.
  Local Notation exec := (exec cfg e).

  Lemma Forall_lt_le (tr : trace) a b :
    a <= b -> Forall (fun ev : timed => fst ev < a) tr -> Forall (fun ev : timed => fst ev <= b) tr.
  Proof. intros Hab H. eapply Forall_impl; [|exact H]. cbn beta. intros ev Hev. lia. Qed.

  Theorem routing_survive : forall o host port proto should_auth session name uuid props loc rest s ts ts' tg,
    let c1 := CDiscover in
    let c2 := CFilter (cf_client cfg) host port proto name uuid ts in
    let c3 := CSelect (cf_client cfg) host port proto name uuid ts' in
    let h1 := s_now s + Z.max (snd (e_res e c1)) 1 in
    let h2 := h1 + Z.max (snd (e_res e c2)) 1 in
    let h3 := h2 + Z.max (snd (e_res e c3)) 1 in
    fst (e_res e c1) = RTargets ts -> fst (e_res e c2) = RTargets ts' -> fst (e_res e c3) = RTarget (Some tg) ->
    s_now s <= s_dl s ->
    cooperative cfg e h3 (s_in s) (s_now s) (s_dl s) (s_ka s) (s_nka s) = true ->
    exists body,
      exec (routing o cfg host port proto should_auth session name uuid props (VB loc :: rest)) s =
      body ++ [(h3, TSend configuration_cb_TransferPacket [VB (sa_ip (t_addr tg)); VZ (sa_port (t_addr tg))]);
               (h3, TEnd OOk)]
      /\ Forall (fun ev : timed => fst ev <= h3) body.
  Proof.
    intros o host port proto should_auth session name uuid props loc rest s ts ts' tg c1 c2 c3 h1 h2 h3 R1 R2 R3 Hnd Hco.
    subst c1 c2 c3. rewrite routing_unfold.
    (* discovery *)
    destruct (cooperative_split cfg e (Some loc) h3 h1 (s_in s) (s_now s) (s_dl s) (s_ka s) (s_nka s) (s_nnow s)
                Hnd ltac:(unfold h3, h2; lia) Hco) as (tr1 & s1 & Hl1 & Hn1 & Hd1 & Hc1).
    match goal with |- exists body, Sem1.exec _ _ (Race ?l ?c ?k) s = _ /\ _ =>
      destruct (exec_race_done cfg e l c k s tr1 s1 Hl1) as (He1 & Hs1 & Hf1) end.
    rewrite He1, R1. clear He1. cbv beta iota.
    (* filtering *)
    assert (E2 : s_now s1 + Z.max (snd (e_res e (CFilter (cf_client cfg) host port proto name uuid ts))) 1 = h2)
      by (unfold h2, h1; lia).
    destruct (cooperative_split cfg e (Some loc) h3
                (s_now s1 + Z.max (snd (e_res e (CFilter (cf_client cfg) host port proto name uuid ts))) 1)
                (s_in s1) (s_now s1) (s_dl s1) (s_ka s1) (s_nka s1) (s_nnow s1)
                Hd1 ltac:(rewrite E2; unfold h3; lia) Hc1) as (tr2 & s2 & Hl2 & Hn2 & Hd2 & Hc2).
    match goal with |- context [Sem1.exec _ _ (Race ?l ?c ?k) s1] =>
      destruct (exec_race_done cfg e l c k s1 tr2 s2 Hl2) as (He2 & Hs2 & Hf2) end.
    rewrite He2, R2. clear He2. cbv beta iota.
    (* selection *)
    assert (E3 : s_now s2 + Z.max (snd (e_res e (CSelect (cf_client cfg) host port proto name uuid ts'))) 1 = h3)
      by (unfold h3; lia).
    destruct (ka_loop_survive cfg e (Some loc)
                (s_now s2 + Z.max (snd (e_res e (CSelect (cf_client cfg) host port proto name uuid ts'))) 1)
                (s_in s2) (s_now s2) (s_dl s2) (s_ka s2) (s_nka s2) (s_nnow s2)
                Hd2 ltac:(rewrite E3; exact Hc2)) as (tr3 & s3 & Hl3 & _ & _).
    destruct (exec_select_transfer cfg e o host port proto should_auth session name uuid props loc ts' s2 tr3 s3 tg R3 Hl3)
      as (mid & He3 & Hf3 & Hm3).
    rewrite He3. clear He3. rewrite E2, E3 in *.
    assert (H12 : h1 <= h3) by (unfold h3, h2; lia).
    assert (H23 : h2 <= h3) by (unfold h3; lia).
    assert (H01 : s_now s <= h3) by (unfold h1 in H12; lia).
    match goal with |- exists body, ?a :: ?t1 ++ ?b :: ?c :: ?t2 ++ ?d :: ?e' :: ?t3 ++ ?f :: ?m ++ ?tail = _ /\ _ =>
      exists (a :: t1 ++ b :: c :: t2 ++ d :: e' :: t3 ++ f :: m) end.
    split.
    - cbn [app]. rewrite <- !app_assoc. cbn [app]. rewrite <- !app_assoc. cbn [app]. rewrite <- !app_assoc.
      cbn [app]. reflexivity.
    - constructor; [cbn [fst]; lia|].
      apply Forall_app; split; [apply (Forall_lt_le _ h1 h3 H12 Hf1)|].
      constructor; [cbn [fst]; lia|]. constructor; [cbn [fst]; lia|].
      apply Forall_app; split; [apply (Forall_lt_le _ h2 h3 H23 Hf2)|].
      constructor; [cbn [fst]; lia|]. constructor; [cbn [fst]; lia|].
      apply Forall_app; split; [apply (Forall_lt_le _ h3 h3 ltac:(lia) Hf3)|].
      constructor; [cbn [fst]; lia|].
      eapply Forall_impl; [|exact Hm3]. cbn beta. intros; lia.
  Qed.
End RoutingSurvive.
