(* Property-specific checks plugged into the order automaton (Conn/Order.v): each is a
   decidable predicate on (history so far, next event).  Definitions only. *)
From Passage Require Import Lib.Bytes Codec.VarInt Codec.Desc Gen.PacketsGen Gen.ConstsGen
  Codec.PacketCheck Crypto.Cookie Conn.Types Conn.Prog Conn.Sem1 Conn.Monitor Conn.Order.

(* ---- history queries (history is newest first) ---- *)
Fixpoint find_ev {A} (f : tev -> option A) (h : list tev) : option A :=
  match h with
  | [] => None
  | e :: r => match f e with Some a => Some a | None => find_ev f r end
  end.

Definition newest_res (h : list tev) : option (call * cres) :=
  find_ev (fun e => match e with TRes c r => Some (c, r) | _ => None end) h.
Definition newest_recv (h : list tev) : option (Z * bytes) :=
  find_ev (fun e => match e with TRecv id b => Some (id, b) | _ => None end) h.
Definition newest_now (h : list tev) : option Z :=
  find_ev (fun e => match e with TNow n => Some n | _ => None end) h.
Definition the_token (h : list tev) : option bytes :=
  find_ev (fun e => match e with TFresh RToken v => Some v | _ => None end) h.
Definition the_uuid (h : list tev) : option bytes :=
  find_ev (fun e => match e with TFresh RUuid v => Some v | _ => None end) h.
Definition res_of_select (h : list tev) : option cres :=
  find_ev (fun e => match e with TRes (CSelect _ _ _ _ _ _ _) r => Some r | _ => None end) h.
Definition res_of_auth (h : list tev) : option cres :=
  find_ev (fun e => match e with TRes (CAuth _ _ _ _ _ _ _ _) r => Some r | _ => None end) h.
Definition enc_secret (h : list tev) : option bytes :=
  find_ev (fun e => match e with TEnc s => Some s | _ => None end) h.
(* should_authenticate flag of the Encryption Request that was sent *)
Definition sent_flag (h : list tev) : option bool :=
  find_ev (fun e => match e with
                    | TSend p [_; _; _; VBool b] => if is_pkt p login_cb_EncryptionRequestPacket then Some b else None
                    | _ => None end) h.
Definition sent_store (key : bytes) (h : list tev) : option bytes :=
  find_ev (fun e => match e with
                    | TSend p [VB k; VB payload] =>
                        if is_pkt p configuration_cb_StoreCookiePacket && beq k key then Some payload else None
                    | _ => None end) h.
Definition auth_requested (h : list tev) : bool :=
  match find_ev (fun e => match e with
                          | TSend p [VB k] => if is_pkt p login_cb_CookieRequestPacket && beq k auth_key_b then Some tt else None
                          | _ => None end) h with Some _ => true | None => false end.

(* the received frames, oldest first *)
Definition recvs (h : list tev) : list (Z * bytes) :=
  rev (fold_right (fun e acc => match e with TRecv id b => (id, b) :: acc | _ => acc end) [] h).

Definition dec_of (p : packet) (body : bytes) : option (list fv) :=
  match dec vi vl (rkinds p) body with Ok vs _ => Some vs | Er _ => None end.

(* facts decoded from the frames the handler consumed *)
Definition hs_fields (h : list tev) : option (Z * bytes * Z * Z) :=
  match recvs h with
  | (_, b) :: _ => match dec_of handshake_sb_HandshakePacket b with
                   | Some [VZ proto; VB host; VZ port; VZ st] => Some (proto, host, port, st)
                   | _ => None end
  | _ => None
  end.
Definition claimed (h : list tev) : option (bytes * Z) :=
  match recvs h with
  | _ :: (_, b) :: _ => match dec_of login_sb_LoginStartPacket b with
                        | Some [VB n; VZ u] => Some (n, u) | _ => None end
  | _ => None
  end.
Definition session_payload (h : list tev) : option (option bytes) :=
  match recvs h with
  | _ :: _ :: (_, b) :: _ => match dec_of login_sb_CookieResponsePacket b with
                             | Some [VB _; VOpt None] => Some None
                             | Some [VB _; VOpt (Some (VB p))] => Some (Some p)
                             | _ => None end
  | _ => None
  end.
Definition auth_payload (h : list tev) : option bytes :=
  if auth_requested h then
    match recvs h with
    | _ :: _ :: _ :: (_, b) :: _ => match dec_of login_sb_CookieResponsePacket b with
                                    | Some [VB _; VOpt (Some (VB p))] => Some p
                                    | _ => None end
    | _ => None
    end
  else None.
(* the Encryption Response is the frame read in automaton state 26; it is the newest
   received frame whenever the checks below consult it *)
Definition enc_response (h : list tev) : option (bytes * bytes) :=
  match newest_recv h with
  | Some (_, b) => match dec_of login_sb_EncryptionResponsePacket b with
                   | Some [VB ss; VB vt] => Some (ss, vt) | _ => None end
  | None => None
  end.
Definition reported_locale (h : list tev) : option bytes :=
  find_ev (fun e => match e with
                    | TRecv id b => if id =? ci_id then
                                      match dec_of configuration_sb_ClientInformationPacket b with
                                      | Some (VB loc :: _) => Some loc | _ => None end
                                    else None
                    | _ => None end)
          (* only frames of the configuration phase: those recorded after Login Success *)
          (fold_right (fun e acc => match e with
                                    | TSend p _ => if is_pkt p login_cb_LoginSuccessPacket then [] else e :: acc
                                    | _ => e :: acc end) [] h).

Section Checks.
  Variable o : oracles.
  Variable cfg : conn_cfg.

  (* C02's acceptance predicate, recomputed from what the client presented *)
  Definition cookie_accepted (h : list tev) : option auth_cookie :=
    match hs_fields h, cf_secret cfg, auth_payload h with
    | Some (_, _, _, st), Some s, Some p =>
        if st =? 2 then
          let (okv, m) := verify p s in
          if okv then
            match o_parse_auth o m, newest_now h with
            | JOk c, Some now =>
                if beq (sa_ip (ac_addr c)) (sa_ip (cf_client cfg))
                   && (now <=? Z.min (ac_ts c + cf_expiry cfg) (2 ^ 64 - 1))
                then Some c else None
            | _, _ => None
            end
          else None
        else None
    | _, _, _ => None
    end.

  (* the verify token came back encrypted to the server key, and the secret that was sent *)
  Definition token_verified (h : list tev) : option bytes :=
    match enc_response h, the_token h with
    | Some (ss_ct, vt_ct), Some tok =>
        match o_rsa o ss_ct, o_rsa o vt_ct with
        | Some ss, Some vt => if beq vt tok then Some ss else None
        | _, _ => None
        end
    | _, _ => None
    end.

  (* the identity this connection is allowed to act under *)
  Definition identity (h : list tev) : option (bytes * Z * list pprop) :=
    match sent_flag h with
    | Some true => match res_of_auth h with
                   | Some (RProfile n u ps) => Some (n, u, ps)
                   | _ => None end
    | Some false => match cookie_accepted h with
                    | Some c => Some (ac_name c, ac_uuid c, ac_props c)
                    | None => None end
    | None => None
    end.

  Definition user_is (h : list tev) (n : bytes) (u : Z) : bool :=
    match identity h with Some (n', u', _) => beq n n' && (u =? u') | None => false end.

  Definition expected_auth_cookie (h : list tev) : option bytes :=
    match identity h, cf_secret cfg, res_of_select h, newest_now h with
    | Some (n, u, ps), Some s, Some (RTarget (Some t)), Some now =>
        Some (sign (o_ser_auth o {| ac_ts := now; ac_addr := cf_client cfg; ac_name := n; ac_uuid := u;
                                    ac_target := Some (t_id t); ac_props := ps; ac_extra := [] |}) s)
    | _, _, _, _ => None
    end.

  (* ---------------- C06: status exchange exact (the order itself is the automaton) ---- *)
  Definition chk_c06 (st : mst) (e : tev) : bool :=
    match e with
    | TSend p vs =>
        if is_pkt p status_cb_StatusResponsePacket then
          match vs, newest_res (h st) with
          | [VB json], Some (CStatus _ _ _ _, RStatus j) => beq json j
          | _, _ => false
          end
        else if is_pkt p status_cb_PongPacket then
          match vs, newest_recv (h st) with
          | [VZ payload], Some (_, b) =>
              match dec_of status_sb_PingPacket b with Some [VZ x] => x =? payload | _ => false end
          | _, _ => false
          end
        else true
    | _ => true
    end.

  (* ---------------- C01: only an authenticated identity is admitted ---- *)
  Definition chk_c01 (st : mst) (e : tev) : bool :=
    let hh := h st in
    match e with
    | TCall (CAuth cl host port proto n u secret pk) =>
        match token_verified hh, claimed hh, hs_fields hh with
        | Some ss, Some (cn, cu), Some (hproto, hhost, hport, _) =>
            beq secret ss && beq pk (cf_pubkey cfg) && sa_eqb cl (cf_client cfg)
            && beq n cn && (u =? cu) && beq host hhost && (port =? hport) && (proto =? hproto)
        | _, _, _ => false
        end
    | TEnc ss =>
        match token_verified hh, sent_flag hh with
        | Some ss', Some flag =>
            beq ss ss' && (if flag then match res_of_auth hh with Some (RProfile _ _ _) => true | _ => false end
                           else match cookie_accepted hh with Some _ => true | None => false end)
        | _, _ => false
        end
    | TSend p vs =>
        if is_pkt p login_cb_LoginSuccessPacket then
          match vs with
          | [VZ u; VB n; _] => user_is hh n u && match enc_secret hh with Some _ => true | None => false end
          | _ => false
          end
        else if is_pkt p configuration_cb_StoreCookiePacket then
          match vs with
          | [VB k; VB payload] =>
              if beq k auth_key_b then
                match expected_auth_cookie hh with Some x => beq payload x | None => false end
              else true
          | _ => false
          end
        else if is_pkt p configuration_cb_TransferPacket then
          match identity hh with Some _ => true | None => false end
        else true
    | TCall (CFilter _ _ _ _ n u _) => user_is hh n u
    | TCall (CSelect _ _ _ _ n u _) => user_is hh n u
    | _ => true
    end.

  (* ---------------- C02: authentication skipped only for a valid cookie ---- *)
  Definition chk_c02 (st : mst) (e : tev) : bool :=
    let hh := h st in
    match e with
    | TSend p vs =>
        if is_pkt p login_cb_EncryptionRequestPacket then
          match vs with
          | [_; _; _; VBool flag] =>
              Bool.eqb flag (match cookie_accepted hh with Some _ => false | None => true end)
          | _ => false
          end
        else if is_pkt p login_cb_LoginSuccessPacket then
          match vs, sent_flag hh with
          | [VZ u; VB n; _], Some false =>
              match cookie_accepted hh with Some c => beq n (ac_name c) && (u =? ac_uuid c) | None => false end
          | [VZ u; VB n; _], Some true =>
              match res_of_auth hh with Some (RProfile n' u' _) => beq n n' && (u =? u') | _ => false end
          | _, _ => false
          end
        else true
    (* a presented cookie that cannot be used must never end the connection: the client is
       told to authenticate instead *)
    | TEnd (OErr KJson) => negb (q st =? 24)
    | _ => true
    end.

  (* ---------------- C03: transferred to exactly the chosen target ---- *)
  Definition chk_c03 (st : mst) (e : tev) : bool :=
    let hh := h st in
    match e with
    | TCall (CFilter _ _ _ _ _ _ ts) =>
        match newest_res hh with Some (CDiscover, RTargets ts0) => targets_eqb ts ts0 | _ => false end
    | TCall (CSelect _ _ _ _ _ _ ts) =>
        match newest_res hh with Some (CFilter _ _ _ _ _ _ _, RTargets ts0) => targets_eqb ts ts0 | _ => false end
    | TCall (CLocalize l key) =>
        obytes_eq l (reported_locale hh)
        && (if beq key key_no_target then
              match res_of_select hh with Some (RTarget None) => true | _ => false end
            else true)
    | TNow _ => if q st =? 39 then match res_of_select hh with Some (RTarget (Some _)) => true | _ => false end else true
    | TFresh RUuid _ => match res_of_select hh with Some (RTarget (Some _)) => true | _ => false end
    | TSend p vs =>
        if is_pkt p configuration_cb_TransferPacket then
          match vs, res_of_select hh with
          | [VB ip; VZ port], Some (RTarget (Some t)) => beq ip (sa_ip (t_addr t)) && (port =? sa_port (t_addr t))
          | _, _ => false
          end
        else if is_pkt p configuration_cb_DisconnectPacket then
          match vs, hh with
          | [VB msg], TRes (CLocalize _ _) (RText m) :: _ => beq msg m
          | _, _ => false
          end
        else true
    | _ => true
    end.

  (* ---------------- C10: cookies issued ---- *)
  Definition session_absent (h : list tev) : bool :=
    match session_payload h with
    | Some None => true
    | Some (Some p) => match o_parse_session o p with JOk None => true | _ => false end
    | None => false
    end.

  Definition chk_c10 (st : mst) (e : tev) : bool :=
    let hh := h st in
    match e with
    | TSend p vs =>
        if is_pkt p configuration_cb_StoreCookiePacket then
          match vs with
          | [VB k; VB payload] =>
              if beq k auth_key_b then
                (* only after a fresh authentication, with a secret, and exactly the signed record *)
                match sent_flag hh, expected_auth_cookie hh with
                | Some true, Some x => beq payload x
                | _, _ => false
                end
              else if beq k session_key_b then
                session_absent hh
                && match the_uuid hh, hs_fields hh with
                   | Some u, Some (_, host, port, _) =>
                       beq payload (o_ser_session o {| sc_id := be_dec u; sc_host := host; sc_port := port |})
                   | _, _ => false
                   end
              else false
          | _ => false
          end
        else if is_pkt p configuration_cb_TransferPacket then
          (* an auth cookie was stored iff freshly authenticated with a secret; a session
             cookie iff the client presented none *)
          Bool.eqb (match sent_store auth_key_b hh with Some _ => true | None => false end)
                   (match sent_flag hh, cf_secret cfg with Some true, Some _ => true | _, _ => false end)
          && Bool.eqb (match sent_store session_key_b hh with Some _ => true | None => false end)
                      (session_absent hh)
        else true
    | _ => true
    end.
End Checks.
