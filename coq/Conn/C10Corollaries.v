(* C10 in plain terms, derived from the acceptance of the C10 monitor. *)
From Passage Require Import Lib.Bytes Codec.VarInt Codec.Desc Gen.PacketsGen Gen.ConstsGen
  Codec.PacketCheck Crypto.Cookie Conn.Types Conn.Prog Conn.Sem1 Conn.Monitor Conn.MonitorProofs
  Conn.Order Conn.OrderProofs Conn.Checks Conn.HistoryProofs Conn.TraceLib Conn.C06Corollaries
  Conn.C02Corollaries Conn.C03Corollaries.

(* a fresh session id *)
Definition uuid_drawn (e : tev) : option bytes := match e with TFresh RUuid v => Some v | _ => None end.
(* the payload of a Store Cookie for a key *)
Definition store_of (key : bytes) (e : tev) : option bytes :=
  match e with
  | TSend p [VB k; VB payload] =>
      if is_pkt p configuration_cb_StoreCookiePacket && beq k key then Some payload else None
  | _ => None
  end.

(* a cookie was stored under [key] on the part [pre] of the connection *)
Definition stored (key : bytes) (pre : list tev) : Prop :=
  exists p k payload, In (TSend p [VB k; VB payload]) pre
    /\ is_pkt p configuration_cb_StoreCookiePacket = true /\ k = key.

Lemma stored_latest key pre : stored key pre <-> latest (store_of key) pre <> None.
Proof.
  split.
  - intros (p & k & pl & Hin & Hp & ->) E. pose proof (proj1 (latest_none _ _) E _ Hin) as Hf.
    cbn in Hf. rewrite Hp, beq_refl in Hf. discriminate.
  - intros H. destruct (latest (store_of key) pre) as [pl|] eqn:E; [|congruence].
    apply latest_spec in E as (pre1 & e & pre2 & -> & He & _). unfold store_of in He. inv_match He. subst.
    match goal with H : _ && _ = true |- _ => apply andb_true_iff in H as [H1 H2] end. apply beq_spec in H2.
    eexists _, _, _. split; [apply in_or_app; right; left; reflexivity|]. auto.
Qed.

(* the frames a projection looks at *)
Lemma hs_fields_nth hh : hs_fields hh =
  match nth_error (recvs hh) 0 with
  | Some (_, b) => match dec_of handshake_sb_HandshakePacket b with
                   | Some [VZ proto; VB host; VZ port; VZ st] => Some (proto, host, port, st)
                   | _ => None end
  | None => None
  end.
Proof. unfold hs_fields. destruct (recvs hh) as [|[? ?] ?]; reflexivity. Qed.

Lemma session_payload_nth hh : session_payload hh =
  match nth_error (recvs hh) 2 with
  | Some (_, b) => match dec_of login_sb_CookieResponsePacket b with
                   | Some [VB _; VOpt None] => Some None
                   | Some [VB _; VOpt (Some (VB p))] => Some (Some p)
                   | _ => None end
  | None => None
  end.
Proof. unfold session_payload. destruct (recvs hh) as [|? [|? [|[? ?] ?]]]; reflexivity. Qed.

Definition cookie_response_payload (vs : list fv) : option (option bytes) :=
  match vs with
  | [VB _; VOpt None] => Some None
  | [VB _; VOpt (Some (VB p))] => Some (Some p)
  | _ => None
  end.

Lemma cookie_response_shape vs :
  ((exists k, vs = [VB k; VOpt None]) \/ (exists k pl, vs = [VB k; VOpt (Some (VB pl))]))
  \/ cookie_response_payload vs = None.
Proof.
  destruct vs as [|[] [|[| | | |[[]|]] [|]]]; try (right; reflexivity); left; [right|left]; eexists; try eexists; reflexivity.
Qed.

Lemma recvs_cons x hh : recvs (x :: hh) = recvs hh ++ frames [x].
Proof. change (x :: hh) with ([x] ++ hh). rewrite recvs_app. f_equal. destruct x; reflexivity. Qed.

(* how many frames have been read at least in an automaton state *)
Definition mf (q : Z) : Z :=
  if q <? 1 then 0 else if q <? 2 then 1 else if q <=? 12 then 2 else if q <=? 14 then 3
  else if q <=? 21 then 2 else if q <=? 26 then 3 else if q <=? 62 then 4 else 0.

Lemma mf_step q e q' : delta q e = Some q' -> q <= 31 ->
  mf q' <= mf q + Z.of_nat (length (frames [e])).
Proof.
  intros H Hq. unfold mf. delta_cases H e; subst; cbn [frames length Z.of_nat];
    repeat match goal with |- context [if ?c then _ else _] => destruct c eqn:? end; zlia.
Qed.

Section Gen.
  Variable chk : mst -> tev -> bool.
  Notation step := (step_with chk).

  (* projections that ignore keep-alive traffic read the same on the history and on the trace *)
  Lemma sent_flag_latest pre st : run step m_init pre = Some st -> sent_flag (h st) = latest enc_flag pre.
  Proof.
    intros E. apply (latest_hist0 chk enc_flag); [|exact E].
    intros x Hx. destruct x; try reflexivity; try discriminate. cbn [internal] in Hx. unfold enc_flag.
    rewrite (is_pkt_trans _ _ _ Hx). destruct vs as [|? [|? [|? [|[] [|]]]]]; reflexivity.
  Qed.
  Lemma res_of_auth_latest pre st : run step m_init pre = Some st -> res_of_auth (h st) = latest auth_result pre.
  Proof.
    intros E. apply (latest_hist0 chk auth_result); [|exact E].
    intros x Hx. destruct x; try reflexivity; discriminate.
  Qed.
  Lemma res_of_select_latest' pre st : run step m_init pre = Some st -> res_of_select (h st) = latest select_result pre.
  Proof.
    intros E. apply (latest_hist0 chk select_result); [|exact E].
    intros x Hx. destruct x; try reflexivity; discriminate.
  Qed.
  Lemma sent_store_latest key pre st : run step m_init pre = Some st -> sent_store key (h st) = latest (store_of key) pre.
  Proof.
    intros E. apply (latest_hist0 chk (store_of key)); [|exact E].
    intros x Hx. destruct x; try reflexivity; try discriminate. cbn [internal] in Hx. unfold store_of.
    rewrite (is_pkt_trans _ _ _ Hx). destruct vs as [|[] [|[] [|]]]; reflexivity.
  Qed.

  (* the frames read before the configuration phase are all in the history *)
  Lemma frames_inv : forall pre st, run step m_init pre = Some st ->
    exists early l1 l2, recvs (h st) = early ++ l1 /\ frames pre = early ++ l2
      /\ (q st <= 31 -> l1 = [] /\ l2 = []) /\ mf (q st) <= Z.of_nat (length early).
  Proof.
    apply (run_ind chk (fun pre st => exists early l1 l2, recvs (h st) = early ++ l1 /\ frames pre = early ++ l2
      /\ (q st <= 31 -> l1 = [] /\ l2 = []) /\ mf (q st) <= Z.of_nat (length early))).
    - exists [], [], []. cbn. repeat split; lia.
    - intros pre st x st' Hr (early & l1 & l2 & H1 & H2 & H3 & H4) Hs.
      destruct (step_cases _ _ _ _ Hs) as [[Hi ->]|(_ & q' & Hd & _ & ->)].
      + exists early, l1, (l2 ++ frames [x]). rewrite frames_app, H2, <- app_assoc.
        split; [exact H1|]. split; [reflexivity|]. split; [|exact H4].
        intros Hq. apply internal_at_resting in Hi. lia.
      + cbn [q h]. rewrite recvs_cons, frames_app, H1, H2.
        destruct (Z.leb_spec (q st) 31) as [Hq|Hq].
        * destruct (H3 Hq) as [-> ->]. exists (early ++ frames [x]), [], []. rewrite !app_nil_r.
          split; [reflexivity|]. split; [reflexivity|]. split; [auto|].
          rewrite app_length. pose proof (mf_step _ _ _ Hd Hq). lia.
        * exists early, (l1 ++ frames [x]), (l2 ++ frames [x]). rewrite <- !app_assoc.
          split; [reflexivity|]. split; [reflexivity|].
          destruct (delta_mono _ _ _ Hd) as [Hm| ->].
          -- split; [intros; lia|]. unfold mf in *.
             repeat match goal with |- context [if ?c then _ else _] => destruct c eqn:? end;
             repeat match type of H4 with context [if ?c then _ else _] => destruct c eqn:? end; lia.
          -- split; [intros; lia|]. cbn. lia.
  Qed.

  Lemma early_frames pre st k : run step m_init pre = Some st -> 27 <= q st <= 62 -> (k < 4)%nat ->
    nth_error (recvs (h st)) k = nth_error (frames pre) k.
  Proof.
    intros E Hq Hk. destruct (frames_inv _ _ E) as (early & l1 & l2 & H1 & H2 & _ & H4).
    assert (4 <= Z.of_nat (length early)).
    { unfold mf in H4. repeat match type of H4 with context [if ?c then _ else _] => destruct c eqn:? end; lia. }
    rewrite H1, H2, !nth_error_app1 by lia. reflexivity.
  Qed.

  Lemma hs_fields_trace pre st : run step m_init pre = Some st -> 27 <= q st <= 62 ->
    hs_fields (h st) = hs_fields (rev pre).
  Proof.
    intros E Hq. rewrite !hs_fields_nth, recvs_rev, (early_frames _ _ 0 E Hq) by lia. reflexivity.
  Qed.

  Lemma session_payload_trace pre st : run step m_init pre = Some st -> 27 <= q st <= 62 ->
    session_payload (h st) = session_payload (rev pre).
  Proof.
    intros E Hq. rewrite !session_payload_nth, recvs_rev, (early_frames _ _ 2 E Hq) by lia. reflexivity.
  Qed.
End Gen.

Section C10.
  Variable o : oracles.
  Variable cfg : conn_cfg.
  Variable tr : list tev.

  Let chk := chk_c10 o cfg.
  Hypothesis Hacc : ok (step_with chk) m_init tr.
  Notation step := (step_with chk).

  (* the client presented no session cookie: the answer to the session Cookie Request (third
     frame) carries no payload, or one that parses to `null` *)
  Definition no_session_presented (pre : list tev) : Prop :=
    exists i2 b2 k, nth_error (frames pre) 2 = Some (i2, b2) /\
      (dec_of login_sb_CookieResponsePacket b2 = Some [VB k; VOpt None]
       \/ exists pl, dec_of login_sb_CookieResponsePacket b2 = Some [VB k; VOpt (Some (VB pl))]
                     /\ o_parse_session o pl = JOk None).

  Lemma session_absent_rev pre : session_absent o (rev pre) = true <-> no_session_presented pre.
  Proof.
    unfold session_absent, no_session_presented. rewrite session_payload_nth, recvs_rev. split.
    - intros H. destruct (nth_error (frames pre) 2) as [[i2 b2]|]; [|discriminate]. exists i2, b2.
      destruct (dec_of login_sb_CookieResponsePacket b2) as [vs|]; [|discriminate].
      change (match cookie_response_payload vs with
              | Some None => true
              | Some (Some p) => match o_parse_session o p with JOk None => true | _ => false end
              | None => false end = true) in H.
      destruct (cookie_response_shape vs) as [[[k ->]|(k & pl & ->)]|Hn]; [| |rewrite Hn in H; discriminate].
      + exists k. split; [reflexivity|]. left. reflexivity.
      + exists k. split; [reflexivity|]. right. exists pl. split; [reflexivity|].
        cbn in H. destruct (o_parse_session o pl) as [[|]|]; try discriminate. reflexivity.
    - intros (i2 & b2 & k & -> & [-> | (pl & -> & ->)]); reflexivity.
  Qed.

  (* ---- the authentication cookie ---- *)
  (* an authentication cookie is only stored when a secret is configured and the client was
     told to authenticate; it directly follows a clock read and is exactly the tag under the
     secret followed by the serialised record of: that time, the client's address, the name,
     uuid and properties of the authentication service's profile, the id of the target the
     strategy chose *)
  Theorem auth_cookie_content pre p vs post :
    tr = pre ++ TSend p vs :: post -> is_pkt p configuration_cb_StoreCookiePacket = true ->
    key_of vs = auth_key_b ->
    exists s n u ps t now pre1,
      cf_secret cfg = Some s
      /\ latest enc_flag pre = Some true
      /\ latest auth_result pre = Some (RProfile n u ps)
      /\ latest select_result pre = Some (RTarget (Some t))
      /\ pre = pre1 ++ [TNow now]
      /\ vs = [VB auth_key_b;
               VB (sign (o_ser_auth o {| ac_ts := now; ac_addr := cf_client cfg; ac_name := n; ac_uuid := u;
                                         ac_target := Some (t_id t); ac_props := ps; ac_extra := [] |}) s)].
  Proof.
    intros Htr Hp Hk.
    destruct (event_recorded chk _ _ _ _ Hacc Htr (pkt_not_internal _ _ _ Hp eq_refl)) as (st & q' & E & Hd & Hc & _).
    cbn [delta] in Hd. repeat rewrite (is_pkt_trans _ _ _ Hp) in Hd. rewrite Hk in Hd. cbn in Hd. unfold goto in Hd. split_ifs Hd.
    assert (Hq : q st = 40) by lia.
    destruct (last_event chk _ _ E) as (pre1 & x & st1 & -> & E1 & _ & Hd1 & _ & Hh); [lia | rewrite Hq; reflexivity|].
    rewrite Hq in Hd1. delta_cases Hd1 x; try zlia.
    unfold chk, chk_c10 in Hc. rewrite Hp in Hc.
    destruct vs as [|[] [|[] [|]]]; try discriminate. cbn [key_of] in Hk. subst b. rewrite beq_refl in Hc.
    unfold expected_auth_cookie, identity in Hc.
    rewrite (sent_flag_latest chk _ _ E), (res_of_auth_latest chk _ _ E), (res_of_select_latest' chk _ _ E) in Hc.
    rewrite Hh in Hc. cbn [newest_now find_ev] in Hc.
    destruct (latest enc_flag (pre1 ++ [TNow n])) as [[|]|]; try discriminate.
    destruct (latest auth_result (pre1 ++ [TNow n])) as [[|n' u' ps| | | |]|]; try discriminate.
    destruct (cf_secret cfg) as [s|]; try discriminate.
    destruct (latest select_result (pre1 ++ [TNow n])) as [[| | |[t|]| |]|]; try discriminate.
    apply beq_spec in Hc. subst. eexists s, n', u', ps, t, n, pre1. repeat split; reflexivity.
  Qed.

  (* without a configured secret no authentication cookie is ever stored *)
  Theorem no_secret_no_auth_cookie pre p vs post :
    cf_secret cfg = None ->
    tr = pre ++ TSend p vs :: post -> is_pkt p configuration_cb_StoreCookiePacket = true ->
    key_of vs <> auth_key_b.
  Proof.
    intros Hs Htr Hp Hk. destruct (auth_cookie_content _ _ _ _ Htr Hp Hk) as (s & _ & _ & _ & _ & _ & _ & Hs' & _).
    congruence.
  Qed.

  (* nor when authentication was skipped (the client came with a valid cookie) *)
  Theorem no_auth_cookie_without_fresh_auth pre p vs post :
    latest enc_flag pre = Some false ->
    tr = pre ++ TSend p vs :: post -> is_pkt p configuration_cb_StoreCookiePacket = true ->
    key_of vs <> auth_key_b.
  Proof.
    intros Hf Htr Hp Hk. destruct (auth_cookie_content _ _ _ _ Htr Hp Hk) as (s & _ & _ & _ & _ & _ & _ & _ & Hf' & _).
    congruence.
  Qed.

  (* ---- the session cookie ---- *)
  (* a session cookie is only stored when the client presented none; it directly follows the
     draw of a fresh id and records that id and the handshake's host and port *)
  Theorem session_cookie_content pre p vs post :
    tr = pre ++ TSend p vs :: post -> is_pkt p configuration_cb_StoreCookiePacket = true ->
    key_of vs = session_key_b ->
    exists u pre1 proto host port st i0 b0,
      no_session_presented pre
      /\ pre = pre1 ++ [TFresh RUuid u]
      /\ nth_error (frames pre) 0 = Some (i0, b0)
      /\ dec_of handshake_sb_HandshakePacket b0 = Some [VZ proto; VB host; VZ port; VZ st]
      /\ vs = [VB session_key_b;
               VB (o_ser_session o {| sc_id := be_dec u; sc_host := host; sc_port := port |})].
  Proof.
    intros Htr Hp Hk.
    destruct (event_recorded chk _ _ _ _ Hacc Htr (pkt_not_internal _ _ _ Hp eq_refl)) as (st & q' & E & Hd & Hc & _).
    cbn [delta] in Hd. repeat rewrite (is_pkt_trans _ _ _ Hp) in Hd. rewrite Hk in Hd. cbn in Hd. unfold goto in Hd. split_ifs Hd.
    assert (Hq : q st = 42) by lia.
    destruct (last_event chk _ _ E) as (pre1 & x & st1 & Hpre & E1 & _ & Hd1 & _ & Hh); [lia | rewrite Hq; reflexivity|].
    rewrite Hq in Hd1. delta_cases Hd1 x; try zlia.
    unfold chk, chk_c10 in Hc. rewrite Hp in Hc.
    destruct vs as [|[z|kk|bb| |oo] [|[z2|payload|bb2| |oo2] [|]]]; try discriminate. cbn [key_of] in Hk. subst kk.
    change (beq session_key_b auth_key_b) with false in Hc. rewrite beq_refl in Hc. cbv iota in Hc.
    apply andb_true_iff in Hc as [Hsa Hc].
    unfold session_absent in Hsa. rewrite (session_payload_trace chk _ _ E) in Hsa by lia.
    rewrite (hs_fields_trace chk _ _ E) in Hc by lia. rewrite Hh in Hc. cbn [the_uuid find_ev] in Hc.
    destruct (hs_fields (rev pre)) as [[[[proto host] port] st']|] eqn:Ehs; [|discriminate].
    apply hs_fields_rev in Ehs as (i0 & b0 & Hn0 & Hd0). apply beq_spec in Hc. subst payload.
    exists v, pre1, proto, host, port, st', i0, b0. split; [apply session_absent_rev; exact Hsa|]. auto.
  Qed.

  (* ---- what has been stored when the Transfer is sent ---- *)
  (* when the Transfer is sent, an authentication cookie has been stored exactly if the client
     was told to authenticate and a secret is configured, and a session cookie exactly if the
     client presented none *)
  Theorem transfer_cookies_iff pre p vs post :
    tr = pre ++ TSend p vs :: post -> is_pkt p configuration_cb_TransferPacket = true ->
    (stored auth_key_b pre <-> latest enc_flag pre = Some true /\ cf_secret cfg <> None)
    /\ (stored session_key_b pre <-> no_session_presented pre).
  Proof.
    intros Htr Hp.
    destruct (event_recorded chk _ _ _ _ Hacc Htr (pkt_not_internal _ _ _ Hp eq_refl)) as (st & q' & E & Hd & Hc & _).
    cbn [delta] in Hd. repeat rewrite (is_pkt_trans _ _ _ Hp) in Hd. cbn in Hd. split_ifs Hd.
    unfold chk, chk_c10 in Hc. rewrite (is_pkt_trans _ _ _ Hp), Hp in Hc.
    change (is_pkt configuration_cb_TransferPacket configuration_cb_StoreCookiePacket) with false in Hc. cbv iota in Hc.
    rewrite !(sent_store_latest chk _ _ _ E), (sent_flag_latest chk _ _ E) in Hc.
    unfold session_absent in Hc. rewrite (session_payload_trace chk _ _ E) in Hc by lia.
    fold (session_absent o (rev pre)) in Hc.
    apply andb_true_iff in Hc as [H1 H2]. apply eqb_prop in H1, H2. split.
    - rewrite stored_latest. destruct (latest (store_of auth_key_b) pre); destruct (latest enc_flag pre) as [[|]|];
        destruct (cf_secret cfg); try discriminate; split; try congruence; try (intros [? ?]; congruence); intros _; split; congruence.
    - rewrite stored_latest, <- session_absent_rev.
      destruct (latest (store_of session_key_b) pre); destruct (session_absent o (rev pre)); try discriminate; split; congruence.
  Qed.

  (* a Store Cookie never follows the Transfer: cookies are given before it *)
  Theorem store_before_transfer pre p vs post p' vs' :
    tr = pre ++ TSend p vs :: post -> is_pkt p configuration_cb_StoreCookiePacket = true ->
    In (TSend p' vs') pre -> is_pkt p' configuration_cb_TransferPacket = false.
  Proof.
    intros Htr Hp Hin. destruct (is_pkt p' configuration_cb_TransferPacket) eqn:Hp'; [exfalso|reflexivity].
    apply in_split in Hin as (a & b & ->).
    assert (Htr' : tr = a ++ TSend p' vs' :: (b ++ TSend p vs :: post)) by (rewrite Htr, <- app_assoc; reflexivity).
    assert (He : ends (b ++ TSend p vs :: post)).
    { eapply (nothing_after_final chk tr Hacc); eauto. }
    destruct He as [He|(oo & He)]; destruct b; cbn in He; try discriminate. destruct b; discriminate.
  Qed.

  (* only the two cookies are ever stored *)
  Theorem store_keys pre p vs post :
    tr = pre ++ TSend p vs :: post -> is_pkt p configuration_cb_StoreCookiePacket = true ->
    key_of vs = auth_key_b \/ key_of vs = session_key_b.
  Proof.
    intros Htr Hp.
    destruct (event_recorded chk _ _ _ _ Hacc Htr (pkt_not_internal _ _ _ Hp eq_refl)) as (st & q' & E & Hd & _).
    cbn [delta] in Hd. repeat rewrite (is_pkt_trans _ _ _ Hp) in Hd. cbn in Hd.
    destruct (beq (key_of vs) auth_key_b) eqn:E1; [left; apply beq_spec; exact E1|].
    destruct (beq (key_of vs) session_key_b) eqn:E2; [right; apply beq_spec; exact E2 | discriminate].
  Qed.
End C10.
