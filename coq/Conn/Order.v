(* The protocol-order automaton shared by all connection monitors, and the monitor shape
   [step_with chk]: order automaton + history + a property-specific check.
   Definitions only. *)
From Passage Require Import Lib.Bytes Codec.VarInt Codec.Desc Gen.PacketsGen Gen.ConstsGen
  Codec.PacketCheck Conn.Types Conn.Prog Conn.Sem1 Conn.Monitor.

(* monitor state: automaton state and the history of recorded events, newest first.
   Events the keep-alive loops produce on their own are not recorded. *)
Record mst := { q : Z; h : list tev }.

Definition key_of (vs : list fv) : bytes := match vs with VB k :: _ => k | _ => [] end.

Definition goto (q a b : Z) : option Z := if q =? a then Some b else None.
Definition goto2 (q a1 a2 b : Z) : option Z := if (q =? a1) || (q =? a2) then Some b else None.
Definition resting (q : Z) : bool := (q =? 32) || (q =? 34) || (q =? 36) || (q =? 38).

(* States: 0 start, 1 handshake read, 2 second frame read (status request / login start);
   status: 10 status called, 11 answered, 12 response sent, 13 ping read, 14 pong sent;
   login: 21 session cookie requested, 22 answered, 23 auth cookie requested, 24 answered,
   25 token drawn, 26 encryption requested, 27 response read, 28 auth called, 29 answered,
   30 encryption on, 31 login success sent, 32 acknowledged (waiting for client
   information), 33 information read, 34/35 discovery running/done, 36/37 filter, 38/39
   selection, 40 clock read, 41 auth cookie stored, 42 session id drawn, 43 session cookie
   stored, 44 transfer sent; 50-52 no-target disconnect; 60-62 keep-alive timeout;
   99 an unexpected packet was read (only an unsuccessful end may follow); 100 ended. *)
Definition delta (q : Z) (e : tev) : option Z :=
  match e with
  | TEnd OOk => goto2 q 14 44 100
  | TEnd (OErr KPanic) => None                 (* a crash is never an acceptable end *)
  | TEnd _ => if q =? 100 then None else Some 100
  | TTick => None
  | TRecv id _ =>
      if q =? 0 then Some (if id =? 0 then 1 else 99)
      else if q =? 1 then Some (if id =? 0 then 2 else 99)
      else if q =? 12 then Some (if id =? 1 then 13 else 99)
      else if q =? 21 then Some (if id =? 4 then 22 else 99)
      else if q =? 23 then Some (if id =? 4 then 24 else 99)
      else if q =? 26 then Some (if id =? 1 then 27 else 99)
      else if q =? 31 then Some (if id =? 3 then 32 else 99)
      else if q =? 32 then (if id =? ci_id then Some 33 else None)
      else None
  | TSend p vs =>
      if is_pkt p status_cb_StatusResponsePacket then goto q 11 12
      else if is_pkt p status_cb_PongPacket then goto q 13 14
      else if is_pkt p login_cb_CookieRequestPacket then
        (if beq (key_of vs) (session_key_b) then goto q 2 21
         else if beq (key_of vs) (auth_key_b) then goto q 22 23 else None)
      else if is_pkt p login_cb_EncryptionRequestPacket then goto q 25 26
      else if is_pkt p login_cb_LoginSuccessPacket then goto q 30 31
      else if is_pkt p configuration_cb_StoreCookiePacket then
        (if beq (key_of vs) (auth_key_b) then goto q 40 41
         else if beq (key_of vs) (session_key_b) then goto q 42 43 else None)
      else if is_pkt p configuration_cb_TransferPacket then
        (if (q =? 39) || (q =? 41) || (q =? 43) then Some 44 else None)
      else if is_pkt p configuration_cb_DisconnectPacket then
        (if q =? 51 then Some 52 else goto q 61 62)
      else None
  | TCall c =>
      match c with
      | CStatus _ _ _ _ => goto q 2 10
      | CAuth _ _ _ _ _ _ _ _ => goto q 27 28
      | CDiscover => goto q 33 34
      | CFilter _ _ _ _ _ _ _ => goto q 35 36
      | CSelect _ _ _ _ _ _ _ => goto q 37 38
      | CLocalize _ key =>
          if beq key key_timeout then (if resting q then Some 60 else None)
          else if beq key key_no_target then goto q 39 50 else None
      end
  | TRes c _ =>
      match c with
      | CStatus _ _ _ _ => goto q 10 11
      | CAuth _ _ _ _ _ _ _ _ => goto q 28 29
      | CDiscover => goto q 34 35
      | CFilter _ _ _ _ _ _ _ => goto q 36 37
      | CSelect _ _ _ _ _ _ _ => goto q 38 39
      | CLocalize _ _ => if q =? 50 then Some 51 else goto q 60 61
      end
  | TFresh RToken _ => goto2 q 22 24 25
  | TFresh RUuid _ => goto2 q 39 41 42
  | TFresh RKeepAlive _ => None
  | TNow _ => if q =? 24 then Some 24 else goto q 39 40
  | TEnc _ => goto2 q 27 29 30
  end.

Definition internal_at (q : Z) (e : tev) : bool :=
  ((q =? 32) && internal true e) || (((q =? 34) || (q =? 36) || (q =? 38)) && internal false e).

Section WithCheck.
  (* property-specific check: may inspect the state BEFORE the event and the event *)
  Variable chk : mst -> tev -> bool.

  Definition step_with (st : mst) (e : tev) : option mst :=
    if internal_at (q st) e then Some st
    else match delta (q st) e with
         | Some q' => if chk st e then Some {| q := q'; h := e :: h st |} else None
         | None => None
         end.
End WithCheck.

Definition m_init : mst := {| q := 0; h := [] |}.

(* the pure order monitor *)
Definition chk_true (_ : mst) (_ : tev) : bool := true.
Definition step_order := step_with chk_true.
