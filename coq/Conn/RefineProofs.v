(* C08, refinement M2 -> M1 on frame-atomic schedules: the byte-level run equals, event for
   event and instant for instant, the frame-level run on the reader's output. *)
From Passage Require Import Lib.Bytes Codec.VarInt Codec.Desc Gen.PacketsGen Gen.ConstsGen
  Codec.PacketCheck Conn.Types Conn.Prog Conn.Sem1 Conn.Sem2 Conn.Reader Conn.ReaderProofs Conn.RefineDefs.

(* ------------------------------------------------------------------------------------ *)
(* Part 0: arithmetic of the tick grid                                                    *)
(* ------------------------------------------------------------------------------------ *)
Lemma P_gt5 : 5 < P. Proof. vm_compute. reflexivity. Qed.

Local Opaque P.

Lemma fire_gt d now : now < fire d now.
Proof.
  pose proof P_gt5 as HP. unfold fire. destruct (Z.ltb_spec (d + 5) now) as [H|H]; [|lia].
  pose proof (Z.mod_pos_bound (now - d) P ltac:(lia)). lia.
Qed.

Lemma fire_le d now : d <= now -> fire d now <= now + P.
Proof.
  intros Hd. pose proof P_gt5 as HP. unfold fire. destruct (Z.ltb_spec (d + 5) now) as [H|H]; [|lia].
  pose proof (Z.mod_pos_bound (now - d) P ltac:(lia)). lia.
Qed.

Lemma skip_ticks_id d now t : t < d -> skip_ticks d now t = d.
Proof. intros H. unfold skip_ticks. destruct (Z.ltb_spec t d); [reflexivity | lia]. Qed.

Lemma skip_ticks_gt d now t : t < skip_ticks d now t.
Proof.
  pose proof P_gt5 as HP. unfold skip_ticks. destruct (Z.ltb_spec t d) as [H|H]; [exact H|].
  cbv zeta. destruct (Z.ltb_spec t (fire d (Z.max d now))) as [H1|H1]; [exact H1|].
  remember (fire d (Z.max d now)) as d1.
  pose proof (Z.div_mod (t - d1) P ltac:(lia)) as E.
  pose proof (Z.mod_pos_bound (t - d1) P ltac:(lia)) as B.
  rewrite Z.mul_add_distr_l. lia.
Qed.

(* ------------------------------------------------------------------------------------ *)
(* Part 1: the reader on timed byte streams                                               *)
(* ------------------------------------------------------------------------------------ *)
Section ReaderStream.
  Variable max : Z.

  Lemma atomic_s_dead tc l : atomic_s max RDead tc l = true.
  Proof. destruct l as [|[t b] r]; reflexivity. Qed.

  Lemma atomic_s_idle_tc tc tc' l : atomic_s max RIdle tc l = atomic_s max RIdle tc' l.
  Proof. destruct l as [|[t b] r]; reflexivity. Qed.

  Lemma atomic_s_feed t : forall bs st l,
    atomic_s max st t (map (pair t) bs ++ l) = atomic_s max (fst (feed max st bs)) t l.
  Proof.
    induction bs as [|a bs IH]; intros st l; [reflexivity|].
    cbn [map app feed].
    destruct st as [|k acc|len got|].
    - cbn [atomic_s]. rewrite IH.
      destruct (feed_byte max RIdle a) as [st1 e1]. cbn [fst].
      destruct (feed max st1 bs) as [st2 e2]. reflexivity.
    - cbn [atomic_s]. rewrite Z.eqb_refl, IH. cbn [andb].
      destruct (feed_byte max (RLen k acc) a) as [st1 e1]. cbn [fst].
      destruct (feed max st1 bs) as [st2 e2]. reflexivity.
    - cbn [atomic_s]. rewrite Z.eqb_refl, IH. cbn [andb].
      destruct (feed_byte max (RFrame len got) a) as [st1 e1]. cbn [fst].
      destruct (feed max st1 bs) as [st2 e2]. reflexivity.
    - cbn [atomic_s feed_byte]. rewrite dead_absorbs. cbn [fst]. rewrite atomic_s_dead. reflexivity.
  Qed.

  Lemma atomic_astream : forall s, atomic max s = true -> astream max (fst (bytes_of_segs s)) = true.
  Proof.
    induction s as [|[t [bs|]] r IH]; intros H; cbn [bytes_of_segs]; [reflexivity| |reflexivity].
    destruct (bytes_of_segs r) as [l eo]. cbn [fst] in *.
    unfold astream. rewrite (atomic_s_idle_tc 0 t), atomic_s_feed.
    cbn [atomic] in H. destruct (fst (feed max RIdle bs)); try discriminate.
    - rewrite (atomic_s_idle_tc t 0). apply IH. exact H.
    - apply atomic_s_dead.
  Qed.

  Lemma stream_frames_feed t eof : forall bs st l,
    stream_frames max st (map (pair t) bs ++ l) eof
    = map (ev_in t) (snd (feed max st bs)) ++ stream_frames max (fst (feed max st bs)) l eof.
  Proof.
    induction bs as [|a bs IH]; intros st l; [reflexivity|].
    cbn [map app feed stream_frames].
    destruct (feed_byte max st a) as [st1 e1]. rewrite IH.
    destruct (feed max st1 bs) as [st2 e2]. cbn [fst snd]. rewrite map_app, app_assoc. reflexivity.
  Qed.

  Lemma frames_stream : forall s st,
    frames_from max st s = stream_frames max st (fst (bytes_of_segs s)) (snd (bytes_of_segs s)).
  Proof.
    induction s as [|[t [bs|]] r IH]; intros st; cbn [frames_from bytes_of_segs]; [reflexivity| |reflexivity].
    destruct (bytes_of_segs r) as [l eo] eqn:E. cbn [fst snd] in *.
    rewrite stream_frames_feed. destruct (feed max st bs) as [st' evs]. cbn [fst snd]. rewrite IH. reflexivity.
  Qed.

  (* what one byte can do to a live reader *)
  Lemma feed_byte_cases st b st' evs :
    st <> RDead -> feed_byte max st b = (st', evs) ->
    (evs = [] /\ st' <> RDead /\ st' <> RIdle)
    \/ (evs = [EvBadLen] /\ st' = RDead)
    \/ (exists fr, evs = [split_frame fr] /\ st' = RIdle).
  Proof.
    intros Hst. destruct st as [|k acc|len got|]; cbn [feed_byte]; [| | |contradiction].
    - destruct (b <? 128).
      + unfold len_done. destruct ((wrap32 (b mod 128) <=? 0) || (max <? wrap32 (b mod 128)));
          intros [= <- <-]; [right; left; split; reflexivity | left; repeat split; discriminate].
      + intros [= <- <-]. left; repeat split; discriminate.
    - destruct ((b <? 128) || (4 <=? k)%nat).
      + unfold len_done.
        match goal with |- context [if ?c then _ else _] => destruct c end;
          intros [= <- <-]; [right; left; split; reflexivity | left; repeat split; discriminate].
      + intros [= <- <-]. left; repeat split; discriminate.
    - destruct (Z.of_nat (length (got ++ [b])) =? len).
      + intros [= <- <-]. right; right. eexists; split; reflexivity.
      + intros [= <- <-]. left; repeat split; discriminate.
  Qed.

  Lemma split_frame_not_badlen fr : split_frame fr <> EvBadLen.
  Proof. unfold split_frame. destruct (rd_var 5 0 0 fr); discriminate. Qed.

  Definition st_after (ev : rev) : rst := match ev with EvBadLen => RDead | _ => RIdle end.

  (* on an atomic stream, a live reader produces its next event from bytes of one instant,
     and what follows is again an atomic stream *)
  Lemma pop_frames eof t : forall r st b,
    st <> RDead -> atomic_s max st t ((t, b) :: r) = true ->
    exists ev rest,
      pop max st ((t, b) :: r) = Some (ev, rest)
      /\ stream_frames max st ((t, b) :: r) eof = ev_in t ev :: stream_frames max (st_after ev) rest eof
      /\ (ev <> EvBadLen -> astream max rest = true)
      /\ (length rest <= length r)%nat.
  Proof.
    induction r as [|[t2 b2] r2 IH]; intros st b Hst Hat.
    - (* last byte of the stream *)
      cbn [pop stream_frames]. destruct (feed_byte max st b) as [st' evs] eqn:E.
      assert (Hat' : atomic_s max st' t [] = true).
      { destruct st; cbn [atomic_s] in Hat; rewrite ?E in Hat; cbn [fst] in Hat;
          [exact Hat | apply andb_prop in Hat; apply Hat | apply andb_prop in Hat; apply Hat | contradiction]. }
      destruct (feed_byte_cases _ _ _ _ Hst E) as [(-> & H1 & H2) | [(-> & ->) | (fr & -> & ->)]].
      + destruct st'; cbn in Hat'; try discriminate; contradiction.
      + exists EvBadLen, []. split; [reflexivity|]. split; [reflexivity|]. split; [intros H; contradiction | apply le_n].
      + exists (split_frame fr), []. pose proof (split_frame_not_badlen fr) as Hn.
        assert (Hs : st_after (split_frame fr) = RIdle) by (destruct (split_frame fr); [reflexivity | contradiction | reflexivity]).
        rewrite Hs. split; [reflexivity|]. split; [reflexivity|]. split; [intros _; reflexivity | apply le_n].
    - cbn [pop stream_frames]. destruct (feed_byte max st b) as [st' evs] eqn:E.
      assert (Hat' : atomic_s max st' t ((t2, b2) :: r2) = true).
      { destruct st; cbn [atomic_s] in Hat; rewrite ?E in Hat; cbn [fst] in Hat;
          [exact Hat | apply andb_prop in Hat; apply Hat | apply andb_prop in Hat; apply Hat | contradiction]. }
      destruct (feed_byte_cases _ _ _ _ Hst E) as [(-> & H1 & H2) | [(-> & ->) | (fr & -> & ->)]].
      + (* inside the frame: the next byte carries the same instant *)
        assert (Ht : t2 = t).
        { destruct st'; cbn [atomic_s] in Hat'; try contradiction;
            apply andb_prop in Hat'; destruct Hat' as [Ht _]; apply Z.eqb_eq in Ht; exact Ht. }
        subst t2. destruct (IH st' b2 H1 Hat') as (ev & rest & Hp & Hf & Ha & Hl).
        exists ev, rest. cbn [map app]. split; [exact Hp|]. split; [exact Hf|]. split; [exact Ha|]. cbn [length]. lia.
      + exists EvBadLen, ((t2, b2) :: r2). split; [reflexivity|]. split; [reflexivity|]. split; [intros H; contradiction | apply le_n].
      + exists (split_frame fr), ((t2, b2) :: r2). pose proof (split_frame_not_badlen fr) as Hn.
        assert (Hs : st_after (split_frame fr) = RIdle) by (destruct (split_frame fr); [reflexivity | contradiction | reflexivity]).
        rewrite Hs. split; [reflexivity|]. split; [reflexivity|]. split; [|apply le_n].
        intros _. unfold astream. rewrite (atomic_s_idle_tc 0 t). exact Hat'.
  Qed.

  Lemma pop_cons st t b r :
    pop max st ((t, b) :: r) =
      match feed_byte max st b with
      | (st', []) => pop max st' r
      | (_, ev :: _) => Some (ev, r)
      end.
  Proof. reflexivity. Qed.

  (* inside a frame an atomic stream is not empty and continues at the same instant *)
  Lemma atomic_s_mid st t l :
    atomic_s max st t l = true -> st <> RDead -> st <> RIdle -> exists b r, l = (t, b) :: r.
  Proof.
    intros H H1 H2. destruct l as [|[t2 b2] r2].
    - destruct st; cbn in H; try discriminate; contradiction.
    - destruct st; cbn [atomic_s] in H; try contradiction;
        apply andb_prop in H; destruct H as [Ht _]; apply Z.eqb_eq in Ht; subst t2; eexists _, _; reflexivity.
  Qed.

  Lemma atomic_s_step st t b r :
    atomic_s max st t ((t, b) :: r) = true -> st <> RDead -> atomic_s max (fst (feed_byte max st b)) t r = true.
  Proof.
    intros H Hst. destruct st; cbn [atomic_s] in H; [exact H | | | contradiction];
      apply andb_prop in H; apply H.
  Qed.
End ReaderStream.

(* ------------------------------------------------------------------------------------ *)
(* Part 2: reading one frame at byte level = what the reader produces                     *)
(* ------------------------------------------------------------------------------------ *)
Section Read.
  Variable cfg : conn_cfg.
  Variable e : env.
  Local Notation max := (cf_max_len cfg).

  (* the three tests at the head of phase A *)
  Definition tin_of (s : st2) : option Z :=
    match b_in s, b_eof s with
    | (t, _) :: _, _ => Some (Z.max t (b_now s))
    | [], Some te => Some (Z.max te (b_now s))
    | [], None => None
    end.
  Definition hfirst (hz : option Z) (s : st2) : bool :=
    match hz with
    | Some h => (match tin_of s with Some t => h <=? t | None => true end) && (h <=? Z.max (b_dl s) (b_now s))
    | None => false
    end.
  Definition tfirst (s : st2) : bool :=
    match tin_of s with Some t => Z.max (b_dl s) (b_now s) <=? t | None => true end.

  Lemma phase_a_S f m hz s k acc :
    phase_a cfg e (S f) m hz s k acc =
      if hfirst hz s then ([], match hz with Some h => cut h s | None => RCut s end)
      else if tfirst s then
        match m with
        | None =>
            match tin_of s with
            | None => ([], REnd [(b_now s, TEnd OHang)])
            | Some t => phase_a cfg e f m hz (upd s (b_now s) (skip_ticks (b_dl s) (b_now s) t) (b_ka s) (b_in s) (b_nka s)) 0 0
            end
        | Some loc =>
            match tick_at e loc (Z.max (b_dl s) (b_now s)) (b_dl s) (b_ka s) (b_nka s) with
            | (tr, None) => (tr, REnd [])
            | (tr, Some (dl', ka', nka')) =>
                let (tr2, r) := phase_a cfg e f m hz (upd s (Z.max (b_dl s) (b_now s)) dl' ka' (b_in s) nka') 0 0 in
                (tr ++ tr2, r)
            end
        end
      else
        match b_in s with
        | (t, b) :: rest =>
            let t' := Z.max t (b_now s) in
            let acc' := acc + (b mod 128) * 2 ^ (7 * Z.of_nat k) in
            let s' := upd s t' (b_dl s) (b_ka s) rest (b_nka s) in
            if (b <? 128) || (4 <=? k)%nat then
              let len := wrap32 acc' in
              if (len <=? 0) || (max <? len) then ([], REnd [(t', TEnd (OErr KIllegalLen))])
              else ([], phase_b (S (length rest)) hz s' len [])
            else phase_a cfg e f m hz s' (S k) acc'
        | [] =>
            ([], REnd [(match b_eof s with Some te => Z.max te (b_now s) | None => b_now s end, TEnd (OErr KClosed))])
        end.
  Proof. reflexivity. Qed.

  Lemma phase_b_S f hz s need got :
    phase_b (S f) hz s need got =
      if need <=? 0 then deliver got s
      else
        match b_in s with
        | (t, b) :: rest =>
            let t' := Z.max t (b_now s) in
            match hz with
            | Some h => if h <=? t' then cut h s
                        else phase_b f hz (upd s t' (b_dl s) (b_ka s) rest (b_nka s)) (need - 1) (got ++ [b])
            | None => phase_b f hz (upd s t' (b_dl s) (b_ka s) rest (b_nka s)) (need - 1) (got ++ [b])
            end
        | [] =>
            match b_eof s, hz with
            | Some te, Some h =>
                if h <=? Z.max te (b_now s) then cut h s
                else deliver got (upd s (Z.max te (b_now s)) (b_dl s) (b_ka s) [] (b_nka s))
            | Some te, None => deliver got (upd s (Z.max te (b_now s)) (b_dl s) (b_ka s) [] (b_nka s))
            | None, Some h => cut h s
            | None, None => REnd [(b_now s, TEnd OHang)]
            end
        end.
  Proof. reflexivity. Qed.

  (* the horizon, if any, lies after instant [T] *)
  Definition hz_gt (hz : option Z) (T : Z) : Prop := match hz with Some h => T < h | None => True end.

  (* how phase A/B end on the reader's next event, the frame completing at the clamped instant [T] *)
  Definition res_of_pop (T : Z) (s : st2) (x : option (rev * bstream)) : rres :=
    match x with
    | Some (EvFrame id body, rest) => RGot id body (upd s T (b_dl s) (b_ka s) rest (b_nka s))
    | Some (EvBadLen, _) => REnd [(T, TEnd (OErr KIllegalLen))]
    | Some (EvBadId, _) => REnd [(T, TEnd (OErr KClosed))]
    | None => REnd []
    end.

  Lemma res_of_pop_upd T s n i x :
    res_of_pop T (upd s n (b_dl s) (b_ka s) i (b_nka s)) x = res_of_pop T s x.
  Proof. destruct x as [[[id body| |] rest]|]; reflexivity. Qed.

  Lemma deliver_upd got s rest T :
    deliver got (upd s T (b_dl s) (b_ka s) rest (b_nka s)) = res_of_pop T s (Some (split_frame got, rest)).
  Proof. unfold deliver, split_frame, res_of_pop. destruct (rd_var 5 0 0 got); reflexivity. Qed.

  Lemma phase_b_pop t hz : forall r b fuel s len got,
    b_in s = (t, b) :: r -> (S (length r) < fuel)%nat ->
    atomic_s max (RFrame len got) t ((t, b) :: r) = true ->
    Z.of_nat (length got) < len ->
    hz_gt hz (Z.max t (b_now s)) ->
    phase_b fuel hz s (len - Z.of_nat (length got)) got
    = res_of_pop (Z.max t (b_now s)) s (pop max (RFrame len got) ((t, b) :: r)).
  Proof.
    induction r as [|[t2 b2] r2 IH]; intros b fuel s len got Hin Hf Hat Hlen Hhz.
    - destruct fuel as [|[|f]]; [cbn in Hf; lia | cbn in Hf; lia |].
      rewrite phase_b_S. destruct (Z.leb_spec (len - Z.of_nat (length got)) 0) as [Hc|_]; [lia|].
      rewrite Hin. cbv zeta.
      assert (Hstep : phase_b (S f) hz (upd s (Z.max t (b_now s)) (b_dl s) (b_ka s) [] (b_nka s))
                        (len - Z.of_nat (length got) - 1) (got ++ [b])
                      = res_of_pop (Z.max t (b_now s)) s (pop max (RFrame len got) [(t, b)])).
      { cbn [pop feed_byte].
        pose proof (atomic_s_step max _ _ _ _ Hat ltac:(discriminate)) as Hat'. cbn [feed_byte] in Hat'.
        destruct (Z.eqb_spec (Z.of_nat (length (got ++ [b]))) len) as [E|E]; cbn [fst atomic_s] in Hat'; [|discriminate Hat'].
        rewrite phase_b_S.
        rewrite app_length in E. cbn [length] in E.
        destruct (Z.leb_spec (len - Z.of_nat (length got) - 1) 0) as [_|Hc]; [|lia].
        apply deliver_upd. }
      destruct hz as [h|]; [|exact Hstep].
      cbn [hz_gt] in Hhz. destruct (Z.leb_spec h (Z.max t (b_now s))); [lia | exact Hstep].
    - destruct fuel as [|f]; [cbn in Hf; lia|].
      rewrite phase_b_S. destruct (Z.leb_spec (len - Z.of_nat (length got)) 0) as [Hc|_]; [lia|].
      rewrite Hin. cbv zeta.
      set (s1 := upd s (Z.max t (b_now s)) (b_dl s) (b_ka s) ((t2, b2) :: r2) (b_nka s)).
      assert (Hstep : phase_b f hz s1 (len - Z.of_nat (length got) - 1) (got ++ [b])
                      = res_of_pop (Z.max t (b_now s)) s (pop max (RFrame len got) ((t, b) :: (t2, b2) :: r2))).
      { pose proof (atomic_s_step max _ _ _ _ Hat ltac:(discriminate)) as Hat'.
        cbn [pop]. cbn [feed_byte] in *.
        destruct (Z.eqb_spec (Z.of_nat (length (got ++ [b]))) len) as [E|E]; cbn [fst] in Hat'.
        + (* the frame is complete *)
          destruct f as [|f]; [cbn in Hf; lia|].
          rewrite phase_b_S. rewrite app_length in E. cbn [length] in E.
          destruct (Z.leb_spec (len - Z.of_nat (length got) - 1) 0) as [_|Hc]; [|lia].
          apply deliver_upd.
        + destruct (atomic_s_mid max _ _ _ Hat' ltac:(discriminate) ltac:(discriminate)) as (b' & r' & Hl).
          injection Hl as Ht2 <- <-. subst t2.
          assert (Hn1 : b_now s1 = Z.max t (b_now s)) by reflexivity.
          assert (HT : Z.max t (b_now s1) = Z.max t (b_now s)) by (rewrite Hn1; lia).
          rewrite app_length in E. cbn [length] in E.
          replace (len - Z.of_nat (length got) - 1) with (len - Z.of_nat (length (got ++ [b])))
            by (rewrite app_length; cbn [length]; lia).
          rewrite (IH b2 f s1 len (got ++ [b]) eq_refl).
          * rewrite HT. apply (res_of_pop_upd (Z.max t (b_now s)) s (Z.max t (b_now s)) ((t, b2) :: r2)).
          * cbn [length] in Hf. lia.
          * exact Hat'.
          * rewrite app_length; cbn [length]; lia.
          * rewrite HT. exact Hhz. }
      destruct hz as [h|]; [|exact Hstep].
      cbn [hz_gt] in Hhz. destruct (Z.leb_spec h (Z.max t (b_now s))); [lia | exact Hstep].
  Qed.

  (* reader state that corresponds to [k] prefix bytes read with partial value [acc] *)
  Definition rst_of (k : nat) (acc : Z) : rst := match k with O => RIdle | _ => RLen k acc end.

  Lemma feed_byte_rst_of k acc b :
    (k = O -> acc = 0) ->
    feed_byte max (rst_of k acc) b =
      if (b <? 128) || (4 <=? k)%nat then len_done max (acc + (b mod 128) * 2 ^ (7 * Z.of_nat k))
      else (rst_of (S k) (acc + (b mod 128) * 2 ^ (7 * Z.of_nat k)), []).
  Proof.
    intros H0. destruct k as [|k].
    - rewrite (H0 eq_refl). cbn [rst_of feed_byte]. change (2 ^ (7 * Z.of_nat 0)) with 1.
      replace (0 + b mod 128 * 1) with (b mod 128) by lia.
      change (4 <=? 0)%nat with false. rewrite orb_false_r. reflexivity.
    - reflexivity.
  Qed.

  Lemma hfirst_false hz s T : tin_of s = Some T -> hz_gt hz T -> hfirst hz s = false.
  Proof.
    intros Ht Hh. unfold hfirst. destruct hz as [h|]; [|reflexivity]. rewrite Ht. cbn [hz_gt] in Hh.
    destruct (Z.leb_spec h T); [lia | reflexivity].
  Qed.

  Lemma tfirst_false s T : tin_of s = Some T -> T < b_dl s -> tfirst s = false.
  Proof. intros Ht Hd. unfold tfirst. rewrite Ht. destruct (Z.leb_spec (Z.max (b_dl s) (b_now s)) T); [lia | reflexivity]. Qed.

  Lemma tin_of_cons s t b r : b_in s = (t, b) :: r -> tin_of s = Some (Z.max t (b_now s)).
  Proof. intros H. unfold tin_of. rewrite H. reflexivity. Qed.

  Lemma phase_a_pop t m hz : forall r b fuel s k acc,
    b_in s = (t, b) :: r -> (5 <= k + fuel)%nat -> (k <= 4)%nat -> (k = O -> acc = 0) ->
    atomic_s max (rst_of k acc) t ((t, b) :: r) = true ->
    Z.max t (b_now s) < b_dl s ->
    hz_gt hz (Z.max t (b_now s)) ->
    phase_a cfg e fuel m hz s k acc
    = ([], res_of_pop (Z.max t (b_now s)) s (pop max (rst_of k acc) ((t, b) :: r))).
  Proof.
    induction r as [|[t2 b2] r2 IH]; intros b fuel s k acc Hin Hf Hk H0 Hat Hdl Hhz.
    all: destruct fuel as [|f]; [lia|].
    all: rewrite phase_a_S, (hfirst_false hz s _ (tin_of_cons _ _ _ _ Hin) Hhz),
           (tfirst_false s _ (tin_of_cons _ _ _ _ Hin) Hdl), Hin.
    all: cbv zeta.
    all: assert (Hlive : rst_of k acc <> RDead) by (destruct k; discriminate).
    all: pose proof (atomic_s_step max _ _ _ _ Hat Hlive) as Hat'.
    all: rewrite pop_cons; rewrite (feed_byte_rst_of k acc b H0) in *.
    all: destruct ((b <? 128) || (4 <=? k)%nat) eqn:Elast.
    - (* last prefix byte, last byte of the stream *)
      unfold len_done in *.
      destruct ((wrap32 (acc + b mod 128 * 2 ^ (7 * Z.of_nat k)) <=? 0)
                || (max <? wrap32 (acc + b mod 128 * 2 ^ (7 * Z.of_nat k)))); [reflexivity|].
      cbn [fst] in Hat'. discriminate Hat'.
    - cbn [fst] in Hat'. destruct k; discriminate Hat'.
    - (* last prefix byte *)
      unfold len_done in *.
      destruct ((wrap32 (acc + b mod 128 * 2 ^ (7 * Z.of_nat k)) <=? 0)
                || (max <? wrap32 (acc + b mod 128 * 2 ^ (7 * Z.of_nat k)))) eqn:Ebad; [reflexivity|].
      cbn [fst] in Hat'.
      destruct (atomic_s_mid max _ _ _ Hat' ltac:(discriminate) ltac:(discriminate)) as (b' & r' & Hl).
      injection Hl as Ht2 <- <-. subst t2.
      apply orb_false_iff in Ebad. destruct Ebad as [Eb1 Eb2]. apply Z.leb_gt in Eb1.
      set (len := wrap32 (acc + b mod 128 * 2 ^ (7 * Z.of_nat k))) in *.
      set (s1 := upd s (Z.max t (b_now s)) (b_dl s) (b_ka s) ((t, b2) :: r2) (b_nka s)).
      assert (HT : Z.max t (b_now s1) = Z.max t (b_now s)) by (unfold s1; cbn [upd b_now]; lia).
      pose proof (phase_b_pop t hz r2 b2 (S (length ((t, b2) :: r2))) s1 len [] eq_refl) as Hb.
      cbn [length] in Hb. replace (len - Z.of_nat 0) with len in Hb by lia.
      cbn [length]. rewrite Hb; [| lia | exact Hat' | lia | rewrite HT; exact Hhz].
      rewrite HT. reflexivity.
    - (* one more prefix byte *)
      cbn [fst] in Hat'. apply orb_false_iff in Elast. destruct Elast as [_ Ek]. apply Nat.leb_gt in Ek.
      destruct (atomic_s_mid max _ _ _ Hat' ltac:(discriminate) ltac:(discriminate)) as (b' & r' & Hl).
      injection Hl as Ht2 <- <-. subst t2.
      set (s1 := upd s (Z.max t (b_now s)) (b_dl s) (b_ka s) ((t, b2) :: r2) (b_nka s)).
      assert (HT : Z.max t (b_now s1) = Z.max t (b_now s)) by (unfold s1; cbn [upd b_now]; lia).
      rewrite (IH b2 f s1 (S k) (acc + b mod 128 * 2 ^ (7 * Z.of_nat k)) eq_refl);
        [| lia | lia | discriminate | exact Hat' | rewrite HT; exact Hdl | rewrite HT; exact Hhz].
      rewrite HT. reflexivity.
  Qed.

  (* ---------------------------------------------------------------------------------- *)
  (* Part 3: keep-alive ticks taken one by one (phase A) = ticks_until (M1)             *)
  (* ---------------------------------------------------------------------------------- *)
  Lemma tick_at_some loc tt dl ka nka tr dl' ka' nka' :
    tick_at e loc tt dl ka nka = (tr, Some (dl', ka', nka')) -> dl' = fire dl tt /\ exists id, ka' = Some id.
  Proof.
    unfold tick_at. destruct ka as [x|].
    - destruct (fst (e_res e (CLocalize loc key_timeout))); intros H; discriminate H.
    - intros H. injection H as _ <- <- _. split; [reflexivity | eexists; reflexivity].
  Qed.

  Lemma tick_at_dead loc tt dl x nka : snd (tick_at e loc tt dl (Some x) nka) = None.
  Proof. unfold tick_at. destruct (fst (e_res e (CLocalize loc key_timeout))); reflexivity. Qed.

  Lemma phase_a_tick f loc hz s k acc :
    hfirst hz s = false -> tfirst s = true ->
    phase_a cfg e (S f) (Some loc) hz s k acc =
      match tick_at e loc (Z.max (b_dl s) (b_now s)) (b_dl s) (b_ka s) (b_nka s) with
      | (tr, None) => (tr, REnd [])
      | (tr, Some (dl', ka', nka')) =>
          let (tr2, r) := phase_a cfg e f (Some loc) hz (upd s (Z.max (b_dl s) (b_now s)) dl' ka' (b_in s) nka') 0 0 in
          (tr ++ tr2, r)
      end.
  Proof. intros H1 H2. rewrite phase_a_S, H1, H2. reflexivity. Qed.

  (* raw instant of the next thing the stream does *)
  Definition tsrc (s : st2) : option Z :=
    match b_in s, b_eof s with
    | (t, _) :: _, _ => Some t
    | [], Some te => Some te
    | [], None => None
    end.

  Lemma tin_of_tsrc s : tin_of s = match tsrc s with Some t => Some (Z.max t (b_now s)) | None => None end.
  Proof. unfold tin_of, tsrc. destruct (b_in s) as [|[t b] r]; [destruct (b_eof s)|]; reflexivity. Qed.

  (* a later state of the same wait: same stream, same wall-clock counter *)
  Definition same_in (s s' : st2) : Prop := b_in s' = b_in s /\ b_eof s' = b_eof s /\ b_nnow s' = b_nnow s.

  Lemma same_in_refl s : same_in s s.
  Proof. repeat split. Qed.

  Lemma tsrc_same s s' : same_in s s' -> tsrc s' = tsrc s.
  Proof. intros (H1 & H2 & _). unfold tsrc. rewrite H1, H2. reflexivity. Qed.

  Lemma ticks_sim loc hz T s f :
    b_now s <= T ->
    (forall s', same_in s s' -> b_now s <= b_now s' -> Z.max (b_dl s') (b_now s') <= T ->
                hfirst hz s' = false /\ tfirst s' = true) ->
    match ticks_until e loc (b_now s) (b_dl s) (b_ka s) (b_nka s) T with
    | (tr, None) => phase_a cfg e (S (S f)) (Some loc) hz s 0 0 = (tr, REnd [])
    | (tr, Some (dl', ka', nka')) =>
        exists s' f', same_in s s' /\ b_dl s' = dl' /\ b_ka s' = ka' /\ b_nka s' = nka'
          /\ b_now s <= b_now s' <= T /\ T < dl' /\ (f <= f')%nat
          /\ phase_a cfg e (S (S f)) (Some loc) hz s 0 0
             = let (tr2, r) := phase_a cfg e f' (Some loc) hz s' 0 0 in (tr ++ tr2, r)
    end.
  Proof.
    intros Hnow Hgov. unfold ticks_until.
    destruct (Z.ltb_spec T (b_dl s)) as [Hlt|Hge].
    - exists s, (S (S f)). split; [apply same_in_refl|]. repeat (split; [reflexivity || lia|]).
      destruct (phase_a cfg e (S (S f)) (Some loc) hz s 0 0); reflexivity.
    - assert (Htt : Z.max (b_dl s) (b_now s) <= T) by lia.
      destruct (Hgov s (same_in_refl s) ltac:(lia) Htt) as [Hh Ht].
      rewrite (phase_a_tick (S f) loc hz s 0%nat 0 Hh Ht).
      destruct (tick_at e loc (Z.max (b_dl s) (b_now s)) (b_dl s) (b_ka s) (b_nka s)) as [tr1 [[[dl1 ka1] nka1]|]] eqn:Etick;
        [|reflexivity].
      destruct (tick_at_some _ _ _ _ _ _ _ _ _ Etick) as [Hdl1 [id Hka1]].
      pose proof (fire_gt (b_dl s) (Z.max (b_dl s) (b_now s))) as Hfg. rewrite <- Hdl1 in Hfg.
      set (s1 := upd s (Z.max (b_dl s) (b_now s)) dl1 ka1 (b_in s) nka1).
      assert (Hs1 : same_in s s1) by (repeat split).
      destruct (Z.ltb_spec T dl1) as [Hlt1|Hge1].
      + exists s1, (S f). split; [exact Hs1|]. repeat (split; [reflexivity || (cbn [s1 upd b_now]; lia)|]). reflexivity.
      + assert (Htt1 : Z.max (b_dl s1) (b_now s1) <= T) by (cbn [s1 upd b_now b_dl]; lia).
        destruct (Hgov s1 Hs1 ltac:(cbn [s1 upd b_now]; lia) Htt1) as [Hh1 Ht1].
        rewrite (phase_a_tick f loc hz s1 0%nat 0 Hh1 Ht1).
        cbn [s1 upd b_now b_dl b_ka b_nka].
        replace (Z.max dl1 (Z.max (b_dl s) (b_now s))) with dl1 by lia.
        subst ka1. pose proof (tick_at_dead loc dl1 dl1 id nka1) as Hd.
        destruct (tick_at e loc dl1 dl1 (Some id) nka1) as [tr2 [x|]]; [discriminate Hd | reflexivity].
  Qed.

  (* case A: the horizon comes before the next thing the stream does *)
  Lemma read_cut loc h s f :
    b_now s < h ->
    match tin_of s with Some t => h <= t | None => True end ->
    match ticks_until e loc (b_now s) (b_dl s) (b_ka s) (b_nka s) (h - 1) with
    | (tr, None) => phase_a cfg e (S (S (S f))) (Some loc) (Some h) s 0 0 = (tr, REnd [])
    | (tr, Some (dl', ka', nka')) =>
        exists s', phase_a cfg e (S (S (S f))) (Some loc) (Some h) s 0 0 = (tr ++ [], RCut s')
          /\ same_in s s' /\ b_now s' = h /\ b_dl s' = dl' /\ b_ka s' = ka' /\ b_nka s' = nka'
    end.
  Proof.
    intros Hnow Htin. rewrite tin_of_tsrc in Htin.
    assert (Hgov : forall s', same_in s s' -> b_now s <= b_now s' -> Z.max (b_dl s') (b_now s') <= h - 1 ->
                              hfirst (Some h) s' = false /\ tfirst s' = true).
    { intros s' Hs Hn Hm. unfold hfirst, tfirst. rewrite tin_of_tsrc, (tsrc_same _ _ Hs).
      destruct (Z.leb_spec h (Z.max (b_dl s') (b_now s'))) as [Hc|_]; [lia|]. rewrite andb_false_r.
      split; [reflexivity|]. destruct (tsrc s) as [t|]; [|reflexivity].
      destruct (Z.leb_spec (Z.max (b_dl s') (b_now s')) (Z.max t (b_now s'))); [reflexivity | lia]. }
    pose proof (ticks_sim loc (Some h) (h - 1) s (S f) ltac:(lia) Hgov) as Hts.
    destruct (ticks_until e loc (b_now s) (b_dl s) (b_ka s) (b_nka s) (h - 1)) as [tr [[[dl' ka'] nka']|]]; [|exact Hts].
    destruct Hts as (s' & f' & Hs & Hd & Hk & Hn & Hnow' & Hdl & Hf & Hph).
    destruct f' as [|f']; [lia|].
    assert (Hhf : hfirst (Some h) s' = true).
    { unfold hfirst. rewrite tin_of_tsrc, (tsrc_same _ _ Hs).
      destruct (Z.leb_spec h (Z.max (b_dl s') (b_now s'))) as [_|Hc]; [|lia]. rewrite andb_true_r.
      destruct (tsrc s) as [t|]; [|reflexivity]. destruct (Z.leb_spec h (Z.max t (b_now s'))); [reflexivity | lia]. }
    rewrite (phase_a_S f' (Some loc) (Some h) s' 0%nat 0), Hhf in Hph.
    eexists. split; [exact Hph|]. destruct Hs as (Hs1 & Hs2 & Hs3).
    split; [repeat split; assumption|]. cbn [upd b_now b_dl b_ka b_nka].
    repeat split; try assumption. lia.
  Qed.

  Lemma res_of_pop_same T s s' x :
    same_in s s' ->
    res_of_pop T s' x = res_of_pop T (upd s T (b_dl s') (b_ka s') (b_in s) (b_nka s')) x.
  Proof.
    intros (H1 & H2 & H3). destruct x as [[[id body| |] rest]|]; try reflexivity.
    unfold res_of_pop, upd. cbn [b_dl b_ka b_nka b_eof b_nnow]. rewrite H2, H3. reflexivity.
  Qed.

  (* case B: a frame of an atomic stream arrives before the horizon *)
  Lemma read_data loc hz s f t b r :
    b_in s = (t, b) :: r -> astream max (b_in s) = true ->
    hz_gt hz (Z.max t (b_now s)) -> (5 <= f)%nat ->
    match ticks_until e loc (b_now s) (b_dl s) (b_ka s) (b_nka s) (Z.max t (b_now s)) with
    | (tr, None) => phase_a cfg e (S (S f)) (Some loc) hz s 0 0 = (tr, REnd [])
    | (tr, Some (dl', ka', nka')) =>
        phase_a cfg e (S (S f)) (Some loc) hz s 0 0
        = (tr ++ [], res_of_pop (Z.max t (b_now s)) (upd s (Z.max t (b_now s)) dl' ka' (b_in s) nka')
                       (pop max RIdle ((t, b) :: r)))
    end.
  Proof.
    intros Hin Hat Hhz Hf5. set (T := Z.max t (b_now s)) in *.
    assert (Hsrc : tsrc s = Some t) by (unfold tsrc; rewrite Hin; reflexivity).
    assert (Hgov : forall s', same_in s s' -> b_now s <= b_now s' -> Z.max (b_dl s') (b_now s') <= T ->
                              hfirst hz s' = false /\ tfirst s' = true).
    { intros s' Hs Hn Hm.
      assert (Htin : tin_of s' = Some T).
      { rewrite tin_of_tsrc, (tsrc_same _ _ Hs), Hsrc. f_equal. unfold T in *. lia. }
      split; [apply (hfirst_false hz s' T Htin Hhz)|].
      unfold tfirst. rewrite Htin. destruct (Z.leb_spec (Z.max (b_dl s') (b_now s')) T); [reflexivity | lia]. }
    pose proof (ticks_sim loc hz T s f ltac:(unfold T; lia) Hgov) as Hts.
    destruct (ticks_until e loc (b_now s) (b_dl s) (b_ka s) (b_nka s) T) as [tr [[[dl' ka'] nka']|]]; [|exact Hts].
    destruct Hts as (s' & f' & Hs & Hd & Hk & Hn & Hnow' & Hdl & Hf & Hph).
    assert (Hin' : b_in s' = (t, b) :: r) by (destruct Hs as (Hs1 & _); rewrite Hs1; exact Hin).
    assert (HT : Z.max t (b_now s') = T) by (unfold T in *; lia).
    rewrite (phase_a_pop t (Some loc) hz r b f' s' 0%nat 0 Hin') in Hph.
    - rewrite Hph, HT. f_equal. rewrite (res_of_pop_same T s s' _ Hs), Hd, Hk, Hn. reflexivity.
    - lia.
    - lia.
    - reflexivity.
    - cbn [rst_of]. rewrite (atomic_s_idle_tc max t 0). rewrite Hin in Hat. exact Hat.
    - rewrite HT, Hd. exact Hdl.
    - rewrite HT. exact Hhz.
  Qed.

  (* case B': the end of stream (at a frame boundary) arrives before the horizon *)
  Lemma read_eof loc hz s f te :
    b_in s = [] -> b_eof s = Some te ->
    hz_gt hz (Z.max te (b_now s)) ->
    match ticks_until e loc (b_now s) (b_dl s) (b_ka s) (b_nka s) (Z.max te (b_now s)) with
    | (tr, None) => phase_a cfg e (S (S (S f))) (Some loc) hz s 0 0 = (tr, REnd [])
    | (tr, Some (dl', ka', nka')) =>
        phase_a cfg e (S (S (S f))) (Some loc) hz s 0 0
        = (tr ++ [], REnd [(Z.max te (b_now s), TEnd (OErr KClosed))])
    end.
  Proof.
    intros Hin Heof Hhz. set (T := Z.max te (b_now s)) in *.
    assert (Hsrc : tsrc s = Some te) by (unfold tsrc; rewrite Hin, Heof; reflexivity).
    assert (Hgov : forall s', same_in s s' -> b_now s <= b_now s' -> Z.max (b_dl s') (b_now s') <= T ->
                              hfirst hz s' = false /\ tfirst s' = true).
    { intros s' Hs Hn Hm.
      assert (Htin : tin_of s' = Some T).
      { rewrite tin_of_tsrc, (tsrc_same _ _ Hs), Hsrc. f_equal. unfold T in *. lia. }
      split; [apply (hfirst_false hz s' T Htin Hhz)|].
      unfold tfirst. rewrite Htin. destruct (Z.leb_spec (Z.max (b_dl s') (b_now s')) T); [reflexivity | lia]. }
    pose proof (ticks_sim loc hz T s (S f) ltac:(unfold T; lia) Hgov) as Hts.
    destruct (ticks_until e loc (b_now s) (b_dl s) (b_ka s) (b_nka s) T) as [tr [[[dl' ka'] nka']|]]; [|exact Hts].
    destruct Hts as (s' & f' & Hs & Hd & Hk & Hn & Hnow' & Hdl & Hf & Hph).
    destruct f' as [|f']; [lia|].
    assert (Htin : tin_of s' = Some T).
    { rewrite tin_of_tsrc, (tsrc_same _ _ Hs), Hsrc. f_equal. unfold T in *. lia. }
    destruct Hs as (Hs1 & Hs2 & Hs3).
    rewrite (phase_a_S f' (Some loc) hz s' 0%nat 0), (hfirst_false hz s' T Htin Hhz), (tfirst_false s' T Htin ltac:(lia)), Hs1, Hin, Hs2, Heof in Hph.
    rewrite Hph. replace (Z.max te (b_now s')) with T by (unfold T in *; lia). reflexivity.
  Qed.

  (* case C: a silent client without horizon is timed out by the second tick at the latest *)
  Lemma ticks_until_silent loc now dl ka nka :
    snd (ticks_until e loc now dl ka nka (Z.max now dl + 2 * P)) = None.
  Proof.
    pose proof P_gt5 as HP. unfold ticks_until.
    destruct (Z.ltb_spec (Z.max now dl + 2 * P) dl) as [H|_]; [lia|].
    destruct (tick_at e loc (Z.max dl now) dl ka nka) as [tr1 [[[dl1 ka1] nka1]|]] eqn:Etick; [|reflexivity].
    destruct (tick_at_some _ _ _ _ _ _ _ _ _ Etick) as [Hdl1 [id Hka1]].
    pose proof (fire_le dl (Z.max dl now) ltac:(lia)) as Hfl. rewrite <- Hdl1 in Hfl.
    destruct (Z.ltb_spec (Z.max now dl + 2 * P) dl1) as [H|_]; [lia|].
    subst ka1. pose proof (tick_at_dead loc dl1 dl1 id nka1) as Hd.
    destruct (tick_at e loc dl1 dl1 (Some id) nka1) as [tr2 [x|]]; [discriminate Hd | reflexivity].
  Qed.

  Lemma read_silent loc s f :
    b_in s = [] -> b_eof s = None ->
    match ticks_until e loc (b_now s) (b_dl s) (b_ka s) (b_nka s) (Z.max (b_now s) (b_dl s) + 2 * P) with
    | (tr, None) => phase_a cfg e (S (S f)) (Some loc) None s 0 0 = (tr, REnd [])
    | (tr, Some _) => False
    end.
  Proof.
    intros Hin Heof. pose proof P_gt5 as HP.
    assert (Hsrc : tsrc s = None) by (unfold tsrc; rewrite Hin, Heof; reflexivity).
    assert (Hgov : forall s', same_in s s' -> b_now s <= b_now s' ->
                              Z.max (b_dl s') (b_now s') <= Z.max (b_now s) (b_dl s) + 2 * P ->
                              hfirst None s' = false /\ tfirst s' = true).
    { intros s' Hs Hn Hm. split; [reflexivity|]. unfold tfirst. rewrite tin_of_tsrc, (tsrc_same _ _ Hs), Hsrc. reflexivity. }
    pose proof (ticks_sim loc None (Z.max (b_now s) (b_dl s) + 2 * P) s f ltac:(lia) Hgov) as Hts.
    pose proof (ticks_until_silent loc (b_now s) (b_dl s) (b_ka s) (b_nka s)) as Hsil.
    destruct (ticks_until e loc (b_now s) (b_dl s) (b_ka s) (b_nka s) (Z.max (b_now s) (b_dl s) + 2 * P)) as [tr [x|]];
      [discriminate Hsil | exact Hts].
  Qed.

  (* ---------------------------------------------------------------------------------- *)
  (* Part 4: receive_packet(false)                                                      *)
  (* ---------------------------------------------------------------------------------- *)
  Lemma upd_id s : upd s (b_now s) (b_dl s) (b_ka s) (b_in s) (b_nka s) = s.
  Proof. destruct s; reflexivity. Qed.

  Lemma fuel_of_shape s : fuel_of s = S (S (S (3 * length (b_in s) + 9))).
  Proof. unfold fuel_of. lia. Qed.

  (* the ignored ticks: at most one step of phase A, which leaves the deadline after [T] *)
  Lemma phase_a_skip s f t0 :
    tsrc s = Some t0 ->
    exists f', (S f <= f')%nat /\
      phase_a cfg e (S (S f)) None None s 0 0
      = phase_a cfg e f' None None
          (upd s (b_now s) (skip_ticks (b_dl s) (b_now s) (Z.max t0 (b_now s))) (b_ka s) (b_in s) (b_nka s)) 0 0.
  Proof.
    intros Hsrc.
    assert (Htin : tin_of s = Some (Z.max t0 (b_now s))) by (rewrite tin_of_tsrc, Hsrc; reflexivity).
    destruct (tfirst s) eqn:Etf.
    - exists (S f). split; [lia|]. rewrite phase_a_S. change (hfirst None s) with false. cbv iota.
      rewrite Etf, Htin. reflexivity.
    - exists (S (S f)). split; [lia|].
      unfold tfirst in Etf. rewrite Htin in Etf. apply Z.leb_gt in Etf.
      rewrite skip_ticks_id by lia. rewrite upd_id. reflexivity.
  Qed.

  Lemma read_none s :
    astream max (b_in s) = true ->
    match next_frame (abs max s) with
    | None => read_frame cfg e None None s = ([], REnd [(b_now s, TEnd OHang)])
    | Some (t, IEof, _) => read_frame cfg e None None s = ([], REnd [(t, TEnd (OErr KClosed))])
    | Some (t, IBadLen, _) => read_frame cfg e None None s = ([], REnd [(t, TEnd (OErr KIllegalLen))])
    | Some (t, IFrame id body, s1) =>
        exists s2, read_frame cfg e None None s = ([], RGot id body s2)
                   /\ s1 = abs max s2 /\ b_now s2 = t /\ astream max (b_in s2) = true
    end.
  Proof.
    intros Hat. unfold read_frame. rewrite fuel_of_shape.
    set (f := (S (3 * length (b_in s) + 9))%nat). assert (Hf5 : (5 <= f)%nat) by (unfold f; lia).
    unfold next_frame, abs. cbn [s_in s_now s_dl s_ka s_nka s_nnow].
    destruct (b_in s) as [|[t b] r] eqn:Hin.
    - destruct (b_eof s) as [te|] eqn:Heof; cbn [stream_frames eof_events map app].
      + (* end of stream *)
        assert (Hsrc : tsrc s = Some te) by (unfold tsrc; rewrite Hin, Heof; reflexivity).
        destruct (phase_a_skip s f te Hsrc) as (f' & Hf' & ->).
        destruct f' as [|f']; [lia|].
        set (s' := upd s (b_now s) (skip_ticks (b_dl s) (b_now s) (Z.max te (b_now s))) (b_ka s) (b_in s) (b_nka s)).
        assert (Htin : tin_of s' = Some (Z.max te (b_now s))).
        { unfold tin_of, s'. cbn [upd b_in b_eof b_now]. rewrite Hin, Heof. reflexivity. }
        pose proof (skip_ticks_gt (b_dl s) (b_now s) (Z.max te (b_now s))) as Hgt.
        rewrite phase_a_S. change (hfirst None s') with false. cbv iota.
        rewrite (tfirst_false s' _ Htin Hgt).
        unfold s'. cbn [upd b_in b_eof b_now]. rewrite Hin, Heof. reflexivity.
      + (* nothing more will come *)
        rewrite phase_a_S. change (hfirst None s) with false. cbv iota.
        unfold tfirst, tin_of. rewrite Hin, Heof. reflexivity.
    - assert (Hat' : atomic_s max RIdle t ((t, b) :: r) = true)
        by (rewrite (atomic_s_idle_tc max t 0); exact Hat).
      destruct (pop_frames max (b_eof s) t r RIdle b ltac:(discriminate) Hat') as (ev & rest & Hpop & Hfr & Hrest & Hlen).
      rewrite Hfr.
      assert (Hsrc : tsrc s = Some t) by (unfold tsrc; rewrite Hin; reflexivity).
      destruct (phase_a_skip s f t Hsrc) as (f' & Hf' & ->).
      set (s' := upd s (b_now s) (skip_ticks (b_dl s) (b_now s) (Z.max t (b_now s))) (b_ka s) (b_in s) (b_nka s)).
      pose proof (skip_ticks_gt (b_dl s) (b_now s) (Z.max t (b_now s))) as Hgt.
      assert (Hin' : b_in s' = (t, b) :: r) by (unfold s'; cbn [upd b_in]; exact Hin).
      rewrite (phase_a_pop t None None r b f' s' 0%nat 0 Hin' ltac:(lia) ltac:(lia) ltac:(reflexivity) Hat' Hgt I).
      cbn [rst_of]. rewrite Hpop. change (b_now s') with (b_now s).
      destruct ev as [id body| |]; cbn [ev_in res_of_pop]; try reflexivity.
      eexists. split; [reflexivity|]. split; [reflexivity|]. split; [reflexivity|].
      cbn [upd b_in]. apply Hrest. discriminate.
  Qed.

  (* ---------------------------------------------------------------------------------- *)
  (* Part 5: the keep-alive loops                                                       *)
  (* ---------------------------------------------------------------------------------- *)
  Lemma ka_loop_nil_some info loc h now dl ka nka nnow :
    ka_loop cfg e info loc (Some h) [] now dl ka nka nnow =
      match ticks_until e loc now dl ka nka (h - 1) with
      | (tr, None) => (tr, KEnd (OErr KMissedKA))
      | (tr, Some (dl', ka', nka')) =>
          (tr, KDone {| s_now := Z.max now h; s_dl := dl'; s_ka := ka'; s_in := []; s_nka := nka'; s_nnow := nnow |})
      end.
  Proof. reflexivity. Qed.

  Lemma ka_loop_nil_none info loc now dl ka nka nnow :
    ka_loop cfg e info loc None [] now dl ka nka nnow =
      match ticks_until e loc now dl ka nka (Z.max now dl + 2 * P) with
      | (tr, None) => (tr, KEnd (OErr KMissedKA))
      | (tr, Some _) => (tr ++ [(now, TEnd OHang)], KEnd OHang)
      end.
  Proof. reflexivity. Qed.

  Lemma ka_loop_cons info loc hz t ev rest now dl ka nka nnow :
    ka_loop cfg e info loc hz ((t, ev) :: rest) now dl ka nka nnow =
      if match hz with Some h => h <=? Z.max t now | None => false end then
        match hz with
        | Some h =>
            match ticks_until e loc now dl ka nka (h - 1) with
            | (tr, None) => (tr, KEnd (OErr KMissedKA))
            | (tr, Some (dl', ka', nka')) =>
                (tr, KDone {| s_now := Z.max now h; s_dl := dl'; s_ka := ka'; s_in := (t, ev) :: rest;
                              s_nka := nka'; s_nnow := nnow |})
            end
        | None => ([(now, TEnd OHang)], KEnd OHang)
        end
      else
        match ticks_until e loc now dl ka nka (Z.max t now) with
        | (tr, None) => (tr, KEnd (OErr KMissedKA))
        | (tr, Some (dl', ka', nka')) =>
            match ev with
            | IEof => (tr ++ [(Z.max t now, TEnd (OErr KClosed))], KEnd (OErr KClosed))
            | IBadLen => (tr ++ [(Z.max t now, TEnd (OErr KIllegalLen))], KEnd (OErr KIllegalLen))
            | IFrame id body =>
                match conf_frame cfg info ka' id body with
                | FEnd o => (tr ++ [(Z.max t now, TRecv id body); (Z.max t now, TEnd o)], KEnd o)
                | FInfo vs =>
                    (tr ++ [(Z.max t now, TRecv id body)],
                     KGot vs {| s_now := Z.max t now; s_dl := dl'; s_ka := ka'; s_in := rest; s_nka := nka'; s_nnow := nnow |})
                | FCont ka'' =>
                    let (tr2, r) := ka_loop cfg e info loc hz rest (Z.max t now) dl' ka'' nka' nnow in
                    (tr ++ (Z.max t now, TRecv id body) :: tr2, r)
                end
            end
        end.
  Proof. reflexivity. Qed.

  Lemma ka_loop2_S f info loc hz s :
    ka_loop2 cfg e (S f) info loc hz s =
      match read_frame cfg e (Some loc) hz s with
      | (tr, REnd fin) => (tr ++ fin, inr tt)
      | (tr, RCut s') => (tr, inl (inr s'))
      | (tr, RGot id body s') =>
          match conf_frame cfg info (b_ka s') id body with
          | FEnd o => (tr ++ [(b_now s', TRecv id body); (b_now s', TEnd o)], inr tt)
          | FInfo vs => (tr ++ [(b_now s', TRecv id body)], inl (inl (vs, s')))
          | FCont ka'' =>
              let (tr2, r) := ka_loop2 cfg e f info loc hz (upd s' (b_now s') (b_dl s') ka'' (b_in s') (b_nka s')) in
              (tr ++ (b_now s', TRecv id body) :: tr2, r)
          end
      end.
  Proof. reflexivity. Qed.

  Definition krel (x : trace * kres) (y : trace * (list fv * st2 + st2 + unit)) : Prop :=
    fst x = fst y /\
    match snd x, snd y with
    | KGot vs s1, inl (inl (vs', s2)) => vs = vs' /\ s1 = abs max s2 /\ astream max (b_in s2) = true
    | KDone s1, inl (inr s2) => s1 = abs max s2 /\ astream max (b_in s2) = true
    | KEnd _, inr _ => True
    | _, _ => False
    end.

  (* the cut, shared by the three situations in which the horizon comes first *)
  Lemma cut_sim info loc h s f ib :
    b_now s < h ->
    match tin_of s with Some t => h <= t | None => True end ->
    ib = stream_frames max RIdle (b_in s) (b_eof s) ->
    astream max (b_in s) = true ->
    krel
      match ticks_until e loc (b_now s) (b_dl s) (b_ka s) (b_nka s) (h - 1) with
      | (tr, None) => (tr, KEnd (OErr KMissedKA))
      | (tr, Some (dl', ka', nka')) =>
          (tr, KDone {| s_now := Z.max (b_now s) h; s_dl := dl'; s_ka := ka'; s_in := ib;
                        s_nka := nka'; s_nnow := b_nnow s |})
      end
      (ka_loop2 cfg e (S f) info loc (Some h) s).
  Proof.
    intros Hnow Htin Hib Hat. rewrite ka_loop2_S. unfold read_frame. rewrite fuel_of_shape.
    pose proof (read_cut loc h s (3 * length (b_in s) + 9) Hnow Htin) as Hrc.
    destruct (ticks_until e loc (b_now s) (b_dl s) (b_ka s) (b_nka s) (h - 1)) as [tr [[[dl' ka'] nka']|]].
    - destruct Hrc as (s' & -> & (Hs1 & Hs2 & Hs3) & Hn & Hd & Hk & Hnk).
      split; [cbn [fst]; rewrite app_nil_r; reflexivity|]. cbn [snd].
      split; [|rewrite Hs1; exact Hat].
      unfold abs. rewrite Hs1, Hs2, Hs3, Hn, Hd, Hk, Hnk, Hib. f_equal. lia.
    - rewrite Hrc. split; [cbn [fst]; rewrite app_nil_r; reflexivity | exact I].
  Qed.

  Lemma ka_sim info loc hz : forall fuel s,
    (length (b_in s) < fuel)%nat -> astream max (b_in s) = true -> hz_gt hz (b_now s) ->
    krel (ka_loop cfg e info loc hz (stream_frames max RIdle (b_in s) (b_eof s))
            (b_now s) (b_dl s) (b_ka s) (b_nka s) (b_nnow s))
         (ka_loop2 cfg e fuel info loc hz s).
  Proof.
    induction fuel as [|f IH]; intros s Hfuel Hat Hhz; [lia|].
    destruct (b_in s) as [|[t b] r] eqn:Hin.
    - destruct (b_eof s) as [te|] eqn:Heof; cbn [stream_frames eof_events map app].
      + (* end of stream at a frame boundary *)
        rewrite ka_loop_cons.
        assert (Htin : tin_of s = Some (Z.max te (b_now s))) by (unfold tin_of; rewrite Hin, Heof; reflexivity).
        destruct (match hz with Some h => h <=? Z.max te (b_now s) | None => false end) eqn:Ebey.
        * destruct hz as [h|]; [|discriminate Ebey]. apply Z.leb_le in Ebey. cbn [hz_gt] in Hhz.
          apply (cut_sim info loc h s f); [exact Hhz | rewrite Htin; exact Ebey | | rewrite Hin; exact Hat].
          rewrite Hin, Heof. reflexivity.
        * assert (Hhz' : hz_gt hz (Z.max te (b_now s))).
          { destruct hz as [h|]; [|exact I]. apply Z.leb_gt in Ebey. exact Ebey. }
          rewrite ka_loop2_S. unfold read_frame. rewrite fuel_of_shape.
          pose proof (read_eof loc hz s (3 * length (b_in s) + 9) te Hin Heof Hhz') as Hre.
          destruct (ticks_until e loc (b_now s) (b_dl s) (b_ka s) (b_nka s) (Z.max te (b_now s))) as [tr [[[dl' ka'] nka']|]];
            rewrite Hre; (split; [cbn [fst]; rewrite ?app_nil_r; reflexivity | exact I]).
      + (* nothing more will come *)
        destruct hz as [h|].
        * rewrite ka_loop_nil_some. cbn [hz_gt] in Hhz.
          replace (Z.max (b_now s) h) with (Z.max (b_now s) h) by reflexivity.
          apply (cut_sim info loc h s f); [exact Hhz | | | rewrite Hin; exact Hat].
          -- unfold tin_of. rewrite Hin, Heof. exact I.
          -- rewrite Hin, Heof. reflexivity.
        * rewrite ka_loop_nil_none, ka_loop2_S. unfold read_frame. rewrite fuel_of_shape.
          pose proof (read_silent loc s (S (3 * length (b_in s) + 9)) Hin Heof) as Hrs.
          destruct (ticks_until e loc (b_now s) (b_dl s) (b_ka s) (b_nka s) (Z.max (b_now s) (b_dl s) + 2 * P)) as [tr [x|]];
            [contradiction|].
          rewrite Hrs. split; [cbn [fst]; rewrite app_nil_r; reflexivity | exact I].
    - (* a frame of the atomic stream *)
      assert (Hat' : atomic_s max RIdle t ((t, b) :: r) = true)
        by (rewrite (atomic_s_idle_tc max t 0); exact Hat).
      destruct (pop_frames max (b_eof s) t r RIdle b ltac:(discriminate) Hat') as (ev & rest & Hpop & Hfr & Hrest & Hlen).
      rewrite Hfr. destruct (ev_in t ev) as [t0 iev] eqn:Eev.
      assert (Ht0 : t0 = t) by (destruct ev; cbn in Eev; injection Eev as <- _; reflexivity). subst t0.
      rewrite ka_loop_cons.
      assert (Htin : tin_of s = Some (Z.max t (b_now s))) by (apply (tin_of_cons s t b r Hin)).
      destruct (match hz with Some h => h <=? Z.max t (b_now s) | None => false end) eqn:Ebey.
      + destruct hz as [h|]; [|discriminate Ebey]. apply Z.leb_le in Ebey. cbn [hz_gt] in Hhz.
        apply (cut_sim info loc h s f); [exact Hhz | rewrite Htin; exact Ebey | | rewrite Hin; exact Hat].
        rewrite Hin. exact (eq_sym Hfr).
      + assert (Hhz' : hz_gt hz (Z.max t (b_now s))).
        { destruct hz as [h|]; [|exact I]. apply Z.leb_gt in Ebey. exact Ebey. }
        rewrite ka_loop2_S. unfold read_frame. rewrite fuel_of_shape.
        assert (Hat0 : astream max (b_in s) = true) by (rewrite Hin; exact Hat).
        pose proof (read_data loc hz s (S (3 * length (b_in s) + 9)) t b r Hin Hat0 Hhz' ltac:(lia)) as Hrd.
        destruct (ticks_until e loc (b_now s) (b_dl s) (b_ka s) (b_nka s) (Z.max t (b_now s))) as [tr [[[dl' ka'] nka']|]];
          rewrite Hrd; [|split; [cbn [fst]; rewrite app_nil_r; reflexivity | exact I]].
        rewrite Hpop.
        destruct ev as [id body| |]; cbn [ev_in] in Eev; injection Eev as <-; cbn [res_of_pop].
        * (* a complete frame *)
          cbn [upd b_ka b_now b_dl b_nka b_in].
          destruct (conf_frame cfg info ka' id body) as [ka''|vs|o].
          -- (* the loop goes on *)
             match goal with |- context [ka_loop2 cfg e f info loc hz ?x] => set (s3 := x) end.
             assert (Hlen3 : (length (b_in s3) < f)%nat) by (cbn [s3 upd b_in]; cbn [length] in Hfuel; lia).
             assert (Hat3 : astream max (b_in s3) = true) by (cbn [s3 upd b_in]; apply Hrest; discriminate).
             assert (Hhz3 : hz_gt hz (b_now s3)) by (cbn [s3 upd b_now]; exact Hhz').
             pose proof (IH s3 Hlen3 Hat3 Hhz3) as Hrec.
             cbn [s3 upd b_in b_eof b_now b_dl b_ka b_nka b_nnow] in Hrec. cbn [st_after].
             destruct (ka_loop cfg e info loc hz (stream_frames max RIdle rest (b_eof s)) (Z.max t (b_now s)) dl' ka'' nka' (b_nnow s))
               as [tr2 r2].
             destruct (ka_loop2 cfg e f info loc hz s3) as [tr2' r2'].
             destruct Hrec as [Htr Hres]. cbn [fst snd] in *. subst tr2'.
             split; [cbn [fst]; rewrite app_nil_r; reflexivity | exact Hres].
          -- split; [cbn [fst]; rewrite app_nil_r; reflexivity|]. cbn [snd st_after].
             split; [reflexivity|]. split; [reflexivity|]. cbn [upd b_in]. apply Hrest. discriminate.
          -- split; [cbn [fst]; rewrite app_nil_r; reflexivity | exact I].
        * split; [cbn [fst]; rewrite app_nil_r; reflexivity | exact I].
        * split; [cbn [fst]; rewrite app_nil_r; reflexivity | exact I].
  Qed.

  (* ---------------------------------------------------------------------------------- *)
  (* Part 6: the handler program                                                        *)
  (* ---------------------------------------------------------------------------------- *)
  Theorem exec_refines : forall p s,
    astream max (b_in s) = true -> exec2 cfg e p s = exec cfg e p (abs max s).
  Proof.
    induction p as [o|k IH|loc k IH|loc c k IH|c k IH|pk vs k IH|ss k IH|w k IH|k IH]; intros s Hat.
    - reflexivity.
    - (* Expect *)
      cbn [exec2 exec]. pose proof (read_none s Hat) as Hr.
      destruct (next_frame (abs max s)) as [[[t ev] s1]|].
      + destruct ev as [id body| |].
        * destruct Hr as (s2 & -> & -> & Hn & Hat2). cbn [app]. rewrite Hn.
          destruct (negb (len_ok cfg id body)); [reflexivity|]. f_equal. apply IH. exact Hat2.
        * rewrite Hr. reflexivity.
        * rewrite Hr. reflexivity.
      + rewrite Hr. reflexivity.
    - (* WaitInfo *)
      cbn [exec2 exec].
      pose proof (ka_sim true loc None (S (length (b_in s))) s (Nat.lt_succ_diag_r _) Hat I) as Hk.
      cbn [abs s_in s_now s_dl s_ka s_nka s_nnow].
      destruct (ka_loop cfg e true loc None (stream_frames max RIdle (b_in s) (b_eof s))
                  (b_now s) (b_dl s) (b_ka s) (b_nka s) (b_nnow s)) as [tr1 r1].
      destruct (ka_loop2 cfg e (S (length (b_in s))) true loc None s) as [tr2 r2].
      destruct Hk as [Htr Hres]. cbn [fst snd] in Htr, Hres. subst tr2.
      destruct r1 as [vs1 s1|s1|o1]; destruct r2 as [[[vs2 s2]|s2]|u2]; try contradiction.
      + destruct Hres as (-> & -> & Hat2). f_equal. apply IH. exact Hat2.
      + destruct Hres as (-> & Hat2). reflexivity.
      + reflexivity.
    - (* Race *)
      cbn [exec2 exec]. cbn [abs s_in s_now s_dl s_ka s_nka s_nnow].
      destruct (e_res e c) as [r lat].
      assert (Hhz : hz_gt (Some (b_now s + Z.max lat 1)) (b_now s)) by (cbn [hz_gt]; lia).
      pose proof (ka_sim false loc (Some (b_now s + Z.max lat 1)) (S (length (b_in s))) s (Nat.lt_succ_diag_r _) Hat Hhz) as Hk.
      destruct (ka_loop cfg e false loc (Some (b_now s + Z.max lat 1)) (stream_frames max RIdle (b_in s) (b_eof s))
                  (b_now s) (b_dl s) (b_ka s) (b_nka s) (b_nnow s)) as [tr1 r1].
      destruct (ka_loop2 cfg e (S (length (b_in s))) false loc (Some (b_now s + Z.max lat 1)) s) as [tr2 r2].
      destruct Hk as [Htr Hres]. cbn [fst snd] in Htr, Hres. subst tr2.
      destruct r1 as [vs1 s1|s1|o1]; destruct r2 as [[[vs2 s2]|s2]|u2]; try contradiction.
      + reflexivity.
      + destruct Hres as (-> & Hat2). f_equal. f_equal. apply IH. exact Hat2.
      + reflexivity.
    - (* Call *)
      cbn [exec2 exec]. cbn [abs s_now]. destruct (e_res e c) as [r lat]. f_equal. f_equal.
      rewrite IH; [reflexivity | exact Hat].
    - cbn [exec2 exec]. f_equal. apply IH. exact Hat.
    - cbn [exec2 exec]. f_equal. apply IH. exact Hat.
    - cbn [exec2 exec]. destruct w; cbn [abs s_now s_nka]; f_equal; apply IH; exact Hat.
    - cbn [exec2 exec]. cbn [abs s_now s_nnow]. f_equal. rewrite IH; [reflexivity | exact Hat].
  Qed.
End Read.

(* ------------------------------------------------------------------------------------ *)
(* Part 7: whole runs                                                                     *)
(* ------------------------------------------------------------------------------------ *)
Lemma abs_init (max : Z) (s : segs) : abs max (init2 s) = init1 (frames_of max s).
Proof.
  unfold init2, frames_of. rewrite frames_stream. destruct (bytes_of_segs s) as [l eo]. reflexivity.
Qed.

(* stream form: every frame arrives at one instant (it may span segments of equal time) *)
Theorem refines_astream (o : oracles) (cfg : conn_cfg) (e : env) (s : segs) :
  astream (cf_max_len cfg) (fst (bytes_of_segs s)) = true ->
  run2 o cfg e s = run1 o cfg e (frames_of (cf_max_len cfg) s).
Proof.
  intros H. unfold run2, run1. rewrite <- abs_init. apply exec_refines.
  unfold init2. destruct (bytes_of_segs s) as [l eo]. exact H.
Qed.

Theorem refines_atomic (o : oracles) (cfg : conn_cfg) (e : env) (s : segs) :
  atomic (cf_max_len cfg) s = true ->
  run2 o cfg e s = run1 o cfg e (frames_of (cf_max_len cfg) s).
Proof. intros H. apply refines_astream. apply atomic_astream. exact H. Qed.

(* ------------------------------------------------------------------------------------ *)
(* Part 8: every frame is consumed at most once, in order (M1, transferred to M2)         *)
(* ------------------------------------------------------------------------------------ *)
Lemma recvs_app a b : recvs (a ++ b) = recvs a ++ recvs b.
Proof.
  induction a as [|[t ev] a IH]; [reflexivity|]. destruct ev; cbn [app recvs]; rewrite ?IH; reflexivity.
Qed.

Lemma is_prefix_nil b : is_prefix [] b.
Proof. destruct b; exact I. Qed.

Lemma is_prefix_app a : forall b c, is_prefix b c -> is_prefix (a ++ b) (a ++ c).
Proof. induction a as [|x a IH]; intros b c H; [exact H|]. cbn [app is_prefix]. split; [reflexivity | apply IH; exact H]. Qed.

Lemma is_prefix_app_nil a c : is_prefix a (a ++ c).
Proof. rewrite <- (app_nil_r a) at 1. apply is_prefix_app. apply is_prefix_nil. Qed.

Section Once.
  Variable cfg : conn_cfg.
  Variable e : env.

  Lemma tick_at_recvs loc tt dl ka nka : recvs (fst (tick_at e loc tt dl ka nka)) = [].
  Proof.
    unfold tick_at. destruct ka; [destruct (fst (e_res e (CLocalize loc key_timeout))); reflexivity | reflexivity].
  Qed.

  Lemma ticks_until_recvs loc now dl ka nka t : recvs (fst (ticks_until e loc now dl ka nka t)) = [].
  Proof.
    unfold ticks_until. destruct (t <? dl); [reflexivity|].
    pose proof (tick_at_recvs loc (Z.max dl now) dl ka nka) as H1.
    destruct (tick_at e loc (Z.max dl now) dl ka nka) as [tr1 [[[dl1 ka1] nka1]|]]; cbn [fst] in *; [|exact H1].
    destruct (t <? dl1); [exact H1|].
    pose proof (tick_at_recvs loc dl1 dl1 ka1 nka1) as H2.
    destruct (tick_at e loc dl1 dl1 ka1 nka1) as [tr2 [x|]]; cbn [fst] in *; rewrite recvs_app, H1, H2; reflexivity.
  Qed.

  Lemma ka_loop_recvs info loc hz : forall ib now dl ka nka nnow,
    match ka_loop cfg e info loc hz ib now dl ka nka nnow with
    | (tr, KGot _ s') => in_frames ib = recvs tr ++ in_frames (s_in s')
    | (tr, KDone s') => in_frames ib = recvs tr ++ in_frames (s_in s')
    | (tr, KEnd _) => is_prefix (recvs tr) (in_frames ib)
    end.
  Proof.
    induction ib as [|[t ev] rest IH]; intros now dl ka nka nnow.
    - destruct hz as [h|].
      + rewrite ka_loop_nil_some. pose proof (ticks_until_recvs loc now dl ka nka (h - 1)) as Ht.
        destruct (ticks_until e loc now dl ka nka (h - 1)) as [tr [[[dl' ka'] nka']|]]; cbn [fst] in Ht; rewrite Ht;
          [reflexivity | exact I].
      + rewrite ka_loop_nil_none. pose proof (ticks_until_recvs loc now dl ka nka (Z.max now dl + 2 * P)) as Ht.
        destruct (ticks_until e loc now dl ka nka (Z.max now dl + 2 * P)) as [tr [x|]]; cbn [fst] in Ht;
          rewrite ?recvs_app, Ht; exact I.
    - rewrite ka_loop_cons.
      destruct (match hz with Some h => h <=? Z.max t now | None => false end).
      + destruct hz as [h|]; [|exact I].
        pose proof (ticks_until_recvs loc now dl ka nka (h - 1)) as Ht.
        destruct (ticks_until e loc now dl ka nka (h - 1)) as [tr [[[dl' ka'] nka']|]]; cbn [fst] in Ht; rewrite Ht;
          [reflexivity | apply is_prefix_nil].
      + pose proof (ticks_until_recvs loc now dl ka nka (Z.max t now)) as Ht.
        destruct (ticks_until e loc now dl ka nka (Z.max t now)) as [tr [[[dl' ka'] nka']|]]; cbn [fst] in Ht;
          [|rewrite Ht; apply is_prefix_nil].
        destruct ev as [id body| |].
        * cbn [in_frames]. destruct (conf_frame cfg info ka' id body) as [ka''|vs|o].
          -- specialize (IH (Z.max t now) dl' ka'' nka' nnow).
             destruct (ka_loop cfg e info loc hz rest (Z.max t now) dl' ka'' nka' nnow) as [tr2 [vs s'|s'|o]];
               rewrite recvs_app, Ht; cbn [app recvs].
             ++ rewrite IH. reflexivity.
             ++ rewrite IH. reflexivity.
             ++ split; [reflexivity | exact IH].
          -- rewrite recvs_app, Ht. reflexivity.
          -- rewrite recvs_app, Ht. cbn [app recvs is_prefix]. split; [reflexivity | exact I].
        * rewrite recvs_app, Ht. apply is_prefix_nil.
        * rewrite recvs_app, Ht. apply is_prefix_nil.
  Qed.

  Theorem exec_recvs : forall p s, is_prefix (recvs (exec cfg e p s)) (in_frames (s_in s)).
  Proof.
    induction p as [o|k IH|loc k IH|loc c k IH|c k IH|pk vs k IH|ss k IH|w k IH|k IH]; intros s; cbn [exec].
    - apply is_prefix_nil.
    - unfold next_frame. destruct (s_in s) as [|[t ev] rest] eqn:Hin; [apply is_prefix_nil|].
      destruct ev as [id body| |]; [|apply is_prefix_nil|apply is_prefix_nil].
      cbn [in_frames]. destruct (negb (len_ok cfg id body)).
      + cbn [recvs is_prefix]. split; [reflexivity | exact I].
      + cbn [recvs is_prefix]. split; [reflexivity|].
        match goal with |- is_prefix (recvs (exec cfg e _ ?s')) _ => specialize (IH id body s') end. exact IH.
    - pose proof (ka_loop_recvs true loc None (s_in s) (s_now s) (s_dl s) (s_ka s) (s_nka s) (s_nnow s)) as Hk.
      destruct (ka_loop cfg e true loc None (s_in s) (s_now s) (s_dl s) (s_ka s) (s_nka s) (s_nnow s)) as [tr [vs s'|s'|o]].
      + rewrite recvs_app, Hk. apply is_prefix_app. apply IH.
      + rewrite recvs_app, Hk. apply is_prefix_app. apply is_prefix_nil.
      + exact Hk.
    - destruct (e_res e c) as [r lat].
      pose proof (ka_loop_recvs false loc (Some (s_now s + Z.max lat 1)) (s_in s) (s_now s) (s_dl s) (s_ka s) (s_nka s) (s_nnow s)) as Hk.
      destruct (ka_loop cfg e false loc (Some (s_now s + Z.max lat 1)) (s_in s) (s_now s) (s_dl s) (s_ka s) (s_nka s) (s_nnow s))
        as [tr [vs s'|s'|o]].
      + cbn [recvs]. rewrite Hk. apply is_prefix_app_nil.
      + cbn [app recvs]. rewrite recvs_app, Hk. apply is_prefix_app. cbn [recvs]. apply IH.
      + cbn [recvs]. exact Hk.
    - destruct (e_res e c) as [r lat]. cbn [recvs]. apply (IH r (set_now s (s_now s + Z.max lat 0))).
    - cbn [recvs]. apply IH.
    - cbn [recvs]. apply IH.
    - destruct w; cbn [recvs]; apply IH.
    - cbn [recvs].
      match goal with |- is_prefix (recvs (exec cfg e _ ?s')) _ => specialize (IH (e_now e (s_nnow s)) s') end. exact IH.
  Qed.
End Once.

(* on a frame-atomic schedule, the frames the byte-level handler consumes are a prefix of the
   frames the reader cuts out of the byte stream: each at most once, in order, complete *)
Theorem each_frame_once (o : oracles) (cfg : conn_cfg) (e : env) (s : segs) :
  atomic (cf_max_len cfg) s = true ->
  is_prefix (recvs (run2 o cfg e s)) (in_frames (frames_of (cf_max_len cfg) s)).
Proof.
  intros H. rewrite (refines_atomic o cfg e s H). unfold run1.
  apply (exec_recvs cfg e (listen o cfg) (init1 (frames_of (cf_max_len cfg) s))).
Qed.

(* every property of frame-level runs holds of byte-level runs on frame-atomic schedules *)
Theorem transfer_atomic (Q : trace -> Prop) (o : oracles) (cfg : conn_cfg) (e : env) :
  (forall ib, Q (run1 o cfg e ib)) ->
  forall s, atomic (cf_max_len cfg) s = true -> Q (run2 o cfg e s).
Proof. intros HQ s H. rewrite (refines_atomic o cfg e s H). apply HQ. Qed.

Print Assumptions refines_atomic.
Print Assumptions each_frame_once.
