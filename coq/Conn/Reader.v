(* Byte-level model of Connection::receive_packet's framing (after the framing repair):
   VarInt length (at most 5 bytes, checked against 0 < len <= max BEFORE anything else is
   read), then exactly `len` bytes: the packet id VarInt followed by the body.
   The reader is a state machine fed one byte at a time; [frames_of] turns a timed,
   arbitrarily segmented byte stream into the frame-level inbox of Conn/Sem1.v.
   Definitions only. *)
From Passage Require Import Lib.Bytes Codec.VarInt Conn.Types Conn.Sem1.

Inductive rst :=
| RIdle
| RLen (k : nat) (acc : Z)        (* k in 1..4 bytes of the length prefix consumed *)
| RFrame (len : Z) (got : bytes)  (* a valid length; [got] = bytes of the frame so far, oldest first *)
| RDead.                           (* a framing error was reported; nothing more is read *)

Inductive rev := EvFrame (id : Z) (body : bytes) | EvBadLen | EvBadId.

(* a complete frame: split off the id VarInt; an id that runs past the frame is an
   UnexpectedEof inside the `take(len)` reader *)
Definition split_frame (frame : bytes) : rev :=
  match rd_var 5 0 0 frame with
  | Ok raw body => EvFrame (wrap32 raw) body
  | Er _ => EvBadId
  end.

Definition len_done (max acc : Z) : rst * list rev :=
  let len := wrap32 acc in
  if (len <=? 0) || (max <? len) then (RDead, [EvBadLen]) else (RFrame len [], []).

Definition feed_byte (max : Z) (st : rst) (b : Z) : rst * list rev :=
  match st with
  | RDead => (RDead, [])
  | RIdle =>
      let acc := b mod 128 in
      if b <? 128 then len_done max acc else (RLen 1 acc, [])
  | RLen k acc =>
      let acc' := acc + (b mod 128) * 2 ^ (7 * Z.of_nat k) in
      if (b <? 128) || (4 <=? k)%nat then len_done max acc' else (RLen (S k) acc', [])
  | RFrame len got =>
      let got' := got ++ [b] in
      if Z.of_nat (length got') =? len then (RIdle, [split_frame got']) else (RFrame len got', [])
  end.

Fixpoint feed (max : Z) (st : rst) (bs : bytes) : rst * list rev :=
  match bs with
  | [] => (st, [])
  | b :: r => let (st1, e1) := feed_byte max st b in
              let (st2, e2) := feed max st1 r in (st2, e1 ++ e2)
  end.

(* timed segments; None = end of stream *)
Definition segs := list (Z * option bytes).

Definition ev_in (t : Z) (e : rev) : Z * inev :=
  match e with
  | EvFrame id body => (t, IFrame id body)
  | EvBadLen => (t, IBadLen)
  | EvBadId => (t, IEof)          (* same outcome as a closed stream: ConnectionClosed *)
  end.

(* end of stream inside a frame: `take(len).read_to_end` returns what there is, so a frame
   whose id is complete is handed on with a short body; then the stream is closed *)
Definition eof_events (st : rst) : list rev :=
  match st with
  | RFrame _ got => match rd_var 5 0 0 got with
                    | Ok raw body => [EvFrame (wrap32 raw) body]
                    | Er _ => []
                    end
  | _ => []
  end.

Fixpoint frames_from (max : Z) (st : rst) (s : segs) : inbox :=
  match s with
  | [] => []
  | (t, None) :: _ => map (ev_in t) (eof_events st) ++ [(t, IEof)]
  | (t, Some bs) :: r =>
      let (st', evs) := feed max st bs in
      map (ev_in t) evs ++ frames_from max st' r
  end.
Definition frames_of (max : Z) (s : segs) : inbox := frames_from max RIdle s.

(* how many bytes the reader holds *)
Definition buffered (st : rst) : Z :=
  match st with RFrame _ got => Z.of_nat (length got) | RLen k _ => Z.of_nat k | _ => 0 end.
