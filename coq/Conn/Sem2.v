(* M2: byte-level semantics of the connection program.  Input = timed bytes; writes are atomic
   (the write side is Conn/SendQueue.v).

   receive_packet, as repaired: the bytes of the frame being received live in the CONNECTION
   (`inbound`), not in a future.  One loop:
       loop { if the frame in `inbound` is complete { break }
              select! { biased; tick => (keep-alive work | continue),
                        read   => append what arrived (never beyond the frame) } }
   so a keep-alive tick is served at the moment it is due even in the middle of a frame, and when
   the outer select! of `listen` drops the keep_alive() future (the raced adapter call completed)
   the partly received frame stays where it is: the next read continues it.  The reader state is
   exactly that of Conn/Reader.v (b_rd).

   Definitions only.  The frame-level model M1 (Sem1.v) applied to the reader's output is proved
   equal to M2 for every schedule in Conn/Refine2Proofs.v. *)
From Passage Require Import Lib.Bytes Codec.VarInt Codec.Desc Gen.PacketsGen Gen.ConstsGen
  Codec.PacketCheck Conn.Types Conn.Prog Conn.Sem1 Conn.Reader.

Definition bstream := list (Z * Z).            (* (arrival time ms, byte) *)

Record st2 := {
  b_now : Z; b_dl : Z; b_ka : option Z;
  b_in : bstream; b_eof : option Z;             (* end of stream after the last byte, at that time *)
  b_nka : nat; b_nnow : nat;
  b_rd : rst }.                                 (* the frame being received: Connection::inbound *)

(* how a frame read ends *)
Inductive rres :=
| RGot (id : Z) (body : bytes) (s : st2)       (* a complete (or, at end of stream, short) frame *)
| RCut (s : st2)                               (* the raced adapter call completed: the wait was dropped *)
| REnd (fin : trace).                          (* the connection ends; [fin] = the closing events not yet emitted *)

Section Sem2.
  Variable cfg : conn_cfg.
  Variable e : env.

  Definition upd (s : st2) now dl ka inp nka rd : st2 :=
    {| b_now := now; b_dl := dl; b_ka := ka; b_in := inp; b_eof := b_eof s; b_nka := nka; b_nnow := b_nnow s; b_rd := rd |}.

  (* keep-alive mode of a wait: None = receive_packet(false); Some locale = keep-alive on *)
  Definition kamode := option (option bytes).

  (* one loop of receive_packet; the fuel bounds the iterations (ticks and bytes) *)
  Fixpoint read_frame_f (fuel : nat) (m : kamode) (hz : option Z) (s : st2) : trace * rres :=
    match fuel with
    | O => ([], REnd [(b_now s, TEnd OHang)])
    | S f =>
        (* the next thing the stream can do: a byte, the end of stream, or nothing *)
        let tin := match b_in s, b_eof s with
                   | (t, _) :: _, _ => Some (Z.max t (b_now s))
                   | [], Some te => Some (Z.max te (b_now s))
                   | [], None => None
                   end in
        let tt := Z.max (b_dl s) (b_now s) in
        let horizon_first :=
          match hz with
          | Some h => (match tin with Some t => h <=? t | None => true end) && (h <=? tt)
          | None => false
          end in
        let tick_first := match tin with Some t => tt <=? t | None => true end in
        if horizon_first then
          ([], match hz with
               | Some h => RCut (upd s (Z.max h (b_now s)) (b_dl s) (b_ka s) (b_in s) (b_nka s) (b_rd s))
               | None => RCut s end)
        else if tick_first then
          match m with
          | None =>
              (* receive_packet(false): ticks are taken and ignored; what was received stays *)
              match tin with
              | None => ([], REnd [(b_now s, TEnd OHang)])
              | Some t => read_frame_f f m hz (upd s (b_now s) (skip_ticks (b_dl s) (b_now s) t) (b_ka s) (b_in s) (b_nka s) (b_rd s))
              end
          | Some loc =>
              match tick_at e loc tt (b_dl s) (b_ka s) (b_nka s) with
              | (tr, None) => (tr, REnd [])
              | (tr, Some (dl', ka', nka')) =>
                  let (tr2, r) := read_frame_f f m hz (upd s tt dl' ka' (b_in s) nka' (b_rd s)) in
                  (tr ++ tr2, r)
              end
          end
        else
          match b_in s with
          | (t, b) :: rest =>
              let t' := Z.max t (b_now s) in
              match feed_byte (cf_max_len cfg) (b_rd s) b with
              | (rd', []) => read_frame_f f m hz (upd s t' (b_dl s) (b_ka s) rest (b_nka s) rd')
              | (rd', EvFrame id body :: _) => ([], RGot id body (upd s t' (b_dl s) (b_ka s) rest (b_nka s) rd'))
              | (_, EvBadLen :: _) => ([], REnd [(t', TEnd (OErr KIllegalLen))])
              | (_, EvBadId :: _) => ([], REnd [(t', TEnd (OErr KClosed))])
              end
          | [] =>
              (* end of stream: what there is of the frame is handed on if its id is complete *)
              let t' := match b_eof s with Some te => Z.max te (b_now s) | None => b_now s end in
              match eof_events (b_rd s) with
              | EvFrame id body :: _ => ([], RGot id body (upd s t' (b_dl s) (b_ka s) [] (b_nka s) RIdle))
              | _ => ([], REnd [(t', TEnd (OErr KClosed))])
              end
          end
    end.

  Definition fuel_of (s : st2) : nat := (3 * length (b_in s) + 12)%nat.

  Definition read_frame (m : kamode) (hz : option Z) (s : st2) : trace * rres :=
    read_frame_f (fuel_of s) m hz s.

  (* the keep-alive loop over frames read at byte level *)
  Fixpoint ka_loop2 (fuel : nat) (info : bool) (loc : option bytes) (hz : option Z) (s : st2)
    : trace * (list fv * st2 + st2 + unit) :=
    match fuel with
    | O => ([(b_now s, TEnd OHang)], inr tt)
    | S f =>
        match read_frame (Some loc) hz s with
        | (tr, REnd fin) => (tr ++ fin, inr tt)
        | (tr, RCut s') => (tr, inl (inr s'))
        | (tr, RGot id body s') =>
            match conf_frame cfg info (b_ka s') id body with
            | FEnd o => (tr ++ [(b_now s', TRecv id body); (b_now s', TEnd o)], inr tt)
            | FInfo vs => (tr ++ [(b_now s', TRecv id body)], inl (inl (vs, s')))
            | FCont ka'' =>
                let (tr2, r) := ka_loop2 f info loc hz (upd s' (b_now s') (b_dl s') ka'' (b_in s') (b_nka s') (b_rd s')) in
                (tr ++ (b_now s', TRecv id body) :: tr2, r)
            end
        end
    end.

  Fixpoint exec2 (p : prog) (s : st2) {struct p} : trace :=
    match p with
    | Ret o => [(b_now s, TEnd o)]
    | Expect k =>
        match read_frame None None s with
        | (tr, REnd fin) => tr ++ fin
        | (tr, RCut s') => tr ++ [(b_now s', TEnd OHang)]
        | (tr, RGot id body s') =>
            if negb (len_ok cfg id body) then tr ++ [(b_now s', TRecv id body); (b_now s', TEnd (OErr KIllegalLen))]
            else tr ++ (b_now s', TRecv id body) :: exec2 (k id body) s'
        end
    | WaitInfo loc k =>
        match ka_loop2 (length (b_in s) + 3) true loc None s with
        | (tr, inl (inl (vs, s'))) => tr ++ exec2 (k vs) s'
        | (tr, inl (inr s')) => tr ++ [(b_now s', TEnd OHang)]
        | (tr, inr _) => tr
        end
    | Race loc c k =>
        let (r, lat) := e_res e c in
        let h := b_now s + Z.max lat 1 in
        match ka_loop2 (length (b_in s) + 3) false loc (Some h) s with
        | (tr, inl (inr s')) => ((b_now s, TCall c) :: tr) ++ (h, TRes c r) :: exec2 (k r) s'
        | (tr, inl (inl _)) => (b_now s, TCall c) :: tr
        | (tr, inr _) => (b_now s, TCall c) :: tr
        end
    | Call c k =>
        let (r, lat) := e_res e c in
        let t := b_now s + Z.max lat 0 in
        (b_now s, TCall c) :: (t, TRes c r) :: exec2 (k r) (upd s t (b_dl s) (b_ka s) (b_in s) (b_nka s) (b_rd s))
    | Send pk vs k => (b_now s, TSend pk vs) :: exec2 k s
    | EncOn ss k => (b_now s, TEnc ss) :: exec2 k s
    | Fresh w k =>
        match w with
        | RKeepAlive => let v := e_fresh e w (b_nka s) in (b_now s, TFresh w v) :: exec2 (k v) s
        | _ => let v := e_fresh e w 0%nat in (b_now s, TFresh w v) :: exec2 (k v) s
        end
    | Now k =>
        let n := e_now e (b_nnow s) in
        (b_now s, TNow n) :: exec2 (k n) {| b_now := b_now s; b_dl := b_dl s; b_ka := b_ka s; b_in := b_in s;
                                            b_eof := b_eof s; b_nka := b_nka s; b_nnow := S (b_nnow s); b_rd := b_rd s |}
    end.
End Sem2.

Fixpoint bytes_of_segs (s : list (Z * option bytes)) : bstream * option Z :=
  match s with
  | [] => ([], None)
  | (t, None) :: _ => ([], Some t)
  | (t, Some bs) :: r => let (l, eo) := bytes_of_segs r in (map (fun b => (t, b)) bs ++ l, eo)
  end.

Definition init2 (s : list (Z * option bytes)) : st2 :=
  let (l, eo) := bytes_of_segs s in
  {| b_now := 0; b_dl := 0; b_ka := None; b_in := l; b_eof := eo; b_nka := 0; b_nnow := 0; b_rd := RIdle |}.

Definition run2 (o : oracles) (cfg : conn_cfg) (e : env) (s : list (Z * option bytes)) : trace :=
  exec2 cfg e (listen o cfg) (init2 s).
