(* The static walks over [listen] for the property monitors: each monitor accepts every M1
   trace of the handler, for every configuration, oracle behaviour, environment, inbox and
   timing. *)
From Passage Require Import Lib.Bytes Codec.VarInt Codec.Desc Codec.NoPanic Gen.PacketsGen Gen.ConstsGen
  Codec.PacketCheck Crypto.Cookie Conn.Types Conn.Prog Conn.Sem1 Conn.Monitor Conn.MonitorProofs
  Conn.Order Conn.OrderProofs Conn.Checks.

Lemma sa_eqb_refl a : sa_eqb a a = true.
Proof. unfold sa_eqb. rewrite beq_refl, Z.eqb_refl. reflexivity. Qed.
Lemma meta_eqb_refl m : meta_eqb m m = true.
Proof. induction m as [|[k v] m IH]; cbn; [reflexivity|]. rewrite !beq_refl, IH. reflexivity. Qed.
Lemma target_eqb_refl t : target_eqb t t = true.
Proof. unfold target_eqb. rewrite beq_refl, sa_eqb_refl, meta_eqb_refl. reflexivity. Qed.
Lemma targets_eqb_refl ts : targets_eqb ts ts = true.
Proof. induction ts as [|t ts IH]; cbn; [reflexivity|]. rewrite target_eqb_refl, IH. reflexivity. Qed.
Lemma obytes_eq_refl a : obytes_eq a a = true.
Proof. destruct a; cbn; [apply beq_refl | reflexivity]. Qed.
Lemma eqb_refl_bool b : Bool.eqb b b = true.
Proof. destruct b; reflexivity. Qed.

Ltac solve_errs2 :=
  let o := fresh "o" in let Ho := fresh "Ho" in let Hp := fresh "Hp" in
  intros o Ho Hp; destruct o as [|?k|]; [congruence | destruct k; cbn; first [discriminate | congruence] | cbn; discriminate].

Ltac norm_hyps :=
  repeat match goal with
  | H : negb _ = false |- _ => apply negb_false_iff in H
  | H : negb _ = true |- _ => apply negb_true_iff in H
  | H : _ || _ = false |- _ => apply orb_false_iff in H; destruct H
  | H : _ || _ = true |- _ => apply orb_true_iff in H; destruct H
  | H : _ && _ = true |- _ => apply andb_true_iff in H; destruct H
  end.

Ltac use_hyps :=
  match goal with
  | H : ?t = _ |- context [?t] => first [ is_var t; fail 1 | is_constructor t; fail 1 | rewrite H ]
  end.

Ltac absurd_hyp :=
  match goal with
  | H : false = true |- _ => discriminate H
  | H : true = false |- _ => discriminate H
  | H : Some _ = None |- _ => discriminate H
  | H : None = Some _ |- _ => discriminate H
  end.

Ltac refl_rw :=
  rewrite ?beq_refl, ?Z.eqb_refl, ?sa_eqb_refl, ?targets_eqb_refl, ?obytes_eq_refl, ?eqb_refl_bool.

(* the innermost undecided scrutinee inside [x] *)
Ltac innermost x :=
  lazymatch x with
  | context [match ?y with _ => _ end] => innermost y
  | _ => x
  end.

Ltac cwalk_step :=
  first
  [ absurd_hyp
  | no_panic
  | progress cbn
  | match goal with
    | He : internal _ ?e = true |- step_with _ _ ?e = Some _ =>
        unfold step_with, internal_at; cbn [q Z.eqb Pos.eqb andb orb]; rewrite He; reflexivity
    end
  | progress unfold ok
  | progress unfold cookie_accepted, token_verified, identity, user_is, expected_auth_cookie, hs_fields, claimed,
      session_payload, auth_payload, enc_response, reported_locale, session_absent, dec_of
  | progress norm_hyps
  | use_hyps
  | progress refl_rw
  | match goal with |- context [err_kind ?e] => is_var e; destruct e end
  | match goal with |- context [if (?a =? ?b) then _ else _] => destruct (a =? b) eqn:? end
  | match goal with |- context [match dec ?a ?b ?c ?d with _ => _ end] => destruct (dec a b c d) eqn:? end
  | match goal with
    | |- True => exact I
    | |- False => solve [ first [ lia | congruence ] ]
    | |- None <> None => solve [ exfalso; first [ lia | congruence ] ]
    | |- _ /\ _ => split
    | |- forall _, _ => intro
    | |- Some _ <> None => discriminate
    | |- errs_ok _ _ => solve_errs2
    | |- ka_inv _ _ _ _ => unfold ka_inv; split; [|split]
    | |- context [match ?x with _ => _ end] =>
        let y := innermost x in first [ is_var y; destruct y | destruct y eqn:? ]
    end
  | solve [ exfalso; first [ lia | congruence ] ] ].

Ltac cwalk := cbn; repeat cwalk_step.

Ltac start o cfg :=
  intros o cfg; unfold listen, transfer_phase, routing, expect_pkt, dec_pkt, bad, client.

