(* static walk for the timed keep-alive monitor (C07): the whole handler, from the first
   byte, is [tsafe] in the phase "Login Success not sent yet" *)
From Passage Require Import Lib.Bytes Codec.VarInt Codec.Desc Gen.PacketsGen Gen.ConstsGen
  Codec.PacketCheck Crypto.Cookie Conn.Types Conn.Prog Conn.Sem1 Conn.Monitor Conn.KeepAlive
  Conn.KeepAliveProofs Conn.KeepAliveWhole Conn.KeepAliveWholeProofs.

Ltac innermost x :=
  lazymatch x with
  | context [match ?y with _ => _ end] => innermost y
  | _ => x
  end.

Ltac twalk_step :=
  first
  [ progress cbn [tsafe gsafe]
  | match goal with
    | |- True => exact I
    | |- _ /\ _ => split
    | |- forall _, _ => intro
    | |- _ <> _ => discriminate
    | |- context [is_ls ?p] => let v := eval vm_compute in (is_ls p) in change (is_ls p) with v; cbv iota
    | |- is_ka ?p = false => vm_compute; reflexivity
    | |- timeout_call ?c = false => first [ reflexivity | vm_compute; reflexivity ]
    | |- context [is_select ?c] => let v := eval cbv in (is_select c) in change (is_select c) with v; cbv iota
    | |- context [match ?x with _ => _ end] =>
        let y := innermost x in first [ is_var y; destruct y | destruct y eqn:? ]
    end ].

Ltac twalk := repeat twalk_step.

Theorem listen_tsafe : forall o cfg, tsafe KPre (listen o cfg).
Proof.
  intros o cfg; unfold listen, transfer_phase, routing, expect_pkt, dec_pkt, bad, client.
  Time twalk.
Qed.

Theorem run1_c07_whole : forall o cfg e ib, c07_from_config (run1 o cfg e ib) = true.
Proof. intros. unfold run1. apply tsafe_whole. apply listen_tsafe. Qed.

(* the gap monitor ("a Keep Alive at least every P while routing runs") *)
Theorem listen_gsafe : forall o cfg, gsafe GPre (listen o cfg).
Proof.
  intros o cfg; unfold listen, transfer_phase, routing, expect_pkt, dec_pkt, bad, client.
  Time twalk.
Qed.

Theorem run1_c07_gap : forall o cfg e ib, c07g_from_config (run1 o cfg e ib) = true.
Proof. intros. unfold run1. apply gsafe_whole. apply listen_gsafe. Qed.

(* in plain terms: between Login Acknowledged (consumed at t1) and any later event at T that
   is not preceded by the answer of the selection adapter - in particular that answer itself -
   the instants at which Keep Alives were sent cover [t1, T] in steps of at most P *)
Theorem run1_keepalive_every_period : forall o cfg e ib pre t pk vs t1 id body mid T ev post,
  run1 o cfg e ib = pre ++ (t, TSend pk vs) :: (t1, TRecv id body) :: mid ++ (T, ev) :: post ->
  no_ls pre = true -> is_ls pk = true -> no_select_res mid = true ->
  covered t1 (ka_send_times mid) T.
Proof.
  intros o cfg e ib pre t pk vs t1 id body mid T ev post Heq Hpre Hls Hmid.
  pose proof (run1_c07_gap o cfg e ib) as H. rewrite Heq in H.
  apply c07g_from_config_split in H; [|exact Hpre|exact Hls].
  eapply c07g_covered; [exact Hmid | exact H].
Qed.
