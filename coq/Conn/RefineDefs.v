(* C08, refinement M2 -> M1: the schedules on which the byte-level semantics (Conn/Sem2.v)
   equals the frame-level semantics (Conn/Sem1.v) applied to the reader's output.
   Definitions only (decidable predicates on schedules + the abstraction function). *)
From Passage Require Import Lib.Bytes Codec.VarInt Codec.Desc Gen.PacketsGen Conn.Types Conn.Prog Conn.Sem1 Conn.Sem2 Conn.Reader
  Conn.Sem2Witness.

(* ---- frame-atomic schedules: every data segment is a concatenation of whole frames ----
   Feeding a segment to the reader from RIdle ends in RIdle (whole frames only) or in RDead
   (a refused length prefix: nothing after it is ever read).  Segments after the end of
   stream are ignored by both semantics. *)
Fixpoint atomic (max : Z) (s : segs) : bool :=
  match s with
  | [] => true
  | (_, None) :: _ => true
  | (_, Some bs) :: r =>
      match fst (feed max RIdle bs) with
      | RIdle => atomic max r
      | RDead => true
      | _ => false
      end
  end.

(* non-decreasing segment times (NOT needed by the refinement theorem; both semantics clamp
   arrival times to the handler's clock) *)
Fixpoint sorted_from (t0 : Z) (s : segs) : bool :=
  match s with
  | [] => true
  | (t, _) :: r => (t0 <=? t) && sorted_from t r
  end.
Definition sorted (s : segs) : bool := match s with [] => true | (t, _) :: _ => sorted_from t s end.

(* ---- the same notion on the flattened timed byte stream (weaker: a frame may span several
   segments as long as all its bytes carry one timestamp) ----
   [atomic_s max st tc l]: the reader is in state [st]; if it is inside a frame, the bytes
   of that frame read so far arrived at [tc]; every frame of [l] arrives at one instant and
   [l] ends at a frame boundary. *)
Fixpoint atomic_s (max : Z) (st : rst) (tc : Z) (l : bstream) : bool :=
  match l with
  | [] => match st with RIdle | RDead => true | _ => false end
  | (t, b) :: r =>
      match st with
      | RDead => true
      | RIdle => atomic_s max (fst (feed_byte max RIdle b)) t r
      | _ => (t =? tc) && atomic_s max (fst (feed_byte max st b)) tc r
      end
  end.
Definition astream (max : Z) (l : bstream) : bool := atomic_s max RIdle 0 l.

(* the reader's frame-level output for a timed byte stream *)
Fixpoint stream_frames (max : Z) (st : rst) (l : bstream) (eof : option Z) : inbox :=
  match l with
  | [] => match eof with
          | Some t => map (ev_in t) (eof_events st) ++ [(t, IEof)]
          | None => []
          end
  | (t, b) :: r =>
      let (st', evs) := feed_byte max st b in
      map (ev_in t) evs ++ stream_frames max st' r eof
  end.

(* first event the reader produces on [l] from state [st], and the rest of the stream *)
Fixpoint pop (max : Z) (st : rst) (l : bstream) : option (rev * bstream) :=
  match l with
  | [] => None
  | (_, b) :: r =>
      match feed_byte max st b with
      | (st', []) => pop max st' r
      | (_, ev :: _) => Some (ev, r)
      end
  end.

(* the frame-level state seen through the reader *)
Definition abs (max : Z) (s : st2) : st1 :=
  {| s_now := b_now s; s_dl := b_dl s; s_ka := b_ka s;
     s_in := stream_frames max RIdle (b_in s) (b_eof s);
     s_nka := b_nka s; s_nnow := b_nnow s |}.

(* the TRecv events of a trace, in order *)
Fixpoint recvs (tr : trace) : list (Z * bytes) :=
  match tr with
  | [] => []
  | (_, TRecv id body) :: r => (id, body) :: recvs r
  | _ :: r => recvs r
  end.
Fixpoint in_frames (ib : inbox) : list (Z * bytes) :=
  match ib with
  | [] => []
  | (_, IFrame id body) :: r => (id, body) :: in_frames r
  | _ :: r => in_frames r
  end.
Fixpoint is_prefix (a b : list (Z * bytes)) : Prop :=
  match a, b with
  | [], _ => True
  | x :: a', y :: b' => x = y /\ is_prefix a' b'
  | _ :: _, [] => False
  end.

(* ---- calm schedules: arbitrary segmentation, but no tick deadline and no completion of a
   raced adapter call inside the time span of a frame ----
   Deadlines of the keep-alive interval always lie on the grid of multiples of P (the first
   deadline is 0; Interval::poll_tick with MissedTickBehavior::Skip re-aligns to the grid), so
   "no deadline inside the span" is implied by: the first and the last byte of the frame
   arrive in the same grid cell.  The race horizons are those of the frame-level run. *)

(* [calm_s max st t0 tp l]: reader state [st]; inside a frame, its first byte arrived at [t0]
   and its latest byte at [tp]; within every frame of [l] the times are non-decreasing and stay
   in one grid cell; [l] ends at a frame boundary (or after a refused length) *)
Fixpoint calm_s (max : Z) (st : rst) (t0 tp : Z) (l : bstream) : bool :=
  match l with
  | [] => match st with RIdle | RDead => true | _ => false end
  | (t, b) :: r =>
      match st with
      | RDead => true
      | RIdle => calm_s max (fst (feed_byte max RIdle b)) t t r
      | _ => (tp <=? t) && (t0 / P =? t / P) && calm_s max (fst (feed_byte max st b)) t0 t r
      end
  end.

(* (arrival of the first byte, arrival of the last byte) of every frame of the stream *)
Fixpoint spans (max : Z) (st : rst) (t0 : Z) (l : bstream) : list (Z * Z) :=
  match l with
  | [] => []
  | (t, b) :: r =>
      let t0' := match st with RIdle => t | _ => t0 end in
      match feed_byte max st b with
      | (st', []) => spans max st' t0' r
      | (st', _ :: _) => (t0', t) :: spans max st' t0' r
      end
  end.

(* the instants at which adapter calls complete in a trace *)
Fixpoint res_times (tr : trace) : list Z :=
  match tr with
  | [] => []
  | (t, TRes _ _) :: r => t :: res_times r
  | _ :: r => res_times r
  end.

(* the race horizons of the frame-level run: the instants at which the raced adapter calls
   (select!{ keep_alive(), adapter }) complete.  Mirrors the skeleton of [exec]. *)
Section Horizons.
  Variable cfg : conn_cfg.
  Variable e : env.
  Fixpoint horizons (p : prog) (s : st1) {struct p} : list Z :=
    match p with
    | Ret _ => []
    | Expect k =>
        match next_frame s with
        | Some (_, IFrame id body, s') => if negb (len_ok cfg id body) then [] else horizons (k id body) s'
        | _ => []
        end
    | WaitInfo locale k =>
        match ka_loop cfg e true locale None (s_in s) (s_now s) (s_dl s) (s_ka s) (s_nka s) (s_nnow s) with
        | (_, KGot vs s') => horizons (k vs) s'
        | _ => []
        end
    | Race locale c k =>
        let (r, lat) := e_res e c in
        let h := s_now s + Z.max lat 1 in
        match ka_loop cfg e false locale (Some h) (s_in s) (s_now s) (s_dl s) (s_ka s) (s_nka s) (s_nnow s) with
        | (_, KDone s') => h :: horizons (k r) s'
        | _ => []
        end
    | Call c k =>
        let (r, lat) := e_res e c in horizons (k r) (set_now s (s_now s + Z.max lat 0))
    | Send _ _ k => horizons k s
    | EncOn _ k => horizons k s
    | Fresh w k =>
        match w with
        | RKeepAlive => horizons (k (e_fresh e w (s_nka s))) s
        | _ => horizons (k (e_fresh e w 0%nat)) s
        end
    | Now k =>
        horizons (k (e_now e (s_nnow s))) {| s_now := s_now s; s_dl := s_dl s; s_ka := s_ka s; s_in := s_in s;
                                              s_nka := s_nka s; s_nnow := S (s_nnow s) |}
    end.
End Horizons.

(* no instant h of [hs] with  first byte < h <= last byte  for a span of [sp] *)
Definition hcalm_b (sp : list (Z * Z)) (hs : list Z) : bool :=
  forallb (fun ab => forallb (fun h => negb ((fst ab <? h) && (h <=? snd ab))) hs) sp.

(* calm: grid condition on every frame + no race horizon inside a span *)
Definition calm (o : oracles) (cfg : conn_cfg) (e : env) (s : segs) : bool :=
  let l := fst (bytes_of_segs s) in
  calm_s (cf_max_len cfg) RIdle 0 0 l
  && hcalm_b (spans (cf_max_len cfg) RIdle 0 l)
             (horizons cfg e (listen o cfg) (init1 (frames_of (cf_max_len cfg) s))).

(* a coarser, purely trace-based variant: no completion instant of ANY adapter call of the
   frame-level run (the times of its TRes events) inside a span *)
Definition calm_tr (o : oracles) (cfg : conn_cfg) (e : env) (s : segs) : bool :=
  let l := fst (bytes_of_segs s) in
  calm_s (cf_max_len cfg) RIdle 0 0 l
  && hcalm_b (spans (cf_max_len cfg) RIdle 0 l) (res_times (run1 o cfg e (frames_of (cf_max_len cfg) s))).

(* the current frame is completed within [l] by a byte arriving at [tn], no byte of it later *)
Fixpoint completes (max : Z) (st : rst) (tn : Z) (l : bstream) : bool :=
  match l with
  | [] => false
  | (t, b) :: r =>
      match feed_byte max st b with
      | (st', []) => (t <=? tn) && completes max st' tn r
      | (_, _ :: _) => t =? tn
      end
  end.

(* cut every data segment after its first n bytes, the tail arriving d ms later *)
Definition split_seg (n : nat) (d : Z) (x : Z * option bytes) : segs :=
  match x with
  | (t, Some bs) => [(t, Some (firstn n bs)); (t + d, Some (skipn n bs))]
  | _ => [x]
  end.
Definition splitall (n : nat) (d : Z) (s : segs) : segs := flat_map (split_seg n d) s.

(* ---- non-vacuity: concrete schedules (toy world of Conn/Sem2Witness.v) ---- *)

(* the whole-frame login of K1 is frame-atomic, time-sorted, and ends in a Transfer *)
Example atomic_k1_whole :
  atomic (cf_max_len w_cfg) k1_whole = true /\ sorted k1_whole = true
  /\ last_end (run2 w_o w_cfg w_e k1_whole) = Some OOk
  /\ sent_ids (run2 w_o w_cfg w_e k1_whole) = [5; 1; 2; 10; 11].
Proof. vm_compute. repeat split; reflexivity. Qed.

(* the K1 / K4 witnesses are outside the class *)
Example not_atomic_k1_split : atomic (cf_max_len w_cfg) k1_split = false.
Proof. vm_compute. reflexivity. Qed.
Example not_atomic_k4 :
  atomic (cf_max_len w_cfg) k4_header = false /\ atomic (cf_max_len w_cfg) k4_prefix_split = false.
Proof. vm_compute. split; reflexivity. Qed.

(* several frames glued into one segment, a keep-alive tick at 16000 ms answered late, a
   segment in the past (time 5 after 17000), end of stream: atomic, not sorted *)
Definition atomic_glued : segs :=
  w_login ++ [(10, Some w_echo); (17000, Some (mkframe 4 [0; 0; 0; 0; 0; 0; 0; 1] ++ w_info)); (5, Some w_echo);
              (17200, Some w_echo); (17350, None)].
Example atomic_glued_ok :
  atomic (cf_max_len w_cfg) atomic_glued = true /\ sorted atomic_glued = false
  /\ last_end (run2 w_o w_cfg w_e atomic_glued) = Some OOk
  /\ sent_ids (run2 w_o w_cfg w_e atomic_glued) = [5; 1; 2; 4; 10; 11]
  /\ recvs (run2 w_o w_cfg w_e atomic_glued)
     = in_frames (frames_of (cf_max_len w_cfg) atomic_glued).
Proof. vm_compute. repeat split; reflexivity. Qed.

(* a refused length prefix inside an atomic schedule *)
Definition atomic_badlen : segs := w_login ++ [(30, Some ([0] ++ w_info)); (40, Some [1; 2; 3])].
Example atomic_badlen_ok :
  atomic (cf_max_len w_cfg) atomic_badlen = true
  /\ last_end (run2 w_o w_cfg w_e atomic_badlen) = Some (OErr KIllegalLen).
Proof. vm_compute. repeat split; reflexivity. Qed.

(* calm but not atomic: every frame of the K1 login cut after its first byte (inside the
   length prefix) resp. after 5 bytes, the rest 2 ms later; same behaviour as whole frames *)
Example calm_split_ok :
  calm w_o w_cfg w_e (splitall 1 2 k1_whole) = true /\ atomic (cf_max_len w_cfg) (splitall 1 2 k1_whole) = false
  /\ calm w_o w_cfg w_e (splitall 5 2 k1_whole) = true
  /\ last_end (run2 w_o w_cfg w_e (splitall 5 2 k1_whole)) = Some OOk
  /\ sent_ids (run2 w_o w_cfg w_e (splitall 5 2 k1_whole)) = [5; 1; 2; 10; 11].
Proof. vm_compute. repeat split; reflexivity. Qed.

(* the authentication call of the login (not raced) completes at 7 + 5 = 12 ms: a Login
   Acknowledged cut around that instant is calm, though not calm in the coarser sense *)
Definition calm_around_call : segs :=
  firstn 4 w_login ++ [(11, Some (firstn 1 (pframe login_sb_LoginAcknowledgedPacket [])));
                       (13, Some (skipn 1 (pframe login_sb_LoginAcknowledgedPacket [])));
                       (1001, Some w_info); (1203, Some w_echo)].
Example calm_around_call_ok :
  calm w_o w_cfg w_e calm_around_call = true /\ calm_tr w_o w_cfg w_e calm_around_call = false
  /\ last_end (run2 w_o w_cfg w_e calm_around_call) = Some OOk.
Proof. vm_compute. repeat split; reflexivity. Qed.

(* atomic schedules are calm; the K1 / K4 witnesses are not *)
Example calm_witnesses :
  calm w_o w_cfg w_e k1_whole = true /\ calm w_o w_cfg w_e k1_split = false
  /\ calm w_o w_cfg w_e k4_header = false /\ calm w_o w_cfg w_e k4_prefix_split = false.
Proof. vm_compute. repeat split; reflexivity. Qed.

(* which condition each witness violates: K1 the horizon condition only; K4 (deferral: a
   trailing incomplete frame; prefix: a grid point between two bytes of a frame) the stream
   condition only *)
Definition stream_ok (s : segs) : bool := calm_s (cf_max_len w_cfg) RIdle 0 0 (fst (bytes_of_segs s)).
Definition horizons_ok (s : segs) : bool :=
  hcalm_b (spans (cf_max_len w_cfg) RIdle 0 (fst (bytes_of_segs s)))
          (horizons w_cfg w_e (listen w_o w_cfg) (init1 (frames_of (cf_max_len w_cfg) s))).
Example calm_conditions :
  map (fun s => (stream_ok s, horizons_ok s)) [k1_whole; k1_split; k4_header; k4_prefix_split]
  = [(true, true); (true, false); (false, true); (false, true)]
  /\ horizons w_cfg w_e (listen w_o w_cfg) (init1 (frames_of (cf_max_len w_cfg) k1_whole)) = [1201; 1301; 1351].
Proof. vm_compute. split; reflexivity. Qed.

(* times that decrease inside a frame (first byte stamped 30, second 25) are not calm, and the
   two semantics then stamp the frame differently (30 at byte level, 25 at frame level) *)
Definition unsorted_in_frame : segs := firstn 4 w_login ++ [(30, Some [1]); (25, Some [3])].
Example unsorted_in_frame_differs :
  stream_ok unsorted_in_frame = false
  /\ map fst (run2 w_o w_cfg w_e unsorted_in_frame)
     <> map fst (run1 w_o w_cfg w_e (frames_of (cf_max_len w_cfg) unsorted_in_frame)).
Proof. split; [vm_compute; reflexivity|]. vm_compute. intros H. discriminate H. Qed.
