(* The static walk over [listen] for the order automaton, hence C06's order theorem for
   every environment, inbox and timing. *)
From Passage Require Import Lib.Bytes Codec.VarInt Codec.Desc Codec.NoPanic Gen.PacketsGen Gen.ConstsGen
  Codec.PacketCheck Crypto.Cookie Conn.Types Conn.Prog Conn.Sem1 Conn.Monitor Conn.MonitorProofs Conn.Order.

Global Opaque dec verify sign.

Ltac solve_ka :=
  unfold ka_inv; split; [|split];
  [ let e := fresh "e" in let He := fresh "He" in
    intros e He; unfold step_with, internal_at; cbn [q Z.eqb Pos.eqb andb orb]; rewrite He; reflexivity
  | let o := fresh "o" in let Ho := fresh "Ho" in let Hp := fresh "Hp" in
    intros o Ho Hp; destruct o as [|?k|]; [congruence | destruct k; cbn; first [discriminate | congruence] | cbn; discriminate]
  | let r := fresh "r" in intros r; destruct r; cbn; discriminate ].

Ltac solve_errs :=
  let o := fresh "o" in let Ho := fresh "Ho" in let Hp := fresh "Hp" in
  intros o Ho Hp; destruct o as [|?k|]; [congruence | destruct k; cbn; first [discriminate | congruence] | cbn; discriminate].

(* one round: simplify; split on undecided integer comparisons and decodes first (so that
   the monitor state stays concrete); then take the goal apart *)
Ltac no_panic :=
  match goal with
  | H : dec _ _ _ _ = Er EPanic |- _ => exfalso; exact (dec_no_panic _ _ _ _ H)
  end.

Ltac walk_step :=
  first
  [ no_panic
  | progress cbn
  | match goal with |- context [err_kind ?e] => is_var e; destruct e end
  | match goal with |- context [if (?a =? ?b) then _ else _] => destruct (a =? b) eqn:? end
  | match goal with |- context [match dec ?a ?b ?c ?d with _ => _ end] => destruct (dec a b c d) eqn:? end
  | match goal with
    | |- True => exact I
    | |- _ /\ _ => split
    | |- forall _, _ => intro
    | |- Some _ <> None => discriminate
    | |- errs_ok _ _ => solve_errs
    | |- ka_inv _ _ _ _ => solve_ka
    | |- context [match ?x with _ => _ end] => first [ is_var x; destruct x | destruct x eqn:? ]
    end ].

Ltac walk := cbn; repeat walk_step.

Theorem listen_order_safe : forall o cfg, safe step_order m_init (listen o cfg).
Proof.
  intros o cfg. unfold listen, transfer_phase, routing, expect_pkt, dec_pkt, bad, client, step_order.
  Time walk.
Qed.

Theorem order_accepts : forall o cfg e ib, ok step_order m_init (untime (run1 o cfg e ib)).
Proof. intros. unfold run1. apply safe_sound. apply listen_order_safe. Qed.

(* ---- what acceptance means: every event passed the automaton and the check in the state
   reached by the events before it ---- *)
Lemma run_split {S} (step : S -> tev -> option S) st pre ev post :
  run step st (pre ++ ev :: post) <> None ->
  exists st1 st2, run step st pre = Some st1 /\ step st1 ev = Some st2.
Proof.
  revert st; induction pre as [|x pre IH]; intros st H; cbn [app run] in *.
  - destruct (step st ev) as [st2|] eqn:E; [|congruence]. exists st, st2. auto.
  - destruct (step st x) as [st'|]; [|congruence]. apply IH in H. exact H.
Qed.

Lemma step_with_inv chk st ev st2 :
  step_with chk st ev = Some st2 ->
  (internal_at (q st) ev = true /\ st2 = st)
  \/ (exists q', delta (q st) ev = Some q' /\ chk st ev = true /\ st2 = {| q := q'; h := ev :: h st |}).
Proof.
  unfold step_with. destruct (internal_at (q st) ev); [intros H; inversion H; auto|].
  destruct (delta (q st) ev) as [q'|]; [|discriminate].
  destruct (chk st ev) eqn:E; [|discriminate]. intros H; inversion H. right. exists q'. auto.
Qed.

Theorem accepted_event_checked chk tr pre ev post :
  ok (step_with chk) m_init tr -> tr = pre ++ ev :: post ->
  exists st, run (step_with chk) m_init pre = Some st /\
    (internal_at (q st) ev = true \/ exists q', delta (q st) ev = Some q' /\ chk st ev = true).
Proof.
  intros Hok ->. destruct (run_split _ _ _ _ _ Hok) as (st1 & st2 & H1 & H2).
  exists st1. split; [exact H1|]. destruct (step_with_inv _ _ _ _ H2) as [[Hi _]|(q' & Hd & Hc & _)]; [left; exact Hi|].
  right. exists q'. auto.
Qed.

Lemma ok_accepts {S} (step : S -> tev -> option S) st tr : ok step st tr -> accepts step st tr = true.
Proof. unfold ok, accepts. destruct (run step st tr); [reflexivity | congruence]. Qed.
