(* The static walk over [listen] for the order automaton, hence C06's order theorem for
   every environment, inbox and timing. *)
From Passage Require Import Lib.Bytes Codec.VarInt Codec.Desc Gen.PacketsGen Gen.ConstsGen
  Codec.PacketCheck Crypto.Cookie Conn.Types Conn.Prog Conn.Sem1 Conn.Monitor Conn.MonitorProofs Conn.Order.

Global Opaque dec verify sign.

Ltac solve_ka :=
  unfold ka_inv; split; [|split];
  [ let e := fresh "e" in let He := fresh "He" in
    intros e He; unfold step_with, internal_at; cbn [q Z.eqb Pos.eqb andb orb]; rewrite He; reflexivity
  | let o := fresh "o" in let Ho := fresh "Ho" in
    intros o Ho; destruct o as [|?|]; [congruence| |]; cbn; discriminate
  | let r := fresh "r" in intros r; destruct r; cbn; discriminate ].

Ltac solve_errs :=
  let o := fresh "o" in let Ho := fresh "Ho" in
  intros o Ho; destruct o as [|?|]; [congruence| |]; cbn; discriminate.

(* one round: simplify; split on undecided integer comparisons and decodes first (so that
   the monitor state stays concrete); then take the goal apart *)
Ltac walk_step :=
  first
  [ progress cbn
  | match goal with |- context [if (?a =? ?b) then _ else _] => destruct (a =? b) eqn:? end
  | match goal with |- context [match dec ?a ?b ?c ?d with _ => _ end] => destruct (dec a b c d) eqn:? end
  | match goal with
    | |- True => exact I
    | |- _ /\ _ => split
    | |- forall _, _ => intro
    | |- Some _ <> None => discriminate
    | |- errs_ok _ _ => solve_errs
    | |- ka_inv _ _ _ _ => solve_ka
    | |- context [match ?x with _ => _ end] => first [ is_var x; destruct x | destruct x eqn:? ]
    end ].

Ltac walk := cbn; repeat walk_step.

Theorem listen_order_safe : forall o cfg, safe step_order m_init (listen o cfg).
Proof.
  intros o cfg. unfold listen, transfer_phase, routing, expect_pkt, dec_pkt, bad, client, step_order.
  Time walk.
Qed.

Theorem order_accepts : forall o cfg e ib, ok step_order m_init (untime (run1 o cfg e ib)).
Proof. intros. unfold run1. apply safe_sound. apply listen_order_safe. Qed.
