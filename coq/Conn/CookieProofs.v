(* sign/verify facts and the C10 round trip: a cookie issued under a secret is accepted on
   the next Transfer-intent connection from the same IP within the expiry. *)
From Passage Require Import Lib.Bytes Spec.Sha256 Spec.Hmac Codec.Desc Crypto.Cookie Conn.Types Conn.Prog
  Conn.Sem1 Conn.Monitor Conn.Order Conn.Checks.

Section Generic.
  Variable mac : bytes -> bytes -> bytes.
  Hypothesis mac_len : forall k m, length (mac k m) = 32%nat.

  Lemma verify_sign_with m s : verify_with mac (sign_with mac m s) s = (true, m).
  Proof.
    unfold verify_with, sign_with.
    assert (Hl : (length (mac s m ++ m) <? 32)%nat = false).
    { apply Nat.ltb_ge. rewrite app_length, mac_len. lia. }
    rewrite Hl.
    assert (Hf : firstn 32 (mac s m ++ m) = mac s m).
    { rewrite <- (mac_len s m). rewrite firstn_app, Nat.sub_diag, firstn_all, firstn_O, app_nil_r. reflexivity. }
    assert (Hk : skipn 32 (mac s m ++ m) = m).
    { rewrite <- (mac_len s m). rewrite skipn_app, Nat.sub_diag, skipn_all, skipn_O. reflexivity. }
    rewrite Hf, Hk.
    rewrite beq_refl. reflexivity.
  Qed.

  (* verify accepts exactly: at least a tag long, and the first 32 bytes are the tag of the rest *)
  Lemma verify_with_spec p s m :
    verify_with mac p s = (true, m) <->
    (32 <= length p)%nat /\ m = skipn 32 p /\ firstn 32 p = mac s (skipn 32 p).
  Proof.
    unfold verify_with. destruct (Nat.ltb_spec (length p) 32) as [Hlt|Hge].
    - split; [discriminate | intros [H _]; lia].
    - split.
      + intros H. inversion H as [[Hb Hm]]. apply beq_spec in Hb. auto.
      + intros (_ & -> & Hf). rewrite Hf, beq_refl. reflexivity.
  Qed.

  Lemma short_rejected p s : (length p < 32)%nat -> fst (verify_with mac p s) = false.
  Proof. intros H. unfold verify_with. apply Nat.ltb_lt in H. rewrite H. reflexivity. Qed.
End Generic.

Lemma verify_sign m s : verify (sign m s) s = (true, m).
Proof. apply verify_sign_with. apply hmac_sha256_length. Qed.

Lemma verify_spec p s m :
  verify p s = (true, m) <->
  (32 <= length p)%nat /\ m = skipn 32 p /\ firstn 32 p = hmac_sha256 s (skipn 32 p).
Proof. apply verify_with_spec; try apply hmac_sha256_length. Qed.

(* the round trip: with a serde round trip of the cookie record (assumed of serde_json), the
   cookie that was issued is the cookie that is accepted *)
Theorem cookie_roundtrip : forall o cfg s c h proto host port now2,
  cf_secret cfg = Some s ->
  hs_fields h = Some (proto, host, port, 2) ->
  auth_payload h = Some (sign (o_ser_auth o c) s) ->
  newest_now h = Some now2 ->
  o_parse_auth o (o_ser_auth o c) = JOk c ->
  sa_ip (ac_addr c) = sa_ip (cf_client cfg) ->
  now2 <= Z.min (ac_ts c + cf_expiry cfg) (2 ^ 64 - 1) ->
  cookie_accepted o cfg h = Some c.
Proof.
  intros o cfg s c h proto host port now2 Hs Hh Hp Hn Hser Hip Hexp.
  unfold cookie_accepted. rewrite Hh, Hs, Hp. cbn [Z.eqb Pos.eqb].
  rewrite verify_sign, Hser, Hn, Hip, beq_refl.
  destruct (Z.leb_spec now2 (Z.min (ac_ts c + cf_expiry cfg) (2 ^ 64 - 1))); [reflexivity | lia].
Qed.
