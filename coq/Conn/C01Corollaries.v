(* C01 in plain terms, derived from the acceptance of the C01 monitor. *)
From Passage Require Import Lib.Bytes Codec.VarInt Codec.Desc Gen.PacketsGen Gen.ConstsGen
  Codec.PacketCheck Crypto.Cookie Conn.Types Conn.Prog Conn.Sem1 Conn.Monitor Conn.MonitorProofs
  Conn.Order Conn.OrderProofs Conn.Checks Conn.HistoryProofs Conn.Walk_C01.

Section C01.
  Variable o : oracles.
  Variable cfg : conn_cfg.
  (* any trace the C01 monitor accepts: the M1 traces (c01_accepts) and the byte-level M2
     traces (c01_accepts2) both are *)
  Variable tr : list tev.

  Let chk := chk_c01 o cfg.
  Hypothesis Hacc : ok (step_with chk) m_init tr.

  Lemma prefix_reach pre ev post st :
    tr = pre ++ ev :: post -> run (step_with chk) m_init pre = Some st -> reach chk st.
  Proof. intros _ H. eapply run_reach; [apply reach_init | exact H]. Qed.

  (* Login Success is only ever sent after, on this very connection, encryption was switched
     on with the secret the client sent encrypted to the server key together with the verify
     token issued here; and either the authentication service returned a profile (when the
     client had been told to authenticate) or a cookie had been accepted (when it had not);
     the identity in the packet is that profile's / that cookie's *)
  Theorem login_success_guarded : forall pre u n x post,
    tr = pre ++ TSend login_cb_LoginSuccessPacket [VZ u; VB n; x] :: post ->
    exists st st1 ss,
      run (step_with chk) m_init pre = Some st
      /\ user_is o cfg (h st) n u = true
      /\ reach chk st1
      /\ token_verified o (h st1) = Some ss
      /\ (exists newer, h st = newer ++ TEnc ss :: h st1)
      /\ match sent_flag (h st1) with
         | Some true => exists pn pu pp, res_of_auth (h st1) = Some (RProfile pn pu pp)
         | Some false => exists c, cookie_accepted o cfg (h st1) = Some c
         | None => False
         end.
  Proof.
    intros pre u n x post Htr.
    destruct (accepted_event_checked chk tr pre _ post Hacc Htr)
      as (st & Hrun & [Hi | (q' & Hd & Hc)]).
    { unfold internal_at, internal in Hi. cbn in Hi. rewrite !andb_false_r in Hi. discriminate. }
    unfold chk, chk_c01 in Hc. cbn [is_pkt] in Hc.
    change (is_pkt login_cb_LoginSuccessPacket login_cb_LoginSuccessPacket) with true in Hc. cbv iota in Hc.
    apply andb_true_iff in Hc as [Hu He].
    destruct (enc_secret (h st)) as [s|] eqn:Es; [|discriminate].
    unfold enc_secret in Es. destruct (find_ev_in _ _ _ Es) as (newer & ev & older & Hh & Hev).
    destruct ev; try discriminate. inversion Hev; subst secret.
    assert (Hreach : reach chk st) by (eapply prefix_reach; eauto).
    destruct (history_checked chk st Hreach _ _ _ Hh) as (st1 & Hr1 & Hh1 & Hc1 & _).
    unfold chk, chk_c01 in Hc1.
    destruct (token_verified o (h st1)) as [ss|] eqn:Et; [|discriminate].
    destruct (sent_flag (h st1)) as [flag|] eqn:Ef; [|discriminate].
    apply andb_true_iff in Hc1 as [Hss Hflag]. apply beq_spec in Hss. subst s.
    exists st, st1, ss. split; [exact Hrun|]. split; [exact Hu|]. split; [exact Hr1|]. split; [exact Et|].
    split; [exists newer; rewrite Hh1; exact Hh|].
    rewrite Ef. destruct flag.
    - destruct (res_of_auth (h st1)) as [[j|pn pu pp|ts|t|s|]|]; try discriminate. exists pn, pu, pp. reflexivity.
    - destruct (cookie_accepted o cfg (h st1)) as [c|]; [exists c; reflexivity | discriminate].
  Qed.

  (* the authentication service is only ever asked with the shared secret of this connection,
     the server's public key, the effective client address and the name the client claimed *)
  Theorem auth_call_guarded : forall pre cl host port proto n u secret pk post,
    tr = pre ++ TCall (CAuth cl host port proto n u secret pk) :: post ->
    exists st ss cn cu,
      run (step_with chk) m_init pre = Some st
      /\ token_verified o (h st) = Some ss /\ secret = ss
      /\ pk = cf_pubkey cfg /\ sa_eqb cl (cf_client cfg) = true
      /\ claimed (h st) = Some (cn, cu) /\ n = cn /\ u = cu.
  Proof.
    intros pre cl host port proto n u secret pk post Htr.
    destruct (accepted_event_checked chk tr pre _ post Hacc Htr)
      as (st & Hrun & [Hi | (q' & Hd & Hc)]).
    { unfold internal_at, internal in Hi. cbn in Hi. rewrite !andb_false_r in Hi. discriminate. }
    unfold chk, chk_c01 in Hc.
    destruct (token_verified o (h st)) as [ss|] eqn:Et; [|discriminate].
    destruct (claimed (h st)) as [[cn cu]|] eqn:Ecl; [|discriminate].
    destruct (hs_fields (h st)) as [[[[hp hh] hpt] hst]|]; [|discriminate].
    repeat (apply andb_true_iff in Hc as [Hc ?]).
    exists st, ss, cn, cu. split; [exact Hrun|]. split; [exact Et|].
    repeat match goal with H : beq _ _ = true |- _ => apply beq_spec in H | H : (_ =? _) = true |- _ => apply Z.eqb_eq in H end.
    subst. auto 10.
  Qed.
End C01.
