(* Proofs about Lib/IpText.v: parsing inverts printing for IPv4, IPv6 (all zero-run
   compressions, the IPv4-mapped form) and socket addresses; printing is injective. *)
From Passage Require Import Lib.Bytes Lib.Utf8 Lib.IpText.

(* ================================================================== digits *)
Definition eval (radix acc : Z) (ds : list Z) : Z := fold_left (fun a d => a * radix + d) ds acc.

Lemma eval_app r acc a b : eval r acc (a ++ b) = eval r (eval r acc a) b.
Proof. unfold eval. apply fold_left_app. Qed.

Lemma digits_aux_S r f v acc :
  digits_aux r (S f) v acc
  = if v / r =? 0 then v mod r :: acc else digits_aux r f (v / r) (v mod r :: acc).
Proof. reflexivity. Qed.

Section Radix.
Variable r : Z.
Hypothesis Hr : 2 <= r.

Definition dig (d : Z) : Prop := 0 <= d < r.

Lemma pow_S (n : nat) : r ^ Z.of_nat (S n) = r * r ^ Z.of_nat n.
Proof. rewrite Nat2Z.inj_succ, Z.pow_succ_r by lia. reflexivity. Qed.

Lemma pow_pos (n : nat) : 0 < r ^ Z.of_nat n.
Proof. apply Z.pow_pos_nonneg; lia. Qed.

Lemma digits_spec : forall (F : nat) (v : Z) (acc : list Z),
  0 <= v < r ^ Z.of_nat (S F) ->
  exists ds, digits_aux r (S F) v acc = ds ++ acc
    /\ Forall dig ds
    /\ eval r 0 ds = v
    /\ (1 <= length ds)%nat
    /\ (forall n : nat, (1 <= n)%nat -> v < r ^ Z.of_nat n -> (length ds <= n)%nat)
    /\ (hd 0 ds = 0 -> v = 0)
    /\ (v = 0 -> ds = [0]).
Proof.
  induction F as [|F IH]; intros v acc Hv.
  - (* one digit *)
    change (r ^ Z.of_nat 1) with (r ^ 1) in Hv. rewrite Z.pow_1_r in Hv.
    cbn [digits_aux]. rewrite (Z.div_small v r) by lia. cbn [Z.eqb].
    rewrite (Z.mod_small v r) by lia.
    exists [v]. repeat apply conj.
    + reflexivity.
    + constructor; [exact Hv | constructor].
    + unfold eval; cbn [fold_left]. lia.
    + cbn [length]. lia.
    + intros n Hn _. cbn [length]. lia.
    + cbn [hd]. auto.
    + intros ->. reflexivity.
  - rewrite digits_aux_S.
    assert (Hm : 0 <= v mod r < r) by (apply Z.mod_pos_bound; lia).
    assert (Hdm : v = r * (v / r) + v mod r) by (apply Z.div_mod; lia).
    assert (Hq0 : 0 <= v / r) by (apply Z.div_pos; lia).
    destruct (Z.eqb_spec (v / r) 0) as [E|E].
    + exists [v mod r]. repeat apply conj.
      * reflexivity.
      * constructor; [exact Hm | constructor].
      * unfold eval; cbn [fold_left]. rewrite E in Hdm. lia.
      * cbn [length]. lia.
      * intros n Hn _. cbn [length]. lia.
      * cbn [hd]. intros H0. rewrite E in Hdm. lia.
      * intros ->. rewrite Z.mod_0_l by lia. reflexivity.
    + assert (Hq : 0 <= v / r < r ^ Z.of_nat (S F)).
      { split; [exact Hq0|]. apply Z.div_lt_upper_bound; [lia|].
        rewrite <- pow_S. apply Hv. }
      destruct (IH (v / r) (v mod r :: acc) Hq) as (ds & E1 & E2 & E3 & E4 & E5 & E6 & E7).
      exists (ds ++ [v mod r]). repeat apply conj.
      * rewrite E1, <- app_assoc. reflexivity.
      * apply Forall_app; split; [exact E2 | constructor; [exact Hm | constructor]].
      * rewrite eval_app, E3. unfold eval; cbn [fold_left]. lia.
      * rewrite app_length. cbn [length]. lia.
      * intros n Hn Hvn. rewrite app_length. cbn [length].
        destruct n as [|n]; [lia|]. destruct n as [|n].
        { change (r ^ Z.of_nat 1) with (r ^ 1) in Hvn. rewrite Z.pow_1_r in Hvn.
          exfalso. apply E. apply Z.div_small. lia. }
        assert (length ds <= S n)%nat; [|lia].
        apply E5; [lia|]. apply Z.div_lt_upper_bound; [lia|]. rewrite <- pow_S. exact Hvn.
      * destruct ds as [|d ds]; [cbn [length] in E4; lia|]. cbn [hd app]. intros H0.
        exfalso. apply E. apply E6. exact H0.
      * intros ->. exfalso. apply E. apply Z.div_0_l. lia.
Qed.

(* the text of a number, and what the two reading loops do on it *)
Variable chr : Z -> Z.
Hypothesis chr_ok : forall d, dig d -> to_digit r (chr d) = Some d.

Definition nodigit (s : bytes) : Prop :=
  match s with [] => True | c :: _ => to_digit r c = None end.

Lemma rd_max_nodigit m acc cnt s : nodigit s -> rd_max r m acc cnt s = Some (acc, cnt, s).
Proof. destruct s as [|c s]; cbn [rd_max nodigit]; [reflexivity | intros ->; reflexivity]. Qed.

Lemma rd_chk_nodigit lim acc cnt s : nodigit s -> rd_chk r lim acc cnt s = Some (acc, cnt, s).
Proof. destruct s as [|c s]; cbn [rd_chk nodigit]; [reflexivity | intros ->; reflexivity]. Qed.

Lemma rd_max_digits m : forall ds acc cnt rest,
  Forall dig ds -> nodigit rest -> cnt <= m ->
  rd_max r m acc cnt (map chr ds ++ rest)
  = if m <? cnt + Z.of_nat (length ds) then None
    else Some (eval r acc ds, cnt + Z.of_nat (length ds), rest).
Proof.
  induction ds as [|d ds IH]; intros acc cnt rest Hds Hrest Hc.
  - cbn [map app length]. rewrite rd_max_nodigit by exact Hrest.
    destruct (Z.ltb_spec m (cnt + Z.of_nat 0)); [lia|].
    unfold eval; cbn [fold_left]. repeat f_equal; lia.
  - inversion Hds as [|d' ds' Hd Hds']; subst.
    cbn [map app rd_max]. rewrite (chr_ok d Hd).
    destruct (Z.ltb_spec m (cnt + 1)) as [H1|H1].
    + destruct (Z.ltb_spec m (cnt + Z.of_nat (length (d :: ds)))) as [H2|H2]; [reflexivity|].
      cbn [length] in H2. lia.
    + rewrite IH by (auto; lia). cbn [length]. rewrite Nat2Z.inj_succ.
      replace (cnt + 1 + Z.of_nat (length ds)) with (cnt + Z.succ (Z.of_nat (length ds))) by lia.
      reflexivity.
Qed.

Lemma eval_mono : forall ds acc, Forall dig ds -> 0 <= acc -> acc <= eval r acc ds.
Proof.
  induction ds as [|d ds IH]; intros acc Hds Ha; [unfold eval; cbn [fold_left]; lia|].
  inversion Hds as [|d' ds' Hd Hds']; subst. unfold eval; cbn [fold_left]. fold (eval r (acc * r + d) ds).
  unfold dig in Hd. assert (acc <= acc * r) by nia.
  specialize (IH (acc * r + d) Hds'). lia.
Qed.

Lemma rd_chk_digits lim : forall ds acc cnt rest,
  Forall dig ds -> nodigit rest -> 0 <= acc -> eval r acc ds <= lim ->
  rd_chk r lim acc cnt (map chr ds ++ rest)
  = Some (eval r acc ds, cnt + Z.of_nat (length ds), rest).
Proof.
  induction ds as [|d ds IH]; intros acc cnt rest Hds Hrest Ha Hl.
  - cbn [map app length]. rewrite rd_chk_nodigit by exact Hrest.
    unfold eval; cbn [fold_left]. repeat f_equal; lia.
  - inversion Hds as [|d' ds' Hd Hds']; subst.
    cbn [map app rd_chk]. rewrite (chr_ok d Hd).
    unfold eval in Hl; cbn [fold_left] in Hl; fold (eval r (acc * r + d) ds) in Hl.
    assert (Hd' := Hd). unfold dig in Hd'.
    assert (acc <= acc * r) by nia.
    assert (acc * r + d <= eval r (acc * r + d) ds) by (apply eval_mono; [exact Hds' | lia]).
    destruct (Z.ltb_spec lim (acc * r)); [lia|].
    destruct (Z.ltb_spec lim (acc * r + d)); [lia|].
    rewrite IH by (auto; lia). cbn [length]. rewrite Nat2Z.inj_succ.
    change (eval r acc (d :: ds)) with (eval r (acc * r + d) ds).
    replace (cnt + 1 + Z.of_nat (length ds)) with (cnt + Z.succ (Z.of_nat (length ds))) by lia.
    reflexivity.
Qed.

(* read_number on the text of v, F+1 = digit budget of the printer *)
Lemma read_number_show (F : nat) (maxd : option Z) (lim : Z) (allow0 : bool) v rest :
  0 <= v < r ^ Z.of_nat (S F) -> v <= lim ->
  match maxd with
  | Some m => exists n : nat, (1 <= n)%nat /\ v < r ^ Z.of_nat n /\ Z.of_nat n <= m
  | None => True
  end ->
  nodigit rest ->
  chr 0 = 48 -> (forall d, dig d -> chr d = 48 -> d = 0) ->
  read_number r maxd lim allow0 (map chr (digits_aux r (S F) v []) ++ rest) = Some (v, rest).
Proof.
  intros Hv Hlim Hmax Hrest Hc0 Hc0'.
  destruct (digits_spec F v [] Hv) as (ds & E1 & E2 & E3 & E4 & E5 & E6 & E7).
  rewrite app_nil_r in E1. rewrite E1.
  unfold read_number.
  assert (Hlead : match map chr ds ++ rest with c :: _ => c =? 48 | [] => false end = true -> length ds = 1%nat).
  { destruct ds as [|d ds]; [cbn [length] in E4; lia|]. cbn [map app]. intros H.
    apply Z.eqb_eq in H. inversion E2 as [|d' ds' Hd Hds']; subst d' ds'.
    apply Hc0' in H; [|exact Hd]. cbn [hd] in E6. specialize (E6 H). specialize (E7 E6).
    rewrite E7. reflexivity. }
  set (lead0 := match map chr ds ++ rest with c :: _ => c =? 48 | [] => false end) in *.
  assert (Hfin : forall n, n = Z.of_nat (length ds) ->
            (if n =? 0 then None else if negb allow0 && lead0 && (1 <? n) then None else Some (v, rest))
            = Some (v, rest)).
  { intros n ->. destruct (Z.eqb_spec (Z.of_nat (length ds)) 0); [lia|].
    destruct lead0.
    - rewrite Hlead by reflexivity. cbn [Z.of_nat Pos.of_succ_nat Z.ltb Z.compare Pos.compare Pos.compare_cont].
      rewrite andb_false_r. reflexivity.
    - rewrite andb_false_r. reflexivity. }
  destruct maxd as [m|].
  - destruct Hmax as (n & Hn1 & Hn2 & Hn3).
    rewrite rd_max_digits by (auto; lia).
    specialize (E5 n Hn1 Hn2).
    destruct (Z.ltb_spec m (0 + Z.of_nat (length ds))); [lia|].
    rewrite E3. destruct (Z.ltb_spec lim v); [lia|].
    apply Hfin. lia.
  - rewrite rd_chk_digits by (auto; try lia; rewrite E3; lia).
    rewrite E3. apply Hfin. lia.
Qed.

End Radix.

(* ------------------------------------------------------------------ radix 10 and 16 *)
Lemma dchar_ok d : dig 10 d -> to_digit 10 (dchar d) = Some d.
Proof.
  unfold dig, dchar, to_digit. intros H.
  destruct (Z.leb_spec 48 (48 + d)); [|lia]. destruct (Z.leb_spec (48 + d) 57); [|lia].
  cbn [andb]. destruct (Z.ltb_spec (48 + d - 48) 10); [|lia]. f_equal; lia.
Qed.

Lemma hchar_ok d : dig 16 d -> to_digit 16 (hchar d) = Some d.
Proof.
  unfold dig, hchar, to_digit. intros H.
  destruct (Z.ltb_spec d 10).
  - destruct (Z.leb_spec 48 (48 + d)); [|lia]. destruct (Z.leb_spec (48 + d) 57); [|lia].
    cbn [andb]. destruct (Z.ltb_spec (48 + d - 48) 16); [|lia]. f_equal; lia.
  - destruct (Z.leb_spec 48 (87 + d)); [|lia]. destruct (Z.leb_spec (87 + d) 57); [lia|].
    cbn [andb]. change (10 <? 16) with true. cbn [andb].
    destruct (Z.leb_spec 97 (87 + d)); [|lia]. destruct (Z.ltb_spec (87 + d - 87) 16); [|lia].
    cbn [andb]. f_equal; lia.
Qed.

Lemma read_dec_show lim v rest :
  0 <= v <= lim -> lim < 10 ^ 10 -> nodigit 10 rest ->
  read_number 10 None lim true (show_dec v ++ rest) = Some (v, rest).
Proof.
  intros Hv Hl Hrest. unfold show_dec.
  apply (read_number_show 10 ltac:(lia) dchar dchar_ok 9 None lim true v rest).
  - change (10 ^ Z.of_nat 10) with (10 ^ 10). lia.
  - lia.
  - exact I.
  - exact Hrest.
  - reflexivity.
  - unfold dchar; intros; lia.
Qed.

Lemma read_octet_show v rest :
  0 <= v < 256 -> nodigit 10 rest -> read_octet (show_dec v ++ rest) = Some (v, rest).
Proof.
  intros Hv Hrest. unfold show_dec, read_octet.
  apply (read_number_show 10 ltac:(lia) dchar dchar_ok 9 (Some 3) 255 false v rest).
  - change (10 ^ Z.of_nat 10) with (10 ^ 10). lia.
  - lia.
  - exists 3%nat. change (10 ^ Z.of_nat 3) with 1000. lia.
  - exact Hrest.
  - reflexivity.
  - unfold dchar; intros; lia.
Qed.

Lemma read_hex16_show v rest :
  0 <= v < 65536 -> nodigit 16 rest -> read_hex16 (show_hex v ++ rest) = Some (v, rest).
Proof.
  intros Hv Hrest. unfold show_hex, read_hex16.
  apply (read_number_show 16 ltac:(lia) hchar hchar_ok 3 (Some 4) 65535 true v rest).
  - change (16 ^ Z.of_nat 4) with 65536. lia.
  - lia.
  - exists 4%nat. change (16 ^ Z.of_nat 4) with 65536. lia.
  - exact Hrest.
  - reflexivity.
  - unfold hchar, dig. intros d Hd. destruct (Z.ltb_spec d 10); lia.
Qed.

(* ================================================================== IPv4 *)
Definition oct (v : Z) : Prop := 0 <= v < 256.
Definition seg (v : Z) : Prop := 0 <= v < 65536.

Lemma octb_spec v : octb v = true <-> oct v.
Proof. unfold octb, oct; lia. Qed.
Lemma segb_spec v : segb v = true <-> seg v.
Proof. unfold segb, seg; lia. Qed.

Lemma to_digit10 c : to_digit 10 c = if (48 <=? c) && (c <=? 57) then Some (c - 48) else None.
Proof.
  unfold to_digit. destruct (Z.leb_spec 48 c); destruct (Z.leb_spec c 57); cbn [andb]; try reflexivity.
  destruct (Z.ltb_spec (c - 48) 10); [reflexivity | lia].
Qed.

Lemma to_digit_16_10 c : to_digit 16 c = None -> to_digit 10 c = None.
Proof.
  rewrite to_digit10. unfold to_digit.
  destruct (Z.leb_spec 48 c); destruct (Z.leb_spec c 57); cbn [andb]; try reflexivity.
  destruct (Z.ltb_spec (c - 48) 16); [discriminate | lia].
Qed.

Lemma nodigit_colon radix r : nodigit radix (58 :: r).
Proof.
  cbn [nodigit]. unfold to_digit. change (48 <=? 58) with true. change (58 <=? 57) with false.
  change (97 <=? 58) with false. change (65 <=? 58) with false. cbn [andb]. rewrite !andb_false_r.
  reflexivity.
Qed.

Lemma nodigit_dot r : nodigit 10 (46 :: r).
Proof. reflexivity. Qed.

Lemma read_ch_same c r : read_ch c (c :: r) = Some r.
Proof. cbn [read_ch]. rewrite Z.eqb_refl. reflexivity. Qed.

Lemma read_ipv4_show a b c d rest :
  oct a -> oct b -> oct c -> oct d -> nodigit 10 rest ->
  read_ipv4 (show_v4 a b c d ++ rest) = Some ((a, b, c, d), rest).
Proof.
  intros Ha Hb Hc Hd Hrest. unfold show_v4, ch_dot.
  repeat (rewrite <- ?app_assoc, <- ?app_comm_cons).
  unfold read_ipv4, read_sep, ch_dot.
  rewrite read_octet_show by (auto using nodigit_dot). rewrite read_ch_same.
  rewrite read_octet_show by (auto using nodigit_dot). rewrite read_ch_same.
  rewrite read_octet_show by (auto using nodigit_dot). rewrite read_ch_same.
  rewrite read_octet_show by auto. reflexivity.
Qed.

(* text on which read_ipv4 must fail: the first character that is not a decimal digit
   (if any) is not '.' *)
Definition isdec (c : Z) : bool := (48 <=? c) && (c <=? 57).
Fixpoint no_dot_stop (s : bytes) : bool :=
  match s with
  | [] => true
  | c :: r => if isdec c then no_dot_stop r else negb (c =? 46)
  end.

Lemma rd_max10_stop m : forall s acc cnt,
  no_dot_stop s = true ->
  match rd_max 10 m acc cnt s with
  | None => True
  | Some (_, _, rest) => read_ch 46 rest = None
  end.
Proof.
  induction s as [|c s IH]; intros acc cnt H; cbn [rd_max]; [reflexivity|].
  rewrite to_digit10. cbn [no_dot_stop] in H. unfold isdec in H.
  destruct ((48 <=? c) && (c <=? 57)).
  - destruct (m <? cnt + 1); [exact I | apply IH; exact H].
  - cbn [read_ch]. destruct (c =? 46); [discriminate | reflexivity].
Qed.

Lemma read_ipv4_stop s : no_dot_stop s = true -> read_ipv4 s = None.
Proof.
  intros H. unfold read_ipv4, read_sep at 1, read_octet, read_number.
  pose proof (rd_max10_stop 3 s 0 0 H) as H1.
  destruct (rd_max 10 3 0 0 s) as [[[v n] rest]|]; [|reflexivity].
  destruct (255 <? v); [reflexivity|].
  destruct (n =? 0); [reflexivity|].
  destruct (negb false && _ && (1 <? n)); [reflexivity|].
  unfold read_sep, ch_dot. rewrite H1. reflexivity.
Qed.

Lemma read_number_nodigit radix maxd lim a c r :
  to_digit radix c = None -> read_number radix maxd lim a (c :: r) = None.
Proof.
  intros H. unfold read_number. destruct maxd as [m|]; cbn [rd_max rd_chk]; rewrite H.
  - destruct (lim <? 0); reflexivity.
  - reflexivity.
Qed.

Lemma read_ipv4_nodigit c r : to_digit 10 c = None -> read_ipv4 (c :: r) = None.
Proof.
  intros H. unfold read_ipv4, read_sep at 1, read_octet. rewrite read_number_nodigit by exact H. reflexivity.
Qed.

Lemma hchar_cases d : dig 16 d ->
  (isdec (hchar d) = true) \/ (isdec (hchar d) = false /\ hchar d <> 46).
Proof.
  unfold dig, hchar, isdec. intros H. destruct (Z.ltb_spec d 10).
  - left. lia.
  - right. lia.
Qed.

Lemma no_dot_stop_hex : forall ds rest,
  Forall (dig 16) ds -> no_dot_stop rest = true -> no_dot_stop (map hchar ds ++ rest) = true.
Proof.
  induction ds as [|d ds IH]; intros rest Hds Hrest; [exact Hrest|].
  inversion Hds as [|d' ds' Hd Hds']; subst. cbn [map app no_dot_stop].
  destruct (hchar_cases d Hd) as [E|[E1 E2]].
  - rewrite E. apply IH; assumption.
  - rewrite E1. apply negb_true_iff. apply Z.eqb_neq. exact E2.
Qed.

Lemma show_hex_digits v : seg v -> exists ds, show_hex v = map hchar ds /\ Forall (dig 16) ds.
Proof.
  intros Hv. unfold show_hex.
  destruct (digits_spec 16 ltac:(lia) 3 v []) as (ds & E1 & E2 & _).
  { change (16 ^ Z.of_nat 4) with 65536. exact Hv. }
  rewrite app_nil_r in E1. exists ds. rewrite E1. auto.
Qed.

(* ================================================================== IPv6 groups *)
(* what may follow a run of groups: end of input, "::", a lone ':' at the very end, or
   any character that is neither a hex digit nor '.' (']' and '%' in socket addresses) *)
Definition gstop (rest : bytes) : bool :=
  match rest with
  | [] => true
  | c :: r =>
      if c =? 58 then match r with [] => true | c2 :: _ => c2 =? 58 end
      else match to_digit 16 c with None => negb (c =? 46) | Some _ => false end
  end.

Lemma gstop_nodigit16 rest : gstop rest = true -> nodigit 16 rest.
Proof.
  destruct rest as [|c r]; cbn [gstop nodigit]; [auto|].
  destruct (Z.eqb_spec c 58) as [->|_]; [intros _; apply (nodigit_colon 16 r)|].
  destruct (to_digit 16 c); [discriminate | reflexivity].
Qed.

Lemma gstop_nodigit10 rest : gstop rest = true -> nodigit 10 rest.
Proof.
  intros H. apply gstop_nodigit16 in H. destruct rest as [|c r]; [exact I|].
  cbn [nodigit] in *. apply to_digit_16_10. exact H.
Qed.

Lemma gstop_nds rest : gstop rest = true -> no_dot_stop rest = true.
Proof.
  destruct rest as [|c r]; cbn [gstop no_dot_stop]; [auto|].
  destruct (Z.eqb_spec c 58) as [->|_]; [reflexivity|].
  destruct (to_digit 16 c) eqn:E; [discriminate|]. intros H.
  apply to_digit_16_10 in E. rewrite to_digit10 in E. unfold isdec.
  destruct ((48 <=? c) && (c <=? 57)); [discriminate | exact H].
Qed.

Lemma read_groups_S n first s :
  read_groups (S n) first s
  = match (if (2 <=? S n)%nat then read_sep ch_colon first read_ipv4 s else None) with
    | Some ((a, b, c, d), s') => ([a * 256 + b; c * 256 + d], true, s')
    | None =>
        match read_sep ch_colon first read_hex16 s with
        | Some (g, s') => let '(gs, v4, s'') := read_groups n false s' in (g :: gs, v4, s'')
        | None => ([], false, s)
        end
    end.
Proof. reflexivity. Qed.

(* at a stop, read_groups reads nothing and leaves the state alone *)
Lemma rg_stop n first rest : gstop rest = true -> read_groups n first rest = ([], false, rest).
Proof.
  intros H. destruct n as [|n]; [reflexivity|]. rewrite read_groups_S.
  assert (H4 : read_sep ch_colon first read_ipv4 rest = None /\ read_sep ch_colon first read_hex16 rest = None).
  { unfold read_sep, ch_colon. destruct rest as [|c r].
    - destruct first; split; reflexivity.
    - cbn [gstop] in H. cbn [read_ch]. destruct (Z.eqb_spec c 58) as [->|Hc].
      + destruct first.
        * split; [apply read_ipv4_nodigit; reflexivity | apply read_number_nodigit; reflexivity].
        * destruct r as [|c2 r]; [split; reflexivity|]. apply Z.eqb_eq in H. subst c2.
          split; [apply read_ipv4_nodigit; reflexivity | apply read_number_nodigit; reflexivity].
      + destruct (to_digit 16 c) eqn:E; [discriminate|].
        destruct first; [|split; reflexivity].
        split; [apply read_ipv4_nodigit; apply to_digit_16_10; exact E
               | apply read_number_nodigit; exact E]. }
  destruct H4 as [-> ->]. destruct (2 <=? S n)%nat; reflexivity.
Qed.

Lemma show_tail_cons g t : show_tail (g :: t) = 58 :: show_hex g ++ show_tail t.
Proof. reflexivity. Qed.

Lemma tail_nds t rest : gstop rest = true -> no_dot_stop (show_tail t ++ rest) = true.
Proof. destruct t as [|g t]; [apply gstop_nds | intros _; reflexivity]. Qed.

Lemma tail_nodigit16 t rest : gstop rest = true -> nodigit 16 (show_tail t ++ rest).
Proof. destruct t as [|g t]; [apply gstop_nodigit16 | intros _; apply (nodigit_colon 16)]. Qed.

(* a hex group followed by more groups or a stop: not an IPv4 address, and read back *)
Lemma group_not_v4 g t rest :
  seg g -> gstop rest = true -> read_ipv4 (show_hex g ++ show_tail t ++ rest) = None.
Proof.
  intros Hg Hrest. destruct (show_hex_digits g Hg) as (ds & -> & Hds).
  apply read_ipv4_stop. apply no_dot_stop_hex; [exact Hds | apply tail_nds; exact Hrest].
Qed.

Lemma rg_tail : forall chunk n rest,
  Forall seg chunk -> (length chunk <= n)%nat -> gstop rest = true ->
  read_groups n false (show_tail chunk ++ rest) = (chunk, false, rest).
Proof.
  induction chunk as [|g t IH]; intros n rest Hc Hn Hrest.
  - cbn [show_tail flat_map app]. apply rg_stop. exact Hrest.
  - inversion Hc as [|g' t' Hg Ht]; subst.
    destruct n as [|n]; [cbn [length] in Hn; lia|].
    rewrite read_groups_S, show_tail_cons. rewrite <- app_comm_cons, <- app_assoc.
    unfold read_sep, ch_colon. rewrite read_ch_same.
    rewrite (group_not_v4 g t rest Hg Hrest).
    rewrite read_hex16_show by (auto using tail_nodigit16).
    rewrite IH by (auto; cbn [length] in Hn; lia).
    destruct (2 <=? S n)%nat; reflexivity.
Qed.

Lemma rg_groups chunk n rest :
  Forall seg chunk -> (length chunk <= n)%nat -> gstop rest = true ->
  read_groups n true (show_groups chunk ++ rest) = (chunk, false, rest).
Proof.
  intros Hc Hn Hrest. destruct chunk as [|g t].
  - cbn [show_groups app]. apply rg_stop. exact Hrest.
  - inversion Hc as [|g' t' Hg Ht]; subst.
    destruct n as [|n]; [cbn [length] in Hn; lia|].
    rewrite read_groups_S. cbn [show_groups]. rewrite <- app_assoc.
    unfold read_sep.
    rewrite (group_not_v4 g t rest Hg Hrest).
    rewrite read_hex16_show by (auto using tail_nodigit16).
    rewrite rg_tail by (auto; cbn [length] in Hn; lia).
    destruct (2 <=? S n)%nat; reflexivity.
Qed.

Lemma groups_nds chunk rest :
  Forall seg chunk -> no_dot_stop rest = true -> no_dot_stop (show_groups chunk ++ rest) = true.
Proof.
  intros Hc Hrest. destruct chunk as [|g t]; [exact Hrest|].
  inversion Hc as [|g' t' Hg Ht]; subst. cbn [show_groups]. rewrite <- app_assoc.
  destruct (show_hex_digits g Hg) as (ds & -> & Hds).
  apply no_dot_stop_hex; [exact Hds|]. destruct t as [|g2 t]; [exact Hrest | reflexivity].
Qed.

(* ================================================================== the zero span *)
(* span_loop only looks at `s =? 0`: decide its correctness on the 256 zero patterns *)
Definition norm (s : Z) : Z := if s =? 0 then 0 else 1.

Lemma span_loop_norm : forall l i ls ll cs cl,
  span_loop (map norm l) i ls ll cs cl = span_loop l i ls ll cs cl.
Proof.
  induction l as [|s l IH]; intros; cbn [map span_loop]; [reflexivity|].
  replace (norm s =? 0) with (s =? 0) by (unfold norm; destruct (s =? 0); reflexivity).
  destruct (s =? 0); [destruct (ll <? S cl)%nat|]; apply IH.
Qed.

Fixpoint pats (n : nat) : list (list Z) :=
  match n with
  | O => [[]]
  | S k => flat_map (fun p => [0 :: p; 1 :: p]) (pats k)
  end.

Lemma pats_complete : forall n l, length l = n -> In (map norm l) (pats n).
Proof.
  induction n as [|n IH]; intros l Hl.
  - destruct l; [left; reflexivity | discriminate].
  - destruct l as [|s l]; [discriminate|]. cbn [map pats]. apply in_flat_map.
    exists (map norm l). split; [apply IH; cbn [length] in Hl; lia|].
    unfold norm at 1. destruct (s =? 0); [left | right; left]; reflexivity.
Qed.

Definition span_ok (p : list Z) : bool :=
  let '(st, len) := find_span p in
  (len <=? 1)%nat
  || ((st + len <=? length p)%nat && forallb (Z.eqb 0) (firstn len (skipn st p))).

Lemma span_ok_all : forallb span_ok (pats 8) = true.
Proof. vm_compute. reflexivity. Qed.

Lemma all_zero_repeat : forall l, forallb (Z.eqb 0) (map norm l) = true -> l = repeat 0 (length l).
Proof.
  induction l as [|s l IH]; cbn [map forallb length repeat]; [reflexivity|].
  intros H. apply andb_true_iff in H as [H1 H2]. unfold norm in H1.
  destruct (Z.eqb_spec s 0) as [->|]; [|discriminate]. f_equal. apply IH. exact H2.
Qed.

Lemma skipn_add {A} : forall (a b : nat) (l : list A), skipn (a + b) l = skipn b (skipn a l).
Proof.
  induction a as [|a IH]; intros b l; [reflexivity|].
  destruct l as [|x l]; [cbn [Nat.add skipn]; destruct b; reflexivity|]. cbn [Nat.add skipn]. apply IH.
Qed.

Lemma find_span_spec segs st len :
  length segs = 8%nat -> find_span segs = (st, len) -> (1 < len)%nat ->
  (st + len <= 8)%nat /\ segs = firstn st segs ++ repeat 0 len ++ skipn (st + len) segs.
Proof.
  intros Hl Hs Hlen.
  pose proof span_ok_all as H. rewrite forallb_forall in H.
  specialize (H _ (pats_complete 8 segs Hl)). unfold span_ok, find_span in H.
  rewrite span_loop_norm in H. unfold find_span in Hs. rewrite Hs in H.
  rewrite map_length, Hl in H.
  destruct (Nat.leb_spec len 1); [lia|]. cbn [orb] in H.
  apply andb_true_iff in H as [H1 H2]. apply Nat.leb_le in H1. split; [exact H1|].
  rewrite skipn_map, firstn_map in H2. apply all_zero_repeat in H2.
  rewrite firstn_length, skipn_length, Hl in H2.
  replace (Nat.min len (8 - st)) with len in H2 by lia.
  rewrite <- H2.
  rewrite skipn_add, firstn_skipn, firstn_skipn. reflexivity.
Qed.

(* ================================================================== IPv6 *)
Definition wf6 (segs : list Z) : Prop := length segs = 8%nat /\ Forall seg segs.

Lemma wf_ip_v6 segs : wf_ip (V6 segs) = true <-> wf6 segs.
Proof.
  unfold wf6. cbn [wf_ip]. rewrite andb_true_iff, Nat.eqb_eq, forallb_forall, Forall_forall.
  split; intros [H1 H2]; (split; [exact H1|]); intros x Hx; apply segb_spec; auto.
Qed.

Lemma wf_ip_v4 a b c d : wf_ip (V4 a b c d) = true <-> oct a /\ oct b /\ oct c /\ oct d.
Proof. cbn [wf_ip]. rewrite !andb_true_iff, !octb_spec. tauto. Qed.

Lemma mapped_v4_some segs a b c d :
  mapped_v4 segs = Some (a, b, c, d) ->
  exists g h, segs = [0; 0; 0; 0; 0; 65535; g; h]
              /\ a = g / 256 /\ b = g mod 256 /\ c = h / 256 /\ d = h mod 256.
Proof.
  unfold mapped_v4.
  destruct segs as [|s0 [|s1 [|s2 [|s3 [|s4 [|s5 [|g [|h [|x l]]]]]]]]]; try discriminate.
  destruct (Z.eqb_spec s0 0); [|discriminate]. destruct (Z.eqb_spec s1 0); [|discriminate].
  destruct (Z.eqb_spec s2 0); [|discriminate]. destruct (Z.eqb_spec s3 0); [|discriminate].
  destruct (Z.eqb_spec s4 0); [|discriminate]. destruct (Z.eqb_spec s5 65535); [|discriminate].
  cbn [andb]. intros H. inversion H; subst. exists g, h. auto.
Qed.

(* the general theorem: the printed address followed by a stop parses back *)
Lemma read_ipv6_show segs rest :
  wf6 segs -> gstop rest = true -> read_ipv6 (show_v6 segs ++ rest) = Some (segs, rest).
Proof.
  intros [Hl Hseg] Hrest. unfold show_v6.
  destruct (mapped_v4 segs) as [[[[a b] c] d]|] eqn:Em.
  - (* ::ffff:a.b.c.d *)
    apply mapped_v4_some in Em as (g & h & -> & -> & -> & -> & ->).
    assert (Hg : seg g) by (rewrite Forall_forall in Hseg; apply Hseg; cbn; tauto).
    assert (Hh : seg h) by (rewrite Forall_forall in Hseg; apply Hseg; cbn; tauto).
    unfold seg in Hg, Hh.
    change (str "::ffff:") with ([58; 58] ++ show_hex 65535 ++ [58]).
    repeat (rewrite <- ?app_assoc, <- ?app_comm_cons). cbn [app].
    unfold read_ipv6. rewrite rg_stop by reflexivity. cbn [length Nat.eqb].
    unfold ch_colon. rewrite !read_ch_same.
    change (8 - (0 + 1))%nat with 7%nat.
    rewrite read_groups_S. unfold read_sep at 1 2.
    assert (E1 : read_ipv4 (show_hex 65535 ++ 58 :: show_v4 (g / 256) (g mod 256) (h / 256) (h mod 256) ++ rest) = None)
      by (apply read_ipv4_nodigit; reflexivity).
    rewrite E1. rewrite read_hex16_show by (try apply (nodigit_colon 16); lia).
    rewrite read_groups_S. unfold read_sep, ch_colon. rewrite read_ch_same.
    rewrite read_ipv4_show by (unfold oct; try lia; apply gstop_nodigit10; exact Hrest).
    cbn [Nat.leb length Nat.sub repeat app].
    repeat f_equal; lia.
  - destruct (find_span segs) as [st len] eqn:Es.
    destruct (Nat.ltb_spec 1 len) as [Hlen|Hlen].
    + (* head :: tail *)
      destruct (find_span_spec segs st len Hl Es Hlen) as [Hb Hsplit].
      assert (HlH : length (firstn st segs) = st) by (rewrite firstn_length; lia).
      assert (HlT : length (skipn (st + len) segs) = (8 - st - len)%nat) by (rewrite skipn_length; lia).
      remember (firstn st segs) as H eqn:EH. remember (skipn (st + len) segs) as T eqn:ET.
      assert (HsHT : Forall seg H /\ Forall seg T).
      { rewrite Hsplit in Hseg. apply Forall_app in Hseg as [H1 Hseg].
        apply Forall_app in Hseg as [_ H2]. auto. }
      destruct HsHT as [HsH HsT].
      rewrite <- app_assoc, <- !app_comm_cons. unfold read_ipv6.
      rewrite (rg_groups H 8 (ch_colon :: ch_colon :: show_groups T ++ rest)) by (auto; lia).
      rewrite HlH. destruct (Nat.eqb_spec st 8); [lia|].
      rewrite !read_ch_same.
      rewrite (rg_groups T (8 - (st + 1)) rest) by (auto; lia).
      rewrite HlT. replace (8 - st - (8 - st - len))%nat with len by lia.
      rewrite <- Hsplit. reflexivity.
    + (* no run of two or more zero groups: eight groups *)
      unfold read_ipv6. rewrite (rg_groups segs 8 rest) by (auto; lia).
      rewrite Hl. reflexivity.
Qed.

(* printed IPv6 text is never read as an IPv4 address (read_ip tries v4 first, and
   parse_with would not fall back after a partial v4 success) *)
Lemma show_v6_nds segs rest :
  wf6 segs -> gstop rest = true -> no_dot_stop (show_v6 segs ++ rest) = true.
Proof.
  intros [Hl Hseg] Hrest. unfold show_v6.
  destruct (mapped_v4 segs) as [[[[a b] c] d]|]; [reflexivity|].
  destruct (find_span segs) as [st len] eqn:Es.
  destruct (Nat.ltb_spec 1 len) as [Hlen|Hlen].
  - destruct (find_span_spec segs st len Hl Es Hlen) as [Hb Hsplit].
    rewrite <- app_assoc. apply groups_nds; [|reflexivity].
    rewrite Hsplit in Hseg. apply Forall_app in Hseg as [H1 _]. exact H1.
  - apply groups_nds; [exact Hseg | apply gstop_nds; exact Hrest].
Qed.

Lemma read_ip_show_v6 segs rest :
  wf6 segs -> gstop rest = true -> read_ip (show_v6 segs ++ rest) = Some (V6 segs, rest).
Proof.
  intros Hwf Hrest. unfold read_ip.
  rewrite read_ipv4_stop by (apply show_v6_nds; assumption).
  rewrite read_ipv6_show by assumption. reflexivity.
Qed.

(* ================================================================== the round trips *)
Theorem parse_ip_show_v4 : forall a b c d,
  0 <= a < 256 -> 0 <= b < 256 -> 0 <= c < 256 -> 0 <= d < 256 ->
  parse_ip (show_ip (V4 a b c d)) = Some (V4 a b c d).
Proof.
  intros a b c d Ha Hb Hc Hd. unfold parse_ip, read_ip. cbn [show_ip].
  rewrite <- (app_nil_r (show_v4 a b c d)).
  rewrite read_ipv4_show by (auto; exact I). reflexivity.
Qed.

Theorem parse_ip_show_v6 : forall segs,
  wf_ip (V6 segs) = true -> parse_ip (show_ip (V6 segs)) = Some (V6 segs).
Proof.
  intros segs Hwf. apply wf_ip_v6 in Hwf. unfold parse_ip. cbn [show_ip].
  rewrite <- (app_nil_r (show_v6 segs)).
  rewrite read_ip_show_v6 by (auto; reflexivity). reflexivity.
Qed.

Theorem parse_ip_show : forall a, wf_ip a = true -> parse_ip (show_ip a) = Some a.
Proof.
  intros [a b c d|segs] Hwf.
  - apply wf_ip_v4 in Hwf as (Ha & Hb & Hc & Hd). apply parse_ip_show_v4; assumption.
  - apply parse_ip_show_v6. exact Hwf.
Qed.

(* the typed entry points agree *)
Theorem parse_ipv6_show : forall segs,
  wf_ip (V6 segs) = true -> parse_ipv6 (show_ip (V6 segs)) = Some (V6 segs).
Proof.
  intros segs Hwf. apply wf_ip_v6 in Hwf. unfold parse_ipv6. cbn [show_ip].
  rewrite <- (app_nil_r (show_v6 segs)).
  rewrite read_ipv6_show by (auto; reflexivity). reflexivity.
Qed.

Corollary show_ip_inj : forall a b,
  wf_ip a = true -> wf_ip b = true -> show_ip a = show_ip b -> a = b.
Proof.
  intros a b Ha Hb E. apply parse_ip_show in Ha. apply parse_ip_show in Hb.
  rewrite E in Ha. rewrite Ha in Hb. inversion Hb. reflexivity.
Qed.

(* ------------------------------------------------------------------ socket addresses *)
Lemma read_port_show p rest :
  0 <= p < 65536 -> nodigit 10 rest -> read_port (ch_colon :: show_dec p ++ rest) = Some (p, rest).
Proof.
  intros Hp Hrest. unfold read_port. rewrite read_ch_same.
  apply read_dec_show; [lia | reflexivity | exact Hrest].
Qed.

Theorem parse_sockaddr_sc_show : forall a port scope,
  wf_ip a = true -> 0 <= port < 65536 -> 0 <= scope < 4294967296 ->
  parse_sockaddr_sc (show_sockaddr_sc a port scope)
  = Some (a, port, match a with V4 _ _ _ _ => 0 | V6 _ => scope end).
Proof.
  intros [a b c d|segs] port scope Hwf Hp Hs; unfold parse_sockaddr_sc, show_sockaddr_sc.
  - apply wf_ip_v4 in Hwf as (Ha & Hb & Hc & Hd). cbn [show_ip].
    unfold read_sock4. rewrite read_ipv4_show by (auto; apply (nodigit_colon 10)).
    rewrite <- (app_nil_r (show_dec port)). rewrite read_port_show by (auto; exact I).
    reflexivity.
  - apply wf_ip_v6 in Hwf. cbn [show_ip].
    assert (E4 : forall r, read_sock4 (ch_lbr :: r) = None).
    { intros r. unfold read_sock4. rewrite read_ipv4_nodigit by reflexivity. reflexivity. }
    rewrite E4. unfold read_sock6. rewrite read_ch_same.
    destruct (Z.eqb_spec scope 0) as [->|Hs0]; cbn [app].
    + rewrite read_ipv6_show by (auto; reflexivity).
      cbn [read_scope read_ch ch_rbr ch_pct Z.eqb Pos.eqb].
      rewrite <- (app_nil_r (show_dec port)).
      rewrite read_port_show by (auto; exact I). reflexivity.
    + rewrite read_ipv6_show by (auto; reflexivity).
      unfold read_scope. rewrite read_ch_same.
      rewrite read_dec_show by (try lia; reflexivity).
      rewrite read_ch_same. rewrite <- (app_nil_r (show_dec port)).
      rewrite read_port_show by (auto; exact I). reflexivity.
Qed.

Theorem parse_sockaddr_show : forall a p,
  wf_ip a = true -> 0 <= p < 65536 -> parse_sockaddr (show_sockaddr (a, p)) = Some (a, p).
Proof.
  intros a p Hwf Hp. unfold parse_sockaddr, show_sockaddr. cbn [fst snd].
  rewrite parse_sockaddr_sc_show by (auto; lia). reflexivity.
Qed.

Corollary show_sockaddr_inj : forall a p b q,
  wf_ip a = true -> 0 <= p < 65536 -> wf_ip b = true -> 0 <= q < 65536 ->
  show_sockaddr (a, p) = show_sockaddr (b, q) -> (a, p) = (b, q).
Proof.
  intros a p b q Ha Hp Hb Hq E.
  pose proof (parse_sockaddr_show a p Ha Hp) as H1. pose proof (parse_sockaddr_show b q Hb Hq) as H2.
  rewrite E in H1. rewrite H1 in H2. inversion H2. reflexivity.
Qed.

(* ------------------------------------------------------------------ decimal helper *)
Lemma dec_acc_digits : forall ds acc, Forall (dig 10) ds -> dec_acc acc (map dchar ds) = Some (eval 10 acc ds).
Proof.
  induction ds as [|d ds IH]; intros acc H; [reflexivity|].
  inversion H as [|d' ds' Hd Hds]; subst. cbn [map dec_acc]. unfold dig in Hd. unfold dchar at 1 2.
  destruct (Z.leb_spec 48 (48 + d)); [|lia]. destruct (Z.leb_spec (48 + d) 57); [|lia]. cbn [andb].
  rewrite IH by exact Hds. unfold dchar. replace (48 + d - 48) with d by lia. reflexivity.
Qed.

Theorem parse_dec_show : forall v, 0 <= v < 10 ^ 10 -> parse_dec (show_dec v) = Some v.
Proof.
  intros v Hv. unfold show_dec.
  destruct (digits_spec 10 ltac:(lia) 9 v []) as (ds & E1 & E2 & E3 & E4 & _).
  { change (10 ^ Z.of_nat 10) with (10 ^ 10). exact Hv. }
  rewrite app_nil_r in E1. rewrite E1. unfold parse_dec.
  destruct ds as [|d ds]; [cbn [length] in E4; lia|]. cbn [map].
  change (dchar d :: map dchar ds) with (map dchar (d :: ds)).
  rewrite dec_acc_digits by exact E2. rewrite E3. reflexivity.
Qed.

(* ================================================================== shape of the text *)
(* the characters of a printed address: 0-9 a-f . : ; at most 39 of them; valid UTF-8 *)
Definition ipchar (c : Z) : Prop := 48 <= c <= 57 \/ 97 <= c <= 102 \/ c = 46 \/ c = 58.

Lemma show_dec_digits v : 0 <= v < 10 ^ 10 ->
  exists ds, show_dec v = map dchar ds /\ Forall (dig 10) ds
             /\ (forall n : nat, (1 <= n)%nat -> v < 10 ^ Z.of_nat n -> (length ds <= n)%nat).
Proof.
  intros Hv. unfold show_dec.
  destruct (digits_spec 10 ltac:(lia) 9 v []) as (ds & E1 & E2 & _ & _ & E5 & _).
  { change (10 ^ Z.of_nat 10) with (10 ^ 10). exact Hv. }
  rewrite app_nil_r in E1. exists ds. rewrite E1. auto.
Qed.

Lemma show_dec_chars v : 0 <= v < 10 ^ 10 -> Forall ipchar (show_dec v).
Proof.
  intros Hv. destruct (show_dec_digits v Hv) as (ds & -> & Hds & _).
  apply Forall_map. eapply Forall_impl; [|exact Hds].
  intros d Hd. unfold dig in Hd. unfold ipchar, dchar. lia.
Qed.

Lemma show_oct_length v : oct v -> (length (show_dec v) <= 3)%nat.
Proof.
  intros Hv. unfold oct in Hv. destruct (show_dec_digits v ltac:(lia)) as (ds & -> & _ & Hn).
  rewrite map_length. apply Hn; [lia|]. change (10 ^ Z.of_nat 3) with 1000. lia.
Qed.

Lemma show_hex_chars v : seg v -> Forall ipchar (show_hex v).
Proof.
  intros Hv. destruct (show_hex_digits v Hv) as (ds & -> & Hds).
  apply Forall_map. eapply Forall_impl; [|exact Hds].
  intros d Hd. unfold dig in Hd. unfold ipchar, hchar. destruct (Z.ltb_spec d 10); lia.
Qed.

Lemma show_hex_length v : seg v -> (length (show_hex v) <= 4)%nat.
Proof.
  intros Hv. unfold show_hex.
  destruct (digits_spec 16 ltac:(lia) 3 v []) as (ds & E1 & _ & _ & _ & E5 & _).
  { change (16 ^ Z.of_nat 4) with 65536. exact Hv. }
  rewrite app_nil_r in E1. rewrite E1, map_length. apply E5; [lia|].
  change (16 ^ Z.of_nat 4) with 65536. apply Hv.
Qed.

Lemma show_v4_chars a b c d : oct a -> oct b -> oct c -> oct d -> Forall ipchar (show_v4 a b c d).
Proof.
  unfold oct. intros Ha Hb Hc Hd. unfold show_v4, ch_dot.
  assert (Hdot : ipchar 46) by (unfold ipchar; lia).
  apply Forall_app; split; [apply show_dec_chars; lia | constructor; [exact Hdot|]].
  apply Forall_app; split; [apply show_dec_chars; lia | constructor; [exact Hdot|]].
  apply Forall_app; split; [apply show_dec_chars; lia | constructor; [exact Hdot|]].
  apply show_dec_chars; lia.
Qed.

Lemma show_v4_length a b c d : oct a -> oct b -> oct c -> oct d -> (length (show_v4 a b c d) <= 15)%nat.
Proof.
  intros Ha Hb Hc Hd. unfold show_v4. repeat (rewrite app_length; cbn [length]).
  apply show_oct_length in Ha, Hb, Hc, Hd. lia.
Qed.

Lemma show_tail_chars t : Forall seg t -> Forall ipchar (show_tail t).
Proof.
  induction 1 as [|g t Hg Ht IH]; [constructor|]. rewrite show_tail_cons.
  constructor; [unfold ipchar; lia|]. apply Forall_app; split; [apply show_hex_chars; exact Hg | exact IH].
Qed.

Lemma show_tail_length t : Forall seg t -> (length (show_tail t) <= 5 * length t)%nat.
Proof.
  induction 1 as [|g t Hg Ht IH]; [cbn; lia|]. rewrite show_tail_cons. cbn [length].
  rewrite app_length. apply show_hex_length in Hg. lia.
Qed.

Lemma show_groups_chars l : Forall seg l -> Forall ipchar (show_groups l).
Proof.
  intros H. destruct l as [|g t]; [constructor|]. inversion H; subst. cbn [show_groups].
  apply Forall_app; split; [apply show_hex_chars | apply show_tail_chars]; assumption.
Qed.

Lemma show_groups_length l : Forall seg l -> (length (show_groups l) <= 5 * length l)%nat.
Proof.
  intros H. destruct l as [|g t]; [cbn; lia|]. inversion H as [|g' t' Hg Ht]; subst. cbn [show_groups length].
  rewrite app_length. apply show_hex_length in Hg. apply show_tail_length in Ht. lia.
Qed.

Lemma show_groups8_length l : Forall seg l -> length l = 8%nat -> (length (show_groups l) <= 39)%nat.
Proof.
  intros H Hl. destruct l as [|g t]; [discriminate|]. inversion H as [|g' t' Hg Ht]; subst. cbn [show_groups].
  rewrite app_length. apply show_hex_length in Hg. apply show_tail_length in Ht. cbn [length] in Hl. lia.
Qed.

Theorem show_ip_shape : forall a, wf_ip a = true ->
  Forall ipchar (show_ip a) /\ (length (show_ip a) <= 39)%nat.
Proof.
  intros [a b c d|segs] Hwf.
  - apply wf_ip_v4 in Hwf as (Ha & Hb & Hc & Hd). cbn [show_ip]. split.
    + apply show_v4_chars; assumption.
    + pose proof (show_v4_length a b c d Ha Hb Hc Hd). lia.
  - apply wf_ip_v6 in Hwf as [Hl Hseg]. cbn [show_ip]. unfold show_v6.
    destruct (mapped_v4 segs) as [[[[a b] c] d]|] eqn:Em.
    + apply mapped_v4_some in Em as (g & h & -> & -> & -> & -> & ->).
      assert (Hg : seg g) by (rewrite Forall_forall in Hseg; apply Hseg; cbn; tauto).
      assert (Hh : seg h) by (rewrite Forall_forall in Hseg; apply Hseg; cbn; tauto).
      unfold seg in Hg, Hh.
      assert (O1 : oct (g / 256)) by (unfold oct; lia). assert (O2 : oct (g mod 256)) by (unfold oct; lia).
      assert (O3 : oct (h / 256)) by (unfold oct; lia). assert (O4 : oct (h mod 256)) by (unfold oct; lia).
      split.
      * apply Forall_app; split; [|apply show_v4_chars; assumption].
        change (str "::ffff:") with [58; 58; 102; 102; 102; 102; 58].
        repeat (apply Forall_cons; [unfold ipchar; lia|]). apply Forall_nil.
      * rewrite app_length. pose proof (show_v4_length _ _ _ _ O1 O2 O3 O4).
        change (length (str "::ffff:")) with 7%nat. lia.
    + destruct (find_span segs) as [st len] eqn:Es.
      destruct (Nat.ltb_spec 1 len) as [Hlen|Hlen].
      * destruct (find_span_spec segs st len Hl Es Hlen) as [Hb Hsplit].
        assert (HsHT : Forall seg (firstn st segs) /\ Forall seg (skipn (st + len) segs)).
        { rewrite Hsplit in Hseg. apply Forall_app in Hseg as [H1 Hseg].
          apply Forall_app in Hseg as [_ H2]. auto. }
        destruct HsHT as [HsH HsT]. split.
        -- apply Forall_app; split; [apply show_groups_chars; exact HsH|].
           constructor; [unfold ipchar, ch_colon; lia|]. constructor; [unfold ipchar, ch_colon; lia|].
           apply show_groups_chars; exact HsT.
        -- rewrite app_length. cbn [length].
           apply show_groups_length in HsH, HsT. rewrite firstn_length in HsH. rewrite skipn_length in HsT. lia.
      * split; [apply show_groups_chars; exact Hseg | apply show_groups8_length; assumption].
Qed.

Lemma ascii_utf8 : forall l, Forall (fun c => 0 <= c <= 127) l -> Utf8.utf8_valid l = true.
Proof.
  induction 1 as [|c l Hc Hl IH]; [reflexivity|]. cbn [Utf8.utf8_valid]. unfold Utf8.inr at 1.
  destruct (Z.leb_spec 0 c); [|lia]. destruct (Z.leb_spec c 127); [|lia]. exact IH.
Qed.

Corollary show_ip_utf8 : forall a, wf_ip a = true -> Utf8.utf8_valid (show_ip a) = true.
Proof.
  intros a Hwf. apply ascii_utf8. eapply Forall_impl; [|apply show_ip_shape; exact Hwf].
  intros c Hc. unfold ipchar in Hc. lia.
Qed.

(* ================================================================== non-vacuity and a finite cross-check *)
Example roundtrip_v6_compressed :
  wf_ip (V6 [8193; 3512; 0; 0; 1; 0; 0; 1]) = true
  /\ show_ip (V6 [8193; 3512; 0; 0; 1; 0; 0; 1]) = str "2001:db8::1:0:0:1"
  /\ parse_ip (str "2001:db8::1:0:0:1") = Some (V6 [8193; 3512; 0; 0; 1; 0; 0; 1]).
Proof. vm_compute. auto. Qed.
Example roundtrip_sock :
  show_sockaddr (V6 [0;0;0;0;0;65535;2560;1], 25565) = str "[::ffff:10.0.0.1]:25565"
  /\ parse_sockaddr (str "[::ffff:10.0.0.1]:25565") = Some (V6 [0;0;0;0;0;65535;2560;1], 25565).
Proof. vm_compute. auto. Qed.
(* injectivity needs wf: outside the domain two values print alike *)
Example show_ip_not_inj_outside_wf : show_ip (V6 [0; 0]) = show_ip (V6 [0; 0; 0]).
Proof. vm_compute. reflexivity. Qed.

(* FINITE CHECK (not the theorem, which is parse_ip_show_v6 above): an independent
   evaluation of the executable model on all 2^8 zero/non-zero patterns x non-zero value
   in {1, 0xff, 0xabc, 0xffff} (1024 addresses), plus the IPv4-mapped family. *)
Definition pattern_addr (v : Z) (p : list Z) : list Z := map (fun b => if b =? 0 then 0 else v) p.
Definition rt_ok (segs : list Z) : bool :=
  match parse_ip (show_ip (V6 segs)) with Some b => ip_eqb (V6 segs) b | None => false end.
Example finite_check_patterns :
  forallb (fun v => forallb (fun p => rt_ok (pattern_addr v p)) (pats 8)) [1; 255; 2748; 65535] = true.
Proof. vm_compute. reflexivity. Qed.
Example finite_check_mapped :
  forallb (fun g => forallb (fun h => rt_ok [0; 0; 0; 0; 0; 65535; g; h]) [0; 1; 255; 256; 2748; 65535])
          [0; 1; 255; 256; 2748; 65535] = true.
Proof. vm_compute. reflexivity. Qed.
