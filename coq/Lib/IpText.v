(* Text form of IP and socket addresses as Rust's core::net prints and parses them.

   Executable Gallina transcription of
     library/core/src/net/ip_addr.rs      (Display for Ipv4Addr / Ipv6Addr)
     library/core/src/net/socket_addr.rs  (Display for SocketAddrV4 / SocketAddrV6)
     library/core/src/net/parser.rs       (Parser, FromStr for IpAddr/Ipv4Addr/Ipv6Addr/SocketAddr)
   read from the rust-src of 1.97.0-nightly (ad3a598ca 2026-05-03) and tied by the
   `iptext` harness to the std of the toolchain that builds the harness
   (rustc 1.95.0, 59807616e 2026-04-14).

   Definitions and Examples only; the proofs are in Lib/IpTextProofs.v.

   Parser state = the remaining input (`bytes`).  Every `read_*` function returns
   `option (value * rest)`; `None` leaves the caller with its old state, which is what
   `Parser::read_atomically` does.  `read_groups` is the one non-atomic function of
   parser.rs and returns its state explicitly. *)
From Passage Require Import Lib.Bytes.

Inductive ip := V4 (a b c d : Z) | V6 (segs : list Z).

Definition octb (v : Z) : bool := (0 <=? v) && (v <? 256).
Definition segb (v : Z) : bool := (0 <=? v) && (v <? 65536).
Definition portb (v : Z) : bool := (0 <=? v) && (v <? 65536).
Definition scopeb (v : Z) : bool := (0 <=? v) && (v <? 4294967296).

(* V4: four u8; V6: eight u16 (Ipv6Addr::segments()) *)
Definition wf_ip (a : ip) : bool :=
  match a with
  | V4 a b c d => octb a && octb b && octb c && octb d
  | V6 s => (length s =? 8)%nat && forallb segb s
  end.

Definition zlist_eqb := beq.
Definition ip_eqb (x y : ip) : bool :=
  match x, y with
  | V4 a b c d, V4 a' b' c' d' => (a =? a') && (b =? b') && (c =? c') && (d =? d')
  | V6 s, V6 s' => beq s s'
  | _, _ => false
  end.

(* ------------------------------------------------------------------ printing numbers *)
(* digits of v in the given radix, most significant first, no leading zero, [0] for 0;
   `fuel` bounds the number of digits (core::fmt's loop `n /= base` until n == 0) *)
Fixpoint digits_aux (radix : Z) (fuel : nat) (v : Z) (acc : list Z) : list Z :=
  match fuel with
  | O => acc
  | S f => let acc' := v mod radix :: acc in
           if v / radix =? 0 then acc' else digits_aux radix f (v / radix) acc'
  end.

Definition dchar (d : Z) : Z := 48 + d.
Definition hchar (d : Z) : Z := if d <? 10 then 48 + d else 87 + d.   (* lower case *)

(* `{}` of u8/u16/u32: at most 10 digits *)
Definition show_dec (v : Z) : bytes := map dchar (digits_aux 10 10 v []).
(* `{:x}` of u16: at most 4 digits *)
Definition show_hex (v : Z) : bytes := map hchar (digits_aux 16 4 v []).

(* ------------------------------------------------------------------ Display *)
Definition ch_dot : Z := 46.
Definition ch_colon : Z := 58.
Definition ch_lbr : Z := 91.
Definition ch_rbr : Z := 93.
Definition ch_pct : Z := 37.

(* write!(fmt, "{}.{}.{}.{}", o0, o1, o2, o3) *)
Definition show_v4 (a b c d : Z) : bytes :=
  show_dec a ++ ch_dot :: show_dec b ++ ch_dot :: show_dec c ++ ch_dot :: show_dec d.

(* the `zeroes` loop of Display for Ipv6Addr: longest run of zero segments, the first
   one on ties.  State: longest (ls, ll), current (cs, cl), index i. *)
Fixpoint span_loop (l : list Z) (i ls ll cs cl : nat) : nat * nat :=
  match l with
  | [] => (ls, ll)
  | s :: r =>
      if s =? 0 then
        let cs' := if (cl =? 0)%nat then i else cs in
        let cl' := S cl in
        if (ll <? cl')%nat then span_loop r (S i) cs' cl' cs' cl'
        else span_loop r (S i) ls ll cs' cl'
      else span_loop r (S i) ls ll 0%nat 0%nat
  end.
Definition find_span (segs : list Z) : nat * nat := span_loop segs 0 0 0 0 0.

(* fmt_subslice: colon separated `{:x}` *)
Definition show_tail (chunk : list Z) : bytes :=
  flat_map (fun g => ch_colon :: show_hex g) chunk.
Definition show_groups (chunk : list Z) : bytes :=
  match chunk with
  | [] => []
  | g :: t => show_hex g ++ show_tail t
  end.

(* Ipv6Addr::to_ipv4_mapped on the segments: [0,0,0,0,0,0xffff,ab,cd] *)
Definition mapped_v4 (segs : list Z) : option (Z * Z * Z * Z) :=
  match segs with
  | [s0; s1; s2; s3; s4; s5; g; h] =>
      if (s0 =? 0) && (s1 =? 0) && (s2 =? 0) && (s3 =? 0) && (s4 =? 0) && (s5 =? 65535)
      then Some (g / 256, g mod 256, h / 256, h mod 256) else None
  | _ => None
  end.

(* In this std version only the IPv4-mapped form is special-cased; "::" and "::1" fall
   out of the general branch and IPv4-compatible addresses print in hex ("::102:304"). *)
Definition show_v6 (segs : list Z) : bytes :=
  match mapped_v4 segs with
  | Some (a, b, c, d) => str "::ffff:" ++ show_v4 a b c d
  | None =>
      let '(st, len) := find_span segs in
      if (1 <? len)%nat then
        show_groups (firstn st segs) ++ ch_colon :: ch_colon :: show_groups (skipn (st + len) segs)
      else show_groups segs
  end.

Definition show_ip (a : ip) : bytes :=
  match a with
  | V4 a b c d => show_v4 a b c d
  | V6 s => show_v6 s
  end.

(* SocketAddrV4: "{ip}:{port}"; SocketAddrV6: "[{ip}]:{port}" or "[{ip}%{scope}]:{port}"
   when scope_id != 0 (flowinfo is never printed).  The scope of a V4 address is ignored. *)
Definition show_sockaddr_sc (a : ip) (port scope : Z) : bytes :=
  match a with
  | V4 _ _ _ _ => show_ip a ++ ch_colon :: show_dec port
  | V6 _ => ch_lbr :: show_ip a ++ (if scope =? 0 then [] else ch_pct :: show_dec scope)
                   ++ ch_rbr :: ch_colon :: show_dec port
  end.
Definition show_sockaddr (ap : ip * Z) : bytes := show_sockaddr_sc (fst ap) (snd ap) 0.

(* ------------------------------------------------------------------ Parser *)
(* char::to_digit(radix) on char::from(byte) *)
Definition to_digit (radix c : Z) : option Z :=
  if (48 <=? c) && (c <=? 57) then (if c - 48 <? radix then Some (c - 48) else None)
  else if (10 <? radix) && (97 <=? c) && (c - 87 <? radix) then Some (c - 87)
  else if (10 <? radix) && (65 <=? c) && (c <=? 90) && (c - 55 <? radix) then Some (c - 55)
  else None.

(* read_number, branch `max_digits = Some(m)`: plain u32 arithmetic, fail as soon as the
   digit count exceeds m.  Returns (value, digit_count, rest). *)
Fixpoint rd_max (radix m acc cnt : Z) (s : bytes) : option (Z * Z * bytes) :=
  match s with
  | [] => Some (acc, cnt, s)
  | c :: r =>
      match to_digit radix c with
      | None => Some (acc, cnt, s)
      | Some d => if m <? cnt + 1 then None else rd_max radix m (acc * radix + d) (cnt + 1) r
      end
  end.

(* read_number, branch `max_digits = None`: checked_mul / checked_add in the target
   type (limit = T::MAX), any number of digits *)
Fixpoint rd_chk (radix limit acc cnt : Z) (s : bytes) : option (Z * Z * bytes) :=
  match s with
  | [] => Some (acc, cnt, s)
  | c :: r =>
      match to_digit radix c with
      | None => Some (acc, cnt, s)
      | Some d =>
          if limit <? acc * radix then None
          else if limit <? acc * radix + d then None
          else rd_chk radix limit (acc * radix + d) (cnt + 1) r
      end
  end.

(* Parser::read_number::<T>(radix, max_digits, allow_zero_prefix), limit = T::MAX *)
Definition read_number (radix : Z) (maxd : option Z) (limit : Z) (allow0 : bool) (s : bytes)
  : option (Z * bytes) :=
  let lead0 := match s with c :: _ => c =? 48 | [] => false end in   (* peek_char() == Some('0') *)
  let r := match maxd with
           | Some m => match rd_max radix m 0 0 s with
                       | Some (v, n, rest) => if limit <? v then None else Some (v, n, rest)
                       | None => None
                       end
           | None => rd_chk radix limit 0 0 s
           end in
  match r with
  | None => None
  | Some (v, n, rest) =>
      if n =? 0 then None
      else if negb allow0 && lead0 && (1 <? n) then None
      else Some (v, rest)
  end.

(* read_given_char *)
Definition read_ch (c : Z) (s : bytes) : option bytes :=
  match s with
  | x :: r => if x =? c then Some r else None
  | [] => None
  end.

(* read_separator(sep, index, inner): `first` <-> index = 0 *)
Definition read_sep {A} (sep : Z) (first : bool) (inner : bytes -> option (A * bytes)) (s : bytes)
  : option (A * bytes) :=
  if first then inner s
  else match read_ch sep s with Some r => inner r | None => None end.

Definition read_octet : bytes -> option (Z * bytes) := read_number 10 (Some 3) 255 false.
Definition read_hex16 : bytes -> option (Z * bytes) := read_number 16 (Some 4) 65535 true.

(* read_ipv4_addr *)
Definition read_ipv4 (s : bytes) : option ((Z * Z * Z * Z) * bytes) :=
  match read_sep ch_dot true read_octet s with None => None | Some (a, s1) =>
  match read_sep ch_dot false read_octet s1 with None => None | Some (b, s2) =>
  match read_sep ch_dot false read_octet s2 with None => None | Some (c, s3) =>
  match read_sep ch_dot false read_octet s3 with None => None | Some (d, s4) =>
  Some ((a, b, c, d), s4) end end end end.

(* read_groups(p, groups) with n = number of slots not yet visited (limit - i) and
   first <-> i = 0.  `i < limit - 1` is `2 <= n`.  Returns (groups read, whether an
   embedded IPv4 tail was read, parser state). *)
Fixpoint read_groups (n : nat) (first : bool) (s : bytes) : list Z * bool * bytes :=
  match n with
  | O => ([], false, s)
  | S n' =>
      match (if (2 <=? n)%nat then read_sep ch_colon first read_ipv4 s else None) with
      | Some ((a, b, c, d), s') => ([a * 256 + b; c * 256 + d], true, s')
      | None =>
          match read_sep ch_colon first read_hex16 s with
          | Some (g, s') => let '(gs, v4, s'') := read_groups n' false s' in (g :: gs, v4, s'')
          | None => ([], false, s)
          end
      end
  end.

(* read_ipv6_addr.  `head[(8 - tail_size)..8].copy_from_slice(&tail[..tail_size])` on a
   zero-initialised array whose first head_size slots are filled is
   head ++ zeros ++ tail (head_size + 1 + tail_size <= 8, so nothing overlaps). *)
Definition read_ipv6 (s : bytes) : option (list Z * bytes) :=
  let '(hd, hv4, s1) := read_groups 8 true s in
  if (length hd =? 8)%nat then Some (hd, s1)
  else if hv4 then None
  else match read_ch ch_colon s1 with None => None | Some s2 =>
       match read_ch ch_colon s2 with None => None | Some s3 =>
       let '(tl, _, s4) := read_groups (8 - (length hd + 1)) true s3 in
       Some (hd ++ repeat 0 (8 - length hd - length tl) ++ tl, s4)
       end end.

(* read_ip_addr: v4, or else v6 *)
Definition read_ip (s : bytes) : option (ip * bytes) :=
  match read_ipv4 s with
  | Some ((a, b, c, d), r) => Some (V4 a b c d, r)
  | None => match read_ipv6 s with
            | Some (g, r) => Some (V6 g, r)
            | None => None
            end
  end.

(* parse_with: the whole input must be consumed *)
Definition whole {A} (r : option (A * bytes)) : option A :=
  match r with
  | Some (v, []) => Some v
  | _ => None
  end.

(* Ipv4Addr::from_str (with its `len > 15` shortcut), Ipv6Addr::from_str, IpAddr::from_str *)
Definition parse_ipv4 (b : bytes) : option ip :=
  if (15 <? length b)%nat then None
  else match whole (read_ipv4 b) with Some (a, b, c, d) => Some (V4 a b c d) | None => None end.
Definition parse_ipv6 (b : bytes) : option ip :=
  match whole (read_ipv6 b) with Some g => Some (V6 g) | None => None end.
Definition parse_ip (b : bytes) : option ip := whole (read_ip b).

(* read_port / read_scope_id: ':' resp. '%' then a decimal u16 resp. u32 with any number
   of digits, leading zeros allowed, overflow rejected *)
Definition read_port (s : bytes) : option (Z * bytes) :=
  match read_ch ch_colon s with Some r => read_number 10 None 65535 true r | None => None end.
Definition read_scope (s : bytes) : option (Z * bytes) :=
  match read_ch ch_pct s with Some r => read_number 10 None 4294967295 true r | None => None end.

Definition read_sock4 (s : bytes) : option ((ip * Z * Z) * bytes) :=
  match read_ipv4 s with None => None | Some ((a, b, c, d), s1) =>
  match read_port s1 with None => None | Some (p, s2) => Some ((V4 a b c d, p, 0), s2) end end.

Definition read_sock6 (s : bytes) : option ((ip * Z * Z) * bytes) :=
  match read_ch ch_lbr s with None => None | Some s1 =>
  match read_ipv6 s1 with None => None | Some (g, s2) =>
  let '(scope, s3) := match read_scope s2 with Some (sc, r) => (sc, r) | None => (0, s2) end in
  match read_ch ch_rbr s3 with None => None | Some s4 =>
  match read_port s4 with None => None | Some (p, s5) => Some ((V6 g, p, scope), s5) end end end end.

(* SocketAddr::from_str -> (ip, port, scope_id); scope_id is 0 for V4 *)
Definition parse_sockaddr_sc (b : bytes) : option (ip * Z * Z) :=
  whole (match read_sock4 b with Some r => Some r | None => read_sock6 b end).

(* the (ip, port) projection the router uses: SocketAddr::ip(), SocketAddr::port().
   A scope id "%N" is accepted and dropped here, as `.ip()`/`.port()` drop it. *)
Definition parse_sockaddr (b : bytes) : option (ip * Z) :=
  match parse_sockaddr_sc b with Some (a, p, _) => Some (a, p) | None => None end.

(* plain decimal helper (NOT a Rust function): non-empty, decimal digits only, leading
   zeros allowed, unbounded value *)
Fixpoint dec_acc (acc : Z) (s : bytes) : option Z :=
  match s with
  | [] => Some acc
  | c :: r => if (48 <=? c) && (c <=? 57) then dec_acc (acc * 10 + (c - 48)) r else None
  end.
Definition parse_dec (s : bytes) : option Z :=
  match s with [] => None | _ => dec_acc 0 s end.

(* ------------------------------------------------------------------ Examples *)
Example ex_dec : (show_dec 0, show_dec 7, show_dec 255, show_dec 65535, show_dec 4294967295)
  = (str "0", str "7", str "255", str "65535", str "4294967295").
Proof. vm_compute. reflexivity. Qed.
Example ex_hex : (show_hex 0, show_hex 10, show_hex 2748, show_hex 65535)
  = (str "0", str "a", str "abc", str "ffff").
Proof. vm_compute. reflexivity. Qed.
Example ex_show4 : show_ip (V4 127 0 0 1) = str "127.0.0.1".
Proof. vm_compute. reflexivity. Qed.
Example ex_show6_unspec : show_ip (V6 [0;0;0;0;0;0;0;0]) = str "::".
Proof. vm_compute. reflexivity. Qed.
Example ex_show6_loop : show_ip (V6 [0;0;0;0;0;0;0;1]) = str "::1".
Proof. vm_compute. reflexivity. Qed.
Example ex_show6_mapped : show_ip (V6 [0;0;0;0;0;65535;49320;258]) = str "::ffff:192.168.1.2".
Proof. vm_compute. reflexivity. Qed.
Example ex_show6_compat : show_ip (V6 [0;0;0;0;0;0;49320;258]) = str "::c0a8:102".
Proof. vm_compute. reflexivity. Qed.
Example ex_show6_first_of_ties : show_ip (V6 [1;0;0;2;3;0;0;4]) = str "1::2:3:0:0:4".
Proof. vm_compute. reflexivity. Qed.
Example ex_show6_longest : show_ip (V6 [1;0;0;2;0;0;0;4]) = str "1:0:0:2::4".
Proof. vm_compute. reflexivity. Qed.
Example ex_show6_single_zero : show_ip (V6 [8193;3512;0;1;2;3;4;5]) = str "2001:db8:0:1:2:3:4:5".
Proof. vm_compute. reflexivity. Qed.
Example ex_show6_end : show_ip (V6 [8193;3512;1;2;3;4;0;0]) = str "2001:db8:1:2:3:4::".
Proof. vm_compute. reflexivity. Qed.

Example ex_parse4 : parse_ip (str "192.168.1.2") = Some (V4 192 168 1 2).
Proof. vm_compute. reflexivity. Qed.
Example ex_parse4_octal : parse_ip (str "01.2.3.4") = None.
Proof. vm_compute. reflexivity. Qed.
Example ex_parse4_256 : parse_ip (str "256.1.1.1") = None.
Proof. vm_compute. reflexivity. Qed.
Example ex_parse4_short : parse_ip (str "1.2.3") = None.
Proof. vm_compute. reflexivity. Qed.
Example ex_parse6 : parse_ip (str "2001:DB8::0001") = Some (V6 [8193;3512;0;0;0;0;0;1]).
Proof. vm_compute. reflexivity. Qed.
Example ex_parse6_tail4 : parse_ip (str "64:ff9b::192.0.2.33") = Some (V6 [100;65435;0;0;0;0;49152;545]).
Proof. vm_compute. reflexivity. Qed.
Example ex_parse6_full4 : parse_ip (str "1:2:3:4:5:6:1.2.3.4") = Some (V6 [1;2;3;4;5;6;258;772]).
Proof. vm_compute. reflexivity. Qed.
Example ex_parse6_end : parse_ip (str "1:2:3:4:5:6:7::") = Some (V6 [1;2;3;4;5;6;7;0]).
Proof. vm_compute. reflexivity. Qed.
Example ex_parse6_bad :
  map parse_ip [str "1:2:3:4:5:6:7::8"; str "1::2::3"; str "12345::"; str "1:2:3:4:5:6:7:8:9";
                str "1:2:3:4:5:6:7"; str "::1 "; str ""; str "1.2.3.4::"; str "::1%1"; str ":::"]
  = [None; None; None; None; None; None; None; None; None; None].
Proof. vm_compute. reflexivity. Qed.

Example ex_sock4 : parse_sockaddr (str "10.0.0.1:25565") = Some (V4 10 0 0 1, 25565).
Proof. vm_compute. reflexivity. Qed.
Example ex_sock6 : parse_sockaddr_sc (str "[fe80::1%7]:0080") = Some (V6 [65152;0;0;0;0;0;0;1], 80, 7).
Proof. vm_compute. reflexivity. Qed.
Example ex_sock_bad :
  map parse_sockaddr [str "10.0.0.1:65536"; str "10.0.0.1:+80"; str "10.0.0.1:"; str "::1:80";
                      str "[::1]"; str "[1.2.3.4]:80"; str "10.0.0.1"]
  = [None; None; None; None; None; None; None].
Proof. vm_compute. reflexivity. Qed.
Example ex_show_sock :
  (show_sockaddr (V4 10 0 0 1, 25565), show_sockaddr (V6 [0;0;0;0;0;0;0;1], 80),
   show_sockaddr_sc (V6 [65152;0;0;0;0;0;0;1]) 8080 7)
  = (str "10.0.0.1:25565", str "[::1]:80", str "[fe80::1%7]:8080").
Proof. vm_compute. reflexivity. Qed.
Example ex_parse_dec : (parse_dec (str "0080"), parse_dec (str ""), parse_dec (str "+1")) = (Some 80, None, None).
Proof. vm_compute. reflexivity. Qed.
