(* Well-formed UTF-8 (Unicode Table 3-7), i.e. what Rust's String::from_utf8 accepts:
   no overlong forms, no surrogates, nothing above U+10FFFF. *)
From Passage Require Import Lib.Bytes.

Definition inr (lo hi b : Z) : bool := (lo <=? b) && (b <=? hi).
Definition cont (b : Z) : bool := inr 128 191 b.

Fixpoint utf8_valid (l : bytes) : bool :=
  match l with
  | [] => true
  | b0 :: r =>
      if inr 0 127 b0 then utf8_valid r
      else if inr 194 223 b0 then
        match r with b1 :: r1 => cont b1 && utf8_valid r1 | _ => false end
      else if inr 224 239 b0 then
        match r with
        | b1 :: b2 :: r2 =>
            (if b0 =? 224 then inr 160 191 b1
             else if b0 =? 237 then inr 128 159 b1
             else cont b1) && cont b2 && utf8_valid r2
        | _ => false
        end
      else if inr 240 244 b0 then
        match r with
        | b1 :: b2 :: b3 :: r3 =>
            (if b0 =? 240 then inr 144 191 b1
             else if b0 =? 244 then inr 128 143 b1
             else cont b1) && cont b2 && cont b3 && utf8_valid r3
        | _ => false
        end
      else false
  end.

Example utf8_ascii : utf8_valid (str "hello") = true. Proof. reflexivity. Qed.
Example utf8_2 : utf8_valid [195; 164] = true. Proof. reflexivity. Qed.          (* a-umlaut *)
Example utf8_overlong : utf8_valid [192; 128] = false. Proof. reflexivity. Qed.
Example utf8_overlong3 : utf8_valid [224; 128; 128] = false. Proof. reflexivity. Qed.
Example utf8_surrogate : utf8_valid [237; 160; 128] = false. Proof. reflexivity. Qed.
Example utf8_max : utf8_valid [244; 143; 191; 191] = true. Proof. reflexivity. Qed.
Example utf8_above : utf8_valid [244; 144; 128; 128] = false. Proof. reflexivity. Qed.
Example utf8_trunc : utf8_valid [226; 130] = false. Proof. reflexivity. Qed.
Example utf8_lone_cont : utf8_valid [128] = false. Proof. reflexivity. Qed.
