(* Byte strings, big-endian integers, hex literals.  Model-side library: only
   definitions and lemmas that do not mention passage. *)
From Coq Require Export String Ascii.
From Coq Require Export ZArith List Lia Bool.
From Coq Require Export ZifyBool ZifyNat.
Export ListNotations.
Open Scope Z_scope.
Ltac Zify.zify_post_hook ::= Z.div_mod_to_equations.

Definition bytes := list Z.

Definition byteb (b : Z) : bool := (0 <=? b) && (b <? 256).
Definition wfb (l : bytes) : bool := forallb byteb l.
Definition is_byte (b : Z) : Prop := 0 <= b < 256.
Definition wf_bytes (l : bytes) : Prop := Forall is_byte l.

Lemma byteb_spec b : byteb b = true <-> is_byte b.
Proof. unfold byteb, is_byte; lia. Qed.

Lemma wfb_spec l : wfb l = true <-> wf_bytes l.
Proof.
  unfold wfb, wf_bytes; rewrite forallb_forall, Forall_forall.
  split; intros H x Hx; apply byteb_spec; auto.
Qed.

Lemma wf_bytes_app a b : wf_bytes (a ++ b) <-> wf_bytes a /\ wf_bytes b.
Proof. unfold wf_bytes; apply Forall_app. Qed.

(* ---------- equality on byte strings ---------- *)
Fixpoint beq (a b : bytes) : bool :=
  match a, b with
  | [], [] => true
  | x :: a', y :: b' => (x =? y) && beq a' b'
  | _, _ => false
  end.

Lemma beq_spec a b : beq a b = true <-> a = b.
Proof.
  revert b; induction a as [|x a IH]; intros [|y b]; cbn [beq]; split; intros H;
    try discriminate; try reflexivity.
  - apply andb_true_iff in H as [H1 H2]. apply Z.eqb_eq in H1. apply IH in H2. congruence.
  - inversion H; subst. apply andb_true_iff; split; [apply Z.eqb_refl | apply IH; reflexivity].
Qed.

Lemma beq_refl a : beq a a = true.
Proof. apply beq_spec; reflexivity. Qed.

(* ---------- big-endian fixed-width integers ---------- *)
Fixpoint be_enc (n : nat) (v : Z) : bytes :=
  match n with
  | O => []
  | S k => (v / 256 ^ Z.of_nat k) mod 256 :: be_enc k v
  end.

Fixpoint be_dec_acc (acc : Z) (l : bytes) : Z :=
  match l with
  | [] => acc
  | b :: r => be_dec_acc (acc * 256 + b) r
  end.
Definition be_dec (l : bytes) : Z := be_dec_acc 0 l.

Lemma be_enc_length n v : length (be_enc n v) = n.
Proof. induction n; cbn [be_enc length]; congruence. Qed.

Lemma be_enc_wf n v : wf_bytes (be_enc n v).
Proof.
  induction n; cbn [be_enc]; constructor; auto.
  unfold is_byte. apply Z.mod_pos_bound; lia.
Qed.

Lemma be_dec_acc_enc n : forall acc v r,
  be_dec_acc acc (be_enc n v ++ r) = be_dec_acc (acc * 256 ^ Z.of_nat n + v mod 256 ^ Z.of_nat n) r.
Proof.
  induction n as [|k IH]; intros acc v r.
  - cbn [be_enc app]. change (256 ^ Z.of_nat 0) with 1. rewrite Z.mod_1_r. f_equal; lia.
  - cbn [be_enc app be_dec_acc]. rewrite IH.
    rewrite Nat2Z.inj_succ, Z.pow_succ_r by lia.
    set (P := 256 ^ Z.of_nat k).
    assert (0 < P) by (apply Z.pow_pos_nonneg; lia).
    rewrite (Z.mul_comm 256 P).
    rewrite (Z.rem_mul_r v P 256) by lia.
    f_equal. ring.
Qed.

Lemma be_dec_enc n v : 0 <= v < 256 ^ Z.of_nat n -> be_dec (be_enc n v) = v.
Proof.
  intros H. unfold be_dec. rewrite <- (app_nil_r (be_enc n v)).
  rewrite be_dec_acc_enc. cbn [be_dec_acc]. rewrite Z.mod_small by lia. lia.
Qed.

(* split off exactly n bytes *)
Fixpoint take_n (n : nat) (l : bytes) : option (bytes * bytes) :=
  match n with
  | O => Some ([], l)
  | S k => match l with
           | [] => None
           | b :: r => match take_n k r with
                       | Some (a, rest) => Some (b :: a, rest)
                       | None => None
                       end
           end
  end.

Lemma take_n_app a r : take_n (length a) (a ++ r) = Some (a, r).
Proof. induction a as [|x a IH]; cbn [take_n length app]; [reflexivity | rewrite IH; reflexivity]. Qed.

Lemma take_n_spec n l a r : take_n n l = Some (a, r) -> l = a ++ r /\ length a = n.
Proof.
  revert l a r; induction n as [|k IH]; intros l a r H; cbn [take_n] in H.
  - inversion H; subst; auto.
  - destruct l as [|b l']; [discriminate|].
    destruct (take_n k l') as [[a' r']|] eqn:E; [|discriminate].
    inversion H; subst. apply IH in E as [-> <-]. auto.
Qed.

Lemma take_n_short n l : (length l < n)%nat -> take_n n l = None.
Proof.
  revert l; induction n as [|k IH]; intros l H; [inversion H|].
  destruct l as [|b l']; cbn [take_n]; [reflexivity|].
  rewrite IH; [reflexivity | cbn [length] in H; lia].
Qed.

(* ---------- hex literals (used by generated case files) ---------- *)
Definition hexval (c : ascii) : Z :=
  let n := Z.of_nat (nat_of_ascii c) in
  if (48 <=? n) && (n <=? 57) then n - 48
  else if (97 <=? n) && (n <=? 102) then n - 87
  else if (65 <=? n) && (n <=? 70) then n - 55
  else 0.

Fixpoint hx (s : string) : bytes :=
  match s with
  | String a (String b r) => (hexval a * 16 + hexval b) :: hx r
  | _ => []
  end.

(* ASCII text as bytes *)
Fixpoint str (s : string) : bytes :=
  match s with
  | EmptyString => []
  | String a r => Z.of_nat (nat_of_ascii a) :: str r
  end.

(* two's complement wrap-arounds *)
Definition wrap_s (bits : Z) (v : Z) : Z :=
  let m := v mod 2 ^ bits in
  if m <? 2 ^ (bits - 1) then m else m - 2 ^ bits.
Definition wrap32 := wrap_s 32.
Definition wrap64 := wrap_s 64.
Definition in_i32 (v : Z) : Prop := - 2 ^ 31 <= v < 2 ^ 31.
Definition in_i64 (v : Z) : Prop := - 2 ^ 63 <= v < 2 ^ 63.

Lemma wrap32_id v : in_i32 v -> wrap32 (v mod 2 ^ 32) = v.
Proof.
  unfold in_i32, wrap32, wrap_s. intros H.
  change (32 - 1) with 31. rewrite Z.mod_mod by lia.
  destruct (Z.ltb_spec (v mod 2 ^ 32) (2 ^ 31)); lia.
Qed.

Lemma wrap64_id v : in_i64 v -> wrap64 (v mod 2 ^ 64) = v.
Proof.
  unfold in_i64, wrap64, wrap_s. intros H.
  change (64 - 1) with 63. rewrite Z.mod_mod by lia.
  destruct (Z.ltb_spec (v mod 2 ^ 64) (2 ^ 63)); lia.
Qed.
