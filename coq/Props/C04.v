(* C04 - no client input can crash the handler or make it allocate unboundedly.
   Pinned statements. *)
From Passage Require Import Lib.Bytes Codec.VarInt Codec.Desc Codec.NoPanic Codec.Alloc Codec.AllocProofs Gen.PacketsGen Conn.Types Conn.Prog
  Conn.Sem1 Conn.Sem2 Conn.Monitor Conn.MonitorProofs Conn.Monitor2Proofs Conn.Order Conn.OrderProofs Conn.Reader Conn.ReaderProofs.

(* the decoders never reach a panic, for every description and every byte string *)
Theorem C04_decoder_no_panic : forall vi vl ds bs, dec vi vl ds bs <> Er EPanic.
Proof. exact dec_no_panic. Qed.

(* no trace of the handler ends in a panic: for every configuration, every behaviour of
   RSA/serde, every adapter result, every inbox (every sequence of frames, refused lengths
   and end of stream) and every timing *)
Theorem C04_handler_no_panic : forall o cfg e ib pre post,
  untime (run1 o cfg e ib) <> pre ++ TEnd (OErr KPanic) :: post.
Proof.
  intros o cfg e ib pre post H.
  destruct (accepted_event_checked chk_true _ pre (TEnd (OErr KPanic)) post (order_accepts o cfg e ib) H)
    as (st & _ & [Hi | (q' & Hd & _)]).
  - unfold internal_at, internal in Hi. rewrite !andb_false_r in Hi. discriminate.
  - cbn in Hd. discriminate.
Qed.

(* the same at byte level (M2): for every timed byte stream, every segmentation, every
   placement of ticks and adapter completions - dropped frames included *)
Theorem C04_handler_no_panic_bytes : forall o cfg e segs pre post,
  untime (run2 o cfg e segs) <> pre ++ TEnd (OErr KPanic) :: post.
Proof.
  intros o cfg e segs pre post H.
  assert (Hok : ok step_order m_init (untime (run2 o cfg e segs)))
    by (unfold run2; apply safe_sound2; apply listen_order_safe).
  destruct (accepted_event_checked chk_true _ pre (TEnd (OErr KPanic)) post Hok H)
    as (st & _ & [Hi | (q' & Hd & _)]).
  - unfold internal_at, internal in Hi. rewrite !andb_false_r in Hi. discriminate.
  - cbn in Hd. discriminate.
Qed.

(* a declared frame length <= 0 or above the configured maximum is refused the moment its
   prefix is complete; after that the reader consumes nothing *)
Theorem C04_length_checked_first : forall max acc,
  (wrap32 acc <= 0 \/ max < wrap32 acc) -> len_done max acc = (RDead, [EvBadLen]).
Proof. intros max acc H. apply bad_length_refused_at_once. exact H. Qed.

Theorem C04_refused_reads_nothing : forall max bs, feed max RDead bs = (RDead, []).
Proof. exact dead_absorbs. Qed.

(* for every byte sequence the reader never buffers more than the configured maximum *)
Theorem C04_buffer_bounded : forall max bs, 0 <= max -> buffered (fst (feed max RIdle bs)) <= Z.max max 4.
Proof. exact buffer_bounded. Qed.

(* end of stream ends the handler: in every waiting state an end-of-stream event produces
   the end of the trace *)
Theorem C04_eof_ends_expect : forall cfg e k s t rest,
  s_in s = (t, IEof) :: rest ->
  exec cfg e (Expect k) s = [(Z.max t (s_now s), TEnd (OErr KClosed))].
Proof. intros cfg e k s t rest H. cbn [exec]. unfold next_frame. rewrite H. reflexivity. Qed.

(* memory: the largest buffer the packet decoders reserve or fill for a body [bs] (Codec/Alloc.v:
   read_bytes / read_string fill a buffer through take(len), so it never holds more than the
   bytes that really arrived; the u16-prefixed text component reserves its declared length ahead
   of the data) never exceeds the body's own length, except for that one text buffer (< 2^16).
   With C04_buffer_bounded (a body is at most the configured maximum) the handler's memory per
   frame is bounded by max(max_packet_length, 65535) whatever lengths the client declares. *)
Theorem C04_decoder_memory_bounded : forall vi vl ds bs,
  Forall (fun b => 0 <= b < 256) bs ->
  0 <= mem_dec vi vl ds bs <= Z.max (Z.of_nat (length bs)) 65535.
Proof. exact mem_dec_bound. Qed.

Theorem C04_decoder_memory_bounded_no_text : forall vi vl ds bs,
  forallb no_text ds = true -> 0 <= mem_dec vi vl ds bs <= Z.of_nat (length bs).
Proof. exact mem_dec_bound_nt. Qed.

(* non-vacuity: a 6-byte Login Start body whose name declares 2^31-1 bytes makes the decoder
   hold the 1 byte that follows, not 2 GiB; a declared length of -1 reserves nothing *)
Example C04_memory_hostile_length :
  mem_dec 5 10 [KString; KUuid] [255; 255; 255; 255; 7; 65] = 1
  /\ mem_dec 5 10 [KString; KUuid] [255; 255; 255; 255; 15; 65] = 0
  /\ mem_dec 5 10 [KText] [8; 64; 0; 1] = 16384.
Proof. vm_compute. repeat split; reflexivity. Qed.

Print Assumptions C04_decoder_memory_bounded.
Print Assumptions C04_decoder_memory_bounded_no_text.
Print Assumptions C04_decoder_no_panic.
Print Assumptions C04_handler_no_panic.
Print Assumptions C04_length_checked_first.
Print Assumptions C04_refused_reads_nothing.
Print Assumptions C04_buffer_bounded.
Print Assumptions C04_eof_ends_expect.
Print Assumptions C04_handler_no_panic_bytes.
