(* C16: one stalled or hostile client never delays another.
   Pinned statements about Listener/Machine.v (the accept loop after fix-c16); proofs in
   Listener/MachineProofs.v, Listener/LimiterLink.v.  PARTIAL: the scheduler (every spawned task is
   polled), the kernel accept queue and the time one step takes are not modelled; the bound itself
   is measured by the `listener` harness (family STALL). *)
From Passage Require Import Lib.Bytes Limiter.F32 Limiter.Bucket Limiter.Limiter Limiter.LimiterProofs
  Listener.Machine Listener.MachineProofs Listener.LimiterLink.

(* in every state in which the loop is accepting, the arrival of a new connection spawns its
   task in the same step, whatever the other connections are doing (nothing about them appears
   in the hypotheses); with PROXY enabled the new task waits for ITS OWN header *)
Theorem C16_accept_never_blocks : forall (L : Type) (admit_fn : L -> Z -> Z -> L * bool) (cf : mcfg)
    (st : state L) (c : Z) (peer : addr) (t : Z),
  accepting st = true -> memz c (seen st) = false ->
  In (Spawn c) (snd (step L admit_fn cf st (Arrive c peer t)))
  /\ (m_proxy cf <> None ->
      find c (tracked (fst (step L admit_fn cf st (Arrive c peer t)))) = Some (PWait peer, t)).
Proof. exact accept_never_blocks. Qed.
Print Assumptions C16_accept_never_blocks.

(* Non-interference with the real limiter model (Limiter.enqueue, created at t0): take any
   time-ordered history and any set `del` of connections such that every limiter query of a
   deleted connection is about another IP than kc and every query of a kept one is about kc
   (`okeys_run`: read off the Serve / rate-limit Close outputs).  Deleting all events of the
   deleted connections changes nothing in what the machine says about any kept connection. *)
Theorem C16_noninterference : forall (lc : cfg) (cf : mcfg) (t0 kc : Z) (del : Z -> bool) (h : list event),
  0 < dur lc -> esorted t0 h ->
  okeys_run kc del (run lstate (enqueue lc) cf (init (linit t0)) h) ->
  forall c, del c = false ->
    outputs_for c (run lstate (enqueue lc) cf (init (linit t0)) h)
    = outputs_for c (run lstate (enqueue lc) cf (init (linit t0)) (filter (keep_ev del) h)).
Proof.
  intros lc cf t0 kc del h D ES OK c Kc.
  apply (noninterference lstate (enqueue lc) cf (linit t0) t0 (enqueue_indep lc t0 D) kc del h ES OK c Kc).
Qed.
Print Assumptions C16_noninterference.

(* the same for any limiter with per-key independent answers (in particular none at all) *)
Theorem C16_noninterference_generic : forall (L : Type) (admit_fn : L -> Z -> Z -> L * bool) (cf : mcfg)
    (l0 : L) (t0 : Z),
  (forall a a' k t, tsorted t0 a t -> tsorted t0 a' t -> keyf k a = keyf k a' ->
     snd (admit_fn (lfin L admit_fn l0 a) k t) = snd (admit_fn (lfin L admit_fn l0 a') k t)) ->
  forall (kc : Z) (del : Z -> bool) (h : list event),
  esorted t0 h -> okeys_run kc del (run L admit_fn cf (init l0) h) ->
  forall c, del c = false ->
    outputs_for c (run L admit_fn cf (init l0) h) = outputs_for c (run L admit_fn cf (init l0) (filter (keep_ev del) h)).
Proof. exact noninterference. Qed.
Print Assumptions C16_noninterference_generic.

(* the loop BEFORE the repair (Machine.orun: header awaited inline) does not have the property:
   a silent peer keeps a later, well-behaved client from ever being spawned, while the repaired
   loop spawns and serves it at once *)
Theorem C16_old_blocks_refuted : exists (cf : mcfg) (h : list event),
  (forall t, ~ In (t, Spawn 2) (orun unit admit_all cf (oinit tt) h))
  /\ In (100, Spawn 2) (run unit admit_all cf (init tt) h)
  /\ In (100, Serve 2 (3405803781, 5555)) (run unit admit_all cf (init tt) h).
Proof.
  exists ex_cfg, ex_hist. rewrite ex_orun, ex_run. split; [intros t []|]. cbn. auto 10.
Qed.
Print Assumptions C16_old_blocks_refuted.

(* non-vacuity of the non-interference statement: limit 1 per 60 s; connections 1 and 3 come
   from IP 77, connection 2 (stalling before its header for a while, then IP 88) is deleted *)
Definition ni_cfg := MCfg (Some (true, true)) 5000.
Definition ni_lim := Cfg 1 60000000000.
Definition ni_hist : list event :=
  [Arrive 1 (10, 1) 0; Arrive 2 (11, 2) 1000000; Header 1 (HV1 (Some (77, 5))) 2000000;
   Arrive 3 (10, 3) 3000000; Header 2 (HV2 (Some (88, 6))) 4000000; Header 3 (HV1 (Some (77, 7))) 5000000;
   ConnDone 1 6000000; Deadline 2 5001000000].
Definition ni_del (c : Z) : bool := c =? 2.
Example C16_ex_run :
  run lstate (enqueue ni_lim) ni_cfg (init (linit 0)) ni_hist
  = [(0, Spawn 1); (1000000, Spawn 2); (2000000, Serve 1 (77, 5)); (3000000, Spawn 3);
     (4000000, Serve 2 (88, 6)); (5000000, Close 3 (RRejected (77, 7))); (6000000, Close 1 RFinished);
     (5001000000, Close 2 RDeadline)].
Proof. vm_compute. reflexivity. Qed.
Example C16_ex_pruned :
  run lstate (enqueue ni_lim) ni_cfg (init (linit 0)) (filter (keep_ev ni_del) ni_hist)
  = [(0, Spawn 1); (2000000, Serve 1 (77, 5)); (3000000, Spawn 3);
     (5000000, Close 3 (RRejected (77, 7))); (6000000, Close 1 RFinished)].
Proof. vm_compute. reflexivity. Qed.
Example C16_ex_hyp : esorted 0 ni_hist /\ okeys_run 77 ni_del (run lstate (enqueue ni_lim) ni_cfg (init (linit 0)) ni_hist).
Proof.
  split; [cbn; lia|]. rewrite C16_ex_run. intros t d e H. cbn in H.
  repeat (destruct H as [H|H]; try discriminate; try (inversion H; subst; cbn; split; intros; try discriminate; try lia; auto; fail)); try contradiction.
Qed.
