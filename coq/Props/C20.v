(* C20: Agones discovery offers exactly the currently ready game servers.
   Pinned statements; the proofs are in Adapters/AgonesProofs.v, the model in Adapters/Agones.v.

   `run evs` is the repaired watch loop of discovery_adapter.rs over a sequence of
   kube::runtime::watcher events (Init / InitApply / InitDone / Apply / Delete / error),
   `offered` what discover() returns, `truth evs` the latest observed GameServer of each name
   (a completed re-list Init .. InitDone replaces the whole map, Delete removes),
   `Offers v t` := exists n g, v n = Some g /\ ready g = true /\ convert g = Some t.
   Identity is metadata.name (assumption: no two GameServers of one name across namespaces).
   The translation of HTTP list/watch traffic into watcher events by kube is trusted and
   exercised by the harness (Run/CaseC20.v), not proved. *)
From Passage Require Import Lib.Bytes Lib.IpText Adapters.Agones Adapters.AgonesProofs.
From Coq Require Import Permutation.

(* For EVERY event sequence: identifiers are pairwise distinct; the offered targets are
   exactly the conversions of the Ready/Allocated, convertible latest objects; and while a
   (re-)list is in progress the buffer stands in the same relation to the part of the list seen
   so far, while the offered set is still the one of the last completed view (by definition of
   `truth`; see C20_relist for what that means). *)
Theorem C20_refines : forall evs : list event,
  NoDup (map a_id (offered (run evs)))
  /\ (forall t, In t (offered (run evs)) <-> Offers (truth evs) t)
  /\ match c_buf (run evs), pending evs with
     | Some b, Some p => NoDup (map a_id b) /\ (forall t, In t b <-> Offers p t)
     | None, None => True
     | _, _ => False
     end.
Proof. exact refines. Qed.
Print Assumptions C20_refines.

(* the same modulo order: the offered list is a permutation of any duplicate-free
   enumeration of the obliged set *)
Theorem C20_refines_perm : forall evs exp,
  NoDup exp -> (forall t, In t exp <-> Offers (truth evs) t) ->
  Permutation (offered (run evs)) exp.
Proof. exact refines_perm. Qed.
Print Assumptions C20_refines_perm.

(* every offered target carries the CURRENT data of the server of its identifier *)
Theorem C20_current : forall evs t,
  In t (offered (run evs)) ->
  exists g, truth evs (a_id t) = Some g /\ ready g = true /\ convert g = Some t.
Proof. exact offered_current. Qed.
Print Assumptions C20_current.

Theorem C20_unique : forall evs, NoDup (map a_id (offered (run evs))).
Proof. exact unique_ids. Qed.
Print Assumptions C20_unique.

(* what the truth is, event by event: watch events update the latest object of one name *)
Theorem C20_truth_watch : forall evs g,
  truth (evs ++ [EApply g]) = vobserve (truth evs) g
  /\ truth (evs ++ [EDelete g])
     = match g_name g with Some n => vdel n (truth evs) | None => truth evs end
  /\ truth (evs ++ [EError]) = truth evs.
Proof. exact truth_watch. Qed.
Print Assumptions C20_truth_watch.

(* a (re-)list: while it is unfinished, exactly the previous set stays offered (no flicker to
   empty); once InitDone arrives the truth is the list result alone, whatever came before, and
   the offered set is exactly its Ready/Allocated convertible members: everything that was not
   listed again is gone *)
Theorem C20_relist : forall evs l,
  let mid := evs ++ EInit :: map EInitApply l in
  offered (run mid) = offered (run evs)
  /\ truth mid = truth evs
  /\ (forall n, truth (mid ++ [EInitDone]) n = last_named n l)
  /\ (forall t, In t (offered (run (mid ++ [EInitDone])))
                <-> exists n g, last_named n l = Some g /\ ready g = true /\ convert g = Some t).
Proof. exact relist. Qed.
Print Assumptions C20_relist.

(* conversion: identifier = name, address = parsed status.address, port = FIRST port,
   metadata = annotations over labels over lists (joined by ",") over counters (count or 0 in
   decimal) over the state, with unique keys; it fails exactly without name, status, parsable
   address or ports *)
Theorem C20_convert : forall g,
  (forall t, convert g = Some t <->
     exists n s a p ps,
       g_name g = Some n /\ g_status g = Some s /\ parse_ip (s_address s) = Some a
       /\ s_ports s = p :: ps /\ t = mkATarget n a p (build_meta g s))
  /\ (convert g = None <->
        g_name g = None \/ g_status g = None
        \/ exists s, g_status g = Some s /\ (parse_ip (s_address s) = None \/ s_ports s = []))
  /\ (forall s k, mget k (build_meta g s) = meta_spec g s k)
  /\ (forall s, NoDup (map fst (build_meta g s))).
Proof.
  intros g. split; [intros t; apply convert_spec|]. split; [apply convert_none|].
  split; [intros s k; apply build_meta_spec | intros s; apply build_meta_keys].
Qed.
Print Assumptions C20_convert.

(* ---- the loop before the fix (only Apply/InitApply objects reach it) violates the property *)
(* a GameServer deleted while Ready is offered forever *)
Theorem C20_delete_old_refuted :
  ready w_a = true /\ convert w_a <> None
  /\ truth w_delete (str "gs-a") = None
  /\ offered (run w_delete) = []
  /\ map a_id (run_old w_delete) = [str "gs-a"].
Proof. exact delete_old_refuted. Qed.
Print Assumptions C20_delete_old_refuted.

(* a GameServer that vanished during a watch gap (not in the re-list) stays offered *)
Theorem C20_relist_old_refuted :
  truth w_relist (str "gs-b") = None
  /\ map a_id (offered (run w_relist)) = [str "gs-a"]
  /\ map a_id (run_old w_relist) = [str "gs-a"; str "gs-b"].
Proof. exact relist_old_refuted. Qed.
Print Assumptions C20_relist_old_refuted.

(* an offered GameServer whose latest object cannot be converted stays offered with stale data *)
Theorem C20_stale_old_refuted :
  (exists g, truth w_stale (str "gs-a") = Some g /\ ready g = true /\ convert g = None)
  /\ offered (run w_stale) = []
  /\ map (fun t => (a_id t, show_ip (a_ip t), a_port t)) (run_old w_stale)
     = [(str "gs-a", str "10.0.0.1", 7777)].
Proof. exact stale_old_refuted. Qed.
Print Assumptions C20_stale_old_refuted.

(* the old decision reads meta["state"], which a label/annotation/counter/list of that name
   overrides: a Shutdown server is offered, a Ready one is not *)
Theorem C20_statekey_old_refuted :
  ready w_masked = false /\ ready w_hidden = true
  /\ map a_id (offered (run w_statekey)) = [str "gs-h"]
  /\ map a_id (run_old w_statekey) = [str "gs-m"].
Proof. exact statekey_old_refuted. Qed.
Print Assumptions C20_statekey_old_refuted.
