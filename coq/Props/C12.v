(* C12 - client-chosen names cannot alter the session server request.
   Only pinned statements, short proofs from Spec/FormUrlProofs.v and
   Adapters/MojangUrlProofs.v, examples, and Print Assumptions.

   Quantifiers: [name] ranges over ALL byte strings (wf_bytes = every element is 0..255),
   which covers the UTF-8 bytes of every Rust &str: '&', '=', '#', '?', '%', '+', ' ', '/',
   control characters, multi-byte scalars, the empty name, any length.  [hash] ranges over
   all byte strings as well; the hashes the adapter actually uses (minecraft_hash, charset
   [-0-9a-f], see C11) are a special case, spelled out in C12_request. *)
From Passage Require Import Lib.Bytes Lib.Utf8 Spec.Sha1 Spec.SignedHex Spec.FormUrl Spec.FormUrlProofs
  Crypto.McHash Adapters.MojangUrl Adapters.MojangUrlProofs.

(* the urlencoded parser sees exactly the two intended parameters with exactly the claimed
   name and the hash as values: nothing added, removed, overridden or reordered *)
Theorem C12_params : forall name hash, wf_bytes name -> wf_bytes hash ->
  parse_query (target_query (build name hash)) = [(str "username", name); (str "serverId", hash)].
Proof. exact build_params. Qed.

(* the same for the request target (path + query) that goes on the request line *)
Theorem C12_target_params : forall name hash, wf_bytes name -> wf_bytes hash ->
  parse_query (target_query (target (build name hash))) = [(str "username", name); (str "serverId", hash)].
Proof. exact target_params. Qed.

(* the part before the first '?' is the fixed URL, there is no fragment, and the bytes
   derived from the name are inert: visible ASCII other than & = # ? / (in fact only
   A-Z a-z 0-9 * - . _ + %), with every '%' starting a valid escape *)
Theorem C12_path : forall name hash, wf_bytes name -> wf_bytes hash ->
  target_path (build name hash) = str "https://sessionserver.mojang.com/session/minecraft/hasJoined" /\
  target_path (target (build name hash)) = str "/session/minecraft/hasJoined" /\
  has_byte 35 (build name hash) = false /\
  forallb inert (enc name) = true /\ forallb enc_char (enc name) = true /\ pct_ok (enc name) = true.
Proof.
  intros name hash Hn Hh.
  destruct (url_cut name hash Hn Hh) as (U1 & _ & U3). destruct (target_cut name hash Hn Hh) as (T1 & _ & _).
  repeat split; auto using enc_inert, enc_chars, enc_pct_ok.
Qed.

(* different (name, hash) pairs give different requests *)
Theorem C12_injective : forall name hash name' hash',
  wf_bytes name -> wf_bytes hash -> wf_bytes name' -> wf_bytes hash' ->
  build name hash = build name' hash' -> name = name' /\ hash = hash'.
Proof. exact build_injective. Qed.

(* spec level: decoding inverts encoding on every byte string *)
Theorem C12_dec_enc : forall b, wf_bytes b -> dec (enc b) = b.
Proof. exact dec_enc. Qed.

(* a hash over [-0-9a-f] is sent verbatim, so the URL is the documented one *)
Theorem C12_hash_verbatim : forall name h, forallb hash_char h = true ->
  build name h = str "https://sessionserver.mojang.com/session/minecraft/hasJoined?username="
                 ++ enc name ++ str "&serverId=" ++ h.
Proof. intros name h H. rewrite (build_hash_verbatim name h H). reflexivity. Qed.

(* the whole adapter call, for every server id, claimed name, shared secret and key: the
   request asks about exactly the claimed name and exactly this connection's hash *)
Theorem C12_request : forall server_id name secret pubkey, wf_bytes name ->
  let h := minecraft_hash server_id secret pubkey in
  parse_query (target_query (target (request_url server_id name secret pubkey)))
    = [(str "username", name); (str "serverId", h)]
  /\ target_path (target (request_url server_id name secret pubkey)) = str "/session/minecraft/hasJoined"
  /\ has_byte 35 (target (request_url server_id name secret pubkey)) = false
  /\ h = show_signed_hex (twos_complement_be (sha1 (server_id ++ secret ++ pubkey))).
Proof. exact request_url_params. Qed.

(* the model passes the monitor that Run/CaseC12.v applies to the real request, and the
   monitor implies the property for whatever request target it is applied to *)
Theorem C12_monitor_model : forall name hash, wf_bytes name -> wf_bytes hash ->
  target_ok name hash (target (build name hash)) = true.
Proof. exact model_target_ok. Qed.

Theorem C12_monitor_sound : forall name hash t, target_ok name hash t = true ->
  target_path t = str "/session/minecraft/hasJoined" /\ has_byte 35 t = false /\
  pct_ok (target_query t) = true /\
  length (parse_query (target_query t)) = 2%nat /\
  values_of (str "username") (parse_query (target_query t)) = [name] /\
  values_of (str "serverId") (parse_query (target_query t)) = [hash].
Proof. exact target_ok_sound. Qed.

(* the original interpolation violates the property: a second serverId parameter placed by
   the client, no serverId parameter at all, a different name, two names with one request *)
Theorem C12_raw_refuted :
  let h := str "-7c9d5b0044c130109a5d7b5fb5c317c02b4e28c1" in
  parse_query (target_query (build_raw (str "Victim&serverId=abc") h))
    = [(str "username", str "Victim"); (str "serverId", str "abc"); (str "serverId", h)] /\
  parse_query (target_query (build_raw (str "x#") h)) = [(str "username", str "x")] /\
  parse_query (target_query (build_raw (str "a%26b+c") h)) = [(str "username", str "a&b c"); (str "serverId", h)] /\
  build_raw (str "x&serverId=0") (str "1") = build_raw (str "x") (str "0&serverId=1").
Proof.
  cbv zeta. split; [exact raw_extra_parameter|]. split; [exact raw_dropped_parameter|].
  split; [exact raw_other_name|]. exact (proj1 raw_not_injective).
Qed.

(* ---- non-vacuity: concrete, non-trivial instances ---- *)
(* "A&=#?%+/\ " then NUL TAB CR LF DEL, then U+00E9, U+20AC, U+1D11E *)
Definition nasty : bytes :=
  str "A&=#?%+/\ " ++ [0; 9; 13; 10; 127] ++ [195; 169; 226; 130; 172; 240; 157; 132; 158].
Definition h_neg : bytes := str "-7c9d5b0044c130109a5d7b5fb5c317c02b4e28c1".

Example C12_ex_inputs : wfb nasty = true /\ utf8_valid nasty = true /\ length nasty = 24%nat /\
  forallb hash_char h_neg = true /\ minecraft_hash (str "je") (str "b") (str "_") = h_neg.
Proof. vm_compute. auto. Qed.
Example C12_ex_build : target (build nasty h_neg) =
  str "/session/minecraft/hasJoined?username=A%26%3D%23%3F%25%2B%2F%5C+%00%09%0D%0A%7F%C3%A9%E2%82%AC%F0%9D%84%9E&serverId=-7c9d5b0044c130109a5d7b5fb5c317c02b4e28c1".
Proof. vm_compute. reflexivity. Qed.
Example C12_ex_params :
  parse_query (target_query (build nasty h_neg)) = [(str "username", nasty); (str "serverId", h_neg)] /\
  parse_query (target_query (build [] h_neg)) = [(str "username", []); (str "serverId", h_neg)] /\
  parse_query (target_query (build (str "Victim&serverId=abc") h_neg))
    = [(str "username", str "Victim&serverId=abc"); (str "serverId", h_neg)] /\
  parse_query (target_query (build (str "x#") h_neg)) = [(str "username", str "x#"); (str "serverId", h_neg)] /\
  parse_query (target_query (build (str "a%26b+c") h_neg)) = [(str "username", str "a%26b+c"); (str "serverId", h_neg)].
Proof. vm_compute. auto 6. Qed.
Example C12_ex_path :
  target_path (build nasty h_neg) = str "https://sessionserver.mojang.com/session/minecraft/hasJoined" /\
  target_path (target (build (str "../../x?y#z") h_neg)) = str "/session/minecraft/hasJoined" /\
  forallb inert (enc nasty) = true /\ forallb inert nasty = false /\
  (* the old construction lets the name reach the delimiters *)
  forallb inert (str "Victim&serverId=abc") = false.
Proof. vm_compute. auto 6. Qed.
Example C12_ex_injective :
  beq (build (str "x&serverId=0") (str "1")) (build (str "x") (str "0&serverId=1")) = false /\
  beq (build (str "a b") (str "1")) (build (str "a+b") (str "1")) = false /\
  beq (build (str "a") (str "1")) (build (str "a#") (str "1")) = false.
Proof. vm_compute. auto. Qed.
Example C12_ex_dec_enc : dec (enc nasty) = nasty /\ enc nasty <> nasty /\
  dec (enc (map Z.of_nat (seq 0 256))) = map Z.of_nat (seq 0 256).
Proof. split; [vm_compute; reflexivity|]. split; [discriminate|]. vm_compute. reflexivity. Qed.
Example C12_ex_request :
  target (request_url (str "je") nasty (str "b") (str "_")) = target (build nasty h_neg) /\
  target_ok nasty h_neg (target (request_url (str "je") nasty (str "b") (str "_"))) = true.
Proof. vm_compute. auto. Qed.
Example C12_ex_monitor :
  (* the monitor is not the model: other correct encodings pass, the old code's requests fail *)
  target_ok (str "a b") (str "1f") (str "/session/minecraft/hasJoined?serverId=1f&username=a%20b") = true /\
  target_ok (str "Victim&serverId=abc") h_neg (target (build_raw (str "Victim&serverId=abc") h_neg)) = false /\
  target_ok (str "x#") h_neg (target (build_raw (str "x#") h_neg)) = false /\
  target_ok (str "Notch") h_neg (target (build_raw (str "Notch") h_neg)) = true.
Proof. vm_compute. auto. Qed.

Print Assumptions C12_params.
Print Assumptions C12_target_params.
Print Assumptions C12_path.
Print Assumptions C12_injective.
Print Assumptions C12_dec_enc.
Print Assumptions C12_hash_verbatim.
Print Assumptions C12_request.
Print Assumptions C12_monitor_model.
Print Assumptions C12_monitor_sound.
Print Assumptions C12_raw_refuted.
