(* C14: operator-configured limits and the connection deadline govern every connection.
   Pinned statements; proofs in Listener/WireProofs.v and Listener/MachineProofs.v.
   PARTIAL: the statements are about the models Listener/Wire.v (configuration path) and
   Listener/Machine.v (accept loop after fix-c16); that tokio's `timeout_at` fires at its
   deadline is the Deadline event of the model (an assumption on the event history). *)
From Passage Require Import Lib.Bytes Conn.Types Conn.Prog Conn.Sem1
  Listener.Machine Listener.Wire Listener.WireProofs Listener.MachineProofs.

(* what `Config` says is what every `Connection` gets (after fix-c14); the maximum goes through
   `as i32` *)
Theorem C14_wired : forall (a : app_config) (eff : sockaddr) (pk : bytes),
  let c := conn_cfg_of (listener_of a) eff pk in
  cf_max_len c = wrap32 (a_max a) /\ cf_expiry c = a_expiry a /\ cf_secret c = a_secret a
  /\ cf_client c = eff /\ l_timeout_ms (listener_of a) = 1000 * a_timeout a
  /\ l_lim (listener_of a) = a_lim a /\ l_proxy (listener_of a) = a_proxy a.
Proof. exact wired. Qed.
Print Assumptions C14_wired.

(* for every configured maximum in 1 .. 2^31-1: a frame declaring more is refused *)
Theorem C14_frames_refused : forall (a : app_config) (eff : sockaddr) (pk : bytes) (len : Z),
  1 <= a_max a < 2 ^ 31 -> a_max a < len ->
  frame_len_ok (cf_max_len (conn_cfg_of (listener_of a) eff pk)) len = false.
Proof. exact frames_refused. Qed.
Print Assumptions C14_frames_refused.

(* ... and exactly the frames of 1 .. max bytes pass the connection model's own check *)
Theorem C14_frames_iff : forall (a : app_config) (eff : sockaddr) (pk : bytes) (id : Z) (body : bytes),
  1 <= a_max a < 2 ^ 31 ->
  (len_ok (conn_cfg_of (listener_of a) eff pk) id body = true <-> 0 < frame_len id body <= a_max a).
Proof.
  intros a eff pk id body H. rewrite len_ok_frame. split.
  - intros E. destruct (Z_lt_le_dec 0 (frame_len id body)) as [P|P].
    + destruct (Z_le_gt_dec (frame_len id body) (a_max a)); [lia|].
      rewrite frames_refused in E by lia. discriminate.
    + unfold frame_len_ok in E. destruct (Z.ltb_spec 0 (frame_len id body)); [lia|discriminate].
  - intros P. apply frames_accepted; assumption.
Qed.
Print Assumptions C14_frames_iff.

(* observation: a configured maximum with bit 31 set becomes a negative i32 and EVERY frame is
   refused *)
Theorem C14_frames_wrapped : forall (a : app_config) (eff : sockaddr) (pk : bytes) (len : Z),
  2 ^ 31 <= a_max a < 2 ^ 32 ->
  frame_len_ok (cf_max_len (conn_cfg_of (listener_of a) eff pk)) len = false.
Proof. exact frames_all_refused_when_wrapped. Qed.
Print Assumptions C14_frames_wrapped.

(* the time half of the cookie check uses the CONFIGURED expiry (saturating u64 addition) *)
Theorem C14_expiry : forall (a : app_config) (eff : sockaddr) (pk : bytes) (ts now : Z),
  cookie_fresh (cf_expiry (conn_cfg_of (listener_of a) eff pk)) ts now = true
  <-> now <= Z.min (ts + a_expiry a) (2 ^ 64 - 1).
Proof. exact expiry_configured. Qed.
Print Assumptions C14_expiry.

(* every spawned connection is closed no later than spawn + timeout, in every history in which
   its timer event is delivered (fairness of the timer = the hypothesis `Deadline c td` occurs in
   the history after the events before td), whatever the client and the other connections do *)
Theorem C14_deadline : forall (L : Type) (admit_fn : L -> Z -> Z -> L * bool) (cf : mcfg) (l0 : L)
    (h1 : list event) (c td : Z) (h2 : list event) (ts : Z),
  In (ts, Spawn c) (run L admit_fn cf (init l0) h1) ->
  ts + m_timeout cf <= td ->
  (forall ev, In ev h1 -> time_of ev <= td) ->
  exists t r, In (t, Close c r) (run L admit_fn cf (init l0) (h1 ++ Deadline c td :: h2)) /\ t <= td.
Proof. exact deadline_closes. Qed.
Print Assumptions C14_deadline.

(* and the deadline never closes a connection early *)
Theorem C14_deadline_not_early : forall (L : Type) (admit_fn : L -> Z -> Z -> L * bool) (cf : mcfg) (l0 : L)
    (h : list event) (c t : Z),
  In (t, Close c RDeadline) (run L admit_fn cf (init l0) h) ->
  exists ts, In (ts, Spawn c) (run L admit_fn cf (init l0) h) /\ ts + m_timeout cf <= t.
Proof. exact deadline_not_early. Qed.
Print Assumptions C14_deadline_not_early.

(* non-vacuity *)
Example C14_ex_frames :
  let a := {| a_max := 64; a_expiry := 100; a_secret := None; a_timeout := 5; a_lim := None; a_proxy := None |} in
  let c := conn_cfg_of (listener_of a) {| sa_ip := str "127.0.0.2"; sa_port := 4000 |} [] in
  (frame_len_ok (cf_max_len c) 64, frame_len_ok (cf_max_len c) 65, cookie_fresh (cf_expiry c) 1000 1100,
   cookie_fresh (cf_expiry c) 1000 1101) = (true, false, true, false).
Proof. vm_compute. reflexivity. Qed.
Example C14_ex_deadline :
  In (10000, Close 1 RDeadline) (run unit admit_all ex_cfg (init tt) ex_hist)
  /\ In (0, Spawn 1) (run unit admit_all ex_cfg (init tt) ex_hist).
Proof. rewrite ex_run. cbn. auto 10. Qed.
