(* C02 - pinned statements.  The monitor (automaton of Conn/Order.v + check chk_c02 of
   Conn/Checks.v) accepts EVERY trace of the connection handler's model: for every
   configuration, every behaviour of the modelled third-party code (RSA, serde), every
   adapter result and latency, every inbox of client frames and every timing. *)
From Passage Require Import Lib.Bytes Codec.Desc Gen.PacketsGen Conn.Types Conn.Prog Conn.Sem1 Conn.Sem2
  Conn.Monitor Conn.MonitorProofs Conn.Monitor2Proofs Conn.Order Conn.OrderProofs Conn.Checks Conn.Walk_C02
  Crypto.Cookie Conn.TraceLib Conn.C06Corollaries Conn.C02Corollaries.

Theorem C02_walk : forall o cfg, safe (step_with (chk_c02 o cfg)) m_init (listen o cfg).
Proof. exact listen_c02_safe. Qed.

Theorem C02_accepts : forall o cfg e ib,
  accepts (step_with (chk_c02 o cfg)) m_init (untime (run1 o cfg e ib)) = true.
Proof. intros. apply ok_accepts. apply c02_accepts. Qed.

(* every event of every trace passed the order automaton and this property's check in the
   state reached by the events before it *)
Theorem C02_every_event_checked : forall o cfg e ib pre ev post,
  untime (run1 o cfg e ib) = pre ++ ev :: post ->
  exists st, run (step_with (chk_c02 o cfg)) m_init pre = Some st /\
    (internal_at (q st) ev = true \/ exists q', delta (q st) ev = Some q' /\ (chk_c02 o cfg) st ev = true).
Proof. intros o cfg e ib pre ev post H. eapply accepted_event_checked; [apply c02_accepts | exact H]. Qed.

(* ---- the same at byte level (M2): for every timed byte stream the client can send, however
   it is segmented and wherever keep-alive ticks and adapter completions fall - including the
   schedules on which the handler drops a partly read frame (known classes K1 / K4 of C08). *)
Lemma c02_accepts2 : forall o cfg e segs, ok (step_with (chk_c02 o cfg)) m_init (untime (run2 o cfg e segs)).
Proof. intros. unfold run2. apply safe_sound2. apply listen_c02_safe. Qed.

Theorem C02_accepts_bytes : forall o cfg e segs,
  accepts (step_with (chk_c02 o cfg)) m_init (untime (run2 o cfg e segs)) = true.
Proof. intros. apply ok_accepts. apply c02_accepts2. Qed.

Theorem C02_every_event_checked_bytes : forall o cfg e segs pre ev post,
  untime (run2 o cfg e segs) = pre ++ ev :: post ->
  exists st, run (step_with (chk_c02 o cfg)) m_init pre = Some st /\
    (internal_at (q st) ev = true \/ exists q', delta (q st) ev = Some q' /\ (chk_c02 o cfg) st ev = true).
Proof. intros o cfg e segs pre ev post H. eapply accepted_event_checked; [apply c02_accepts2 | exact H]. Qed.

(* ======================================================================
   In plain terms: corollaries of the accepted monitor (Conn/C02Corollaries.v), each for
   every frame-level run (M1) and, suffix _bytes, every byte-level run (M2).
   ====================================================================== *)

(* what "a valid authentication cookie was presented" means (definition unfolded) *)
Theorem C02_presented_cookie_valid_def : forall o cfg pre c,
  presented_cookie_valid o cfg pre c <->
  exists proto host port s pl m now i0 b0 i3 b3 k,
    (* the handshake, first frame read, declares intent Transfer *)
    nth_error (frames pre) 0 = Some (i0, b0)
    /\ dec_of handshake_sb_HandshakePacket b0 = Some [VZ proto; VB host; VZ port; VZ 2]
    (* a cookie secret is configured *)
    /\ cf_secret cfg = Some s
    (* the authentication cookie was requested and its answer, fourth frame read, has a payload *)
    /\ auth_cookie_requested pre
    /\ nth_error (frames pre) 3 = Some (i3, b3)
    /\ dec_of login_sb_CookieResponsePacket b3 = Some [VB k; VOpt (Some (VB pl))]
    (* whose tag is correct under the secret (C10_verify_spec) and whose body parses *)
    /\ verify pl s = (true, m)
    /\ o_parse_auth o m = JOk c
    (* it names the connecting client's IP address *)
    /\ sa_ip (ac_addr c) = sa_ip (cf_client cfg)
    (* and is not older than the expiry at the clock read that followed (saturating add) *)
    /\ latest now_read pre = Some now
    /\ now <= Z.min (ac_ts c + cf_expiry cfg) (2 ^ 64 - 1).
Proof. intros. reflexivity. Qed.

(* [latest f pre = Some a]: the last event of the prefix that f recognises yields a *)
Theorem C02_latest_def : forall A (f : tev -> option A) pre a,
  latest f pre = Some a <->
  exists pre1 e pre2, pre = pre1 ++ e :: pre2 /\ f e = Some a /\ forall x, In x pre2 -> f x = None.
Proof. intros. apply latest_spec. Qed.

(* the monitor's acceptance predicate is that notion, read on the trace so far *)
Theorem C02_cookie_accepted_spec : forall o cfg pre c,
  cookie_accepted o cfg (rev pre) = Some c <-> presented_cookie_valid o cfg pre c.
Proof. exact cookie_accepted_rev. Qed.

(* The Encryption Request tells the client to skip authentication (flag false) exactly when a valid
   authentication cookie was presented; in every other case the flag is true *)
Theorem C02_flag_false_iff : forall o cfg e ib pre vs post,
  untime (run1 o cfg e ib) = pre ++ TSend login_cb_EncryptionRequestPacket vs :: post ->
  exists a b t flag, vs = [a; b; t; VBool flag]
    /\ (flag = false <-> exists c, presented_cookie_valid o cfg pre c).
Proof. intros o cfg e ib. intros pre vs post H. exact (enc_request_flag o cfg _ (c02_accepts o cfg e ib) _ _ _ _ H eq_refl). Qed.
Theorem C02_flag_false_iff_bytes : forall o cfg e segs pre vs post,
  untime (run2 o cfg e segs) = pre ++ TSend login_cb_EncryptionRequestPacket vs :: post ->
  exists a b t flag, vs = [a; b; t; VBool flag]
    /\ (flag = false <-> exists c, presented_cookie_valid o cfg pre c).
Proof. intros o cfg e segs. intros pre vs post H. exact (enc_request_flag o cfg _ (c02_accepts2 o cfg e segs) _ _ _ _ H eq_refl). Qed.

(* Login Success carries the name and uuid of the authentication service's profile when the client was
   told to authenticate, and exactly those inside the valid cookie when it was not *)
Theorem C02_identity_from_cookie : forall o cfg e ib pre vs post,
  untime (run1 o cfg e ib) = pre ++ TSend login_cb_LoginSuccessPacket vs :: post ->
  exists u n x, vs = [VZ u; VB n; x] /\
    ((latest enc_flag pre = Some true /\ exists ps, latest auth_result pre = Some (RProfile n u ps))
     \/ (latest enc_flag pre = Some false
         /\ exists c, presented_cookie_valid o cfg pre c /\ n = ac_name c /\ u = ac_uuid c)).
Proof. intros o cfg e ib. intros pre vs post H. exact (login_success_identity o cfg _ (c02_accepts o cfg e ib) _ _ _ _ H eq_refl). Qed.
Theorem C02_identity_from_cookie_bytes : forall o cfg e segs pre vs post,
  untime (run2 o cfg e segs) = pre ++ TSend login_cb_LoginSuccessPacket vs :: post ->
  exists u n x, vs = [VZ u; VB n; x] /\
    ((latest enc_flag pre = Some true /\ exists ps, latest auth_result pre = Some (RProfile n u ps))
     \/ (latest enc_flag pre = Some false
         /\ exists c, presented_cookie_valid o cfg pre c /\ n = ac_name c /\ u = ac_uuid c)).
Proof. intros o cfg e segs. intros pre vs post H. exact (login_success_identity o cfg _ (c02_accepts2 o cfg e segs) _ _ _ _ H eq_refl). Qed.

(* Every packet of the configuration phase (Keep Alive, Store Cookie, Transfer, Disconnect) comes after
   a Login Success that carried the service's verdict or the valid cookie's identity *)
Theorem C02_no_grant_without_verdict : forall o cfg e ib pre p vs post,
  untime (run1 o cfg e ib) = pre ++ TSend p vs :: post -> conf_pkt p = true ->
  exists preL pL u n x rest,
    pre = preL ++ TSend pL [VZ u; VB n; x] :: rest /\ is_pkt pL login_cb_LoginSuccessPacket = true /\
    ((latest enc_flag preL = Some true /\ exists ps, latest auth_result preL = Some (RProfile n u ps))
     \/ (latest enc_flag preL = Some false
         /\ exists c, presented_cookie_valid o cfg preL c /\ n = ac_name c /\ u = ac_uuid c)).
Proof. intros o cfg e ib. exact (grant_needs_identity o cfg _ (c02_accepts o cfg e ib)). Qed.
Theorem C02_no_grant_without_verdict_bytes : forall o cfg e segs pre p vs post,
  untime (run2 o cfg e segs) = pre ++ TSend p vs :: post -> conf_pkt p = true ->
  exists preL pL u n x rest,
    pre = preL ++ TSend pL [VZ u; VB n; x] :: rest /\ is_pkt pL login_cb_LoginSuccessPacket = true /\
    ((latest enc_flag preL = Some true /\ exists ps, latest auth_result preL = Some (RProfile n u ps))
     \/ (latest enc_flag preL = Some false
         /\ exists c, presented_cookie_valid o cfg preL c /\ n = ac_name c /\ u = ac_uuid c)).
Proof. intros o cfg e segs. exact (grant_needs_identity o cfg _ (c02_accepts2 o cfg e segs)). Qed.

(* Read the other way: told to authenticate and no profile ever returned by the authentication
   service - then no Login Success, Keep Alive, Store Cookie, Transfer or Disconnect is sent *)
Theorem C02_no_verdict_no_grant : forall o cfg e ib,
  (forall pE vsE, In (TSend pE vsE) (untime (run1 o cfg e ib)) -> is_pkt pE login_cb_EncryptionRequestPacket = true ->
                  exists a b t, vsE = [a; b; t; VBool true]) ->
  (forall c n u ps, ~ In (TRes c (RProfile n u ps)) (untime (run1 o cfg e ib))) ->
  forall p vs, In (TSend p vs) (untime (run1 o cfg e ib)) ->
    is_pkt p login_cb_LoginSuccessPacket = false /\ conf_pkt p = false.
Proof. intros o cfg e ib. exact (no_verdict_no_grant o cfg _ (c02_accepts o cfg e ib)). Qed.
Theorem C02_no_verdict_no_grant_bytes : forall o cfg e segs,
  (forall pE vsE, In (TSend pE vsE) (untime (run2 o cfg e segs)) -> is_pkt pE login_cb_EncryptionRequestPacket = true ->
                  exists a b t, vsE = [a; b; t; VBool true]) ->
  (forall c n u ps, ~ In (TRes c (RProfile n u ps)) (untime (run2 o cfg e segs))) ->
  forall p vs, In (TSend p vs) (untime (run2 o cfg e segs)) ->
    is_pkt p login_cb_LoginSuccessPacket = false /\ conf_pkt p = false.
Proof. intros o cfg e segs. exact (no_verdict_no_grant o cfg _ (c02_accepts2 o cfg e segs)). Qed.

(* The Encryption Request is sent at most once ("the latest flag" is the flag) *)
Theorem C02_enc_request_once : forall o cfg e ib a p1 vs1 b p2 vs2 c,
  untime (run1 o cfg e ib) = a ++ TSend p1 vs1 :: b ++ TSend p2 vs2 :: c ->
  is_pkt p1 login_cb_EncryptionRequestPacket = true -> is_pkt p2 login_cb_EncryptionRequestPacket = true -> False.
Proof. intros o cfg e ib. exact (enc_request_once o cfg _ (c02_accepts o cfg e ib)). Qed.
Theorem C02_enc_request_once_bytes : forall o cfg e segs a p1 vs1 b p2 vs2 c,
  untime (run2 o cfg e segs) = a ++ TSend p1 vs1 :: b ++ TSend p2 vs2 :: c ->
  is_pkt p1 login_cb_EncryptionRequestPacket = true -> is_pkt p2 login_cb_EncryptionRequestPacket = true -> False.
Proof. intros o cfg e segs. exact (enc_request_once o cfg _ (c02_accepts2 o cfg e segs)). Qed.

(* A presented cookie that cannot be used never ends the connection with a JSON error: right after the
   answer to the authentication Cookie Request was read (and the clock, if it got that far) no such end *)
Theorem C02_unusable_cookie_not_fatal : forall o cfg e ib pre0 vs b nows post,
  untime (run1 o cfg e ib) = pre0 ++ TSend login_cb_CookieRequestPacket vs :: TRecv 4 b :: nows ++ TEnd (OErr KJson) :: post ->
  key_of vs = auth_key_b -> (forall x, In x nows -> exists n, x = TNow n) -> False.
Proof. intros o cfg e ib. intros pre0 vs b nows post H. exact (unusable_cookie_not_fatal o cfg _ (c02_accepts o cfg e ib) _ _ _ _ _ _ H eq_refl). Qed.
Theorem C02_unusable_cookie_not_fatal_bytes : forall o cfg e segs pre0 vs b nows post,
  untime (run2 o cfg e segs) = pre0 ++ TSend login_cb_CookieRequestPacket vs :: TRecv 4 b :: nows ++ TEnd (OErr KJson) :: post ->
  key_of vs = auth_key_b -> (forall x, In x nows -> exists n, x = TNow n) -> False.
Proof. intros o cfg e segs. intros pre0 vs b nows post H. exact (unusable_cookie_not_fatal o cfg _ (c02_accepts2 o cfg e segs) _ _ _ _ _ _ H eq_refl). Qed.

Print Assumptions C02_walk.
Print Assumptions C02_accepts.
Print Assumptions C02_every_event_checked.
Print Assumptions C02_accepts_bytes.
Print Assumptions C02_every_event_checked_bytes.
Print Assumptions C02_presented_cookie_valid_def.
Print Assumptions C02_latest_def.
Print Assumptions C02_cookie_accepted_spec.
Print Assumptions C02_flag_false_iff.
Print Assumptions C02_flag_false_iff_bytes.
Print Assumptions C02_identity_from_cookie.
Print Assumptions C02_identity_from_cookie_bytes.
Print Assumptions C02_no_grant_without_verdict.
Print Assumptions C02_no_grant_without_verdict_bytes.
Print Assumptions C02_no_verdict_no_grant.
Print Assumptions C02_no_verdict_no_grant_bytes.
Print Assumptions C02_enc_request_once.
Print Assumptions C02_enc_request_once_bytes.
Print Assumptions C02_unusable_cookie_not_fatal.
Print Assumptions C02_unusable_cookie_not_fatal_bytes.

(* ---- M3 (Conn/Sem3.v): the same for EVERY behaviour of the transport (free room following any schedule: writes accepted
   in part, refused, never accepted again), every latency of localize(), every cancellation of a pending write or of a
   pending missed-keep-alive verdict by the race.  Proofs in Conn/Sem3Proofs.v. ---- *)
From Passage Require Import Lib.Bytes Codec.Desc Gen.PacketsGen Conn.Types Conn.Prog Conn.Sem1 Conn.Sem2 Conn.Sem3 Conn.Monitor Conn.Order Conn.Checks Conn.Switch Conn.Sem3Proofs.

Theorem C02_backpressure : forall o cfg e encf loclat cap sch s,
  ok (step_with (chk_c02 o cfg)) m_init (untime (trace_of (run3 o cfg e encf loclat cap sch s))).
Proof. exact run3_c02_ok. Qed.

Print Assumptions C02_backpressure.
