(* C02 - pinned statements.  The monitor (automaton of Conn/Order.v + check chk_c02 of
   Conn/Checks.v) accepts EVERY trace of the connection handler's model: for every
   configuration, every behaviour of the modelled third-party code (RSA, serde), every
   adapter result and latency, every inbox of client frames and every timing. *)
From Passage Require Import Lib.Bytes Codec.Desc Gen.PacketsGen Conn.Types Conn.Prog Conn.Sem1 Conn.Sem2
  Conn.Monitor Conn.MonitorProofs Conn.Monitor2Proofs Conn.Order Conn.OrderProofs Conn.Checks Conn.Walk_C02.

Theorem C02_walk : forall o cfg, safe (step_with (chk_c02 o cfg)) m_init (listen o cfg).
Proof. exact listen_c02_safe. Qed.

Theorem C02_accepts : forall o cfg e ib,
  accepts (step_with (chk_c02 o cfg)) m_init (untime (run1 o cfg e ib)) = true.
Proof. intros. apply ok_accepts. apply c02_accepts. Qed.

(* every event of every trace passed the order automaton and this property's check in the
   state reached by the events before it *)
Theorem C02_every_event_checked : forall o cfg e ib pre ev post,
  untime (run1 o cfg e ib) = pre ++ ev :: post ->
  exists st, run (step_with (chk_c02 o cfg)) m_init pre = Some st /\
    (internal_at (q st) ev = true \/ exists q', delta (q st) ev = Some q' /\ (chk_c02 o cfg) st ev = true).
Proof. intros o cfg e ib pre ev post H. eapply accepted_event_checked; [apply c02_accepts | exact H]. Qed.

(* ---- the same at byte level (M2): for every timed byte stream the client can send, however
   it is segmented and wherever keep-alive ticks and adapter completions fall - including the
   schedules on which the handler drops a partly read frame (known classes K1 / K4 of C08). *)
Lemma c02_accepts2 : forall o cfg e segs, ok (step_with (chk_c02 o cfg)) m_init (untime (run2 o cfg e segs)).
Proof. intros. unfold run2. apply safe_sound2. apply listen_c02_safe. Qed.

Theorem C02_accepts_bytes : forall o cfg e segs,
  accepts (step_with (chk_c02 o cfg)) m_init (untime (run2 o cfg e segs)) = true.
Proof. intros. apply ok_accepts. apply c02_accepts2. Qed.

Theorem C02_every_event_checked_bytes : forall o cfg e segs pre ev post,
  untime (run2 o cfg e segs) = pre ++ ev :: post ->
  exists st, run (step_with (chk_c02 o cfg)) m_init pre = Some st /\
    (internal_at (q st) ev = true \/ exists q', delta (q st) ev = Some q' /\ (chk_c02 o cfg) st ev = true).
Proof. intros o cfg e segs pre ev post H. eapply accepted_event_checked; [apply c02_accepts2 | exact H]. Qed.

Print Assumptions C02_walk.
Print Assumptions C02_accepts.
Print Assumptions C02_every_event_checked.
Print Assumptions C02_accepts_bytes.
Print Assumptions C02_every_event_checked_bytes.
