(* C07 - waiting players are kept alive; silent ones are timed out.  Pinned statements.
   The timed monitor c07_run (Conn/KeepAlive.v) accepts a trace iff:
     - every Keep Alive is sent at most one period P after the previous one (or after the
       wait began), and only while no earlier id is still unanswered;
     - an id is cleared exactly by a serverbound Keep Alive carrying the same id;
     - the timeout text is only requested (and the connection only ends with
       MissedKeepAlive) at a moment an id is unanswered, no later than P after it was sent.
   P = KEEP_ALIVE_INTERVAL (from the source) * 1000 ms. *)
From Passage Require Import Lib.Bytes Codec.Desc Gen.PacketsGen Gen.ConstsGen Conn.Types Conn.Prog Conn.Sem1
  Conn.Monitor Conn.KeepAlive Conn.KeepAliveProofs.

Theorem C07_period_in_range : 15 <= keep_alive_interval <= 20 /\ P = keep_alive_interval * 1000.
Proof. split; [vm_compute; split; discriminate | reflexivity]. Qed.

(* a tick observed on time re-arms the interval exactly one period later *)
Theorem C07_fire_on_time : forall d, fire d d = d + P.
Proof. exact fire_on_time. Qed.

(* every run of the keep-alive wait loops (the Client Information wait and the three races
   against discovery, filtering and selection) satisfies the monitor: for EVERY inbox
   (any echo policy: prompt, late, never, wrong id, duplicate, unsolicited), every horizon
   (adapter latency) and every environment; and when the loop hands on, the invariant that
   lets the next loop continue is re-established - so keep-alives continue through any
   number of periods *)
Theorem C07_loop : forall cfg e info loc hz ib now dl ka nka nnow ref,
  ref <= now -> now <= dl -> dl <= ref + P ->
  match ka_loop cfg e info loc hz ib now dl ka nka nnow with
  | (tr, KGot _ s') | (tr, KDone s') =>
      exists ref', c07_run (ref, ka) tr = Some (ref', s_ka s')
                   /\ ref' <= s_now s' /\ s_now s' <= s_dl s' /\ s_dl s' <= ref' + P
  | (tr, KEnd _) => c07_run (ref, ka) tr <> None
  end.
Proof. exact ka_loop_c07. Qed.

(* a tick finding an id unanswered ends the connection with the timeout; a tick finding
   none sends exactly one Keep Alive with a fresh id *)
Theorem C07_tick : forall e loc tt dl ka nka,
  match ka, tick_at e loc tt dl ka nka with
  | Some _, (_, Some _) => False
  | None, (_, None) => False
  | _, _ => True
  end.
Proof. intros e loc tt dl [x|] nka; unfold tick_at; [destruct (fst (e_res e (CLocalize loc key_timeout)))|]; exact I. Qed.

Print Assumptions C07_period_in_range.
Print Assumptions C07_fire_on_time.
Print Assumptions C07_loop.
Print Assumptions C07_tick.
