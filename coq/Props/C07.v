(* C07 - waiting players are kept alive; silent ones are timed out.  Pinned statements.
   The timed monitor c07_run (Conn/KeepAlive.v) accepts a trace iff:
     - every Keep Alive is sent at most one period P after the previous one (or after the
       wait began), and only while no earlier id is still unanswered;
     - an id is cleared exactly by a serverbound Keep Alive carrying the same id;
     - the timeout text is only requested (and the connection only ends with
       MissedKeepAlive) at a moment an id is unanswered, no later than P after it was sent.
   P = KEEP_ALIVE_INTERVAL (from the source) * 1000 ms. *)
From Passage Require Import Lib.Bytes Codec.Desc Gen.PacketsGen Gen.ConstsGen Conn.Types Conn.Prog Conn.Sem1
  Conn.Monitor Conn.KeepAlive Conn.KeepAliveProofs Conn.KeepAliveWhole Conn.KeepAliveWholeProofs Conn.Walk_C07.

Theorem C07_period_in_range : 15 <= keep_alive_interval <= 20 /\ P = keep_alive_interval * 1000.
Proof. split; [vm_compute; split; discriminate | reflexivity]. Qed.

(* a tick observed on time re-arms the interval exactly one period later *)
Theorem C07_fire_on_time : forall d, fire d d = d + P.
Proof. exact fire_on_time. Qed.

(* every run of the keep-alive wait loops (the Client Information wait and the three races
   against discovery, filtering and selection) satisfies the monitor: for EVERY inbox
   (any echo policy: prompt, late, never, wrong id, duplicate, unsolicited), every horizon
   (adapter latency) and every environment; and when the loop hands on, the invariant that
   lets the next loop continue is re-established - so keep-alives continue through any
   number of periods *)
Theorem C07_loop : forall cfg e info loc hz ib now dl ka nka nnow ref,
  ref <= now -> now <= dl -> dl <= ref + P ->
  match ka_loop cfg e info loc hz ib now dl ka nka nnow with
  | (tr, KGot _ s') | (tr, KDone s') =>
      exists ref', c07_run (ref, ka) tr = Some (ref', s_ka s')
                   /\ ref' <= s_now s' /\ s_now s' <= s_dl s' /\ s_dl s' <= ref' + P
  | (tr, KEnd _) => c07_run (ref, ka) tr <> None
  end.
Proof. exact ka_loop_c07. Qed.

(* a tick finding an id unanswered ends the connection with the timeout; a tick finding
   none sends exactly one Keep Alive with a fresh id *)
Theorem C07_tick : forall e loc tt dl ka nka,
  match ka, tick_at e loc tt dl ka nka with
  | Some _, (_, Some _) => False
  | None, (_, None) => False
  | _, _ => True
  end.
Proof. intros e loc tt dl [x|] nka; unfold tick_at; [destruct (fst (e_res e (CLocalize loc key_timeout)))|]; exact I. Qed.

(* ---------------------------------------------------------------------------------- *)
(* THE WHOLE CONNECTION.  For every oracle behaviour, configuration, environment (all adapter
   results and latencies, fresh values, clock) and every inbox (any frames at any times - no
   ordering or well-formedness assumption), the timed monitor accepts the whole trace of the
   whole handler from Login Acknowledged on.  Proved by a timed predicate transformer on
   programs (Conn/KeepAliveWhole.v: tsafe; soundness tsafe_sound by induction on the program,
   using C07_loop for the Client Information wait and the three races) and a static walk over
   [listen] (Conn/Walk_C07.v). *)
Theorem C07_whole : forall o cfg e ib, c07_from_config (run1 o cfg e ib) = true.
Proof. exact run1_c07_whole. Qed.

(* why the phase starts well: whenever receive_packet(false) returns a frame at t (Login
   Acknowledged in particular), the next deadline of the interval lies in (t, t + P], provided
   it was at most P ahead before - which holds from the start of the connection (0 <= 0 + P)
   and is preserved by every read, adapter call and write before Login Success *)
Theorem C07_deadline_after_read : forall d now t,
  now <= t -> d <= now + P -> t < skip_ticks d now t <= t + P.
Proof. exact skip_ticks_bounds. Qed.

(* c07_step bounds the distance between two Keep Alives only when the second one is sent; the
   gap monitor c07g_step additionally rejects ANY event later than P after the last Keep Alive
   (or after the phase began) until the selection adapter has answered: "at least every P"
   however long discovery, filtering and selection take.  It is strictly stronger
   (C07Ex.gap_monitor_stronger) and also holds for the whole connection. *)
Theorem C07_whole_gap : forall o cfg e ib, c07g_from_config (run1 o cfg e ib) = true.
Proof. exact run1_c07_gap. Qed.

Theorem C07_gap_implies_whole : forall tr, c07g_from_config tr = true -> c07_from_config tr = true.
Proof. exact c07g_from_config_implies. Qed.

(* the same in plain terms: cut the trace at the first Login Success, the frame consumed next
   (Login Acknowledged, at t1) and any later event at T with no selection answer before it
   (in particular the selection answer itself): the instants at which Keep Alives were sent
   in between cover [t1, T] in steps of at most P *)
Theorem C07_every_period : forall o cfg e ib pre t pk vs t1 id body mid T ev post,
  run1 o cfg e ib = pre ++ (t, TSend pk vs) :: (t1, TRecv id body) :: mid ++ (T, ev) :: post ->
  no_ls pre = true -> is_ls pk = true -> no_select_res mid = true ->
  covered t1 (ka_send_times mid) T.
Proof. exact run1_keepalive_every_period. Qed.

(* ---------------------------------------------------------------------------------- *)
(* THE COOPERATIVE CLIENT IS NOT DROPPED, however long the adapter takes.  [cooperative] is a
   boolean, client-side description (it does not mention the loop): every frame arriving
   before the completion instant h is a well-formed frame a race ignores, and arrives while
   [alive_step] still holds, i.e. each Keep Alive is echoed with its id before the next one
   is due.  now <= dl is the invariant of the phase (re-established by C07_loop). *)
Theorem C07_survive : forall cfg e loc h ib now dl ka nka nnow,
  now <= dl ->
  cooperative cfg e h ib now dl ka nka = true ->
  exists tr s', ka_loop cfg e false loc (Some h) ib now dl ka nka nnow = (tr, KDone s')
                /\ s_now s' = Z.max now h /\ s_now s' <= s_dl s'.
Proof. exact ka_loop_survive. Qed.

(* the client-side description is exactly what the ticks of the model do *)
Theorem C07_alive_step_exact : forall e loc now dl ka nka t,
  now <= dl -> snd (ticks_until e loc now dl ka nka t) = alive_step e dl ka nka t.
Proof. exact ticks_until_alive. Qed.

(* seen from the program: the race hands on to its continuation (chainable: the invariant
   now <= dl holds again), at the completion instant, all loop events strictly before it *)
Theorem C07_survive_exec : forall cfg e loc c k s,
  let r := fst (e_res e c) in
  let h := s_now s + Z.max (snd (e_res e c)) 1 in
  s_now s <= s_dl s ->
  cooperative cfg e h (s_in s) (s_now s) (s_dl s) (s_ka s) (s_nka s) = true ->
  exists tr s',
    exec cfg e (Race loc c k) s = (s_now s, TCall c) :: tr ++ (h, TRes c r) :: exec cfg e (k r) s'
    /\ s_now s' = h /\ s_now s' <= s_dl s'
    /\ Forall (fun ev : timed => fst ev < h) tr.
Proof. exact exec_race_survive. Qed.

(* cooperation composes over consecutive races: a client cooperative up to h survives a race
   completing at any h' <= h and is still cooperative up to h in the state handed on *)
Theorem C07_cooperative_split : forall cfg e loc h h' ib now dl ka nka nnow,
  now <= dl -> h' <= h ->
  cooperative cfg e h ib now dl ka nka = true ->
  exists tr s', ka_loop cfg e false loc (Some h') ib now dl ka nka nnow = (tr, KDone s')
                /\ s_now s' = Z.max now h' /\ s_now s' <= s_dl s'
                /\ cooperative cfg e h (s_in s') (s_now s') (s_dl s') (s_ka s') (s_nka s') = true.
Proof. exact cooperative_split. Qed.

(* hence the whole of routing (Prog.routing: discovery, filtering, selection, cookies,
   Transfer): a client cooperative up to the instant h3 at which selection answers is never
   dropped, and is sent the Transfer to the selected target and the successful end AT h3,
   however long the three adapters take; nothing in the trace is later than h3 *)
Theorem C07_survive_routing : forall cfg e o host port proto should_auth session name uuid props loc rest s ts ts' tg,
  let c1 := CDiscover in
  let c2 := CFilter (cf_client cfg) host port proto name uuid ts in
  let c3 := CSelect (cf_client cfg) host port proto name uuid ts' in
  let h1 := s_now s + Z.max (snd (e_res e c1)) 1 in
  let h2 := h1 + Z.max (snd (e_res e c2)) 1 in
  let h3 := h2 + Z.max (snd (e_res e c3)) 1 in
  fst (e_res e c1) = RTargets ts -> fst (e_res e c2) = RTargets ts' -> fst (e_res e c3) = RTarget (Some tg) ->
  s_now s <= s_dl s ->
  cooperative cfg e h3 (s_in s) (s_now s) (s_dl s) (s_ka s) (s_nka s) = true ->
  exists body,
    exec cfg e (routing o cfg host port proto should_auth session name uuid props (VB loc :: rest)) s =
    body ++ [(h3, TSend configuration_cb_TransferPacket [VB (sa_ip (t_addr tg)); VZ (sa_port (t_addr tg))]);
             (h3, TEnd OOk)]
    /\ Forall (fun ev : timed => fst ev <= h3) body.
Proof. exact routing_survive. Qed.

(* ---------------------------------------------------------------------------------- *)
(* THE UNRESPONSIVE CLIENT IS TIMED OUT.  Id x is unanswered, the next tick is due at dl, the
   adapter (if any) completes later than dl, and every frame arriving before dl is one the
   loop ignores without clearing x (no echo, an echo of a different id, other ignorable
   frames): the trace is exactly those frames followed by the timeout sequence at dl - the
   localized text is requested, the Disconnect is sent, the connection ends with
   MissedKeepAlive (with the adapter error if the localization adapter fails) - and nothing
   after it.  Both flavours of the loop (info = true: Client Information wait). *)
Theorem C07_timeout : forall cfg e info loc hz x ib now dl nka nnow,
  now <= dl -> later_than hz dl ->
  unechoed cfg info (Some x) dl ib now = true ->
  ka_loop cfg e info loc hz ib now dl (Some x) nka nnow =
  (recvs_before dl ib now ++ timeout_trace e loc dl, KEnd (OErr KMissedKA)).
Proof. exact ka_loop_timeout. Qed.

(* from a state with nothing outstanding: the tick at dl sends the next fresh id, nothing
   echoes it before dl + P, the tick at dl + P times the client out *)
Theorem C07_silent : forall cfg e info loc hz ib now dl nka nnow,
  now <= dl -> later_than hz (dl + P) ->
  unechoed cfg info None dl ib now = true ->
  (let (ib1, now1) := rest_after dl ib now in
   unechoed cfg info (Some (be_dec (e_fresh e RKeepAlive nka))) (dl + P) ib1 now1 = true) ->
  ka_loop cfg e info loc hz ib now dl None nka nnow =
  (let (ib1, now1) := rest_after dl ib now in
   recvs_before dl ib now ++ keepalive_trace e dl nka
     ++ recvs_before (dl + P) ib1 now1 ++ timeout_trace e loc (dl + P),
   KEnd (OErr KMissedKA)).
Proof. exact ka_loop_silent. Qed.

(* seen from the program: the whole rest of the connection's trace *)
Theorem C07_timeout_exec_race : forall cfg e loc c k s x,
  let h := s_now s + Z.max (snd (e_res e c)) 1 in
  s_now s <= s_dl s -> s_ka s = Some x -> s_dl s < h ->
  unechoed cfg false (Some x) (s_dl s) (s_in s) (s_now s) = true ->
  exec cfg e (Race loc c k) s =
  (s_now s, TCall c) :: recvs_before (s_dl s) (s_in s) (s_now s) ++ timeout_trace e loc (s_dl s).
Proof. exact exec_race_timeout. Qed.

Theorem C07_timeout_exec_waitinfo : forall cfg e loc k s x,
  s_now s <= s_dl s -> s_ka s = Some x ->
  unechoed cfg true (Some x) (s_dl s) (s_in s) (s_now s) = true ->
  exec cfg e (WaitInfo loc k) s = recvs_before (s_dl s) (s_in s) (s_now s) ++ timeout_trace e loc (s_dl s).
Proof. exact exec_waitinfo_timeout. Qed.

(* ---------------------------------------------------------------------------------- *)
(* TRANSFER AS SOON AS ROUTING COMPLETES.  When a race hands on, its continuation starts at
   exactly the completion instant h = now + max(latency, 1) of the adapter, and every event
   of the loop is strictly earlier. *)
Theorem C07_transfer_after_routing : forall cfg e loc c k s tr s',
  let r := fst (e_res e c) in
  let h := s_now s + Z.max (snd (e_res e c)) 1 in
  ka_loop cfg e false loc (Some h) (s_in s) (s_now s) (s_dl s) (s_ka s) (s_nka s) (s_nnow s) = (tr, KDone s') ->
  exec cfg e (Race loc c k) s = (s_now s, TCall c) :: tr ++ (h, TRes c r) :: exec cfg e (k r) s'
  /\ s_now s' = h
  /\ Forall (fun ev : timed => fst ev < h) tr.
Proof. exact exec_race_done. Qed.

(* the continuation of the selection race IS select_k (by reflexivity) ... *)
Theorem C07_routing_unfold : forall cfg o host port proto should_auth session name uuid props loc rest,
  routing o cfg host port proto should_auth session name uuid props (VB loc :: rest) =
  Race (Some loc) CDiscover (fun r =>
    match r with
    | RTargets ts =>
      Race (Some loc) (CFilter (cf_client cfg) host port proto name uuid ts) (fun r =>
        match r with
        | RTargets ts' =>
          Race (Some loc) (CSelect (cf_client cfg) host port proto name uuid ts')
               (select_k o cfg host port should_auth session name uuid props (Some loc))
        | _ => Ret (OErr KAdapter)
        end)
    | _ => Ret (OErr KAdapter)
    end).
Proof. exact routing_unfold. Qed.

(* ... and when selection answers with a target at h, the cookies, the Transfer to that
   target and the successful end all happen at h: no further waiting *)
Theorem C07_transfer_instant : forall cfg e o host port proto should_auth session name uuid props loc ts s tr s' t,
  let c := CSelect (cf_client cfg) host port proto name uuid ts in
  let h := s_now s + Z.max (snd (e_res e c)) 1 in
  fst (e_res e c) = RTarget (Some t) ->
  ka_loop cfg e false (Some loc) (Some h) (s_in s) (s_now s) (s_dl s) (s_ka s) (s_nka s) (s_nnow s) = (tr, KDone s') ->
  exists mid,
    exec cfg e (Race (Some loc) c (select_k o cfg host port should_auth session name uuid props (Some loc))) s =
    (s_now s, TCall c) :: tr ++ (h, TRes c (RTarget (Some t))) :: mid
      ++ [(h, TSend configuration_cb_TransferPacket [VB (sa_ip (t_addr t)); VZ (sa_port (t_addr t))]);
          (h, TEnd OOk)]
    /\ Forall (fun ev : timed => fst ev < h) tr
    /\ Forall (fun ev : timed => fst ev = h) mid.
Proof. exact exec_select_transfer. Qed.

Print Assumptions C07_period_in_range.
Print Assumptions C07_fire_on_time.
Print Assumptions C07_loop.
Print Assumptions C07_tick.
Print Assumptions C07_whole.
Print Assumptions C07_whole_gap.
Print Assumptions C07_gap_implies_whole.
Print Assumptions C07_every_period.
Print Assumptions C07_survive.
Print Assumptions C07_alive_step_exact.
Print Assumptions C07_survive_exec.
Print Assumptions C07_timeout.
Print Assumptions C07_silent.
Print Assumptions C07_timeout_exec_race.
Print Assumptions C07_timeout_exec_waitinfo.
Print Assumptions C07_transfer_after_routing.
Print Assumptions C07_routing_unfold.
Print Assumptions C07_transfer_instant.
Print Assumptions C07_deadline_after_read.
Print Assumptions C07_cooperative_split.
Print Assumptions C07_survive_routing.

(* ---- M3 (Conn/Sem3.v): the same for EVERY behaviour of the transport (free room following any schedule: writes accepted
   in part, refused, never accepted again), every latency of localize(), every cancellation of a pending write or of a
   pending missed-keep-alive verdict by the race.  Proofs in Conn/Sem3Proofs.v. ---- *)
From Passage Require Import Lib.Bytes Codec.Desc Gen.PacketsGen Conn.Types Conn.Prog Conn.Sem1 Conn.Sem2 Conn.Sem3 Conn.Monitor Conn.Order Conn.Checks Conn.Switch Conn.Sem3Proofs.

Theorem C07_verdict_stands : forall o cfg e encf loclat cap sch s pre loc post,
  untime (trace_of (run3 o cfg e encf loclat cap sch s)) = pre ++ TCall (CLocalize loc key_timeout) :: post ->
  timeout_tail post = true.
Proof. exact run3_verdict_stands. Qed.

Print Assumptions C07_verdict_stands.
