(* C05 - encrypted traffic is one continuous AES-128-CFB8 stream under any I/O schedule.
   Pinned statements; proofs in Crypto/CipherStreamProofs.v.  [E] is the block function:
   the theorems hold for every block function, in particular for AES-128 under the shared
   secret (Spec/Aes.v, instantiated below). *)
From Passage Require Import Lib.Bytes Spec.Aes Spec.Cfb8Spec Crypto.CipherStream Crypto.CipherStreamProofs
  Conn.Types Conn.Prog Conn.Sem1 Conn.Sem2 Conn.Monitor Conn.Reader Conn.Switch Conn.SwitchProofs.

(* for EVERY schedule of poll_write calls (any buffers, Pending, partial acceptance, errors):
   the bytes on the wire are the CFB8 encryption, from the state the stream was in, of
   exactly the plaintext bytes reported as written - one continuous stream *)
Theorem C05_write : forall (E : bytes -> bytes) ops st st' wire accepted,
  writes E st ops = (st', wire, accepted) ->
  wire = enc_of E st accepted
  /\ c_dec st' = c_dec st
  /\ c_enc st' = match c_enc st with Some sr => Some (snd (cfb8_enc E sr accepted)) | None => None end.
Proof. exact writes_spec. Qed.

(* for EVERY schedule of poll_read answers (any chunk sizes, Pending): the reader is handed
   the CFB8 decryption of exactly what the transport produced *)
Theorem C05_read : forall (E : bytes -> bytes) ops st st' plain produced,
  reads E st ops = (st', plain, produced) ->
  plain = dec_of E st produced
  /\ c_enc st' = c_enc st
  /\ c_dec st' = match c_dec st with Some sr => Some (snd (cfb8_dec E sr produced)) | None => None end.
Proof. exact reads_spec. Qed.

(* before the switch everything is passed through untouched *)
Theorem C05_passthrough : forall (E : bytes -> bytes) ops st st' wire accepted,
  c_enc st = None -> writes E st ops = (st', wire, accepted) -> wire = accepted.
Proof.
  intros E ops st st' wire accepted Hn H. destruct (writes_spec E _ _ _ _ _ H) as [Hw _].
  unfold enc_of in Hw. rewrite Hn in Hw. exact Hw.
Qed.

(* the two directions match: what one side's writer puts on the wire, the other side's
   reader turns back into the plaintext, and both registers stay in step *)
Theorem C05_matching : forall (E : bytes -> bytes) sr p,
  cfb8_dec E sr (fst (cfb8_enc E sr p)) = (p, snd (cfb8_enc E sr p)).
Proof. exact dec_enc. Qed.

(* ciphertext is causal and compositional: segmentation of the plaintext does not matter *)
Theorem C05_segmentation : forall (E : bytes -> bytes) sr a b,
  fst (cfb8_enc E sr (a ++ b)) = fst (cfb8_enc E sr a) ++ fst (cfb8_enc E (snd (cfb8_enc E sr a)) b).
Proof. intros. rewrite enc_app. reflexivity. Qed.

(* non-vacuity with the real block cipher: SP 800-38A F.3.7 CFB8-AES128.Encrypt, first bytes *)
Example C05_sp800_38a :
  let key := hx "2b7e151628aed2a6abf7158809cf4f3c" in
  let iv := hx "000102030405060708090a0b0c0d0e0f" in
  fst (cfb8_enc (aes128_encrypt_with (aes128_key_expand key)) iv (hx "6bc1bee22e409f96e93d7e117393172aae2d"))
  = hx "3b79424c9c0dd436bace9e0ed4586a4f32b9".
Proof. vm_compute. reflexivity. Qed.

(* ---- where the switch sits in the connection (Conn/Switch.v: the three-phase monitor) ----
   For every run of the handler - every oracle, configuration, environment and inbox at frame
   level, every timed byte stream at byte level - encryption is switched on at most once; every
   packet sent before it is a status or login packet other than Login Success (sent in clear);
   the first packet after it is Login Success; everything after that is a configuration packet.
   (The secret it is switched on with is the RSA-decrypted shared secret of this connection's
   Encryption Response: C01.) *)
Theorem C05_switch : forall o cfg e ib, switch_ok (untime (run1 o cfg e ib)) = true.
Proof. exact run1_switch_ok. Qed.

Theorem C05_switch_bytes : forall o cfg e (s : segs), switch_ok (untime (run2 o cfg e s)) = true.
Proof. exact run2_switch_ok. Qed.

Print Assumptions C05_switch.
Print Assumptions C05_switch_bytes.
Print Assumptions C05_write.
Print Assumptions C05_read.
Print Assumptions C05_passthrough.
Print Assumptions C05_matching.
Print Assumptions C05_segmentation.

(* ---- M3 (Conn/Sem3.v): the same for EVERY behaviour of the transport (free room following any schedule: writes accepted
   in part, refused, never accepted again), every latency of localize(), every cancellation of a pending write or of a
   pending missed-keep-alive verdict by the race.  Proofs in Conn/Sem3Proofs.v. ---- *)
From Passage Require Import Lib.Bytes Codec.Desc Gen.PacketsGen Conn.Types Conn.Prog Conn.Sem1 Conn.Sem2 Conn.Sem3 Conn.Monitor Conn.Order Conn.Checks Conn.Switch Conn.Sem3Proofs.

Theorem C05_switch_backpressure : forall o cfg e encf loclat cap sch s,
  switch_ok (untime (trace_of (run3 o cfg e encf loclat cap sch s))) = true.
Proof. exact run3_switch_ok. Qed.

Print Assumptions C05_switch_backpressure.
