(* C03 - pinned statements.  The monitor (automaton of Conn/Order.v + check chk_c03 of
   Conn/Checks.v) accepts EVERY trace of the connection handler's model: for every
   configuration, every behaviour of the modelled third-party code (RSA, serde), every
   adapter result and latency, every inbox of client frames and every timing. *)
From Passage Require Import Lib.Bytes Codec.Desc Gen.PacketsGen Conn.Types Conn.Prog Conn.Sem1 Conn.Sem2
  Conn.Monitor Conn.MonitorProofs Conn.Monitor2Proofs Conn.Order Conn.OrderProofs Conn.Checks Conn.Walk_C03 Adapters.Locale Adapters.LocaleProofs.

Theorem C03_walk : forall o cfg, safe (step_with chk_c03) m_init (listen o cfg).
Proof. exact listen_c03_safe. Qed.

Theorem C03_accepts : forall o cfg e ib,
  accepts (step_with chk_c03) m_init (untime (run1 o cfg e ib)) = true.
Proof. intros. apply ok_accepts. apply c03_accepts. Qed.

(* every event of every trace passed the order automaton and this property's check in the
   state reached by the events before it *)
Theorem C03_every_event_checked : forall o cfg e ib pre ev post,
  untime (run1 o cfg e ib) = pre ++ ev :: post ->
  exists st, run (step_with chk_c03) m_init pre = Some st /\
    (internal_at (q st) ev = true \/ exists q', delta (q st) ev = Some q' /\ chk_c03 st ev = true).
Proof. intros o cfg e ib pre ev post H. eapply accepted_event_checked; [apply c03_accepts | exact H]. Qed.

(* the configured message: FixedLocalizationAdapter walks the reported locale, then its
   prefixes at every '_' from the longest to the shortest, then the default locale likewise;
   the first candidate that has a table decides (its entry for the key, or the key itself) *)
Theorem C03_locale_candidates : forall loc c,
  In c (append_locale loc) <-> c = loc \/ exists i, nth_error loc i = Some 95 /\ c = firstn i loc.
Proof. exact candidates_are_prefixes. Qed.

Theorem C03_locale_first_table : forall tables cands t,
  first_table cands tables = Some t <->
  exists pre c post, cands = pre ++ c :: post /\ lookup_tbl c tables = Some t
                     /\ forall x, In x pre -> lookup_tbl x tables = None.
Proof. exact first_table_spec. Qed.

(* ---- the same at byte level (M2): for every timed byte stream the client can send, however
   it is segmented and wherever keep-alive ticks and adapter completions fall - including the
   schedules on which the handler drops a partly read frame (known classes K1 / K4 of C08). *)
Lemma c03_accepts2 : forall o cfg e segs, ok (step_with chk_c03) m_init (untime (run2 o cfg e segs)).
Proof. intros. unfold run2. apply safe_sound2. apply listen_c03_safe. Qed.

Theorem C03_accepts_bytes : forall o cfg e segs,
  accepts (step_with chk_c03) m_init (untime (run2 o cfg e segs)) = true.
Proof. intros. apply ok_accepts. apply c03_accepts2. Qed.

Theorem C03_every_event_checked_bytes : forall o cfg e segs pre ev post,
  untime (run2 o cfg e segs) = pre ++ ev :: post ->
  exists st, run (step_with chk_c03) m_init pre = Some st /\
    (internal_at (q st) ev = true \/ exists q', delta (q st) ev = Some q' /\ chk_c03 st ev = true).
Proof. intros o cfg e segs pre ev post H. eapply accepted_event_checked; [apply c03_accepts2 | exact H]. Qed.

Print Assumptions C03_walk.
Print Assumptions C03_locale_candidates.
Print Assumptions C03_locale_first_table.
Print Assumptions C03_accepts.
Print Assumptions C03_every_event_checked.
Print Assumptions C03_accepts_bytes.
Print Assumptions C03_every_event_checked_bytes.
