(* C03 - pinned statements.  The monitor (automaton of Conn/Order.v + check chk_c03 of
   Conn/Checks.v) accepts EVERY trace of the connection handler's model: for every
   configuration, every behaviour of the modelled third-party code (RSA, serde), every
   adapter result and latency, every inbox of client frames and every timing. *)
From Passage Require Import Lib.Bytes Codec.Desc Gen.PacketsGen Conn.Types Conn.Prog Conn.Sem1 Conn.Sem2
  Conn.Monitor Conn.MonitorProofs Conn.Monitor2Proofs Conn.Order Conn.OrderProofs Conn.Checks Conn.Walk_C03 Adapters.Locale Adapters.LocaleProofs
  Conn.TraceLib Conn.C06Corollaries Conn.C03Corollaries.

Theorem C03_walk : forall o cfg, safe (step_with chk_c03) m_init (listen o cfg).
Proof. exact listen_c03_safe. Qed.

Theorem C03_accepts : forall o cfg e ib,
  accepts (step_with chk_c03) m_init (untime (run1 o cfg e ib)) = true.
Proof. intros. apply ok_accepts. apply c03_accepts. Qed.

(* every event of every trace passed the order automaton and this property's check in the
   state reached by the events before it *)
Theorem C03_every_event_checked : forall o cfg e ib pre ev post,
  untime (run1 o cfg e ib) = pre ++ ev :: post ->
  exists st, run (step_with chk_c03) m_init pre = Some st /\
    (internal_at (q st) ev = true \/ exists q', delta (q st) ev = Some q' /\ chk_c03 st ev = true).
Proof. intros o cfg e ib pre ev post H. eapply accepted_event_checked; [apply c03_accepts | exact H]. Qed.

(* the configured message: FixedLocalizationAdapter walks the reported locale, then its
   prefixes at every '_' from the longest to the shortest, then the default locale likewise;
   the first candidate that has a table decides (its entry for the key, or the key itself) *)
Theorem C03_locale_candidates : forall loc c,
  In c (append_locale loc) <-> c = loc \/ exists i, nth_error loc i = Some 95 /\ c = firstn i loc.
Proof. exact candidates_are_prefixes. Qed.

Theorem C03_locale_first_table : forall tables cands t,
  first_table cands tables = Some t <->
  exists pre c post, cands = pre ++ c :: post /\ lookup_tbl c tables = Some t
                     /\ forall x, In x pre -> lookup_tbl x tables = None.
Proof. exact first_table_spec. Qed.

(* ---- the same at byte level (M2): for every timed byte stream the client can send, however
   it is segmented and wherever keep-alive ticks and adapter completions fall - including the
   schedules on which the handler drops a partly read frame (known classes K1 / K4 of C08). *)
Lemma c03_accepts2 : forall o cfg e segs, ok (step_with chk_c03) m_init (untime (run2 o cfg e segs)).
Proof. intros. unfold run2. apply safe_sound2. apply listen_c03_safe. Qed.

Theorem C03_accepts_bytes : forall o cfg e segs,
  accepts (step_with chk_c03) m_init (untime (run2 o cfg e segs)) = true.
Proof. intros. apply ok_accepts. apply c03_accepts2. Qed.

Theorem C03_every_event_checked_bytes : forall o cfg e segs pre ev post,
  untime (run2 o cfg e segs) = pre ++ ev :: post ->
  exists st, run (step_with chk_c03) m_init pre = Some st /\
    (internal_at (q st) ev = true \/ exists q', delta (q st) ev = Some q' /\ chk_c03 st ev = true).
Proof. intros o cfg e segs pre ev post H. eapply accepted_event_checked; [apply c03_accepts2 | exact H]. Qed.

(* ======================================================================
   In plain terms: corollaries of the accepted monitor (Conn/C03Corollaries.v), each for
   every frame-level run (M1) and, suffix _bytes, every byte-level run (M2).
   ====================================================================== *)

(* the vocabulary of the statements below (definitions unfolded) *)
Theorem C03_defs :
  (forall l, ends l <-> l = [] \/ exists o, l = [TEnd o])
  /\ (forall l, ends_badly l <-> l = [] \/ exists o, l = [TEnd o] /\ o <> OOk)
  /\ (forall e, select_result e = match e with TRes (CSelect _ _ _ _ _ _ _) r => Some r | _ => None end)
  /\ (forall b, locale_of_frame b = match dec_of configuration_sb_ClientInformationPacket b with
                                    | Some (VB loc :: _) => Some loc | _ => None end)
  /\ (forall pre b, client_info pre b <->
        exists pre0 p vs mid pre2, pre = pre0 ++ TSend p vs :: mid ++ TRecv ci_id b :: pre2
          /\ is_pkt p login_cb_LoginSuccessPacket = true /\ forall b', ~ In (TRecv ci_id b') mid)
  /\ (forall A (f : tev -> option A) pre a, latest f pre = Some a <->
        exists pre1 e pre2, pre = pre1 ++ e :: pre2 /\ f e = Some a /\ forall x, In x pre2 -> f x = None).
Proof. repeat match goal with |- _ /\ _ => split end; intros; try reflexivity; apply latest_spec. Qed.

(* The filter call directly follows discovery's answer and is given exactly the list it returned *)
Theorem C03_filter_gets_discovery : forall o cfg e ib pre cl host port proto n u ts post,
  untime (run1 o cfg e ib) = pre ++ TCall (CFilter cl host port proto n u ts) :: post ->
  exists pre1, pre = pre1 ++ [TRes CDiscover (RTargets ts)].
Proof. intros o cfg e ib. exact (filter_gets_discovery _ (c03_accepts o cfg e ib)). Qed.
Theorem C03_filter_gets_discovery_bytes : forall o cfg e segs pre cl host port proto n u ts post,
  untime (run2 o cfg e segs) = pre ++ TCall (CFilter cl host port proto n u ts) :: post ->
  exists pre1, pre = pre1 ++ [TRes CDiscover (RTargets ts)].
Proof. intros o cfg e segs. exact (filter_gets_discovery _ (c03_accepts2 o cfg e segs)). Qed.

(* The selection call directly follows the filters' answer and is given exactly the list they returned *)
Theorem C03_select_gets_filter : forall o cfg e ib pre cl host port proto n u ts post,
  untime (run1 o cfg e ib) = pre ++ TCall (CSelect cl host port proto n u ts) :: post ->
  exists pre1 cl' host' port' proto' n' u' ts0,
    pre = pre1 ++ [TRes (CFilter cl' host' port' proto' n' u' ts0) (RTargets ts)].
Proof. intros o cfg e ib. exact (select_gets_filter _ (c03_accepts o cfg e ib)). Qed.
Theorem C03_select_gets_filter_bytes : forall o cfg e segs pre cl host port proto n u ts post,
  untime (run2 o cfg e segs) = pre ++ TCall (CSelect cl host port proto n u ts) :: post ->
  exists pre1 cl' host' port' proto' n' u' ts0,
    pre = pre1 ++ [TRes (CFilter cl' host' port' proto' n' u' ts0) (RTargets ts)].
Proof. intros o cfg e segs. exact (select_gets_filter _ (c03_accepts2 o cfg e segs)). Qed.

(* The Transfer carries exactly the IP text and port of the target the strategy chose *)
Theorem C03_transfer_is_choice : forall o cfg e ib pre vs post,
  untime (run1 o cfg e ib) = pre ++ TSend configuration_cb_TransferPacket vs :: post ->
  exists t, latest select_result pre = Some (RTarget (Some t))
            /\ vs = [VB (sa_ip (t_addr t)); VZ (sa_port (t_addr t))].
Proof. intros o cfg e ib. exact (transfer_is_choice _ (c03_accepts o cfg e ib)). Qed.
Theorem C03_transfer_is_choice_bytes : forall o cfg e segs pre vs post,
  untime (run2 o cfg e segs) = pre ++ TSend configuration_cb_TransferPacket vs :: post ->
  exists t, latest select_result pre = Some (RTarget (Some t))
            /\ vs = [VB (sa_ip (t_addr t)); VZ (sa_port (t_addr t))].
Proof. intros o cfg e segs. exact (transfer_is_choice _ (c03_accepts2 o cfg e segs)). Qed.

(* The strategy answers at most once per connection ("the latest answer" is the answer) *)
Theorem C03_select_once : forall o cfg e ib a c1 r1 b c2 r2 c,
  untime (run1 o cfg e ib) = a ++ TRes c1 r1 :: b ++ TRes c2 r2 :: c ->
  select_result (TRes c1 r1) <> None -> select_result (TRes c2 r2) <> None -> False.
Proof. intros o cfg e ib. exact (select_once _ (c03_accepts o cfg e ib)). Qed.
Theorem C03_select_once_bytes : forall o cfg e segs a c1 r1 b c2 r2 c,
  untime (run2 o cfg e segs) = a ++ TRes c1 r1 :: b ++ TRes c2 r2 :: c ->
  select_result (TRes c1 r1) <> None -> select_result (TRes c2 r2) <> None -> False.
Proof. intros o cfg e segs. exact (select_once _ (c03_accepts2 o cfg e segs)). Qed.

(* The Transfer is the last packet: after it at most the end marker follows (so it is sent at most once) *)
Theorem C03_transfer_last : forall o cfg e ib pre p vs post,
  untime (run1 o cfg e ib) = pre ++ TSend p vs :: post -> is_pkt p configuration_cb_TransferPacket = true -> ends post.
Proof. intros o cfg e ib. exact (transfer_last _ (c03_accepts o cfg e ib)). Qed.
Theorem C03_transfer_last_bytes : forall o cfg e segs pre p vs post,
  untime (run2 o cfg e segs) = pre ++ TSend p vs :: post -> is_pkt p configuration_cb_TransferPacket = true -> ends post.
Proof. intros o cfg e segs. exact (transfer_last _ (c03_accepts2 o cfg e segs)). Qed.

(* No target chosen: all that can follow is the localisation call for the no-target message in the locale
   the Client Information reported, its answer, a Disconnect with exactly that text, the unsuccessful end
   (or an earlier unsuccessful end) *)
Theorem C03_no_target_disconnect : forall o cfg e ib pre cl host port proto n u ts post,
  untime (run1 o cfg e ib) = pre ++ TRes (CSelect cl host port proto n u ts) (RTarget None) :: post ->
  ends_badly post \/
  exists b post1,
    client_info pre b /\ post = TCall (CLocalize (locale_of_frame b) key_no_target) :: post1 /\
    (ends_badly post1 \/
     exists l k r post2, post1 = TRes (CLocalize l k) r :: post2 /\
       (ends_badly post2 \/
        exists msg p post3, r = RText msg /\ post2 = TSend p [VB msg] :: post3
          /\ is_pkt p configuration_cb_DisconnectPacket = true /\ ends_badly post3)).
Proof. intros o cfg e ib. exact (no_target_then _ (c03_accepts o cfg e ib)). Qed.
Theorem C03_no_target_disconnect_bytes : forall o cfg e segs pre cl host port proto n u ts post,
  untime (run2 o cfg e segs) = pre ++ TRes (CSelect cl host port proto n u ts) (RTarget None) :: post ->
  ends_badly post \/
  exists b post1,
    client_info pre b /\ post = TCall (CLocalize (locale_of_frame b) key_no_target) :: post1 /\
    (ends_badly post1 \/
     exists l k r post2, post1 = TRes (CLocalize l k) r :: post2 /\
       (ends_badly post2 \/
        exists msg p post3, r = RText msg /\ post2 = TSend p [VB msg] :: post3
          /\ is_pkt p configuration_cb_DisconnectPacket = true /\ ends_badly post3)).
Proof. intros o cfg e segs. exact (no_target_then _ (c03_accepts2 o cfg e segs)). Qed.

(* and no Transfer is ever sent on such a connection *)
Theorem C03_no_target_no_transfer : forall o cfg e ib pre cl host port proto n u ts post p vs,
  untime (run1 o cfg e ib) = pre ++ TRes (CSelect cl host port proto n u ts) (RTarget None) :: post ->
  In (TSend p vs) (untime (run1 o cfg e ib)) -> is_pkt p configuration_cb_TransferPacket = false.
Proof. intros o cfg e ib. exact (no_target_no_transfer _ (c03_accepts o cfg e ib)). Qed.
Theorem C03_no_target_no_transfer_bytes : forall o cfg e segs pre cl host port proto n u ts post p vs,
  untime (run2 o cfg e segs) = pre ++ TRes (CSelect cl host port proto n u ts) (RTarget None) :: post ->
  In (TSend p vs) (untime (run2 o cfg e segs)) -> is_pkt p configuration_cb_TransferPacket = false.
Proof. intros o cfg e segs. exact (no_target_no_transfer _ (c03_accepts2 o cfg e segs)). Qed.

(* Every Disconnect directly follows an answer of the localisation adapter and carries exactly its text *)
Theorem C03_disconnect_text : forall o cfg e ib pre vs post,
  untime (run1 o cfg e ib) = pre ++ TSend configuration_cb_DisconnectPacket vs :: post ->
  exists pre1 l k msg, pre = pre1 ++ [TRes (CLocalize l k) (RText msg)] /\ vs = [VB msg].
Proof. intros o cfg e ib. exact (disconnect_text _ (c03_accepts o cfg e ib)). Qed.
Theorem C03_disconnect_text_bytes : forall o cfg e segs pre vs post,
  untime (run2 o cfg e segs) = pre ++ TSend configuration_cb_DisconnectPacket vs :: post ->
  exists pre1 l k msg, pre = pre1 ++ [TRes (CLocalize l k) (RText msg)] /\ vs = [VB msg].
Proof. intros o cfg e segs. exact (disconnect_text _ (c03_accepts2 o cfg e segs)). Qed.

(* If discovery, filtering or selection fails (any answer other than a target list / a choice) the
   connection ends unsuccessfully right there, and no Transfer is sent anywhere on it *)
Theorem C03_failure_no_transfer : forall o cfg e ib pre c r post,
  untime (run1 o cfg e ib) = pre ++ TRes c r :: post ->
  routing_call c = true -> answer_usable c r = false ->
  ends_badly post /\ forall p vs, In (TSend p vs) (untime (run1 o cfg e ib)) -> is_pkt p configuration_cb_TransferPacket = false.
Proof. intros o cfg e ib. intros pre c r post H Hc Hr. split; [exact (failure_ends _ (c03_accepts o cfg e ib) _ _ _ _ H Hc Hr) | intros p vs; exact (failure_no_transfer _ (c03_accepts o cfg e ib) _ _ _ _ p vs H Hc Hr)]. Qed.
Theorem C03_failure_no_transfer_bytes : forall o cfg e segs pre c r post,
  untime (run2 o cfg e segs) = pre ++ TRes c r :: post ->
  routing_call c = true -> answer_usable c r = false ->
  ends_badly post /\ forall p vs, In (TSend p vs) (untime (run2 o cfg e segs)) -> is_pkt p configuration_cb_TransferPacket = false.
Proof. intros o cfg e segs. intros pre c r post H Hc Hr. split; [exact (failure_ends _ (c03_accepts2 o cfg e segs) _ _ _ _ H Hc Hr) | intros p vs; exact (failure_no_transfer _ (c03_accepts2 o cfg e segs) _ _ _ _ p vs H Hc Hr)]. Qed.

Print Assumptions C03_walk.
Print Assumptions C03_locale_candidates.
Print Assumptions C03_locale_first_table.
Print Assumptions C03_accepts.
Print Assumptions C03_every_event_checked.
Print Assumptions C03_accepts_bytes.
Print Assumptions C03_every_event_checked_bytes.
Print Assumptions C03_defs.
Print Assumptions C03_filter_gets_discovery.
Print Assumptions C03_filter_gets_discovery_bytes.
Print Assumptions C03_select_gets_filter.
Print Assumptions C03_select_gets_filter_bytes.
Print Assumptions C03_transfer_is_choice.
Print Assumptions C03_transfer_is_choice_bytes.
Print Assumptions C03_select_once.
Print Assumptions C03_select_once_bytes.
Print Assumptions C03_transfer_last.
Print Assumptions C03_transfer_last_bytes.
Print Assumptions C03_no_target_disconnect.
Print Assumptions C03_no_target_disconnect_bytes.
Print Assumptions C03_no_target_no_transfer.
Print Assumptions C03_no_target_no_transfer_bytes.
Print Assumptions C03_disconnect_text.
Print Assumptions C03_disconnect_text_bytes.
Print Assumptions C03_failure_no_transfer.
Print Assumptions C03_failure_no_transfer_bytes.

(* ---- M3 (Conn/Sem3.v): the same for EVERY behaviour of the transport (free room following any schedule: writes accepted
   in part, refused, never accepted again), every latency of localize(), every cancellation of a pending write or of a
   pending missed-keep-alive verdict by the race.  Proofs in Conn/Sem3Proofs.v. ---- *)
From Passage Require Import Lib.Bytes Codec.Desc Gen.PacketsGen Conn.Types Conn.Prog Conn.Sem1 Conn.Sem2 Conn.Sem3 Conn.Monitor Conn.Order Conn.Checks Conn.Switch Conn.Sem3Proofs.

Theorem C03_backpressure : forall o cfg e encf loclat cap sch s,
  ok (step_with chk_c03) m_init (untime (trace_of (run3 o cfg e encf loclat cap sch s))).
Proof. exact run3_c03_ok. Qed.

Print Assumptions C03_backpressure.
