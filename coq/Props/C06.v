(* C06 - pinned statements.  The monitor (automaton of Conn/Order.v + check chk_c06 of
   Conn/Checks.v) accepts EVERY trace of the connection handler's model: for every
   configuration, every behaviour of the modelled third-party code (RSA, serde), every
   adapter result and latency, every inbox of client frames and every timing. *)
From Passage Require Import Lib.Bytes Codec.Desc Gen.PacketsGen Conn.Types Conn.Prog Conn.Sem1 Conn.Sem2
  Conn.Monitor Conn.MonitorProofs Conn.Monitor2Proofs Conn.Order Conn.OrderProofs Conn.Checks Conn.Walk_C06
  Conn.TraceLib Conn.C06Corollaries.

Theorem C06_walk : forall o cfg, safe (step_with chk_c06) m_init (listen o cfg).
Proof. exact listen_c06_safe. Qed.

Theorem C06_accepts : forall o cfg e ib,
  accepts (step_with chk_c06) m_init (untime (run1 o cfg e ib)) = true.
Proof. intros. apply ok_accepts. apply c06_accepts. Qed.

(* every event of every trace passed the order automaton and this property's check in the
   state reached by the events before it *)
Theorem C06_every_event_checked : forall o cfg e ib pre ev post,
  untime (run1 o cfg e ib) = pre ++ ev :: post ->
  exists st, run (step_with chk_c06) m_init pre = Some st /\
    (internal_at (q st) ev = true \/ exists q', delta (q st) ev = Some q' /\ chk_c06 st ev = true).
Proof. intros o cfg e ib pre ev post H. eapply accepted_event_checked; [apply c06_accepts | exact H]. Qed.

(* ---- the same at byte level (M2): for every timed byte stream the client can send, however
   it is segmented and wherever keep-alive ticks and adapter completions fall - including the
   schedules on which the handler drops a partly read frame (known classes K1 / K4 of C08). *)
Lemma c06_accepts2 : forall o cfg e segs, ok (step_with chk_c06) m_init (untime (run2 o cfg e segs)).
Proof. intros. unfold run2. apply safe_sound2. apply listen_c06_safe. Qed.

Theorem C06_accepts_bytes : forall o cfg e segs,
  accepts (step_with chk_c06) m_init (untime (run2 o cfg e segs)) = true.
Proof. intros. apply ok_accepts. apply c06_accepts2. Qed.

Theorem C06_every_event_checked_bytes : forall o cfg e segs pre ev post,
  untime (run2 o cfg e segs) = pre ++ ev :: post ->
  exists st, run (step_with chk_c06) m_init pre = Some st /\
    (internal_at (q st) ev = true \/ exists q', delta (q st) ev = Some q' /\ chk_c06 st ev = true).
Proof. intros o cfg e segs pre ev post H. eapply accepted_event_checked; [apply c06_accepts2 | exact H]. Qed.

(* ======================================================================
   In plain terms: corollaries of the accepted monitor (Conn/C06Corollaries.v), each for
   every frame-level run (M1) and, suffix _bytes, every byte-level run (M2).
   ====================================================================== *)

(* the language of a connection: the recogniser, and its complete words spelled out *)
Theorem C06_language_def : forall w,
  lang_complete w = true <->
  w = [PStatusResponse; PPong]
  \/ exists (auth_req : bool) keep_alives tail,
       w = PCookieRequestSession :: (if auth_req then [PCookieRequestAuth] else [])
           ++ [PEncryptionRequest; PLoginSuccess] ++ repeat PKeepAlive keep_alives ++ tail
       /\ (tail = [PDisconnect]
           \/ exists (sa ss : bool), tail = (if sa then [PStoreCookieAuth] else []) ++ (if ss then [PStoreCookieSession] else [])
                                   ++ [PTransfer]).
Proof. exact lang_complete_spec. Qed.

(* every prefix the recogniser accepts can be completed: it recognises the prefixes of that language *)
Theorem C06_language_prefix_closed : forall w, lang_prefix w = true <-> exists w', lang_complete (w ++ w') = true.
Proof. exact lang_prefix_spec. Qed.

(* The packets sent by (any prefix of) any run, by name and in order, are a prefix of a word of the language:
   Status Response, Pong | session Cookie Request, auth Cookie Request?, Encryption Request, Login Success,
   Keep Alive*, (auth Store Cookie?, session Store Cookie?, Transfer | Disconnect) *)
Theorem C06_sent_language : forall o cfg e ib pre post,
  untime (run1 o cfg e ib) = pre ++ post -> lang_prefix (sent_names pre) = true.
Proof. intros o cfg e ib. exact (sent_language_prefix _ _ (c06_accepts o cfg e ib)). Qed.
Theorem C06_sent_language_bytes : forall o cfg e segs pre post,
  untime (run2 o cfg e segs) = pre ++ post -> lang_prefix (sent_names pre) = true.
Proof. intros o cfg e segs. exact (sent_language_prefix _ _ (c06_accepts2 o cfg e segs)). Qed.

(* A run that ends successfully has sent a complete word: Status Response and Pong, or a login sequence
   ending in Transfer *)
Theorem C06_sent_complete : forall o cfg e ib pre post,
  untime (run1 o cfg e ib) = pre ++ TEnd OOk :: post ->
  lang_run 0 (sent_names pre) = Some 2 \/ lang_run 0 (sent_names pre) = Some 16.
Proof. intros o cfg e ib. exact (sent_complete _ _ (c06_accepts o cfg e ib)). Qed.
Theorem C06_sent_complete_bytes : forall o cfg e segs pre post,
  untime (run2 o cfg e segs) = pre ++ TEnd OOk :: post ->
  lang_run 0 (sent_names pre) = Some 2 \/ lang_run 0 (sent_names pre) = Some 16.
Proof. intros o cfg e segs. exact (sent_complete _ _ (c06_accepts2 o cfg e segs)). Qed.

(* The Status Response directly follows the status service's answer and carries exactly its JSON *)
Theorem C06_status_exact : forall o cfg e ib pre vs post,
  untime (run1 o cfg e ib) = pre ++ TSend status_cb_StatusResponsePacket vs :: post ->
  exists pre1 cl host port proto json,
    pre = pre1 ++ [TRes (CStatus cl host port proto) (RStatus json)] /\ vs = [VB json].
Proof. intros o cfg e ib. exact (status_response_exact _ (c06_accepts o cfg e ib)). Qed.
Theorem C06_status_exact_bytes : forall o cfg e segs pre vs post,
  untime (run2 o cfg e segs) = pre ++ TSend status_cb_StatusResponsePacket vs :: post ->
  exists pre1 cl host port proto json,
    pre = pre1 ++ [TRes (CStatus cl host port proto) (RStatus json)] /\ vs = [VB json].
Proof. intros o cfg e segs. exact (status_response_exact _ (c06_accepts2 o cfg e segs)). Qed.

(* The Pong directly follows the Ping frame and echoes its payload *)
Theorem C06_pong_exact : forall o cfg e ib pre vs post,
  untime (run1 o cfg e ib) = pre ++ TSend status_cb_PongPacket vs :: post ->
  exists pre1 b payload,
    pre = pre1 ++ [TRecv 1 b] /\ dec_of status_sb_PingPacket b = Some [VZ payload] /\ vs = [VZ payload].
Proof. intros o cfg e ib. exact (pong_exact _ (c06_accepts o cfg e ib)). Qed.
Theorem C06_pong_exact_bytes : forall o cfg e segs pre vs post,
  untime (run2 o cfg e segs) = pre ++ TSend status_cb_PongPacket vs :: post ->
  exists pre1 b payload,
    pre = pre1 ++ [TRecv 1 b] /\ dec_of status_sb_PingPacket b = Some [VZ payload] /\ vs = [VZ payload].
Proof. intros o cfg e segs. exact (pong_exact _ (c06_accepts2 o cfg e segs)). Qed.

(* After Pong, Transfer or Disconnect nothing is sent or done: at most the end marker follows *)
Theorem C06_nothing_after_final : forall o cfg e ib pre p vs post,
  untime (run1 o cfg e ib) = pre ++ TSend p vs :: post ->
  is_pkt p status_cb_PongPacket = true \/ is_pkt p configuration_cb_TransferPacket = true
    \/ is_pkt p configuration_cb_DisconnectPacket = true ->
  post = [] \/ exists o, post = [TEnd o].
Proof. intros o cfg e ib. exact (nothing_after_final _ _ (c06_accepts o cfg e ib)). Qed.
Theorem C06_nothing_after_final_bytes : forall o cfg e segs pre p vs post,
  untime (run2 o cfg e segs) = pre ++ TSend p vs :: post ->
  is_pkt p status_cb_PongPacket = true \/ is_pkt p configuration_cb_TransferPacket = true
    \/ is_pkt p configuration_cb_DisconnectPacket = true ->
  post = [] \/ exists o, post = [TEnd o].
Proof. intros o cfg e segs. exact (nothing_after_final _ _ (c06_accepts2 o cfg e segs)). Qed.

(* No discovery, filter or selection call before Login Acknowledged (id 3) was read and, after it, the
   Client Information *)
Theorem C06_no_routing_before_info : forall o cfg e ib pre c post,
  untime (run1 o cfg e ib) = pre ++ TCall c :: post ->
  match c with CDiscover | CFilter _ _ _ _ _ _ _ | CSelect _ _ _ _ _ _ _ => true | _ => false end = true ->
  exists pre1 b1 pre2 b2 pre3, pre = pre1 ++ TRecv 3 b1 :: pre2 ++ TRecv ci_id b2 :: pre3.
Proof. intros o cfg e ib. exact (no_routing_before_info _ _ (c06_accepts o cfg e ib)). Qed.
Theorem C06_no_routing_before_info_bytes : forall o cfg e segs pre c post,
  untime (run2 o cfg e segs) = pre ++ TCall c :: post ->
  match c with CDiscover | CFilter _ _ _ _ _ _ _ | CSelect _ _ _ _ _ _ _ => true | _ => false end = true ->
  exists pre1 b1 pre2 b2 pre3, pre = pre1 ++ TRecv 3 b1 :: pre2 ++ TRecv ci_id b2 :: pre3.
Proof. intros o cfg e segs. exact (no_routing_before_info _ _ (c06_accepts2 o cfg e segs)). Qed.

(* Keep Alive, Store Cookie, Transfer and Disconnect are only sent after Login Success *)
Theorem C06_conf_after_login_success : forall o cfg e ib pre p vs post,
  untime (run1 o cfg e ib) = pre ++ TSend p vs :: post ->
  is_pkt p configuration_cb_KeepAlivePacket || is_pkt p configuration_cb_StoreCookiePacket
  || is_pkt p configuration_cb_TransferPacket || is_pkt p configuration_cb_DisconnectPacket = true ->
  exists pre0 pL vsL rest, pre = pre0 ++ TSend pL vsL :: rest /\ is_pkt pL login_cb_LoginSuccessPacket = true.
Proof. intros o cfg e ib. exact (conf_after_login_success _ _ (c06_accepts o cfg e ib)). Qed.
Theorem C06_conf_after_login_success_bytes : forall o cfg e segs pre p vs post,
  untime (run2 o cfg e segs) = pre ++ TSend p vs :: post ->
  is_pkt p configuration_cb_KeepAlivePacket || is_pkt p configuration_cb_StoreCookiePacket
  || is_pkt p configuration_cb_TransferPacket || is_pkt p configuration_cb_DisconnectPacket = true ->
  exists pre0 pL vsL rest, pre = pre0 ++ TSend pL vsL :: rest /\ is_pkt pL login_cb_LoginSuccessPacket = true.
Proof. intros o cfg e segs. exact (conf_after_login_success _ _ (c06_accepts2 o cfg e segs)). Qed.

(* Login Success directly follows the switch to encryption, which directly follows the Encryption Response
   frame (id 1) or, when the client was told to authenticate, the authentication call and its answer made right
   after that frame (that the response is VALID - token and secret - is C01_login_success_guarded) *)
Theorem C06_login_success_after_encryption_response : forall o cfg e ib pre vs post,
  untime (run1 o cfg e ib) = pre ++ TSend login_cb_LoginSuccessPacket vs :: post ->
  exists pre0 b mid ss,
    pre = pre0 ++ TRecv 1 b :: mid ++ [TEnc ss]
    /\ (mid = [] \/ exists cl host port proto n u secret pk cl' host' port' proto' n' u' secret' pk' r,
                      mid = [TCall (CAuth cl host port proto n u secret pk);
                             TRes (CAuth cl' host' port' proto' n' u' secret' pk') r]).
Proof. intros o cfg e ib. intros pre vs post H. exact (login_success_after_encryption_response _ _ (c06_accepts o cfg e ib) _ _ _ _ H eq_refl). Qed.
Theorem C06_login_success_after_encryption_response_bytes : forall o cfg e segs pre vs post,
  untime (run2 o cfg e segs) = pre ++ TSend login_cb_LoginSuccessPacket vs :: post ->
  exists pre0 b mid ss,
    pre = pre0 ++ TRecv 1 b :: mid ++ [TEnc ss]
    /\ (mid = [] \/ exists cl host port proto n u secret pk cl' host' port' proto' n' u' secret' pk' r,
                      mid = [TCall (CAuth cl host port proto n u secret pk);
                             TRes (CAuth cl' host' port' proto' n' u' secret' pk') r]).
Proof. intros o cfg e segs. intros pre vs post H. exact (login_success_after_encryption_response _ _ (c06_accepts2 o cfg e segs) _ _ _ _ H eq_refl). Qed.

(* In the handshake, status and login phases the handler waits for one packet id, determined by the last
   thing that happened (nothing yet / the first frame: 0; Status Response sent: 1; a Cookie Request sent: 4;
   Encryption Request sent: 1; Login Success sent: 3); any other frame ends the connection without a reply:
   nothing follows but the unsuccessful end *)
Theorem C06_wrong_packet_silent : forall o cfg e ib pre id b post x,
  untime (run1 o cfg e ib) = pre ++ TRecv id b :: post ->
  match rev pre with
  | [] => Some 0
  | [TRecv _ _] => Some 0
  | TSend p _ :: _ =>
      if is_pkt p status_cb_StatusResponsePacket then Some 1
      else if is_pkt p login_cb_CookieRequestPacket then Some 4
      else if is_pkt p login_cb_EncryptionRequestPacket then Some 1
      else if is_pkt p login_cb_LoginSuccessPacket then Some 3
      else None
  | _ => None
  end = Some x ->
  id <> x ->
  post = [] \/ exists o, post = [TEnd o] /\ o <> OOk.
Proof. intros o cfg e ib. exact (wrong_packet_silent _ _ (c06_accepts o cfg e ib)). Qed.
Theorem C06_wrong_packet_silent_bytes : forall o cfg e segs pre id b post x,
  untime (run2 o cfg e segs) = pre ++ TRecv id b :: post ->
  match rev pre with
  | [] => Some 0
  | [TRecv _ _] => Some 0
  | TSend p _ :: _ =>
      if is_pkt p status_cb_StatusResponsePacket then Some 1
      else if is_pkt p login_cb_CookieRequestPacket then Some 4
      else if is_pkt p login_cb_EncryptionRequestPacket then Some 1
      else if is_pkt p login_cb_LoginSuccessPacket then Some 3
      else None
  | _ => None
  end = Some x ->
  id <> x ->
  post = [] \/ exists o, post = [TEnd o] /\ o <> OOk.
Proof. intros o cfg e segs. exact (wrong_packet_silent _ _ (c06_accepts2 o cfg e segs)). Qed.

(* the same by automaton state (0 start, 1 handshake read, 12 Status Response sent, 21/23 Cookie Request
   sent, 26 Encryption Request sent, 31 Login Success sent) *)
Theorem C06_wrong_packet_silent_state : forall o cfg e ib pre st id b post x,
  untime (run1 o cfg e ib) = pre ++ TRecv id b :: post -> run (step_with chk_c06) m_init pre = Some st ->
  (if (q st =? 0) || (q st =? 1) then Some 0
   else if (q st =? 12) || (q st =? 26) then Some 1
   else if (q st =? 21) || (q st =? 23) then Some 4
   else if q st =? 31 then Some 3 else None) = Some x ->
  id <> x ->
  post = [] \/ exists o, post = [TEnd o] /\ o <> OOk.
Proof. intros o cfg e ib. exact (wrong_packet_silent_state _ _ (c06_accepts o cfg e ib)). Qed.
Theorem C06_wrong_packet_silent_state_bytes : forall o cfg e segs pre st id b post x,
  untime (run2 o cfg e segs) = pre ++ TRecv id b :: post -> run (step_with chk_c06) m_init pre = Some st ->
  (if (q st =? 0) || (q st =? 1) then Some 0
   else if (q st =? 12) || (q st =? 26) then Some 1
   else if (q st =? 21) || (q st =? 23) then Some 4
   else if q st =? 31 then Some 3 else None) = Some x ->
  id <> x ->
  post = [] \/ exists o, post = [TEnd o] /\ o <> OOk.
Proof. intros o cfg e segs. exact (wrong_packet_silent_state _ _ (c06_accepts2 o cfg e segs)). Qed.

Print Assumptions C06_walk.
Print Assumptions C06_accepts.
Print Assumptions C06_every_event_checked.
Print Assumptions C06_accepts_bytes.
Print Assumptions C06_every_event_checked_bytes.
Print Assumptions C06_language_def.
Print Assumptions C06_language_prefix_closed.
Print Assumptions C06_sent_language.
Print Assumptions C06_sent_language_bytes.
Print Assumptions C06_sent_complete.
Print Assumptions C06_sent_complete_bytes.
Print Assumptions C06_status_exact.
Print Assumptions C06_status_exact_bytes.
Print Assumptions C06_pong_exact.
Print Assumptions C06_pong_exact_bytes.
Print Assumptions C06_nothing_after_final.
Print Assumptions C06_nothing_after_final_bytes.
Print Assumptions C06_no_routing_before_info.
Print Assumptions C06_no_routing_before_info_bytes.
Print Assumptions C06_conf_after_login_success.
Print Assumptions C06_conf_after_login_success_bytes.
Print Assumptions C06_login_success_after_encryption_response.
Print Assumptions C06_login_success_after_encryption_response_bytes.
Print Assumptions C06_wrong_packet_silent.
Print Assumptions C06_wrong_packet_silent_bytes.
Print Assumptions C06_wrong_packet_silent_state.
Print Assumptions C06_wrong_packet_silent_state_bytes.

(* ---- M3 (Conn/Sem3.v): the same for EVERY behaviour of the transport (free room following any schedule: writes accepted
   in part, refused, never accepted again), every latency of localize(), every cancellation of a pending write or of a
   pending missed-keep-alive verdict by the race.  Proofs in Conn/Sem3Proofs.v. ---- *)
From Passage Require Import Lib.Bytes Codec.Desc Gen.PacketsGen Conn.Types Conn.Prog Conn.Sem1 Conn.Sem2 Conn.Sem3 Conn.Monitor Conn.Order Conn.Checks Conn.Switch Conn.Sem3Proofs.

Theorem C06_order_backpressure : forall o cfg e encf loclat cap sch s,
  ok step_order m_init (untime (trace_of (run3 o cfg e encf loclat cap sch s))).
Proof. exact run3_order_ok. Qed.

Theorem C06_backpressure : forall o cfg e encf loclat cap sch s,
  ok (step_with chk_c06) m_init (untime (trace_of (run3 o cfg e encf loclat cap sch s))).
Proof. exact run3_c06_ok. Qed.

Theorem C06_verdict_stands : forall o cfg e encf loclat cap sch s pre loc post,
  untime (trace_of (run3 o cfg e encf loclat cap sch s)) = pre ++ TCall (CLocalize loc key_timeout) :: post ->
  timeout_tail post = true.
Proof. exact run3_verdict_stands. Qed.

Print Assumptions C06_order_backpressure.
Print Assumptions C06_backpressure.
Print Assumptions C06_verdict_stands.
