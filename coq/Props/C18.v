(* C18: built-in filters and strategies never pick a disqualified target.
   Pinned statements; the proofs are in Adapters/FiltersProofs.v.  `rm` is the regex engine
   (pattern -> text -> bool), universally quantified: the theorems hold for every engine. *)
From Passage Require Import Lib.Bytes Adapters.Filters Adapters.FiltersProofs.

(* The chain returns an in-order sub-list of the discovered targets; every member satisfies
   every rule of every applicable meta filter; nothing survives when an applicable allow
   list does not accept the player or an applicable block list hits the player. *)
Theorem C18_chain_sound :
  forall (rm : bytes -> bytes -> bool) (fs : list ofilter) (host name : bytes) (uuid : Z)
         (ts : list target),
    let out := chain rm fs host name uuid ts in
    subseq out ts
    /\ (forall t, In t out ->
          forall f rules r, In f fs -> Applicable rm f host -> f_kind f = FMeta rules -> In r rules ->
            op_sat (r_op r) (lookup (r_key r) (t_meta t)))
    /\ (~ Passes rm fs host name uuid -> out = [])
    /\ ((exists f, In f fs /\ Applicable rm f host
           /\ ((exists p, f_kind f = FAllow p /\ ~ Hit rm p name uuid)
               \/ (exists p, f_kind f = FBlock p /\ Hit rm p name uuid))) -> out = []).
Proof. exact chain_sound. Qed.
Print Assumptions C18_chain_sound.

(* If the player passes every applicable allow/block list, exactly the qualifying targets
   survive, order and multiplicity kept. *)
Theorem C18_chain_complete :
  forall (rm : bytes -> bytes -> bool) (fs : list ofilter) (host name : bytes) (uuid : Z)
         (ts : list target),
    Passes rm fs host name uuid ->
    chain rm fs host name uuid ts = filter (qualifiesb rm fs host) ts
    /\ (forall t, qualifiesb rm fs host t = true <-> Qualifies rm fs host t).
Proof. exact chain_complete. Qed.
Print Assumptions C18_chain_complete.

(* Default strategy: the head of the list it is given; None iff that list is empty. *)
Theorem C18_any_first :
  forall ts : list target,
    (select SAny ts = None <-> ts = [])
    /\ (forall t r, ts = t :: r -> select SAny ts = Some t).
Proof. exact any_first. Qed.
Print Assumptions C18_any_first.

(* Player fill: the chosen target is in the list, below capacity, no target below capacity
   is fuller, and it is the last of the fullest ones; None iff nobody is below capacity. *)
Theorem C18_fill :
  forall (field : bytes) (maxp : Z) (ts : list target),
    match select (SFill field maxp) ts with
    | Some t =>
        exists pre post, ts = pre ++ t :: post
          /\ count field t < maxp
          /\ (forall u, In u ts -> count field u < maxp -> count field u <= count field t)
          /\ (forall u, In u post -> count field u < maxp -> count field u < count field t)
    | None => forall u, In u ts -> maxp <= count field u
    end.
Proof. exact select_fill_spec. Qed.
Print Assumptions C18_fill.

(* Chain + strategy on the DISCOVERED list: whoever is selected is a discovered target that
   is eligible for this player and obeys the strategy rule among the qualifying targets;
   nobody is selected only if no discovered target is eligible (default strategy) / every
   eligible target is at or above capacity (player fill). *)
Theorem C18_end_to_end :
  forall (rm : bytes -> bytes -> bool) (fs : list ofilter) (s : strategy) (host name : bytes)
         (uuid : Z) (ts : list target),
    match route rm fs s host name uuid ts with
    | Some t =>
        In t ts
        /\ (Passes rm fs host name uuid /\ Qualifies rm fs host t)
        /\ exists pre post, ts = pre ++ t :: post /\
             match s with
             | SAny => forall u, In u pre -> ~ Qualifies rm fs host u
             | SFill field maxp =>
                 count field t < maxp
                 /\ (forall u, In u ts -> Qualifies rm fs host u -> count field u < maxp ->
                       count field u <= count field t)
                 /\ (forall u, In u post -> Qualifies rm fs host u -> count field u < maxp ->
                       count field u < count field t)
             end
    | None =>
        forall u, In u ts -> Passes rm fs host name uuid /\ Qualifies rm fs host u ->
          match s with
          | SAny => False
          | SFill field maxp => maxp <= count field u
          end
    end.
Proof. exact end_to_end. Qed.
Print Assumptions C18_end_to_end.

(* The association-list model of Target::meta (a HashMap, hence unique keys) is faithful:
   under unique keys `lookup` is exactly membership of the (key, value) pair. *)
Theorem C18_lookup_faithful :
  forall k v (m : list (bytes * bytes)),
    NoDup (map fst m) -> (lookup k m = Some v <-> In (k, v) m).
Proof. exact lookup_In. Qed.
Print Assumptions C18_lookup_faithful.
