(* C09 - every packet encodes to the Minecraft wire layout and decodes back losslessly.
   This file holds only pinned statements, `exact`, and Print Assumptions. *)
From Passage Require Import Lib.Bytes Spec.Leb128 Spec.McLayout Codec.VarInt Codec.VarIntProofs
  Codec.Desc Codec.DescProofs Gen.PacketsGen Gen.ConstsGen Codec.PacketCheck Codec.PacketThms.

(* VarInt / VarLong: LEB128 of the two's-complement pattern, 1..5 / 1..10 bytes *)
Theorem C09_varint_layout : forall v, write_varint v = varint_spec v /\ (1 <= length (write_varint v) <= 5)%nat.
Proof. intros v; split; [exact (write_varint_eq v) | exact (write_varint_length v)]. Qed.
Theorem C09_varlong_layout : forall v, write_varlong v = varlong_spec v /\ (1 <= length (write_varlong v) <= 10)%nat.
Proof. intros v; split; [exact (write_varlong_eq v) | exact (write_varlong_length v)]. Qed.

(* the loop bounds found in reader.rs suffice *)
Theorem C09_read_iters : iters_ok = true.
Proof. vm_compute. reflexivity. Qed.

(* decoding inverts encoding for all 2^32 VarInts and all 2^64 VarLongs, with the loop
   bounds the source has NOW *)
Theorem C09_varint_roundtrip : forall v r, in_i32 v ->
  read_varint_n varint_read_iters (write_varint v ++ r) = Ok v r.
Proof.
  intros v r Hv. apply varint_roundtrip; [|exact Hv].
  pose proof C09_read_iters as H. unfold iters_ok in H.
  apply andb_true_iff in H as [H _]. apply andb_true_iff in H as [_ H]. apply Nat.leb_le in H. exact H.
Qed.
Theorem C09_varlong_roundtrip : forall v r, in_i64 v ->
  read_varlong_n varlong_read_iters (write_varlong v ++ r) = Ok v r.
Proof.
  intros v r Hv. apply varlong_roundtrip; [|exact Hv].
  pose proof C09_read_iters as H. unfold iters_ok in H.
  apply andb_true_iff in H as [_ H]. apply Nat.leb_le in H. exact H.
Qed.

(* enum tables: reader and writer inverse, equal to the protocol's ordinals, everything
   else rejected *)
Theorem C09_enums : enums_match = true.
Proof. vm_compute. reflexivity. Qed.

Theorem C09_enum_rejects : forall t o, In t all_enums -> ~ In o (e_to t) ->
  forall bs r, read_varint_n varint_read_iters bs = Ok o r ->
  dec_field varint_read_iters varlong_read_iters (KEnum t) bs = Er EEnum.
Proof.
  intros t o Ht Hno bs r Hr. cbn [dec_field]. unfold read_varint. rewrite Hr. cbn [bind].
  destruct (assoc o (e_from t)) as [i|] eqn:E; [|reflexivity]. exfalso.
  pose proof C09_enums as H. unfold enums_match in H. apply andb_true_iff in H as [_ H].
  rewrite forallb_forall in H. specialize (H t Ht). unfold enum_ok in H.
  apply andb_true_iff in H as [_ H]. rewrite forallb_forall in H.
  assert (Hin : In (o, i) (e_from t)).
  { clear -E. induction (e_from t) as [|[a b] l IH]; [discriminate|]. cbn in E.
    destruct (Z.eqb_spec a o); [inversion E; subst; left; reflexivity | right; auto]. }
  specialize (H _ Hin). cbn [fst snd] in H.
  destruct (nth_error (e_to t) (Z.to_nat i)) as [o'|] eqn:En; [|discriminate].
  apply andb_true_iff in H as [H _]. apply Z.eqb_eq in H. subst o'.
  apply Hno. eapply nth_error_In; eauto.
Qed.

(* every packet type: reader mirrors writer, all struct fields on the wire *)
Theorem C09_all_packets_ok : forallb packet_ok all_packets = true.
Proof. vm_compute. reflexivity. Qed.

(* every packet type: the protocol's id and field layout (placeholders: id only) *)
Theorem C09_all_layouts_ok : forallb layout_ok all_packets = true.
Proof. vm_compute. reflexivity. Qed.
Theorem C09_spec_covered : forallb spec_covered mc_layout = true /\ length all_packets = length mc_layout.
Proof. split; vm_compute; reflexivity. Qed.

(* hence: lossless round trip consuming exactly the encoding, for every packet type and
   every field value within protocol limits *)
Theorem C09_roundtrip : forall p, In p all_packets ->
  forall vs, wf_fields (kinds p) vs = true ->
  exists b, enc (kinds p) vs = Some b /\
    forall r, dec varint_read_iters varlong_read_iters (rkinds p) (b ++ r) = Ok vs r.
Proof.
  intros p Hp vs Hw. destruct (packet_encodable p vs Hw) as [b Hb]. exists b. split; [exact Hb|].
  intros r. apply packet_roundtrip; try assumption.
  - pose proof C09_all_packets_ok as H. rewrite forallb_forall in H. exact (H p Hp).
  - exact C09_read_iters.
Qed.

(* non-vacuity: a concrete handshake and a concrete client information *)
Example C09_nonvacuous_handshake :
  wf_fields (kinds handshake_sb_HandshakePacket) [VZ 769; VB (str "play.example.org"); VZ 25565; VZ 2] = true
  /\ enc (kinds handshake_sb_HandshakePacket) [VZ 769; VB (str "play.example.org"); VZ 25565; VZ 2]
     = Some (hx "8106" ++ [16] ++ str "play.example.org" ++ hx "63dd" ++ [3]).
Proof. split; vm_compute; reflexivity. Qed.

Print Assumptions C09_varint_layout.
Print Assumptions C09_varlong_layout.
Print Assumptions C09_read_iters.
Print Assumptions C09_varint_roundtrip.
Print Assumptions C09_varlong_roundtrip.
Print Assumptions C09_enums.
Print Assumptions C09_enum_rejects.
Print Assumptions C09_all_packets_ok.
Print Assumptions C09_all_layouts_ok.
Print Assumptions C09_spec_covered.
Print Assumptions C09_roundtrip.
