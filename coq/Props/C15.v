(* C15: admission is decided on the effective client address, before any protocol work.
   Pinned statements about Listener/Machine.v (the accept loop after fix-c16); proofs in
   Listener/MachineProofs.v.  PARTIAL: see NOTES; the address in `Serve c eff` is the argument of
   `Connection::with_client_address`, i.e. `cf_client` of the connection model, and the facts that
   adapters are called with `cf_client` and that issued/accepted cookies are bound to its IP are
   the connection model's (Conn/Prog.v `listen`: every CStatus/CAuth/CFilter/CSelect call and the
   issued auth cookie carry `client`; Props/C10.v C10_roundtrip, Props/C02.v). *)
From Passage Require Import Lib.Bytes Listener.Machine Listener.MachineProofs.

(* `admits st ev c eff`: event ev, in state st, is the admission of c under address eff:
   - PROXY disabled: ev = Arrive c peer t, the loop is accepting, eff = peer;
   - PROXY enabled: ev = Header c h t, c is waiting for its header with TCP peer `peer`, the header
     is acceptable under the configured versions with source `src`, eff = src if present else peer;
   and in both cases the limiter, in the state at that moment, admits the IP of eff. *)
Theorem C15_served_iff : forall (L : Type) (admit_fn : L -> Z -> Z -> L * bool) (cf : mcfg)
    (st : state L) (h : list event) (t c : Z) (eff : addr),
  In (t, Serve c eff) (run L admit_fn cf st h) <->
  exists h1 ev h2, h = h1 ++ ev :: h2 /\ time_of ev = t /\ admits L admit_fn cf (final L admit_fn cf st h1) ev c eff.
Proof. exact served_iff. Qed.
Print Assumptions C15_served_iff.

(* the definition of `admits`, pinned *)
Theorem C15_admits_def : forall (L : Type) (admit_fn : L -> Z -> Z -> L * bool) (cf : mcfg)
    (st : state L) (ev : event) (c : Z) (eff : addr),
  admits L admit_fn cf st ev c eff <->
  match ev with
  | Arrive c' peer t =>
      c' = c /\ accepting st = true /\ memz c (seen st) = false /\ m_proxy cf = None /\ eff = peer
      /\ snd (admit_fn (lim st) (fst eff) t) = true
  | Header c' h t =>
      c' = c /\ exists pc peer sp src,
        m_proxy cf = Some pc /\ find c (tracked st) = Some (PWait peer, sp)
        /\ header_result pc h = Some src /\ eff = effective src peer
        /\ snd (admit_fn (lim st) (fst eff) t) = true
  | _ => False
  end.
Proof. intros. destruct ev; reflexivity. Qed.
Print Assumptions C15_admits_def.

(* a connection closed by the limiter or for its header is never served: no Serve output, i.e.
   the connection protocol never runs and not one protocol byte is written *)
Theorem C15_refused_silent : forall (L : Type) (admit_fn : L -> Z -> Z -> L * bool) (cf : mcfg) (l0 : L)
    (h : list event) (c t : Z) (r : reason),
  In (t, Close c r) (run L admit_fn cf (init l0) h) -> (r = RBadHeader \/ exists e, r = RRejected e) ->
  forall t' e', ~ In (t', Serve c e') (run L admit_fn cf (init l0) h).
Proof. exact refused_silent. Qed.
Print Assumptions C15_refused_silent.

(* an invalid header (malformed, disabled version, stream closed inside it) closes the connection
   unserved and leaves the limiter exactly as it was *)
Theorem C15_invalid_free : forall (L : Type) (admit_fn : L -> Z -> Z -> L * bool) (cf : mcfg)
    (st : state L) (c : Z) (h : hdr) (t : Z) (pc : bool * bool),
  m_proxy cf = Some pc -> header_result pc h = None ->
  lim (fst (step L admit_fn cf st (Header c h t))) = lim st
  /\ (forall c' e, ~ In (Serve c' e) (snd (step L admit_fn cf st (Header c h t))))
  /\ (forall peer sp, find c (tracked st) = Some (PWait peer, sp) ->
        In (Close c RBadHeader) (snd (step L admit_fn cf st (Header c h t)))
        /\ find c (tracked (fst (step L admit_fn cf st (Header c h t)))) = None).
Proof. exact invalid_free. Qed.
Print Assumptions C15_invalid_free.

(* more generally the limiter changes only in a step that serves or rate-limits a connection:
   headers that never complete, deadlines, completions and the stop request consume no budget *)
Theorem C15_budget_only_by_admission : forall (L : Type) (admit_fn : L -> Z -> Z -> L * bool) (cf : mcfg)
    (st : state L) (ev : event),
  (forall c e, ~ In (Serve c e) (snd (step L admit_fn cf st ev)) /\ ~ In (Close c (RRejected e)) (snd (step L admit_fn cf st ev))) ->
  lim (fst (step L admit_fn cf st ev)) = lim st.
Proof. exact lim_only_by_admission. Qed.
Print Assumptions C15_budget_only_by_admission.

(* the address a connection is served under: the TCP peer (PROXY disabled), or the source the
   accepted header announces, the TCP peer if it announces none (LOCAL / UNKNOWN) *)
Theorem C15_address_flows : forall (L : Type) (admit_fn : L -> Z -> Z -> L * bool) (cf : mcfg) (l0 : L)
    (h : list event) (t c : Z) (eff : addr),
  In (t, Serve c eff) (run L admit_fn cf (init l0) h) ->
  (m_proxy cf = None /\ exists ta, In (Arrive c eff ta) h)
  \/ (exists pc peer ta hd th src, m_proxy cf = Some pc /\ In (Arrive c peer ta) h /\ In (Header c hd th) h
        /\ header_result pc hd = Some src /\ eff = effective src peer).
Proof. exact address_flows. Qed.
Print Assumptions C15_address_flows.

(* non-vacuity: limit 1 per key (a toy limiter that admits each key once), v2 disabled *)
Definition once (l : list Z) (k t : Z) : list Z * bool := if memz k l then (l, false) else (k :: l, true).
Example C15_ex :
  run (list Z) once (MCfg (Some (true, false)) 5000) (init [])
    [Arrive 1 (10, 1) 0; Header 1 (HV1 (Some (77, 5))) 0;        (* source 77 through balancer 10 *)
     Arrive 2 (11, 2) 10; Header 2 (HV1 (Some (77, 6))) 10;      (* same source, another balancer *)
     Arrive 3 (10, 3) 20; Header 3 HBad 20;                      (* invalid: no budget *)
     Arrive 4 (10, 4) 30; Header 4 (HV2 (Some (88, 7))) 30;      (* v2 disabled *)
     Arrive 5 (10, 5) 40; Header 5 (HV1 None) 40;                (* UNKNOWN: the balancer itself *)
     Arrive 6 (10, 6) 50; Header 6 (HV1 (Some (88, 8))) 50]
  = [(0, Spawn 1); (0, Serve 1 (77, 5)); (10, Spawn 2); (10, Close 2 (RRejected (77, 6)));
     (20, Spawn 3); (20, Close 3 RBadHeader); (30, Spawn 4); (30, Close 4 RBadHeader);
     (40, Spawn 5); (40, Serve 5 (10, 5)); (50, Spawn 6); (50, Serve 6 (88, 8))].
Proof. vm_compute. reflexivity. Qed.
