(* C11 - the session server hash equals Minecraft's signed SHA-1 hex digest.
   This file holds only pinned statements, short proofs from the lemmas of
   Spec/SignedHex.v and Crypto/McHashProofs.v, examples, and Print Assumptions. *)
From Passage Require Import Lib.Bytes Spec.Sha1 Spec.SignedHex Crypto.McHash Crypto.McHashProofs.

(* the num-bigint computation on ANY byte string (in particular every 20-byte digest: top
   bit set, leading zero nibbles/bytes/limbs, 0x80 00..00, all zero, empty) prints the two's
   complement value in signed hex notation *)
Theorem C11_signed_hex : forall d, wf_bytes d ->
  mc_hex d = show_signed_hex (twos_complement_be d).
Proof. exact mc_hex_signed_hex. Qed.

(* the same for every BigDigit width (u32 limbs on 32-bit targets, u64 on 64-bit ones) *)
Theorem C11_signed_hex_any_width : forall lb d, (1 <= lb)%nat -> wf_bytes d ->
  mc_hex_w lb d = show_signed_hex (twos_complement_be d).
Proof. exact mc_hex_w_signed_hex. Qed.

(* shape: optional '-', then "0" or [1-9a-f][0-9a-f]*, never "-0", never uppercase *)
Theorem C11_format : forall d, wf_bytes d -> signed_hex_format (mc_hex d) = true.
Proof. exact mc_hex_format. Qed.

(* a leading '-' exactly when the top bit of the digest is set, i.e. when the two's
   complement value is negative *)
Theorem C11_sign : forall d, wf_bytes d ->
  starts_minus (mc_hex d) = top_bit_set d /\ (top_bit_set d = true <-> twos_complement_be d < 0).
Proof. intros d H. split; [exact (mc_hex_sign d H) | exact (top_bit_negative d H)]. Qed.

(* reading the output back with the strict reader gives the two's complement value *)
Theorem C11_parse_back : forall d, wf_bytes d ->
  parse_signed_hex (mc_hex d) = Some (twos_complement_be d).
Proof. exact mc_hex_parse_back. Qed.

(* the whole function, for every server id, shared secret and public key encoding *)
Theorem C11_hash : forall id ss pk,
  minecraft_hash id ss pk = show_signed_hex (twos_complement_be (sha1 (id ++ ss ++ pk))).
Proof. exact minecraft_hash_signed_hex. Qed.

Theorem C11_hash_parse_back : forall id ss pk,
  signed_hex_format (minecraft_hash id ss pk) = true /\
  parse_signed_hex (minecraft_hash id ss pk) = Some (twos_complement_be (sha1 (id ++ ss ++ pk))) /\
  - 2 ^ 159 <= twos_complement_be (sha1 (id ++ ss ++ pk)) < 2 ^ 159.
Proof.
  intros id ss pk. unfold minecraft_hash. set (d := sha1 (id ++ ss ++ pk)).
  pose proof (sha1_wf (id ++ ss ++ pk)) as Hwf. pose proof (sha1_length (id ++ ss ++ pk)) as Hlen. fold d in Hwf, Hlen.
  split; [exact (mc_hex_format d Hwf)|]. split; [exact (mc_hex_parse_back d Hwf)|].
  destruct d as [|b r]; [discriminate Hlen|].
  pose proof (twos_complement_be_range b r Hwf) as [HR _]. rewrite Hlen in HR. exact HR.
Qed.

(* the spec side, independent of the model: the notation is a bijection between Z and the
   strings accepted by the strict reader, and the two's complement reading is the unique value
   in [-2^(8n-1), 2^(8n-1)) congruent to the unsigned big-endian value modulo 2^(8n) *)
Theorem C11_spec_notation : forall z s,
  parse_signed_hex (show_signed_hex z) = Some z /\
  (parse_signed_hex s = Some z -> s = show_signed_hex z).
Proof. intros z s. split; [exact (parse_show_signed_hex z) | exact (parse_signed_hex_canonical s z)]. Qed.

Theorem C11_spec_twos_complement : forall b r, wf_bytes (b :: r) ->
  let n := Z.of_nat (length (b :: r)) in
  - (256 ^ n / 2) <= twos_complement_be (b :: r) < 256 ^ n / 2 /\
  twos_complement_be (b :: r) mod 256 ^ n = be_dec (b :: r).
Proof. exact twos_complement_be_range. Qed.

(* ---- non-vacuity: concrete, non-trivial instances of every statement ---- *)
Definition jeb_digest := sha1 (str "jeb_").
Example C11_ex_digest : jeb_digest = hx "8362a4ffbb3ecfef65a284a04a3ce83fd4b1d73f".
Proof. vm_compute. reflexivity. Qed.
Example C11_ex_signed_hex :
  wfb jeb_digest = true /\
  mc_hex jeb_digest = str "-7c9d5b0044c130109a5d7b5fb5c317c02b4e28c1" /\
  show_signed_hex (twos_complement_be jeb_digest) = str "-7c9d5b0044c130109a5d7b5fb5c317c02b4e28c1" /\
  twos_complement_be jeb_digest = -711423999887735790898732572219111847050987055297.
Proof. vm_compute. auto. Qed.
Example C11_ex_format : signed_hex_format (mc_hex jeb_digest) = true /\ signed_hex_format (str "-0") = false.
Proof. vm_compute. auto. Qed.
Example C11_ex_sign :
  (starts_minus (mc_hex jeb_digest), top_bit_set jeb_digest) = (true, true) /\
  (starts_minus (mc_hex (sha1 (str "Notch"))), top_bit_set (sha1 (str "Notch"))) = (false, false).
Proof. vm_compute. auto. Qed.
Example C11_ex_parse_back :
  parse_signed_hex (mc_hex jeb_digest) = Some (-711423999887735790898732572219111847050987055297).
Proof. vm_compute. reflexivity. Qed.
Example C11_ex_hash :
  minecraft_hash (str "sim") (str "o") (str "n") = str "88e16a1019277b15d58faf0541e11910eb756f6" /\
  show_signed_hex (twos_complement_be (sha1 (str "sim" ++ str "o" ++ str "n"))) = str "88e16a1019277b15d58faf0541e11910eb756f6".
Proof. vm_compute. auto. Qed.
Example C11_ex_edges :
  map mc_hex [hx "8000000000000000000000000000000000000000"; hx "0000000000000000000000000000000000000000";
              hx "0000000000000000000000000000000000000001"; hx "ffffffffffffffffffffffffffffffffffffffff";
              hx "00000000000000000000000000000000000000ff"; hx "0fffffffffffffffffffffffffffffffffffffff";
              hx "ff00000000000000000000000000000000000000"]
  = [str "-8000000000000000000000000000000000000000"; str "0"; str "1"; str "-1"; str "ff";
     str "fffffffffffffffffffffffffffffffffffffff"; str "-100000000000000000000000000000000000000"].
Proof. vm_compute. reflexivity. Qed.
(* what the property excludes: the unsigned reading of a negative digest is a different string *)
Example C11_ex_unsigned_differs :
  beq (mc_hex jeb_digest) (str "8362a4ffbb3ecfef65a284a04a3ce83fd4b1d73f") = false.
Proof. vm_compute. reflexivity. Qed.

Print Assumptions C11_signed_hex.
Print Assumptions C11_signed_hex_any_width.
Print Assumptions C11_format.
Print Assumptions C11_sign.
Print Assumptions C11_parse_back.
Print Assumptions C11_hash.
Print Assumptions C11_hash_parse_back.
Print Assumptions C11_spec_notation.
Print Assumptions C11_spec_twos_complement.
