(* C10 - pinned statements.  The monitor (automaton of Conn/Order.v + check chk_c10 of
   Conn/Checks.v) accepts EVERY trace of the connection handler's model: for every
   configuration, every behaviour of the modelled third-party code (RSA, serde), every
   adapter result and latency, every inbox of client frames and every timing. *)
From Passage Require Import Lib.Bytes Codec.Desc Gen.PacketsGen Conn.Types Conn.Prog Conn.Sem1 Conn.Sem2
  Conn.Monitor Conn.MonitorProofs Conn.Monitor2Proofs Conn.Order Conn.OrderProofs Conn.Checks Conn.Walk_C10 Crypto.Cookie Conn.CookieProofs
  Crypto.CookieJson Crypto.CookieJsonProofs
  Conn.TraceLib Conn.C06Corollaries Conn.C02Corollaries Conn.C03Corollaries Conn.C10Corollaries.

Theorem C10_walk : forall o cfg, safe (step_with (chk_c10 o cfg)) m_init (listen o cfg).
Proof. exact listen_c10_safe. Qed.

Theorem C10_accepts : forall o cfg e ib,
  accepts (step_with (chk_c10 o cfg)) m_init (untime (run1 o cfg e ib)) = true.
Proof. intros. apply ok_accepts. apply c10_accepts. Qed.

(* every event of every trace passed the order automaton and this property's check in the
   state reached by the events before it *)
Theorem C10_every_event_checked : forall o cfg e ib pre ev post,
  untime (run1 o cfg e ib) = pre ++ ev :: post ->
  exists st, run (step_with (chk_c10 o cfg)) m_init pre = Some st /\
    (internal_at (q st) ev = true \/ exists q', delta (q st) ev = Some q' /\ (chk_c10 o cfg) st ev = true).
Proof. intros o cfg e ib pre ev post H. eapply accepted_event_checked; [apply c10_accepts | exact H]. Qed.

(* the tag: sign then verify succeeds and returns the message; verify accepts nothing else *)
Theorem C10_verify_sign : forall m s, verify (sign m s) s = (true, m).
Proof. exact verify_sign. Qed.

Theorem C10_verify_spec : forall p s m,
  verify p s = (true, m) <->
  (32 <= length p)%nat /\ m = skipn 32 p /\ firstn 32 p = Spec.Hmac.hmac_sha256 s (skipn 32 p).
Proof. exact verify_spec. Qed.

(* an issued cookie presented again from the same IP within the expiry on a Transfer-intent
   connection is accepted as the very record that was issued (serde round trip assumed) *)
Theorem C10_roundtrip : forall o cfg s c h proto host port now2,
  cf_secret cfg = Some s ->
  hs_fields h = Some (proto, host, port, 2) ->
  auth_payload h = Some (sign (o_ser_auth o c) s) ->
  newest_now h = Some now2 ->
  o_parse_auth o (o_ser_auth o c) = JOk c ->
  sa_ip (ac_addr c) = sa_ip (cf_client cfg) ->
  now2 <= Z.min (ac_ts c + cf_expiry cfg) (2 ^ 64 - 1) ->
  cookie_accepted o cfg h = Some c.
Proof. exact cookie_roundtrip. Qed.

(* ---- serde_json as Gallina functions (Crypto/CookieJson.v, tied to the real serde_json by the
   cookie binary's JS / JP families): the parser reads back what the writer wrote, for every
   record whose strings are UTF-8, whose numbers are in the range of their Rust types, whose
   client address is a canonical IP text with a u16 port and whose `extra` is sorted by key *)
Theorem C10_parse_ser_auth : forall c, wf_auth c = true -> parse_auth (ser_auth c) = Some (JOk c).
Proof. exact parse_ser_auth. Qed.

Theorem C10_parse_ser_session : forall c, wf_session c = true ->
  parse_session (ser_session c) = Some (JOk (Some c)).
Proof. exact parse_ser_session. Qed.

Theorem C10_ser_auth_inj : forall c1 c2, wf_auth c1 = true -> wf_auth c2 = true ->
  ser_auth c1 = ser_auth c2 -> c1 = c2.
Proof. exact ser_auth_inj. Qed.

(* C10_roundtrip with serde_json instantiated (on inputs the parser model does not decide, by
   ANY fallback verdict): no hypothesis about serde is left *)
Theorem C10_roundtrip_json : forall rsa fb_auth fb_sess cfg s c h proto host port now2,
  wf_auth c = true ->
  cf_secret cfg = Some s ->
  hs_fields h = Some (proto, host, port, 2) ->
  auth_payload h = Some (sign (ser_auth c) s) ->
  newest_now h = Some now2 ->
  sa_ip (ac_addr c) = sa_ip (cf_client cfg) ->
  now2 <= Z.min (ac_ts c + cf_expiry cfg) (2 ^ 64 - 1) ->
  cookie_accepted (json_oracles rsa fb_auth fb_sess) cfg h = Some c.
Proof. exact roundtrip_json. Qed.

(* non-vacuity: a concrete well-formed cookie (IPv6 client, a name with a quote, a backslash,
   control characters and a non-ASCII letter, two properties, two extra entries) *)
Example C10_roundtrip_json_witness :
  wf_auth ex_cookie = true /\ parse_auth (ser_auth ex_cookie) = Some (JOk ex_cookie).
Proof. exact parse_ser_auth_ex. Qed.

(* ---- the same at byte level (M2): for every timed byte stream the client can send, however
   it is segmented and wherever keep-alive ticks and adapter completions fall - including the
   schedules on which the handler drops a partly read frame (known classes K1 / K4 of C08). *)
Lemma c10_accepts2 : forall o cfg e segs, ok (step_with (chk_c10 o cfg)) m_init (untime (run2 o cfg e segs)).
Proof. intros. unfold run2. apply safe_sound2. apply listen_c10_safe. Qed.

Theorem C10_accepts_bytes : forall o cfg e segs,
  accepts (step_with (chk_c10 o cfg)) m_init (untime (run2 o cfg e segs)) = true.
Proof. intros. apply ok_accepts. apply c10_accepts2. Qed.

Theorem C10_every_event_checked_bytes : forall o cfg e segs pre ev post,
  untime (run2 o cfg e segs) = pre ++ ev :: post ->
  exists st, run (step_with (chk_c10 o cfg)) m_init pre = Some st /\
    (internal_at (q st) ev = true \/ exists q', delta (q st) ev = Some q' /\ (chk_c10 o cfg) st ev = true).
Proof. intros o cfg e segs pre ev post H. eapply accepted_event_checked; [apply c10_accepts2 | exact H]. Qed.

(* ======================================================================
   In plain terms: corollaries of the accepted monitor (Conn/C10Corollaries.v), each for
   every frame-level run (M1) and, suffix _bytes, every byte-level run (M2).
   ====================================================================== *)

(* the vocabulary of the statements below (definitions unfolded) *)
Theorem C10_defs : forall o,
  (forall pre, no_session_presented o pre <->
     exists i2 b2 k, nth_error (frames pre) 2 = Some (i2, b2) /\
       (dec_of login_sb_CookieResponsePacket b2 = Some [VB k; VOpt None]
        \/ exists pl, dec_of login_sb_CookieResponsePacket b2 = Some [VB k; VOpt (Some (VB pl))]
                      /\ o_parse_session o pl = JOk None))
  /\ (forall key pre, stored key pre <->
        exists p k payload, In (TSend p [VB k; VB payload]) pre
          /\ is_pkt p configuration_cb_StoreCookiePacket = true /\ k = key)
  /\ (forall e, enc_flag e = match e with
                             | TSend p [_; _; _; VBool b] => if is_pkt p login_cb_EncryptionRequestPacket then Some b else None
                             | _ => None end)
  /\ (forall e, auth_result e = match e with TRes (CAuth _ _ _ _ _ _ _ _) r => Some r | _ => None end)
  /\ (forall e, select_result e = match e with TRes (CSelect _ _ _ _ _ _ _) r => Some r | _ => None end).
Proof. intros o. repeat match goal with |- _ /\ _ => split end; intros; reflexivity. Qed.

(* An authentication cookie is stored only with a secret configured and after the client was told to
   authenticate; it directly follows a clock read and is exactly the 32-byte HMAC-SHA256 tag under the secret
   (C10_verify_spec) followed by the serialised record of: that time, the client's address, the name, uuid and
   properties of the authentication service's profile, the id of the target the strategy chose *)
Theorem C10_issued_cookie_content : forall o cfg e ib pre p vs post,
  untime (run1 o cfg e ib) = pre ++ TSend p vs :: post -> is_pkt p configuration_cb_StoreCookiePacket = true ->
  key_of vs = auth_key_b ->
  exists s n u ps t now pre1,
    cf_secret cfg = Some s
    /\ latest enc_flag pre = Some true
    /\ latest auth_result pre = Some (RProfile n u ps)
    /\ latest select_result pre = Some (RTarget (Some t))
    /\ pre = pre1 ++ [TNow now]
    /\ vs = [VB auth_key_b;
             VB (sign (o_ser_auth o {| ac_ts := now; ac_addr := cf_client cfg; ac_name := n; ac_uuid := u;
                                       ac_target := Some (t_id t); ac_props := ps; ac_extra := [] |}) s)].
Proof. intros o cfg e ib. exact (auth_cookie_content o cfg _ (c10_accepts o cfg e ib)). Qed.
Theorem C10_issued_cookie_content_bytes : forall o cfg e segs pre p vs post,
  untime (run2 o cfg e segs) = pre ++ TSend p vs :: post -> is_pkt p configuration_cb_StoreCookiePacket = true ->
  key_of vs = auth_key_b ->
  exists s n u ps t now pre1,
    cf_secret cfg = Some s
    /\ latest enc_flag pre = Some true
    /\ latest auth_result pre = Some (RProfile n u ps)
    /\ latest select_result pre = Some (RTarget (Some t))
    /\ pre = pre1 ++ [TNow now]
    /\ vs = [VB auth_key_b;
             VB (sign (o_ser_auth o {| ac_ts := now; ac_addr := cf_client cfg; ac_name := n; ac_uuid := u;
                                       ac_target := Some (t_id t); ac_props := ps; ac_extra := [] |}) s)].
Proof. intros o cfg e segs. exact (auth_cookie_content o cfg _ (c10_accepts2 o cfg e segs)). Qed.

(* Without a configured secret no authentication cookie is ever stored *)
Theorem C10_no_secret_no_cookie : forall o cfg e ib pre p vs post,
  cf_secret cfg = None ->
  untime (run1 o cfg e ib) = pre ++ TSend p vs :: post -> is_pkt p configuration_cb_StoreCookiePacket = true ->
  key_of vs <> auth_key_b.
Proof. intros o cfg e ib. exact (no_secret_no_auth_cookie o cfg _ (c10_accepts o cfg e ib)). Qed.
Theorem C10_no_secret_no_cookie_bytes : forall o cfg e segs pre p vs post,
  cf_secret cfg = None ->
  untime (run2 o cfg e segs) = pre ++ TSend p vs :: post -> is_pkt p configuration_cb_StoreCookiePacket = true ->
  key_of vs <> auth_key_b.
Proof. intros o cfg e segs. exact (no_secret_no_auth_cookie o cfg _ (c10_accepts2 o cfg e segs)). Qed.

(* nor when authentication was skipped (the client came with a valid cookie: flag false) *)
Theorem C10_only_after_fresh_auth : forall o cfg e ib pre p vs post,
  latest enc_flag pre = Some false ->
  untime (run1 o cfg e ib) = pre ++ TSend p vs :: post -> is_pkt p configuration_cb_StoreCookiePacket = true ->
  key_of vs <> auth_key_b.
Proof. intros o cfg e ib. exact (no_auth_cookie_without_fresh_auth o cfg _ (c10_accepts o cfg e ib)). Qed.
Theorem C10_only_after_fresh_auth_bytes : forall o cfg e segs pre p vs post,
  latest enc_flag pre = Some false ->
  untime (run2 o cfg e segs) = pre ++ TSend p vs :: post -> is_pkt p configuration_cb_StoreCookiePacket = true ->
  key_of vs <> auth_key_b.
Proof. intros o cfg e segs. exact (no_auth_cookie_without_fresh_auth o cfg _ (c10_accepts2 o cfg e segs)). Qed.

(* A session cookie is stored only when the client presented none; it directly follows the draw of a fresh id
   and records exactly that id and the handshake's host and port *)
Theorem C10_session_cookie_content : forall o cfg e ib pre p vs post,
  untime (run1 o cfg e ib) = pre ++ TSend p vs :: post -> is_pkt p configuration_cb_StoreCookiePacket = true ->
  key_of vs = session_key_b ->
  exists u pre1 proto host port st i0 b0,
    no_session_presented o pre
    /\ pre = pre1 ++ [TFresh RUuid u]
    /\ nth_error (frames pre) 0 = Some (i0, b0)
    /\ dec_of handshake_sb_HandshakePacket b0 = Some [VZ proto; VB host; VZ port; VZ st]
    /\ vs = [VB session_key_b; VB (o_ser_session o {| sc_id := be_dec u; sc_host := host; sc_port := port |})].
Proof. intros o cfg e ib. exact (session_cookie_content o cfg _ (c10_accepts o cfg e ib)). Qed.
Theorem C10_session_cookie_content_bytes : forall o cfg e segs pre p vs post,
  untime (run2 o cfg e segs) = pre ++ TSend p vs :: post -> is_pkt p configuration_cb_StoreCookiePacket = true ->
  key_of vs = session_key_b ->
  exists u pre1 proto host port st i0 b0,
    no_session_presented o pre
    /\ pre = pre1 ++ [TFresh RUuid u]
    /\ nth_error (frames pre) 0 = Some (i0, b0)
    /\ dec_of handshake_sb_HandshakePacket b0 = Some [VZ proto; VB host; VZ port; VZ st]
    /\ vs = [VB session_key_b; VB (o_ser_session o {| sc_id := be_dec u; sc_host := host; sc_port := port |})].
Proof. intros o cfg e segs. exact (session_cookie_content o cfg _ (c10_accepts2 o cfg e segs)). Qed.

(* When the Transfer is sent, an authentication cookie has been stored exactly if the client was told to
   authenticate and a secret is configured, and a session cookie exactly if the client presented none *)
Theorem C10_cookies_iff : forall o cfg e ib pre p vs post,
  untime (run1 o cfg e ib) = pre ++ TSend p vs :: post -> is_pkt p configuration_cb_TransferPacket = true ->
  (stored auth_key_b pre <-> latest enc_flag pre = Some true /\ cf_secret cfg <> None)
  /\ (stored session_key_b pre <-> no_session_presented o pre).
Proof. intros o cfg e ib. exact (transfer_cookies_iff o cfg _ (c10_accepts o cfg e ib)). Qed.
Theorem C10_cookies_iff_bytes : forall o cfg e segs pre p vs post,
  untime (run2 o cfg e segs) = pre ++ TSend p vs :: post -> is_pkt p configuration_cb_TransferPacket = true ->
  (stored auth_key_b pre <-> latest enc_flag pre = Some true /\ cf_secret cfg <> None)
  /\ (stored session_key_b pre <-> no_session_presented o pre).
Proof. intros o cfg e segs. exact (transfer_cookies_iff o cfg _ (c10_accepts2 o cfg e segs)). Qed.

(* Cookies are given before the Transfer: no Store Cookie follows it *)
Theorem C10_store_before_transfer : forall o cfg e ib pre p vs post p' vs',
  untime (run1 o cfg e ib) = pre ++ TSend p vs :: post -> is_pkt p configuration_cb_StoreCookiePacket = true ->
  In (TSend p' vs') pre -> is_pkt p' configuration_cb_TransferPacket = false.
Proof. intros o cfg e ib. exact (store_before_transfer o cfg _ (c10_accepts o cfg e ib)). Qed.
Theorem C10_store_before_transfer_bytes : forall o cfg e segs pre p vs post p' vs',
  untime (run2 o cfg e segs) = pre ++ TSend p vs :: post -> is_pkt p configuration_cb_StoreCookiePacket = true ->
  In (TSend p' vs') pre -> is_pkt p' configuration_cb_TransferPacket = false.
Proof. intros o cfg e segs. exact (store_before_transfer o cfg _ (c10_accepts2 o cfg e segs)). Qed.

(* Only these two cookies are ever stored *)
Theorem C10_store_keys : forall o cfg e ib pre p vs post,
  untime (run1 o cfg e ib) = pre ++ TSend p vs :: post -> is_pkt p configuration_cb_StoreCookiePacket = true ->
  key_of vs = auth_key_b \/ key_of vs = session_key_b.
Proof. intros o cfg e ib. exact (store_keys o cfg _ (c10_accepts o cfg e ib)). Qed.
Theorem C10_store_keys_bytes : forall o cfg e segs pre p vs post,
  untime (run2 o cfg e segs) = pre ++ TSend p vs :: post -> is_pkt p configuration_cb_StoreCookiePacket = true ->
  key_of vs = auth_key_b \/ key_of vs = session_key_b.
Proof. intros o cfg e segs. exact (store_keys o cfg _ (c10_accepts2 o cfg e segs)). Qed.

Print Assumptions C10_walk.
Print Assumptions C10_verify_sign.
Print Assumptions C10_verify_spec.
Print Assumptions C10_roundtrip.
Print Assumptions C10_parse_ser_auth.
Print Assumptions C10_parse_ser_session.
Print Assumptions C10_ser_auth_inj.
Print Assumptions C10_roundtrip_json.
Print Assumptions C10_accepts.
Print Assumptions C10_every_event_checked.
Print Assumptions C10_accepts_bytes.
Print Assumptions C10_every_event_checked_bytes.
Print Assumptions C10_defs.
Print Assumptions C10_issued_cookie_content.
Print Assumptions C10_issued_cookie_content_bytes.
Print Assumptions C10_no_secret_no_cookie.
Print Assumptions C10_no_secret_no_cookie_bytes.
Print Assumptions C10_only_after_fresh_auth.
Print Assumptions C10_only_after_fresh_auth_bytes.
Print Assumptions C10_session_cookie_content.
Print Assumptions C10_session_cookie_content_bytes.
Print Assumptions C10_cookies_iff.
Print Assumptions C10_cookies_iff_bytes.
Print Assumptions C10_store_before_transfer.
Print Assumptions C10_store_before_transfer_bytes.
Print Assumptions C10_store_keys.
Print Assumptions C10_store_keys_bytes.

(* ---- M3 (Conn/Sem3.v): the same for EVERY behaviour of the transport (free room following any schedule: writes accepted
   in part, refused, never accepted again), every latency of localize(), every cancellation of a pending write or of a
   pending missed-keep-alive verdict by the race.  Proofs in Conn/Sem3Proofs.v. ---- *)
From Passage Require Import Lib.Bytes Codec.Desc Gen.PacketsGen Conn.Types Conn.Prog Conn.Sem1 Conn.Sem2 Conn.Sem3 Conn.Monitor Conn.Order Conn.Checks Conn.Switch Conn.Sem3Proofs.

Theorem C10_backpressure : forall o cfg e encf loclat cap sch s,
  ok (step_with (chk_c10 o cfg)) m_init (untime (trace_of (run3 o cfg e encf loclat cap sch s))).
Proof. exact run3_c10_ok. Qed.

Print Assumptions C10_backpressure.
