(* C10 - pinned statements.  The monitor (automaton of Conn/Order.v + check chk_c10 of
   Conn/Checks.v) accepts EVERY trace of the connection handler's model: for every
   configuration, every behaviour of the modelled third-party code (RSA, serde), every
   adapter result and latency, every inbox of client frames and every timing. *)
From Passage Require Import Lib.Bytes Codec.Desc Gen.PacketsGen Conn.Types Conn.Prog Conn.Sem1
  Conn.Monitor Conn.MonitorProofs Conn.Order Conn.OrderProofs Conn.Checks Conn.Walk_C10.

Theorem C10_walk : forall o cfg, safe (step_with (chk_c10 o cfg)) m_init (listen o cfg).
Proof. exact listen_c10_safe. Qed.

Theorem C10_accepts : forall o cfg e ib,
  accepts (step_with (chk_c10 o cfg)) m_init (untime (run1 o cfg e ib)) = true.
Proof. intros. apply ok_accepts. apply c10_accepts. Qed.

(* every event of every trace passed the order automaton and this property's check in the
   state reached by the events before it *)
Theorem C10_every_event_checked : forall o cfg e ib pre ev post,
  untime (run1 o cfg e ib) = pre ++ ev :: post ->
  exists st, run (step_with (chk_c10 o cfg)) m_init pre = Some st /\
    (internal_at (q st) ev = true \/ exists q', delta (q st) ev = Some q' /\ (chk_c10 o cfg) st ev = true).
Proof. intros o cfg e ib pre ev post H. eapply accepted_event_checked; [apply c10_accepts | exact H]. Qed.

Print Assumptions C10_walk.
Print Assumptions C10_accepts.
Print Assumptions C10_every_event_checked.
