(* C17: shutdown drains in-flight connections and serves no new ones.
   Pinned statements about Listener/Machine.v (the accept loop after fix-c16); proofs in
   Listener/MachineProofs.v.  PARTIAL: the instant at which the accept loop observes the
   cancellation token is the position of the Stop event in the history (events are processed one
   at a time, to quiescence); connections still in the kernel backlog at that instant are not
   modelled (they are never accepted and see the socket close when `listen` returns). *)
From Passage Require Import Lib.Bytes Listener.Machine Listener.MachineProofs.

(* from any state in which the loop no longer accepts: nothing is spawned any more, and whatever
   is served was already being tracked (it arrived before the stop request) *)
Theorem C17_no_new_after_stop : forall (L : Type) (admit_fn : L -> Z -> Z -> L * bool) (cf : mcfg)
    (h : list event) (st : state L),
  accepting st = false ->
  forall t o, In (t, o) (run L admit_fn cf st h) ->
    (forall c, o <> Spawn c) /\ (forall c e, o = Serve c e -> find c (tracked st) <> None).
Proof. exact no_new_after_stop. Qed.
Print Assumptions C17_no_new_after_stop.

(* the step that produces Return leaves no task behind, every connection ever spawned has its
   Close by then, and nothing at all happens afterwards *)
Theorem C17_returns_after_all : forall (L : Type) (admit_fn : L -> Z -> Z -> L * bool) (cf : mcfg) (l0 : L)
    (h1 : list event) (ev : event),
  In Return (snd (step L admit_fn cf (final L admit_fn cf (init l0) h1) ev)) ->
  let st2 := final L admit_fn cf (init l0) (h1 ++ [ev]) in
  accepting st2 = false /\ tracked st2 = [] /\
  (forall c ts, In (ts, Spawn c) (run L admit_fn cf (init l0) (h1 ++ [ev])) ->
     exists tc r, In (tc, Close c r) (run L admit_fn cf (init l0) (h1 ++ [ev])))
  /\ (forall h2, run L admit_fn cf st2 h2 = []).
Proof. exact return_after_all. Qed.
Print Assumptions C17_returns_after_all.

(* exactly when: Return has been produced iff the loop has stopped and the tracker is empty;
   and only a stop request makes it stop *)
Theorem C17_returns_iff : forall (L : Type) (admit_fn : L -> Z -> Z -> L * bool) (cf : mcfg) (l0 : L) (h : list event),
  (exists t, In (t, Return) (run L admit_fn cf (init l0) h)) <->
  (accepting (final L admit_fn cf (init l0) h) = false /\ tracked (final L admit_fn cf (init l0) h) = []).
Proof. exact returns_iff. Qed.
Print Assumptions C17_returns_iff.
Theorem C17_return_needs_stop : forall (L : Type) (admit_fn : L -> Z -> Z -> L * bool) (cf : mcfg) (l0 : L)
    (h : list event) (t : Z),
  In (t, Return) (run L admit_fn cf (init l0) h) -> exists ts, In (Stop ts) h.
Proof. exact return_needs_stop. Qed.
Print Assumptions C17_return_needs_stop.

(* a connection that is being served when the stop request arrives runs exactly as without it,
   whatever happens afterwards (its Close still comes from its own completion or its deadline) *)
Theorem C17_inflight_unaffected : forall (L : Type) (admit_fn : L -> Z -> Z -> L * bool) (cf : mcfg) (l0 : L)
    (h1 : list event) (ts : Z) (h2 : list event) (c : Z) (e : addr) (sp : Z),
  find c (tracked (final L admit_fn cf (init l0) h1)) = Some (PServe e, sp) ->
  outputs_for c (run L admit_fn cf (init l0) (h1 ++ Stop ts :: h2))
  = outputs_for c (run L admit_fn cf (init l0) (h1 ++ h2)).
Proof. exact inflight_unaffected. Qed.
Print Assumptions C17_inflight_unaffected.

(* for EVERY connection (also one still waiting for its header, whose admission may depend on the
   limiter budget later arrivals would have used): a stop request is the same as nobody arriving
   any more *)
Theorem C17_stop_is_no_more_arrivals : forall (L : Type) (admit_fn : L -> Z -> Z -> L * bool) (cf : mcfg) (l0 : L)
    (h1 : list event) (ts : Z) (h2 : list event) (c : Z),
  outputs_for c (run L admit_fn cf (init l0) (h1 ++ Stop ts :: h2))
  = outputs_for c (run L admit_fn cf (init l0) (h1 ++ filter not_arrive h2)).
Proof. exact inflight_stop_equiv. Qed.
Print Assumptions C17_stop_is_no_more_arrivals.

(* the loop BEFORE the repair: with a silent peer in front of it the stop request is never
   looked at and `listen` never returns, although every timer fires *)
Theorem C17_old_stop_blocked_refuted : exists (cf : mcfg) (h : list event),
  In (Stop 500) h
  /\ (forall t, ~ In (t, Return) (orun unit admit_all cf (oinit tt) h))
  /\ In (10000, Return) (run unit admit_all cf (init tt) h).
Proof.
  exists ex_cfg, ex_hist. rewrite ex_orun, ex_run. split; [cbn; auto 10|]. split; [intros t []|cbn; auto 10].
Qed.
Print Assumptions C17_old_stop_blocked_refuted.

(* non-vacuity: see Machine.ex_run: connection 2 is served before the stop at 500 and finishes;
   connection 3 arrives at 600 and is never spawned; Return comes at 10000 with the last Close *)
Example C17_ex :
  outputs_for 3 (run unit admit_all ex_cfg (init tt) ex_hist) = []
  /\ outputs_for 1 (run unit admit_all ex_cfg (init tt) ex_hist) = [(0, Spawn 1); (10000, Close 1 RDeadline)].
Proof. rewrite ex_run. vm_compute. auto. Qed.
