(* C08 - connection behaviour is independent of segmentation and completion timing.
   After the repair of receive_packet (the frame being received lives in the connection, not in
   a future that select! drops) the byte-level behaviour (M2, Conn/Sem2.v) IS the frame-level
   behaviour M1 applied to the reader's output, for every configuration, environment and schedule -
   however the client's bytes are cut into segments, wherever keep-alive ticks and completions of
   raced adapter calls fall:
   - C08_refines_all_mod_hang: NO condition at all - equal runs on the schedule as the handler's
     clock sees it ([mono]: running maximum of the arrival times), up to the instant at which a
     handler that waits for ever is declared hung; C08_each_frame_once: NO condition at all;
   - C08_refines: exact equality on the reader's output of the schedule itself, under two
     decidable conditions neither of which can be dropped (C08_conditions_needed): byte times do
     not decrease inside a frame, and the stream does not stop inside a frame without an end of
     stream.
   The handler before the repair (Conn/Sem2Old.v) did NOT have this property: the witnesses of the
   classes K1 (a raced adapter call completes inside a frame) and K4 (a keep-alive tick falls due
   inside a frame) are kept as C08_old_*.
   Also proved: the byte-level reader (Conn/Reader.v, the framing of receive_packet) produces the
   same frames however the byte stream is segmented; the write side keeps frames intact
   (Conn/SendQueue.v); and every M2 trace, on every schedule, satisfies the monitors of
   C01/C02/C03/C06/C10 and never ends in a panic (Props/C01.v ... C10.v, C04.v: the *_bytes theorems). *)
From Passage Require Import Lib.Bytes Codec.VarInt Conn.Types Conn.Prog Conn.Sem1 Conn.Sem2 Conn.Sem2Old Conn.Reader Conn.ReaderProofs
  Conn.Sem2Witness Conn.Refine2Defs Conn.Refine2Proofs Conn.SendQueue Conn.SendQueueProofs.

(* feeding the reader piecewise is feeding it the concatenation *)
Theorem C08_reader_monoid : forall max a st b,
  feed max st (a ++ b) =
    (fst (feed max (fst (feed max st a)) b), snd (feed max st a) ++ snd (feed max (fst (feed max st a)) b)).
Proof. exact feed_app. Qed.

(* every split of the byte stream into segments (every offset of every frame, one byte at a
   time, whole frames glued together) yields the same frames, errors and final state *)
Theorem C08_segmentation_independent : forall max ss1 ss2 st,
  concat ss1 = concat ss2 -> feed_segs max st ss1 = feed_segs max st ss2.
Proof. exact segmentation_independent. Qed.

(* each input frame is produced exactly once and complete: the reader's output over the
   concatenation of canonically framed messages is exactly those messages *)
Example C08_each_frame_once_reader :
  snd (feed_segs 10000 RIdle [hx "03"; hx "00aa"; hx "bb0205"; hx "7f"])
  = [EvFrame 0 [170; 187]; EvFrame 5 [127]].
Proof. vm_compute. reflexivity. Qed.

(* ---- THE REFINEMENT: the byte level is the frame level ----
   [frame_sorted max s] (Conn/Refine2Defs.v, decidable): the arrival times of the bytes of each
   frame do not decrease (between frames they may; nothing is required after a framing error);
   [ends_clean max s]: the schedule contains an end of stream, or its bytes end at a frame boundary.
   No condition on the segmentation, on ticks, on completions, on the configuration, the
   environment or the oracles.  Same events, same values, same instants, same final outcome. *)
Theorem C08_refines : forall o cfg e (s : segs),
  frame_sorted (cf_max_len cfg) s = true -> ends_clean (cf_max_len cfg) s = true ->
  run2 o cfg e s = run1 o cfg e (frames_of (cf_max_len cfg) s).
Proof. exact refines. Qed.

(* in particular for every schedule with non-decreasing segment times *)
Theorem C08_refines_sorted : forall o cfg e (s : segs),
  sorted s = true -> ends_clean (cf_max_len cfg) s = true ->
  run2 o cfg e s = run1 o cfg e (frames_of (cf_max_len cfg) s).
Proof. exact refines_sorted. Qed.

(* a stream that stops inside a frame: the same, except for the instant at which a handler that
   waits for ever (receive_packet without keep-alive) is declared hung *)
Theorem C08_refines_mod_hang : forall o cfg e (s : segs),
  frame_sorted (cf_max_len cfg) s = true ->
  unhang (run2 o cfg e s) = unhang (run1 o cfg e (frames_of (cf_max_len cfg) s)).
Proof. exact refines_mod_hang. Qed.

(* ... and exactly the same whenever the frame-level run does not hang *)
Theorem C08_refines_unless_hang : forall o cfg e (s : segs),
  frame_sorted (cf_max_len cfg) s = true ->
  hangs (run1 o cfg e (frames_of (cf_max_len cfg) s)) = false ->
  run2 o cfg e s = run1 o cfg e (frames_of (cf_max_len cfg) s).
Proof. exact refines_unless_hang. Qed.

(* ---- no condition on the times ----
   The handler sees arrival times only through its own clock, so it cannot tell a schedule from
   its monotone version [mono s] (Conn/Refine2Defs.v: every segment stamped with the running maximum
   of the times so far, starting at 0; segments without bytes dropped; [mono s] is sorted, and is
   [s] when [s] is sorted, starts at a time >= 0 and has no empty segment). *)
Theorem C08_run2_mono : forall o cfg e (s : segs), run2 o cfg e (mono s) = run2 o cfg e s.
Proof. exact run2_mono. Qed.

Theorem C08_refines_all : forall o cfg e (s : segs),
  ends_clean (cf_max_len cfg) s = true ->
  run2 o cfg e s = run1 o cfg e (frames_of (cf_max_len cfg) (mono s)).
Proof. exact refines_all. Qed.

Theorem C08_refines_all_mod_hang : forall o cfg e (s : segs),
  unhang (run2 o cfg e s) = unhang (run1 o cfg e (frames_of (cf_max_len cfg) (mono s))).
Proof. exact refines_all_mod_hang. Qed.

Theorem C08_refines_all_unless_hang : forall o cfg e (s : segs),
  hangs (run1 o cfg e (frames_of (cf_max_len cfg) (mono s))) = false ->
  run2 o cfg e s = run1 o cfg e (frames_of (cf_max_len cfg) (mono s)).
Proof. exact refines_all_unless_hang. Qed.

(* for EVERY schedule, every frame is consumed at most once, in order and complete: the frames the
   byte-level handler consumes are a prefix of the frames the reader cuts out of the stream *)
Theorem C08_each_frame_once : forall o cfg e (s : segs),
  is_prefix (recvs (run2 o cfg e s)) (in_frames (frames_of (cf_max_len cfg) s)).
Proof. exact each_frame_once_all. Qed.

(* every theorem about all frame-level runs transfers to the byte-level runs: to all of them if it
   does not depend on the instant of a hang, otherwise to those whose stream does not stop inside a frame *)
Theorem C08_transfer : forall (Q : trace -> Prop) o cfg e,
  (forall ib, Q (run1 o cfg e ib)) ->
  forall s : segs, ends_clean (cf_max_len cfg) s = true -> Q (run2 o cfg e s).
Proof. exact transfer_all. Qed.

Theorem C08_transfer_mod_hang : forall (Q : trace -> Prop) o cfg e,
  (forall ib, Q (unhang (run1 o cfg e ib))) -> forall s : segs, Q (unhang (run2 o cfg e s)).
Proof. exact transfer_all_mod_hang. Qed.

(* non-vacuity: the schedules that broke the old handler (below) satisfy the conditions and now
   give equal runs; the split Keep Alive echo of K1 ends in a Transfer *)
Example C08_repaired_classes :
  run2 w_o w_cfg w_e k1_split = run1 w_o w_cfg w_e (frames_of (cf_max_len w_cfg) k1_split)
  /\ run2 w_o w_cfg w_e k4_header = run1 w_o w_cfg w_e (frames_of (cf_max_len w_cfg) k4_header)
  /\ run2 w_o w_cfg w_e k4_prefix_split = run1 w_o w_cfg w_e (frames_of (cf_max_len w_cfg) k4_prefix_split)
  /\ last_end (run2 w_o w_cfg w_e k1_split) = Some OOk
  /\ sent_ids (run2 w_o w_cfg w_e k1_split) = [5; 1; 2; 10; 11]
  /\ frame_sorted (cf_max_len w_cfg) k1_split = true /\ ends_clean (cf_max_len w_cfg) k1_split = true
  /\ frame_sorted (cf_max_len w_cfg) k4_prefix_split = true /\ ends_clean (cf_max_len w_cfg) k4_prefix_split = true
  /\ frame_sorted (cf_max_len w_cfg) k4_header = true
  /\ hangs (run1 w_o w_cfg w_e (frames_of (cf_max_len w_cfg) k4_header)) = false.
Proof. vm_compute. repeat split; reflexivity. Qed.

(* neither condition can be dropped *)
Example C08_conditions_needed :
  (frame_sorted (cf_max_len w_cfg) unsorted_in_frame = false /\ ends_clean (cf_max_len w_cfg) unsorted_in_frame = true
   /\ unhang (run2 w_o w_cfg w_e unsorted_in_frame)
      <> unhang (run1 w_o w_cfg w_e (frames_of (cf_max_len w_cfg) unsorted_in_frame)))
  /\ (frame_sorted (cf_max_len w_cfg) stops_in_frame = true /\ ends_clean (cf_max_len w_cfg) stops_in_frame = false
      /\ run2 w_o w_cfg w_e stops_in_frame <> run1 w_o w_cfg w_e (frames_of (cf_max_len w_cfg) stops_in_frame)).
Proof.
  split.
  - destruct unsorted_in_frame_differs as (H1 & H2 & _ & H3). repeat split; assumption.
  - destruct stops_in_frame_differs as (H1 & H2 & H3 & H4 & _). split; [exact H1|]. split; [exact H2|].
    intros E. rewrite E, H4 in H3. discriminate H3.
Qed.

(* non-vacuity of the unconditional form: times decreasing inside a frame *)
Example C08_mono_nonvacuous :
  mono unsorted_in_frame <> unsorted_in_frame
  /\ run2 w_o w_cfg w_e unsorted_in_frame = run1 w_o w_cfg w_e (frames_of (cf_max_len w_cfg) (mono unsorted_in_frame))
  /\ mono k1_split = k1_split.
Proof. split; [vm_compute; intros H; discriminate H|]. split; vm_compute; reflexivity. Qed.

(* ---- the handler BEFORE the repair (Conn/Sem2Old.v): the known classes, as closed terms ---- *)

(* K1: the same bytes; delivered whole the client is transferred, delivered as 5 + 5 bytes
   around the instant discovery completes the connection ended with an illegal frame length *)
Theorem C08_old_K1_witness :
  concat (map (fun x => match snd x with Some b => b | None => [] end) k1_whole)
  = concat (map (fun x => match snd x with Some b => b | None => [] end) k1_split)
  /\ last_end (OldM2.run2 w_o w_cfg w_e k1_whole) = Some OOk
  /\ last_end (OldM2.run2 w_o w_cfg w_e k1_split) = Some (OErr KIllegalLen)
  /\ last_end (run1 w_o w_cfg w_e (frames_of (cf_max_len w_cfg) k1_split)) = Some OOk.
Proof. vm_compute. repeat split; reflexivity. Qed.

(* K4, deferral: after a frame header declaring 10000 bytes the old handler sent no Keep Alive
   and never timed the client out, where the frame-level behaviour is Keep Alive + timeout *)
Theorem C08_old_K4_deferral_witness :
  last_end (OldM2.run2 w_o w_cfg w_e k4_header) = Some OHang
  /\ sent_ids (OldM2.run2 w_o w_cfg w_e k4_header) = [5; 1; 2]
  /\ last_end (run1 w_o w_cfg w_e (frames_of (cf_max_len w_cfg) k4_header)) = Some (OErr KMissedKA)
  /\ sent_ids (run1 w_o w_cfg w_e (frames_of (cf_max_len w_cfg) k4_header)) = [5; 1; 2; 4; 2].
Proof. vm_compute. repeat split; reflexivity. Qed.

(* K4, length prefix: a tick between the two bytes of a length prefix discarded the first *)
Theorem C08_old_K4_prefix_witness :
  sent_ids (OldM2.run2 w_o w_cfg w_e k4_prefix_whole) = [0]
  /\ sent_ids (OldM2.run2 w_o w_cfg w_e k4_prefix_split) = []
  /\ sent_ids (run1 w_o w_cfg w_e (frames_of (cf_max_len w_cfg) k4_prefix_split)) = [0].
Proof. vm_compute. repeat split; reflexivity. Qed.

Theorem C08_old_refinement_refuted :
  ~ (forall o cfg e segs, last_end (OldM2.run2 o cfg e segs) = last_end (run1 o cfg e (frames_of (cf_max_len cfg) segs))).
Proof.
  intros H.
  destruct C08_old_K1_witness as (_ & _ & H2 & H1).
  pose proof (eq_trans (eq_sym H2) (eq_trans (H w_o w_cfg w_e k1_split) H1)) as E. discriminate E.
Qed.

(* ---- the write side (Conn/SendQueue.v: send_packet's frame queue after the K3 repair) ----
   For every sequence of frames handed to send_packet, every acceptance pattern of the stream
   (refused, partial, whole) and every placement of dropped futures: the bytes on the wire followed
   by the bytes still queued are exactly the frames, in order - nothing is lost, torn or interleaved;
   when the queue has drained the wire is exactly the frames.  The pre-repair write_all is refuted by
   the K3 schedule (3 bytes of a Keep Alive accepted, the future dropped, the next packet follows). *)
Theorem C08_frames_intact : forall ops, wire (wrun ops) ++ unsent (wrun ops) = sentlog (wrun ops).
Proof. exact frames_intact. Qed.

Theorem C08_wire_is_prefix : forall ops, exists rest, sentlog (wrun ops) = wire (wrun ops) ++ rest.
Proof. exact wire_is_prefix. Qed.

Theorem C08_drained_complete : forall ops, unsent (wrun ops) = [] -> wire (wrun ops) = sentlog (wrun ops).
Proof. exact drained_complete. Qed.

Theorem C08_old_send_tears :
  o_wire (orun k3_ops) = [9; 4; 0; 2; 11; 5]
  /\ o_log (orun k3_ops) = [9; 4; 0; 0; 0; 0; 0; 0; 0; 7; 2; 11; 5]
  /\ wire (wrun k3_ops) = [9; 4; 0; 0; 0; 0; 0; 0; 0; 7; 2; 11; 5].
Proof. exact old_send_tears. Qed.

Print Assumptions C08_frames_intact.
Print Assumptions C08_wire_is_prefix.
Print Assumptions C08_drained_complete.
Print Assumptions C08_old_send_tears.
Print Assumptions C08_refines.
Print Assumptions C08_refines_sorted.
Print Assumptions C08_refines_mod_hang.
Print Assumptions C08_refines_unless_hang.
Print Assumptions C08_each_frame_once.
Print Assumptions C08_run2_mono.
Print Assumptions C08_refines_all.
Print Assumptions C08_refines_all_mod_hang.
Print Assumptions C08_refines_all_unless_hang.
Print Assumptions C08_transfer.
Print Assumptions C08_transfer_mod_hang.
Print Assumptions C08_reader_monoid.
Print Assumptions C08_segmentation_independent.
Print Assumptions C08_old_K1_witness.
Print Assumptions C08_old_K4_deferral_witness.
Print Assumptions C08_old_K4_prefix_witness.
Print Assumptions C08_old_refinement_refuted.

(* ---- M3 (Conn/Sem3.v): the same for EVERY behaviour of the transport (free room following any schedule: writes accepted
   in part, refused, never accepted again), every latency of localize(), every cancellation of a pending write or of a
   pending missed-keep-alive verdict by the race.  Proofs in Conn/Sem3Proofs.v. ---- *)
From Passage Require Import Lib.Bytes Codec.Desc Gen.PacketsGen Conn.Types Conn.Prog Conn.Sem1 Conn.Sem2 Conn.Sem3 Conn.Monitor Conn.Order Conn.Checks Conn.Switch Conn.Sem3Proofs.
Local Open Scope Z_scope.

Theorem C08_M3_calm_is_M2 : forall o cfg e encf s,
  trace_of (run3 o cfg e encf 0 None [] s) = run2 o cfg e s
  /\ abandoned_of (run3 o cfg e encf 0 None [] s) = [].
Proof. exact run3_calm. Qed.

Theorem C08_M3_calm_wire : forall o cfg e encf s,
  concat (map snd (wire_of (run3 o cfg e encf 0 None [] s)))
  = concat (map (fun ev => match snd ev with TSend pk vs => frame_bytes encf pk vs | _ => [] end)
                (trace_of (run3 o cfg e encf 0 None [] s))).
Proof. exact run3_calm_wire. Qed.

Theorem C08_M3_frames_intact : forall o cfg e encf loclat cap sch s,
  exists rest,
    concat (map (fun ev => match snd ev with TSend pk vs => frame_bytes encf pk vs | _ => [] end)
                (trace_of (run3 o cfg e encf loclat cap sch s)))
    = concat (map snd (wire_of (run3 o cfg e encf loclat cap sch s))) ++ rest.
Proof. exact run3_frames_intact. Qed.

Theorem C08_M3_safe_sound : forall (S : Type) (step : S -> tev -> option S) cfg e encf loclat,
  (forall st ev st', step st ev = Some st' -> (forall o, ev <> TEnd o) -> step st' (TEnd (OErr KAdapter)) <> None) ->
  forall p st s, safe step st p -> ok step st (untime (trace_of (exec3 cfg e encf loclat p s))).
Proof. exact safe_sound3. Qed.

Theorem C08_M3_adapter_end_step_with : forall chk : mst -> tev -> bool,
  (forall st, chk st (TEnd (OErr KAdapter)) = true) ->
  forall st ev st', step_with chk st ev = Some st' -> (forall o, ev <> TEnd o) ->
    step_with chk st' (TEnd (OErr KAdapter)) <> None.
Proof. exact step_with_adapter_end. Qed.

Theorem C08_M3_flush_cut_example :
  (let '(o, s', r) := flush (Some 7) ex_flush in (o, c_unsent s', now3 s', r))
  = ([OW 0 [1; 2; 3]], [4; 5; 6; 7; 8; 9; 10], 7, FlCut).
Proof. exact flush_cut_example. Qed.

Theorem C08_M3_flush_done_example :
  (let '(o, s', r) := flush None ex_flush in (o, c_unsent s', now3 s', r))
  = ([OW 0 [1; 2; 3]; OW 9 [4; 5; 6; 7; 8; 9; 10]], [], 9, FlDone).
Proof. exact flush_done_example. Qed.

Theorem C08_M3_race_verdict_adapter_failed :
  let out := exec3 ex_cfg (ex_env RErr) ex_encf 5 ex_race ex_s3 in
  trace_of out = [(0, TCall CDiscover); (0, TTick); (3, TEnd (OErr KAdapter))]
  /\ abandoned_of out = [(0, CLocalize None key_timeout)]
  /\ wire_of out = [].
Proof. exact race_verdict_adapter_failed. Qed.

Theorem C08_M3_race_verdict_resumed :
  let out := exec3 ex_cfg (ex_env (RTargets [])) ex_encf 5 ex_race ex_s3 in
  untime (trace_of out)
    = [TCall CDiscover; TTick; TCall (CLocalize None key_timeout); TRes (CLocalize None key_timeout) (RText [65]);
       TSend configuration_cb_DisconnectPacket [VB [65]]; TEnd (OErr KMissedKA)]
  /\ map fst (trace_of out) = [0; 0; 3; 8; 8; 8]
  /\ calls_of out = [(0, CDiscover); (0, CLocalize None key_timeout); (3, CLocalize None key_timeout)]
  /\ map fst (wire_of out) = [8].
Proof. exact race_verdict_resumed. Qed.

Print Assumptions C08_M3_calm_is_M2.
Print Assumptions C08_M3_calm_wire.
Print Assumptions C08_M3_frames_intact.
Print Assumptions C08_M3_safe_sound.
Print Assumptions C08_M3_adapter_end_step_with.
Print Assumptions C08_M3_flush_cut_example.
Print Assumptions C08_M3_flush_done_example.
Print Assumptions C08_M3_race_verdict_adapter_failed.
Print Assumptions C08_M3_race_verdict_resumed.

(* ---- M3: delivered completely.  Whenever a run ends successfully - Transfer sent, no-target Disconnect sent, or the
   timeout Disconnect flushed - every byte of every packet sent has been accepted by the transport, whatever the
   transport did in between.  The last example shows the hypothesis is needed: an adapter failure during a pending
   verdict leaves part of the Disconnect unsent.  Proofs in Conn/Sem3Delivery.v. ---- *)
From Passage Require Import Conn.Sem3Delivery.

Theorem C08_M3_delivered_ok : forall o cfg e encf loclat cap sch s,
  (exists pre t, trace_of (run3 o cfg e encf loclat cap sch s) = pre ++ [(t, TEnd OOk)]) ->
  concat (map (fun ev => match snd ev with TSend pk vs => frame_bytes encf pk vs | _ => [] end)
              (trace_of (run3 o cfg e encf loclat cap sch s)))
  = concat (map snd (wire_of (run3 o cfg e encf loclat cap sch s))).
Proof. exact run3_delivered_ok. Qed.

Theorem C08_M3_delivered_no_target : forall o cfg e encf loclat cap sch s,
  (exists pre t, trace_of (run3 o cfg e encf loclat cap sch s) = pre ++ [(t, TEnd (OErr KNoTarget))]) ->
  concat (map (fun ev => match snd ev with TSend pk vs => frame_bytes encf pk vs | _ => [] end)
              (trace_of (run3 o cfg e encf loclat cap sch s)))
  = concat (map snd (wire_of (run3 o cfg e encf loclat cap sch s))).
Proof. exact run3_delivered_no_target. Qed.

Theorem C08_M3_delivered_missed_ka : forall o cfg e encf loclat cap sch s,
  (exists pre t, trace_of (run3 o cfg e encf loclat cap sch s) = pre ++ [(t, TEnd (OErr KMissedKA))]) ->
  concat (map (fun ev => match snd ev with TSend pk vs => frame_bytes encf pk vs | _ => [] end)
              (trace_of (run3 o cfg e encf loclat cap sch s)))
  = concat (map snd (wire_of (run3 o cfg e encf loclat cap sch s))).
Proof. exact run3_delivered_missed_ka. Qed.

Theorem C08_M3_listen_flushed : forall o cfg, flushed_ends false (listen o cfg).
Proof. exact listen_flushed. Qed.

Theorem C08_M3_delivered_example :
  let out := exec3 ex_cfg (ex_env RErr) ex_encf 0
               (Send configuration_cb_TransferPacket [] (Ret OOk))
               {| c2 := ex_st2 None; c_unsent := []; c_cap := Some 1; c_sch := [(4, None)]; c_missed := MNo |} in
  map fst (trace_of out) = [0; 4]
  /\ map fst (wire_of out) = [0; 4]
  /\ wbytes out = fbytes ex_encf (trace_of out)
  /\ length (wbytes out) = 3%nat.
Proof. exact delivered_example. Qed.

Theorem C08_M3_undelivered_on_adapter_error :
  let out := exec3 ex_cfg (ex_env RErr) ex_encf 0 ex_race
               {| c2 := ex_st2 (Some 1); c_unsent := []; c_cap := Some 1; c_sch := []; c_missed := MNo |} in
  untime (trace_of out)
    = [TCall CDiscover; TTick; TCall (CLocalize None key_timeout); TRes (CLocalize None key_timeout) (RText [65]);
       TSend configuration_cb_DisconnectPacket [VB [65]]; TEnd (OErr KAdapter)]
  /\ length (fbytes ex_encf (trace_of out)) = 3%nat
  /\ length (wbytes out) = 1%nat.
Proof. exact undelivered_on_adapter_error. Qed.

Print Assumptions C08_M3_delivered_ok.
Print Assumptions C08_M3_delivered_no_target.
Print Assumptions C08_M3_delivered_missed_ka.
Print Assumptions C08_M3_listen_flushed.
Print Assumptions C08_M3_delivered_example.
Print Assumptions C08_M3_undelivered_on_adapter_error.

(* ---- M3: a hang is a genuine one.  The fuelled functions of the model return a hang-looking value when their fuel
   runs out; with the fuel the definitions use that branch is never taken: giving every fuelled function MORE fuel
   changes nothing, a hanging flush means the transport never takes another byte and no race is running, and the only
   hang a read reports is receive_packet(false) on a stream that is exhausted and never closed.  Proofs in
   Conn/Sem3Fuel.v. ---- *)
From Passage Require Import Conn.Sem3Fuel.

Theorem C08_M3_no_spurious_hang : forall cfg e encf loclat k p s,
  exec3_plus cfg e encf loclat k p s = exec3 cfg e encf loclat p s.
Proof. exact M3_no_spurious_hang. Qed.

Theorem C08_M3_flush_hang_genuine : forall hz s o s',
  flush hz s = (o, s', FlHang) ->
  hz = None /\ c_unsent s' <> [] /\ (exists n, c_cap s' = Some n /\ n <= 0) /\ c_sch s' = [].
Proof. exact flush_hang_genuine. Qed.

Theorem C08_M3_read_hang_genuine : forall cfg e encf loclat m hz s o fin t,
  read_frame3 cfg e encf loclat m hz s = (o, R3End fin) -> In (OT (t, TEnd OHang)) fin ->
  m = None /\ b_eof (c2 s) = None.
Proof. exact read_frame3_hang_genuine. Qed.

Print Assumptions C08_M3_no_spurious_hang.
Print Assumptions C08_M3_flush_hang_genuine.
Print Assumptions C08_M3_read_hang_genuine.

(* ---- M3: time never runs backwards and nothing is delivered before it is sent.  For every input (sorted or not), every
   schedule of the transport (sorted or not) and every latency: the instants of all output events - handler events,
   accepted chunks, abandoned calls - are non-decreasing in output order; and the bytes of every accepted chunk are the
   next bytes, after those accepted before, of frames whose sends come earlier in the output, each at an instant not
   later than the chunk's.  Proofs in Conn/Sem3Mono.v. ---- *)
From Passage Require Import Conn.Sem3Mono.

Theorem C08_M3_time_monotone : forall o cfg e encf loclat cap sch s,
  nondecreasing (instants (run3 o cfg e encf loclat cap sch s)) = true.
Proof. exact run3_mono. Qed.

Theorem C08_M3_delivery_not_before_send : forall o cfg e encf loclat cap sch s pre t b post,
  run3 o cfg e encf loclat cap sch s = pre ++ OW t b :: post ->
  (exists rest, fbytes encf (trace_of pre) = wbytes pre ++ b ++ rest)
  /\ (forall t' pk vs, In (OT (t', TSend pk vs)) pre -> t' <= t).
Proof. exact M3_delivery_not_before_send. Qed.

Print Assumptions C08_M3_time_monotone.
Print Assumptions C08_M3_delivery_not_before_send.
