(* C08 - connection behaviour is independent of segmentation and completion timing.
   The full statement - for every schedule the byte-level behaviour (M2, Conn/Sem2.v: the
   model of receive_packet's two phases under tokio's select!) equals the frame-level
   behaviour M1 applied to the reader's output - is FALSE of the faithful model and of the
   code: C08_refinement_refuted, with the witnesses of the known classes K1 (a raced adapter
   call completes inside a frame) and K4 (a keep-alive tick falls due inside a frame).
   Proved: the byte-level reader (Conn/Reader.v, the framing of receive_packet) produces the
   same frames however the client's byte stream is segmented; and every M2 trace, on every
   schedule (the disturbed ones included), satisfies the monitors of C01/C02/C03/C06/C10
   and never ends in a panic (Props/C01.v ... C10.v, C04.v: the *_bytes theorems). *)
From Passage Require Import Lib.Bytes Codec.VarInt Conn.Types Conn.Prog Conn.Sem1 Conn.Sem2Old Conn.Reader Conn.ReaderProofs
  Conn.Sem2Witness Conn.SendQueue Conn.SendQueueProofs.
Import OldM2.

(* feeding the reader piecewise is feeding it the concatenation *)
Theorem C08_reader_monoid : forall max a st b,
  feed max st (a ++ b) =
    (fst (feed max (fst (feed max st a)) b), snd (feed max st a) ++ snd (feed max (fst (feed max st a)) b)).
Proof. exact feed_app. Qed.

(* every split of the byte stream into segments (every offset of every frame, one byte at a
   time, whole frames glued together) yields the same frames, errors and final state *)
Theorem C08_segmentation_independent : forall max ss1 ss2 st,
  concat ss1 = concat ss2 -> feed_segs max st ss1 = feed_segs max st ss2.
Proof. exact segmentation_independent. Qed.

(* each input frame is produced exactly once and complete: the reader's output over the
   concatenation of canonically framed messages is exactly those messages *)
Example C08_each_frame_once :
  snd (feed_segs 10000 RIdle [hx "03"; hx "00aa"; hx "bb0205"; hx "7f"])
  = [EvFrame 0 [170; 187]; EvFrame 5 [127]].
Proof. vm_compute. reflexivity. Qed.

(* ---- the known classes, as closed terms ---- *)

(* K1: the same bytes; delivered whole the client is transferred, delivered as 5 + 5 bytes
   around the instant discovery completes the connection ends with an illegal frame length *)
Theorem C08_K1_witness :
  concat (map (fun x => match snd x with Some b => b | None => [] end) k1_whole)
  = concat (map (fun x => match snd x with Some b => b | None => [] end) k1_split)
  /\ last_end (run2 w_o w_cfg w_e k1_whole) = Some OOk
  /\ last_end (run2 w_o w_cfg w_e k1_split) = Some (OErr KIllegalLen)
  /\ last_end (run1 w_o w_cfg w_e (frames_of (cf_max_len w_cfg) k1_split)) = Some OOk.
Proof. vm_compute. repeat split; reflexivity. Qed.

(* K4, deferral: after a frame header declaring 10000 bytes the handler sends no Keep Alive
   and never times the client out, where the frame-level behaviour is Keep Alive + timeout *)
Theorem C08_K4_deferral_witness :
  last_end (run2 w_o w_cfg w_e k4_header) = Some OHang
  /\ sent_ids (run2 w_o w_cfg w_e k4_header) = [5; 1; 2]
  /\ last_end (run1 w_o w_cfg w_e (frames_of (cf_max_len w_cfg) k4_header)) = Some (OErr KMissedKA)
  /\ sent_ids (run1 w_o w_cfg w_e (frames_of (cf_max_len w_cfg) k4_header)) = [5; 1; 2; 4; 2].
Proof. vm_compute. repeat split; reflexivity. Qed.

(* K4, length prefix: a tick between the two bytes of a length prefix discards the first *)
Theorem C08_K4_prefix_witness :
  sent_ids (run2 w_o w_cfg w_e k4_prefix_whole) = [0]
  /\ sent_ids (run2 w_o w_cfg w_e k4_prefix_split) = []
  /\ sent_ids (run1 w_o w_cfg w_e (frames_of (cf_max_len w_cfg) k4_prefix_split)) = [0].
Proof. vm_compute. repeat split; reflexivity. Qed.

Theorem C08_refinement_refuted :
  ~ (forall o cfg e segs, last_end (run2 o cfg e segs) = last_end (run1 o cfg e (frames_of (cf_max_len cfg) segs))).
Proof.
  intros H.
  destruct C08_K1_witness as (_ & _ & H2 & H1).
  pose proof (eq_trans (eq_sym H2) (eq_trans (H w_o w_cfg w_e k1_split) H1)) as E. discriminate E.
Qed.

(* ---- the write side (Conn/SendQueue.v: send_packet's frame queue after the K3 repair) ----
   For every sequence of frames handed to send_packet, every acceptance pattern of the stream
   (refused, partial, whole) and every placement of dropped futures: the bytes on the wire followed
   by the bytes still queued are exactly the frames, in order - nothing is lost, torn or interleaved;
   when the queue has drained the wire is exactly the frames.  The pre-repair write_all is refuted by
   the K3 schedule (3 bytes of a Keep Alive accepted, the future dropped, the next packet follows). *)
Theorem C08_frames_intact : forall ops, wire (wrun ops) ++ unsent (wrun ops) = sentlog (wrun ops).
Proof. exact frames_intact. Qed.

Theorem C08_wire_is_prefix : forall ops, exists rest, sentlog (wrun ops) = wire (wrun ops) ++ rest.
Proof. exact wire_is_prefix. Qed.

Theorem C08_drained_complete : forall ops, unsent (wrun ops) = [] -> wire (wrun ops) = sentlog (wrun ops).
Proof. exact drained_complete. Qed.

Theorem C08_old_send_tears :
  o_wire (orun k3_ops) = [9; 4; 0; 2; 11; 5]
  /\ o_log (orun k3_ops) = [9; 4; 0; 0; 0; 0; 0; 0; 0; 7; 2; 11; 5]
  /\ wire (wrun k3_ops) = [9; 4; 0; 0; 0; 0; 0; 0; 0; 7; 2; 11; 5].
Proof. exact old_send_tears. Qed.

Print Assumptions C08_frames_intact.
Print Assumptions C08_wire_is_prefix.
Print Assumptions C08_drained_complete.
Print Assumptions C08_old_send_tears.
Print Assumptions C08_reader_monoid.
Print Assumptions C08_segmentation_independent.
Print Assumptions C08_K1_witness.
Print Assumptions C08_K4_deferral_witness.
Print Assumptions C08_K4_prefix_witness.
Print Assumptions C08_refinement_refuted.
