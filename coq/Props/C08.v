(* C08 - connection behaviour is independent of segmentation and completion timing.
   The full statement - for every schedule the byte-level behaviour (M2, Conn/Sem2.v: the
   model of receive_packet's two phases under tokio's select!) equals the frame-level
   behaviour M1 applied to the reader's output - is FALSE of the faithful model and of the
   code: C08_refinement_refuted, with the witnesses of the known classes K1 (a raced adapter
   call completes inside a frame) and K4 (a keep-alive tick falls due inside a frame).
   Proved: the byte-level reader (Conn/Reader.v, the framing of receive_packet) produces the
   same frames however the client's byte stream is segmented; and every M2 trace, on every
   schedule (the disturbed ones included), satisfies the monitors of C01/C02/C03/C06/C10
   and never ends in a panic (Props/C01.v ... C10.v, C04.v: the *_bytes theorems). *)
From Passage Require Import Lib.Bytes Codec.VarInt Conn.Types Conn.Prog Conn.Sem1 Conn.Sem2 Conn.Reader Conn.ReaderProofs
  Conn.Sem2Witness Conn.RefineDefs Conn.RefineProofs Conn.RefineCalmProofs Conn.SendQueue Conn.SendQueueProofs.

(* feeding the reader piecewise is feeding it the concatenation *)
Theorem C08_reader_monoid : forall max a st b,
  feed max st (a ++ b) =
    (fst (feed max (fst (feed max st a)) b), snd (feed max st a) ++ snd (feed max (fst (feed max st a)) b)).
Proof. exact feed_app. Qed.

(* every split of the byte stream into segments (every offset of every frame, one byte at a
   time, whole frames glued together) yields the same frames, errors and final state *)
Theorem C08_segmentation_independent : forall max ss1 ss2 st,
  concat ss1 = concat ss2 -> feed_segs max st ss1 = feed_segs max st ss2.
Proof. exact segmentation_independent. Qed.

(* each input frame is produced exactly once and complete: the reader's output over the
   concatenation of canonically framed messages is exactly those messages *)
Example C08_each_frame_once :
  snd (feed_segs 10000 RIdle [hx "03"; hx "00aa"; hx "bb0205"; hx "7f"])
  = [EvFrame 0 [170; 187]; EvFrame 5 [127]].
Proof. vm_compute. reflexivity. Qed.

(* ---- the known classes, as closed terms ---- *)

(* K1: the same bytes; delivered whole the client is transferred, delivered as 5 + 5 bytes
   around the instant discovery completes the connection ends with an illegal frame length *)
Theorem C08_K1_witness :
  concat (map (fun x => match snd x with Some b => b | None => [] end) k1_whole)
  = concat (map (fun x => match snd x with Some b => b | None => [] end) k1_split)
  /\ last_end (run2 w_o w_cfg w_e k1_whole) = Some OOk
  /\ last_end (run2 w_o w_cfg w_e k1_split) = Some (OErr KIllegalLen)
  /\ last_end (run1 w_o w_cfg w_e (frames_of (cf_max_len w_cfg) k1_split)) = Some OOk.
Proof. vm_compute. repeat split; reflexivity. Qed.

(* K4, deferral: after a frame header declaring 10000 bytes the handler sends no Keep Alive
   and never times the client out, where the frame-level behaviour is Keep Alive + timeout *)
Theorem C08_K4_deferral_witness :
  last_end (run2 w_o w_cfg w_e k4_header) = Some OHang
  /\ sent_ids (run2 w_o w_cfg w_e k4_header) = [5; 1; 2]
  /\ last_end (run1 w_o w_cfg w_e (frames_of (cf_max_len w_cfg) k4_header)) = Some (OErr KMissedKA)
  /\ sent_ids (run1 w_o w_cfg w_e (frames_of (cf_max_len w_cfg) k4_header)) = [5; 1; 2; 4; 2].
Proof. vm_compute. repeat split; reflexivity. Qed.

(* K4, length prefix: a tick between the two bytes of a length prefix discards the first *)
Theorem C08_K4_prefix_witness :
  sent_ids (run2 w_o w_cfg w_e k4_prefix_whole) = [0]
  /\ sent_ids (run2 w_o w_cfg w_e k4_prefix_split) = []
  /\ sent_ids (run1 w_o w_cfg w_e (frames_of (cf_max_len w_cfg) k4_prefix_split)) = [0].
Proof. vm_compute. repeat split; reflexivity. Qed.

Theorem C08_refinement_refuted :
  ~ (forall o cfg e segs, last_end (run2 o cfg e segs) = last_end (run1 o cfg e (frames_of (cf_max_len cfg) segs))).
Proof.
  intros H.
  destruct C08_K1_witness as (_ & _ & H2 & H1).
  pose proof (eq_trans (eq_sym H2) (eq_trans (H w_o w_cfg w_e k1_split) H1)) as E. discriminate E.
Qed.

(* ---- the positive theorem: outside the classes K1 / K4 the byte level IS the frame level ---- *)

(* On every frame-atomic schedule (each data segment is a concatenation of whole frames:
   Conn/RefineDefs.v [atomic]; no condition on the times, on the configuration, on the
   environment, on the oracles) the byte-level run equals the frame-level run on the reader's
   output: same events, same values, same instants, same final outcome. *)
Theorem C08_refines_atomic : forall o cfg e (s : segs),
  atomic (cf_max_len cfg) s = true ->
  run2 o cfg e s = run1 o cfg e (frames_of (cf_max_len cfg) s).
Proof. exact refines_atomic. Qed.

(* the same for timed byte streams in which every frame arrives at one instant (a frame may
   span several segments of equal time) *)
Theorem C08_refines_astream : forall o cfg e (s : segs),
  astream (cf_max_len cfg) (fst (bytes_of_segs s)) = true ->
  run2 o cfg e s = run1 o cfg e (frames_of (cf_max_len cfg) s).
Proof. exact refines_astream. Qed.

(* every frame is consumed at most once, in order and complete: the frames the byte-level
   handler consumes are a prefix of the frames the reader cuts out of the stream *)
Theorem C08_each_frame_once_atomic : forall o cfg e (s : segs),
  atomic (cf_max_len cfg) s = true ->
  is_prefix (recvs (run2 o cfg e s)) (in_frames (frames_of (cf_max_len cfg) s)).
Proof. exact each_frame_once. Qed.

(* every theorem about frame-level runs transfers to byte-level runs on atomic schedules *)
Theorem C08_transfer_atomic : forall (Q : trace -> Prop) o cfg e,
  (forall ib, Q (run1 o cfg e ib)) ->
  forall s : segs, atomic (cf_max_len cfg) s = true -> Q (run2 o cfg e s).
Proof. exact transfer_atomic. Qed.

(* non-vacuity: the whole-frame K1 schedule is atomic (and ends in a Transfer); its split
   variant, on which the refinement fails, is not *)
Example C08_atomic_nonvacuous :
  atomic (cf_max_len w_cfg) k1_whole = true /\ atomic (cf_max_len w_cfg) k1_split = false
  /\ last_end (run1 w_o w_cfg w_e (frames_of (cf_max_len w_cfg) k1_whole)) = Some OOk.
Proof. vm_compute. repeat split; reflexivity. Qed.

(* ---- arbitrary segmentation, calm timing ----
   [calm o cfg e s] (Conn/RefineDefs.v, decidable): inside every frame of the byte stream the
   arrival times do not decrease and stay in one cell of the tick grid (no multiple of the
   keep-alive period between the first and the last byte: every deadline of the interval is such
   a multiple), the stream ends at a frame boundary, and no race horizon of the run (the instant a
   raced adapter call completes) lies after the first and not after the last byte of a frame.
   Then the byte-level run equals the frame-level run on the reader's output, whatever the
   segmentation. *)
Theorem C08_refines_calm : forall o cfg e (s : segs),
  calm o cfg e s = true ->
  run2 o cfg e s = run1 o cfg e (frames_of (cf_max_len cfg) s).
Proof. exact refines_calm. Qed.

(* the same with the coarser condition read off the frame-level trace: no TRes instant inside a span *)
Theorem C08_refines_calm_tr : forall o cfg e (s : segs),
  calm_tr o cfg e s = true ->
  run2 o cfg e s = run1 o cfg e (frames_of (cf_max_len cfg) s).
Proof. exact refines_calm_tr. Qed.

(* frame-atomic schedules are calm (so C08_refines_atomic is an instance of C08_refines_calm) *)
Theorem C08_atomic_calm : forall o cfg e (s : segs),
  atomic (cf_max_len cfg) s = true -> calm o cfg e s = true.
Proof. exact atomic_calm. Qed.

Theorem C08_each_frame_once_calm : forall o cfg e (s : segs),
  calm o cfg e s = true ->
  is_prefix (recvs (run2 o cfg e s)) (in_frames (frames_of (cf_max_len cfg) s)).
Proof. exact each_frame_once_calm. Qed.

(* non-vacuity: every frame of the K1 login cut after its first byte (inside the length
   prefix), the rest 2 ms later, is calm and not atomic; the K1 / K4 witnesses are not calm *)
Example C08_calm_nonvacuous :
  calm w_o w_cfg w_e (splitall 1 2 k1_whole) = true
  /\ atomic (cf_max_len w_cfg) (splitall 1 2 k1_whole) = false
  /\ last_end (run2 w_o w_cfg w_e (splitall 1 2 k1_whole)) = Some OOk
  /\ calm w_o w_cfg w_e k1_split = false /\ calm w_o w_cfg w_e k4_header = false
  /\ calm w_o w_cfg w_e k4_prefix_split = false.
Proof. vm_compute. repeat split; reflexivity. Qed.

(* ---- the write side (Conn/SendQueue.v: send_packet's frame queue after the K3 repair) ----
   For every sequence of frames handed to send_packet, every acceptance pattern of the stream
   (refused, partial, whole) and every placement of dropped futures: the bytes on the wire followed
   by the bytes still queued are exactly the frames, in order - nothing is lost, torn or interleaved;
   when the queue has drained the wire is exactly the frames.  The pre-repair write_all is refuted by
   the K3 schedule (3 bytes of a Keep Alive accepted, the future dropped, the next packet follows). *)
Theorem C08_frames_intact : forall ops, wire (wrun ops) ++ unsent (wrun ops) = sentlog (wrun ops).
Proof. exact frames_intact. Qed.

Theorem C08_wire_is_prefix : forall ops, exists rest, sentlog (wrun ops) = wire (wrun ops) ++ rest.
Proof. exact wire_is_prefix. Qed.

Theorem C08_drained_complete : forall ops, unsent (wrun ops) = [] -> wire (wrun ops) = sentlog (wrun ops).
Proof. exact drained_complete. Qed.

Theorem C08_old_send_tears :
  o_wire (orun k3_ops) = [9; 4; 0; 2; 11; 5]
  /\ o_log (orun k3_ops) = [9; 4; 0; 0; 0; 0; 0; 0; 0; 7; 2; 11; 5]
  /\ wire (wrun k3_ops) = [9; 4; 0; 0; 0; 0; 0; 0; 0; 7; 2; 11; 5].
Proof. exact old_send_tears. Qed.

Print Assumptions C08_frames_intact.
Print Assumptions C08_wire_is_prefix.
Print Assumptions C08_drained_complete.
Print Assumptions C08_old_send_tears.
Print Assumptions C08_refines_calm.
Print Assumptions C08_refines_calm_tr.
Print Assumptions C08_atomic_calm.
Print Assumptions C08_each_frame_once_calm.
Print Assumptions C08_refines_atomic.
Print Assumptions C08_refines_astream.
Print Assumptions C08_each_frame_once_atomic.
Print Assumptions C08_transfer_atomic.
Print Assumptions C08_reader_monoid.
Print Assumptions C08_segmentation_independent.
Print Assumptions C08_K1_witness.
Print Assumptions C08_K4_deferral_witness.
Print Assumptions C08_K4_prefix_witness.
Print Assumptions C08_refinement_refuted.
