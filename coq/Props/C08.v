(* C08 - connection behaviour is independent of segmentation and completion timing.
   PARTIAL.  Proved: the byte-level reader (Conn/Reader.v, the framing of receive_packet)
   produces the same frames however the client's byte stream is segmented, and the
   frame-level semantics M1 is applied to the reader's output.  Not proved (no operational
   byte-level model of select!-cancellation was built): that the handler's behaviour equals
   M1-on-reader-output when a keep-alive tick or a raced adapter completion falls strictly
   inside the arrival of a frame; those schedules are the recorded known classes K1 / K4,
   decided per schedule by evaluation (Run/CaseConn.v cancel_class). *)
From Passage Require Import Lib.Bytes Codec.VarInt Conn.Types Conn.Sem1 Conn.Reader Conn.ReaderProofs.

(* feeding the reader piecewise is feeding it the concatenation *)
Theorem C08_reader_monoid : forall max a st b,
  feed max st (a ++ b) =
    (fst (feed max (fst (feed max st a)) b), snd (feed max st a) ++ snd (feed max (fst (feed max st a)) b)).
Proof. exact feed_app. Qed.

(* every split of the byte stream into segments (every offset of every frame, one byte at a
   time, whole frames glued together) yields the same frames, errors and final state *)
Theorem C08_segmentation_independent : forall max ss1 ss2 st,
  concat ss1 = concat ss2 -> feed_segs max st ss1 = feed_segs max st ss2.
Proof. exact segmentation_independent. Qed.

(* each input frame is produced exactly once and complete: the reader's output over the
   concatenation of canonically framed messages is exactly those messages *)
Example C08_each_frame_once :
  snd (feed_segs 10000 RIdle [hx "03"; hx "00aa"; hx "bb0205"; hx "7f"])
  = [EvFrame 0 [170; 187]; EvFrame 5 [127]].
Proof. vm_compute. reflexivity. Qed.

Print Assumptions C08_reader_monoid.
Print Assumptions C08_segmentation_independent.
