(* C13: per-address rate limiting is bounded, fair between addresses and self-cleaning.
   Pinned statements; the proofs are in Limiter/LimiterProofs.v (F32Proofs.v for binary32).
   good_cfg c  :=  1 <= limit c <= 2^24  /\  1 <= dur c <= 2^24 * 10^9   (dur in nanoseconds)
   Histories are lists of (key, time in ns) with non-decreasing times, of any length. *)
From Passage Require Import Lib.Bytes Limiter.F32 Limiter.Bucket Limiter.Limiter
  Limiter.F32Proofs Limiter.LimiterProofs.

(* The decisions taken for key k in a multi-key history are exactly the decisions of the
   one-key machine on k's own attempts: other keys and the cleanup are invisible.
   Needs no arithmetic hypothesis at all (any limit, any duration > 0). *)
Theorem C13_independent : forall (c : cfg) (t0 : Z) (h : list (Z * Z)) (k : Z),
  0 < dur c -> hist_sorted_from t0 h ->
  decisions_for k c (linit t0) h = key_run c None (attempts_of k h)
  /\ decisions_for k c (linit t0) h
     = map (fun x => fst (snd x)) (filter (fun x => fst (fst x) =? k) (combine h (lrun c (linit t0) h))).
Proof. intros c t0 h k D Hs. split; [apply independent; assumption | apply decisions_for_lrun]. Qed.
Print Assumptions C13_independent.

(* `current` holds exactly the number of admissions counted in the current window and `last`
   the number counted in the window before (0 if that window started two durations or more
   before the current one, or never); both are integers in [0, limit] *)
Theorem C13_counters : forall (c : cfg) (t0 : Z) (ts : list Z),
  good_cfg c -> sorted_from t0 ts ->
  let tr := key_trace c None ts in
  match key_final c None ts with
  | None => ts = []
  | Some b =>
      current b = of_Z (adm (window b) tr) /\ 0 <= adm (window b) tr <= limit c
      /\ exists lp, last b = of_Z lp /\ 0 <= lp <= limit c
           /\ (lp = 0 \/ exists w', w' + dur c <= window b < w' + 2 * dur c /\ lp = adm w' tr)
  end.
Proof. intros c t0 ts G Hs. exact (counters_exact c G ts t0 Hs). Qed.
Print Assumptions C13_counters.

(* at most `limit` admissions are counted in any one window (between two consecutive window
   starts), window starts are at least one duration apart, and every attempt lies in
   [its window start, its window start + duration); the trace is the one of the limiter's own
   decisions for that key *)
Theorem C13_window : forall (c : cfg) (t0 : Z) (h : list (Z * Z)) (k : Z),
  good_cfg c -> hist_sorted_from t0 h ->
  let tr := key_trace c None (attempts_of k h) in
  map ev_ok tr = decisions_for k c (linit t0) h
  /\ (forall w, adm w tr <= limit c)
  /\ (forall e e', In e tr -> In e' tr ->
        ev_w e = ev_w e' \/ ev_w e + dur c <= ev_w e' \/ ev_w e' + dur c <= ev_w e)
  /\ (forall e, In e tr -> ev_w e <= ev_t e < ev_w e + dur c).
Proof.
  intros c t0 h k G Hs tr. pose proof (attempts_sorted k t0 h Hs) as Hso.
  split; [unfold tr; rewrite <- key_run_trace; symmetry; apply independent; [apply good_Dpos|]; assumption|].
  destruct (trace_facts c G _ t0 Hso) as (A & B & C). auto.
Qed.
Print Assumptions C13_window.

(* at most 2 * limit admissions of one key in any closed interval of length `duration` *)
Theorem C13_two_windows : forall (c : cfg) (t0 : Z) (h : list (Z * Z)) (k a : Z),
  good_cfg c -> hist_sorted_from t0 h ->
  count_adm a (a + dur c) (attempts_of k h) (decisions_for k c (linit t0) h) <= 2 * limit c.
Proof. intros c t0 h k a G Hs. apply two_windows_limiter; assumption. Qed.
Print Assumptions C13_two_windows.

(* a rejected attempt leaves the cleanup time and every other key untouched, stores for its
   own key exactly the rolled bucket (the roll depends on the time only and counts nothing),
   and is idempotent: repeating it at the same instant changes nothing *)
Theorem C13_reject_free : forall (c : cfg) (st st' : lstate) (k t : Z),
  0 < dur c -> enqueue c st k t = (st', false) ->
  last_cleanup st' = last_cleanup st
  /\ (forall k', k' <> k -> lookup k' (buckets st') = lookup k' (buckets st))
  /\ lookup k (buckets st') =
       Some (roll c (match lookup k (buckets st) with Some b => b | None => fresh t end) t)
  /\ enqueue c st' k t = (st', false).
Proof. intros c st st' k t D E. exact (reject_free c D st k t st' E). Qed.
Print Assumptions C13_reject_free.

(* a key that made no attempt during the last 2 * duration (or never) is admitted, whatever
   the other keys did *)
Theorem C13_idle_readmitted : forall (c : cfg) (t0 : Z) (h1 : list (Z * Z)) (k t : Z),
  good_cfg c -> hist_sorted_from t0 (h1 ++ [(k, t)]) ->
  (forall t', In (k, t') h1 -> t' + 2 * dur c <= t) ->
  snd (enqueue c (lfinal c (linit t0) h1) k t) = true.
Proof. intros c t0 h1 k t G Hs Hi. apply idle_readmitted; assumption. Qed.
Print Assumptions C13_idle_readmitted.

(* after every ADMITTED attempt at time t every tracked key made an attempt (the one that
   started its current window) at a time in (t - 4 * duration, t].  Any limit, any duration > 0.
   The bound is tight (tracked_tight) and does not hold after rejected attempts
   (tracked_stale_after_reject): the cleanup runs on admitted attempts only. *)
Theorem C13_tracked : forall (c : cfg) (t0 : Z) (h1 : list (Z * Z)) (k t : Z),
  0 < dur c -> hist_sorted_from t0 (h1 ++ [(k, t)]) ->
  let st := lfinal c (linit t0) h1 in
  snd (enqueue c st k t) = true ->
  forall k', In k' (tracked (fst (enqueue c st k t))) ->
  exists t', In (k', t') (h1 ++ [(k, t)]) /\ t - 4 * dur c < t' <= t.
Proof. intros c t0 h1 k t D Hs. exact (tracked_recent c D t0 h1 k t Hs). Qed.
Print Assumptions C13_tracked.

(* known finding: with limit = 2^24 + 2 and current = 2^24 every further attempt at that
   instant is admitted and leaves current = 2^24: the limiter admits without bound *)
Theorem C13_saturates : forall n : nat,
  key_run (Cfg 16777218 10000000000) (Some (Bk 0 fzero (of_Z 16777216))) (repeat 0 n) = repeat true n.
Proof. exact saturates. Qed.
Print Assumptions C13_saturates.
