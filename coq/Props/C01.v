(* C01 - pinned statements.  The monitor (automaton of Conn/Order.v + check chk_c01 of
   Conn/Checks.v) accepts EVERY trace of the connection handler's model: for every
   configuration, every behaviour of the modelled third-party code (RSA, serde), every
   adapter result and latency, every inbox of client frames and every timing. *)
From Passage Require Import Lib.Bytes Codec.Desc Gen.PacketsGen Conn.Types Conn.Prog Conn.Sem1 Conn.Sem2
  Conn.Monitor Conn.MonitorProofs Conn.Monitor2Proofs Conn.Order Conn.OrderProofs Conn.Checks Conn.Walk_C01 Conn.HistoryProofs Conn.C01Corollaries.

Theorem C01_walk : forall o cfg, safe (step_with (chk_c01 o cfg)) m_init (listen o cfg).
Proof. exact listen_c01_safe. Qed.

Theorem C01_accepts : forall o cfg e ib,
  accepts (step_with (chk_c01 o cfg)) m_init (untime (run1 o cfg e ib)) = true.
Proof. intros. apply ok_accepts. apply c01_accepts. Qed.

(* every event of every trace passed the order automaton and this property's check in the
   state reached by the events before it *)
Theorem C01_every_event_checked : forall o cfg e ib pre ev post,
  untime (run1 o cfg e ib) = pre ++ ev :: post ->
  exists st, run (step_with (chk_c01 o cfg)) m_init pre = Some st /\
    (internal_at (q st) ev = true \/ exists q', delta (q st) ev = Some q' /\ (chk_c01 o cfg) st ev = true).
Proof. intros o cfg e ib pre ev post H. eapply accepted_event_checked; [apply c01_accepts | exact H]. Qed.

(* In plain terms.  Login Success is only ever sent after, on this connection, encryption was
   switched on with the secret that came encrypted to the server key together with the verify
   token issued here, and after either the authentication service returned a profile (client
   told to authenticate) or a cookie was accepted (client not told to); the identity in the
   packet is that profile's / that cookie's. *)
Theorem C01_login_success_guarded : forall o cfg e ib pre u n x post,
  untime (run1 o cfg e ib) = pre ++ TSend login_cb_LoginSuccessPacket [VZ u; VB n; x] :: post ->
  exists st st1 ss,
    run (step_with (chk_c01 o cfg)) m_init pre = Some st
    /\ user_is o cfg (h st) n u = true
    /\ reach (chk_c01 o cfg) st1
    /\ token_verified o (h st1) = Some ss
    /\ (exists newer, h st = newer ++ TEnc ss :: h st1)
    /\ match sent_flag (h st1) with
       | Some true => exists pn pu pp, res_of_auth (h st1) = Some (RProfile pn pu pp)
       | Some false => exists c, cookie_accepted o cfg (h st1) = Some c
       | None => False
       end.
Proof. intros o cfg e ib. exact (login_success_guarded o cfg _ (c01_accepts o cfg e ib)). Qed.

(* The authentication service is only ever asked with the shared secret of this connection,
   the server's public key, the effective client address and the name the client claimed. *)
Theorem C01_auth_call_guarded : forall o cfg e ib pre cl host port proto n u secret pk post,
  untime (run1 o cfg e ib) = pre ++ TCall (CAuth cl host port proto n u secret pk) :: post ->
  exists st ss cn cu,
    run (step_with (chk_c01 o cfg)) m_init pre = Some st
    /\ token_verified o (h st) = Some ss /\ secret = ss
    /\ pk = cf_pubkey cfg /\ sa_eqb cl (cf_client cfg) = true
    /\ claimed (h st) = Some (cn, cu) /\ n = cn /\ u = cu.
Proof. intros o cfg e ib. exact (auth_call_guarded o cfg _ (c01_accepts o cfg e ib)). Qed.

(* ---- the same at byte level (M2): for every timed byte stream the client can send, however
   it is segmented and wherever keep-alive ticks and adapter completions fall - including the
   schedules on which the handler drops a partly read frame (known classes K1 / K4 of C08). *)
Lemma c01_accepts2 : forall o cfg e segs, ok (step_with (chk_c01 o cfg)) m_init (untime (run2 o cfg e segs)).
Proof. intros. unfold run2. apply safe_sound2. apply listen_c01_safe. Qed.

Theorem C01_accepts_bytes : forall o cfg e segs,
  accepts (step_with (chk_c01 o cfg)) m_init (untime (run2 o cfg e segs)) = true.
Proof. intros. apply ok_accepts. apply c01_accepts2. Qed.

Theorem C01_login_success_guarded_bytes : forall o cfg e segs pre u n x post,
  untime (run2 o cfg e segs) = pre ++ TSend login_cb_LoginSuccessPacket [VZ u; VB n; x] :: post ->
  exists st st1 ss,
    run (step_with (chk_c01 o cfg)) m_init pre = Some st
    /\ user_is o cfg (h st) n u = true
    /\ reach (chk_c01 o cfg) st1
    /\ token_verified o (h st1) = Some ss
    /\ (exists newer, h st = newer ++ TEnc ss :: h st1)
    /\ match sent_flag (h st1) with
       | Some true => exists pn pu pp, res_of_auth (h st1) = Some (RProfile pn pu pp)
       | Some false => exists c, cookie_accepted o cfg (h st1) = Some c
       | None => False
       end.
Proof. intros o cfg e segs. exact (login_success_guarded o cfg _ (c01_accepts2 o cfg e segs)). Qed.

Theorem C01_auth_call_guarded_bytes : forall o cfg e segs pre cl host port proto n u secret pk post,
  untime (run2 o cfg e segs) = pre ++ TCall (CAuth cl host port proto n u secret pk) :: post ->
  exists st ss cn cu,
    run (step_with (chk_c01 o cfg)) m_init pre = Some st
    /\ token_verified o (h st) = Some ss /\ secret = ss
    /\ pk = cf_pubkey cfg /\ sa_eqb cl (cf_client cfg) = true
    /\ claimed (h st) = Some (cn, cu) /\ n = cn /\ u = cu.
Proof. intros o cfg e segs. exact (auth_call_guarded o cfg _ (c01_accepts2 o cfg e segs)). Qed.

Print Assumptions C01_walk.
Print Assumptions C01_login_success_guarded.
Print Assumptions C01_auth_call_guarded.
Print Assumptions C01_accepts.
Print Assumptions C01_every_event_checked.
Print Assumptions C01_accepts_bytes.
Print Assumptions C01_login_success_guarded_bytes.
Print Assumptions C01_auth_call_guarded_bytes.

(* ---- M3 (Conn/Sem3.v): the same for EVERY behaviour of the transport (free room following any schedule: writes accepted
   in part, refused, never accepted again), every latency of localize(), every cancellation of a pending write or of a
   pending missed-keep-alive verdict by the race.  Proofs in Conn/Sem3Proofs.v. ---- *)
From Passage Require Import Lib.Bytes Codec.Desc Gen.PacketsGen Conn.Types Conn.Prog Conn.Sem1 Conn.Sem2 Conn.Sem3 Conn.Monitor Conn.Order Conn.Checks Conn.Switch Conn.Sem3Proofs.

Theorem C01_backpressure : forall o cfg e encf loclat cap sch s,
  ok (step_with (chk_c01 o cfg)) m_init (untime (trace_of (run3 o cfg e encf loclat cap sch s))).
Proof. exact run3_c01_ok. Qed.

Print Assumptions C01_backpressure.
