(* LibIp - library tie: Rust's core::net text form of IP / socket addresses
   (Lib/IpText.v).  Pinned statements, `exact`, and Print Assumptions only. *)
From Passage Require Import Lib.Bytes Lib.Utf8 Lib.IpText Lib.IpTextProofs.

Theorem LibIp_parse_show_v4 : forall a b c d,
  0 <= a < 256 -> 0 <= b < 256 -> 0 <= c < 256 -> 0 <= d < 256 ->
  parse_ip (show_ip (V4 a b c d)) = Some (V4 a b c d).
Proof. exact parse_ip_show_v4. Qed.

Theorem LibIp_parse_show_v6 : forall segs,
  wf_ip (V6 segs) = true -> parse_ip (show_ip (V6 segs)) = Some (V6 segs).
Proof. exact parse_ip_show_v6. Qed.

Theorem LibIp_parse_show : forall a, wf_ip a = true -> parse_ip (show_ip a) = Some a.
Proof. exact parse_ip_show. Qed.

Theorem LibIp_show_inj : forall a b,
  wf_ip a = true -> wf_ip b = true -> show_ip a = show_ip b -> a = b.
Proof. exact show_ip_inj. Qed.

Theorem LibIp_sockaddr_parse_show : forall a p,
  wf_ip a = true -> 0 <= p < 65536 -> parse_sockaddr (show_sockaddr (a, p)) = Some (a, p).
Proof. exact parse_sockaddr_show. Qed.

Theorem LibIp_sockaddr_sc_parse_show : forall a port scope,
  wf_ip a = true -> 0 <= port < 65536 -> 0 <= scope < 4294967296 ->
  parse_sockaddr_sc (show_sockaddr_sc a port scope)
  = Some (a, port, match a with V4 _ _ _ _ => 0 | V6 _ => scope end).
Proof. exact parse_sockaddr_sc_show. Qed.

Theorem LibIp_sockaddr_show_inj : forall a p b q,
  wf_ip a = true -> 0 <= p < 65536 -> wf_ip b = true -> 0 <= q < 65536 ->
  show_sockaddr (a, p) = show_sockaddr (b, q) -> (a, p) = (b, q).
Proof. exact show_sockaddr_inj. Qed.

Theorem LibIp_show_shape : forall a, wf_ip a = true ->
  Forall ipchar (show_ip a) /\ (length (show_ip a) <= 39)%nat.
Proof. exact show_ip_shape. Qed.

Theorem LibIp_show_utf8 : forall a, wf_ip a = true -> utf8_valid (show_ip a) = true.
Proof. exact show_ip_utf8. Qed.

Theorem LibIp_parse_dec_show : forall v, 0 <= v < 10 ^ 10 -> parse_dec (show_dec v) = Some v.
Proof. exact parse_dec_show. Qed.

Print Assumptions LibIp_parse_show_v4.
Print Assumptions LibIp_parse_show_v6.
Print Assumptions LibIp_parse_show.
Print Assumptions LibIp_show_inj.
Print Assumptions LibIp_sockaddr_parse_show.
Print Assumptions LibIp_sockaddr_sc_parse_show.
Print Assumptions LibIp_sockaddr_show_inj.
Print Assumptions LibIp_show_shape.
Print Assumptions LibIp_show_utf8.
Print Assumptions LibIp_parse_dec_show.
