(* C19 - Targets cross the gRPC adapter boundary unchanged.
   Pinned statements, `exact`, and Print Assumptions only. *)
From Coq Require Import Permutation.
From Passage Require Import Lib.Bytes Lib.IpText Lib.IpTextProofs Adapters.Grpc Adapters.GrpcProofs.

(* A target sent by the router and read back is the same target: identifier, IPv4 or IPv6
   address, port and metadata (uses IpTextProofs.parse_ip_show, so it covers every IPv6
   address in the text form `to_string()` produces). *)
Theorem C19_roundtrip : forall t, wf_target t ->
  exists t', from_wire (to_wire t) = GOk t' /\ target_equiv t' t.
Proof. exact roundtrip. Qed.

(* The same for whatever order the sender's HashMap iterates in. *)
Theorem C19_roundtrip_any_order : forall t w, wf_target t -> wire_of t w ->
  exists t', from_wire w = GOk t' /\ target_equiv t' t.
Proof. exact roundtrip_any_order. Qed.

(* Acceptance is exact for every textual form of the host: the router's target has the
   wire identifier, the address the host text denotes, the wire port, and for every key
   the value of the LAST wire entry with that key (HashMap collect). *)
Theorem C19_accept_exact : forall w t, from_wire w = GOk t ->
  exists h p, w_addr w = Some (h, p) /\ parse_ip h = Some (r_ip t) /\ p <= 65535 /\ r_port t = p /\
              r_id t = w_id w /\ (forall k, lookup k (r_meta t) = lookup k (rev (w_meta w))) /\
              NoDup (map fst (r_meta t)).
Proof.
  intros w t H. apply from_wire_ok in H. destruct H as (h & p & Ha & Hi & Hp & Hport & Hid & Hm).
  exists h, p. repeat split; try assumption.
  - intros k. rewrite Hm. apply collect_lookup.
  - rewrite Hm. apply collect_nodup.
Qed.

Theorem C19_bad_port : forall w h p, w_addr w = Some (h, p) -> 65535 < p -> exists e, from_wire w = GErr e.
Proof. intros w h p H L. eexists. apply (from_wire_bad_port w h p H L). Qed.

Theorem C19_bad_host : forall w h p, w_addr w = Some (h, p) -> parse_ip h = None -> from_wire w = GErr EHost.
Proof. exact from_wire_bad_host. Qed.

Theorem C19_missing : forall w, w_addr w = None -> from_wire w = GErr EMissing.
Proof. exact from_wire_missing. Qed.

(* errors arise exactly from a missing address, a bad host, or a port above 65535 *)
Theorem C19_errors_exact : forall w e, from_wire w = GErr e <->
  (w_addr w = None /\ e = EMissing) \/
  (exists h p, w_addr w = Some (h, p) /\ parse_ip h = None /\ e = EHost) \/
  (exists h p, w_addr w = Some (h, p) /\ parse_ip h <> None /\ 65535 < p /\ e = EPort).
Proof. exact from_wire_err. Qed.

(* discover(): the list succeeds iff every element does, in the same order and number;
   otherwise the first failing element decides the error *)
Theorem C19_list : forall ws,
  (forall ts, from_wire_list ws = GOk ts <-> Forall2 (fun w t => from_wire w = GOk t) ws ts) /\
  (forall ts, from_wire_list ws = GOk ts -> length ts = length ws) /\
  (forall e, from_wire_list ws = GErr e <->
     exists pre w post, ws = pre ++ w :: post /\ (exists ts, from_wire_list pre = GOk ts) /\ from_wire w = GErr e).
Proof.
  intros ws. split; [intros ts; apply from_wire_list_ok|].
  split; [intros ts; apply from_wire_list_length | intros e; apply from_wire_list_err].
Qed.

(* select(): the request carries exactly the arguments ... *)
Theorem C19_request : forall s,
  q_client (build_request s) = Some (show_ip (s_cip s), s_cport s) /\
  q_server (build_request s) = Some (s_host s, s_sport s) /\
  q_proto (build_request s) = s_proto s mod 2 ^ 64 /\
  q_user (build_request s) = s_user s /\
  q_uid (build_request s) = show_uuid (s_uid s) /\
  q_targets (build_request s) = map to_wire (s_targets s).
Proof. exact request_fields. Qed.

(* ... and nothing is lost in their encoding: every argument can be recovered from it *)
Theorem C19_request_lossless : forall s, wf_selin s ->
  (exists h, q_client (build_request s) = Some (h, s_cport s) /\ parse_ip h = Some (s_cip s)) /\
  q_server (build_request s) = Some (s_host s, s_sport s) /\
  0 <= q_proto (build_request s) < 2 ^ 64 /\ wrap64 (q_proto (build_request s)) = s_proto s /\
  q_user (build_request s) = s_user s /\
  (forall u, 0 <= u < 2 ^ 128 -> show_uuid u = q_uid (build_request s) -> u = s_uid s) /\
  from_wire_list (q_targets (build_request s)) = GOk (s_targets s).
Proof. exact request_lossless. Qed.

(* a strategy service that echoes a candidate as it received it hands that candidate back *)
Theorem C19_select_echo : forall s t, wf_selin s -> In t (s_targets s) ->
  In (to_wire t) (q_targets (build_request s)) /\ select_result (Some (to_wire t)) = GOk (Some t).
Proof. exact select_echo. Qed.

(* the code before the fix: an IPv6 target the router itself sent is rejected on the way back *)
Theorem C19_old_refuted : exists t, wf_target t /\ (exists s, r_ip t = V6 s) /\
  from_wire_old (to_wire t) = GErr EHost /\ from_wire (to_wire t) = GOk t.
Proof. exact old_refuted. Qed.

Print Assumptions C19_roundtrip.
Print Assumptions C19_roundtrip_any_order.
Print Assumptions C19_accept_exact.
Print Assumptions C19_bad_port.
Print Assumptions C19_bad_host.
Print Assumptions C19_missing.
Print Assumptions C19_errors_exact.
Print Assumptions C19_list.
Print Assumptions C19_request.
Print Assumptions C19_request_lossless.
Print Assumptions C19_select_echo.
Print Assumptions C19_old_refuted.
