(* C04, memory: the largest buffer a packet decoder reserves or fills while decoding, as a
   function of the description and the input.  Mirrors passage-packets/src/reader.rs after
   the C04 repair:
     read_bytes / read_string : `Vec::new()` filled through `take(len).read_to_end` - the buffer
                                only ever holds bytes that really arrived: min(len, remaining);
                                a negative length reserves nothing;
     read_text_component      : tag 0x08 -> `vec![0; len]` with `len : u16` RESERVED AHEAD of
                                the data (at most 65535 bytes whatever the input);
     every other primitive    : a fixed array of at most 16 bytes on the stack.
   Definitions only. *)
From Passage Require Import Lib.Bytes Lib.Utf8 Codec.VarInt Codec.Desc.

Section Mem.
  Variable vi vl : nat.

  Definition mem_bytes (bs : bytes) : Z :=
    match read_varint vi bs with
    | Ok len r => if len <? 0 then 0 else Z.min len (Z.of_nat (length r))
    | Er _ => 0
    end.

  Definition mem_text (bs : bytes) : Z :=
    match read_u8 bs with
    | Ok tag r => if tag =? 8 then match read_be 2 r with Ok len _ => len | Er _ => 0 end
                  else Z.of_nat (length bs)     (* any other tag: the rest of the body is read into one buffer (read_to_end) *)
    | Er _ => 0
    end.

  Fixpoint mem_field (k : fk) (bs : bytes) : Z :=
    match k with
    | KString | KBytes | KBytesN _ => mem_bytes bs
    | KText => mem_text bs
    | KOpt k' => match read_bool bs with Ok true r => mem_field k' r | _ => 0 end
    | _ => 0
    end.

  (* the largest reservation over the whole packet body (decoding stops at the first error) *)
  Fixpoint mem_dec (ds : list fk) (bs : bytes) : Z :=
    match ds with
    | [] => 0
    | d :: ds' => Z.max (mem_field d bs)
                        (match dec_field vi vl d bs with Ok _ r => mem_dec ds' r | Er _ => 0 end)
    end.
End Mem.
