(* decode (encode v ++ r) = (v, r) for every field kind and every packet description,
   for all values within protocol limits, provided the VarInt/VarLong readers run at
   least 5 / 10 iterations. *)
From Passage Require Import Lib.Bytes Lib.Utf8 Spec.Leb128 Codec.VarInt Codec.VarIntProofs Codec.Desc.

Lemma some_inj {A} (x y : A) : Some x = Some y -> x = y.
Proof. congruence. Qed.

Section Proofs.
  Variable vi vl : nat.
  Hypothesis Hvi : (5 <= vi)%nat.
  Hypothesis Hvl : (10 <= vl)%nat.

  Local Notation read_varint := (read_varint vi).
  Local Notation read_varlong := (read_varlong vl).

  Lemma read_varint_write v r : in_i32 v -> read_varint (write_varint v ++ r) = Ok v r.
  Proof. apply varint_roundtrip; assumption. Qed.
  Lemma read_varlong_write v r : in_i64 v -> read_varlong (write_varlong v ++ r) = Ok v r.
  Proof. apply varlong_roundtrip; assumption. Qed.

  Lemma wrap32_small z : in_i32 z -> wrap32 z = z.
  Proof.
    unfold in_i32, wrap32, wrap_s. change (32 - 1) with 31. intros H.
    destruct (Z.ltb_spec (z mod 2 ^ 32) (2 ^ 31)); lia.
  Qed.

  Lemma read_bytes_write s r : Z.of_nat (length s) < 2 ^ 31 ->
    read_bytes vi (write_bytes s ++ r) = Ok s r.
  Proof.
    intros Hl. unfold read_bytes, write_bytes. rewrite <- app_assoc.
    rewrite wrap32_small by (unfold in_i32; lia).
    rewrite read_varint_write by (unfold in_i32; lia). cbn [bind].
    destruct (Z.ltb_spec (Z.of_nat (length s)) 0); [lia|].
    rewrite app_length.
    destruct (Z.ltb_spec (Z.of_nat (length s + length r)) (Z.of_nat (length s))); [lia|].
    rewrite Nat2Z.id, take_n_app. reflexivity.
  Qed.

  Lemma read_be_enc n v r : 0 <= v < 256 ^ Z.of_nat n -> read_be n (be_enc n v ++ r) = Ok v r.
  Proof.
    intros H. unfold read_be.
    rewrite <- (be_enc_length n v) at 1. rewrite take_n_app, be_dec_enc by assumption. reflexivity.
  Qed.

  Lemma read_be_enc_mod n v r :
    read_be n (be_enc n v ++ r) = Ok (v mod 256 ^ Z.of_nat n) r.
  Proof.
    unfold read_be.
    rewrite <- (be_enc_length n v) at 1. rewrite take_n_app. f_equal.
    unfold be_dec. rewrite <- (app_nil_r (be_enc n v)), be_dec_acc_enc. cbn [be_dec_acc]. lia.
  Qed.

  Lemma enum_ok_from_nth from : forall tos i0 i o,
    enum_ok_from i0 tos from = true -> nth_error tos i = Some o ->
    in_i32 o /\ assoc o from = Some (Z.of_nat (i0 + i)).
  Proof.
    induction tos as [|o' tos IH]; intros i0 i o H Hn; [destruct i; discriminate|].
    cbn [enum_ok_from] in H.
    apply andb_true_iff in H as [H H3]. apply andb_true_iff in H as [H H2].
    destruct i as [|i]; cbn [nth_error] in Hn.
    - inversion Hn; subst o'. split; [unfold in_i32; lia|].
      destruct (assoc o from) as [j|]; [|discriminate]. f_equal. lia.
    - destruct (IH (S i0) i o H3 Hn) as [A B]. split; [exact A|]. rewrite B. f_equal. lia.
  Qed.

  Lemma dec_enc_field : forall k v b r, kind_ok k = true -> wf_field k v = true ->
    enc_field k v = Some b -> dec_field vi vl k (b ++ r) = Ok v r.
  Proof.
    induction k; intros v b r Hk Hw He; destruct v; try discriminate;
      cbn [enc_field wf_field dec_field] in *.
    - (* KVarInt *) apply some_inj in He; subst. rewrite read_varint_write by (unfold in_i32; lia). reflexivity.
    - apply some_inj in He; subst. rewrite read_varlong_write by (unfold in_i64; lia). reflexivity.
    - (* KString *) apply some_inj in He; subst. apply andb_true_iff in Hw as [Hu Hl].
      unfold read_string. rewrite read_bytes_write by lia. cbn [bind rmap]. rewrite Hu. reflexivity.
    - apply some_inj in He; subst. rewrite read_bytes_write by lia. reflexivity.
    - (* KBytesN *) apply some_inj in He; subst. apply andb_true_iff in Hw as [Hn Hl].
      rewrite read_bytes_write by lia. cbn [bind]. rewrite Hn. reflexivity.
    - (* KU8 *) apply some_inj in He; subst. cbn. rewrite Z.mod_small by lia. reflexivity.
    - (* KI8 *) apply some_inj in He; subst. cbn [app read_u8 rmap]. f_equal. f_equal.
      unfold wrap_s. change (8 - 1) with 7. rewrite Z.mod_mod by lia.
      destruct (Z.ltb_spec (z mod 2 ^ 8) (2 ^ 7)); lia.
    - apply some_inj in He; subst. rewrite read_be_enc by (change (256 ^ Z.of_nat 2) with (2 ^ 16); lia). reflexivity.
    - (* KI32 *) apply some_inj in He; subst. rewrite read_be_enc_mod. cbn [rmap]. f_equal. f_equal.
      change (256 ^ Z.of_nat 4) with (2 ^ 32). apply wrap32_id. unfold in_i32; lia.
    - apply some_inj in He; subst. rewrite read_be_enc by (change (256 ^ Z.of_nat 8) with (2 ^ 64); lia). reflexivity.
    - (* KI64 *) apply some_inj in He; subst. rewrite read_be_enc_mod. cbn [rmap]. f_equal. f_equal.
      change (256 ^ Z.of_nat 8) with (2 ^ 64). apply wrap64_id. unfold in_i64; lia.
    - apply some_inj in He; subst. rewrite read_be_enc by (change (256 ^ Z.of_nat 16) with (2 ^ 128); lia). reflexivity.
    - (* KBool *) apply some_inj in He; subst. destruct b0; reflexivity.
    - (* KEnum *)
      destruct (nth_error (e_to t) (Z.to_nat z)) as [o|] eqn:En; [|discriminate].
      apply some_inj in He; subst. unfold enum_ok in Hk. apply andb_true_iff in Hk as [Hk _].
      destruct (enum_ok_from_nth _ _ 0%nat _ _ Hk En) as [Ho Ha].
      rewrite read_varint_write by assumption. cbn [bind]. rewrite Ha.
      f_equal. f_equal. lia.
    - (* KVarIntU16 *) apply some_inj in He; subst.
      rewrite read_varint_write by (unfold in_i32; lia). cbn [rmap].
      rewrite Z.mod_small by lia. reflexivity.
    - (* KConstVarInt *) apply some_inj in He; subst.
      rewrite read_varint_write by (unfold in_i32; lia). reflexivity.
    - (* KText *)
      apply andb_true_iff in Hw as [Hw Hb]. apply andb_true_iff in Hw as [Hu Hl].
      unfold write_text in He.
      assert (b = 8 :: be_enc 2 (Z.of_nat (length b0)) ++ b0).
      { destruct b0 as [|c b0']; [inversion He; reflexivity|].
        destruct (Z.eq_dec c 123) as [->|Hc]; [discriminate|].
        destruct c as [|p|p]; try (inversion He; reflexivity).
        repeat (destruct p as [p|p|]; try (inversion He; reflexivity)); congruence. }
      subst b. unfold read_text. cbn [app read_u8 bind]. change (8 =? 8) with true. cbv iota.
      rewrite <- app_assoc. rewrite read_be_enc by (change (256 ^ Z.of_nat 2) with (2 ^ 16); lia).
      cbn [bind]. rewrite Nat2Z.id, take_n_app, Hu. reflexivity.
    - (* KOpt *)
      destruct o as [v'|].
      + destruct (enc_field k v') as [b'|] eqn:E'; [|discriminate]. apply some_inj in He; subst.
        cbn [app]. unfold read_bool. cbn [read_u8 rmap bind]. change (1 =? 1) with true. cbv iota.
        rewrite (IHk v' b' r Hk Hw E'). reflexivity.
      + apply some_inj in He; subst. reflexivity.
  Qed.

  Theorem dec_enc : forall ds vs b r, forallb kind_ok ds = true -> wf_fields ds vs = true ->
    enc ds vs = Some b -> dec vi vl ds (b ++ r) = Ok vs r.
  Proof.
    induction ds as [|d ds IH]; intros vs b r Hk Hw He; destruct vs as [|v vs]; try discriminate.
    - apply some_inj in He; subst. reflexivity.
    - cbn [enc wf_fields forallb dec] in *.
      apply andb_true_iff in Hk as [Hk1 Hk2]. apply andb_true_iff in Hw as [Hw1 Hw2].
      destruct (enc_field d v) as [a|] eqn:Ea; [|discriminate].
      destruct (enc ds vs) as [b'|] eqn:Eb; [|discriminate].
      apply some_inj in He; subst. rewrite <- app_assoc.
      rewrite (dec_enc_field d v a (b' ++ r) Hk1 Hw1 Ea). cbn [bind].
      rewrite (IH vs b' r Hk2 Hw2 Eb). reflexivity.
  Qed.

End Proofs.

  (* every well-formed value can be encoded *)
  Lemma enc_field_total : forall k v, wf_field k v = true -> exists b, enc_field k v = Some b.
  Proof.
    induction k; intros v Hw; destruct v; try discriminate; cbn [enc_field wf_field] in *;
      try (eexists; reflexivity).
    - destruct (nth_error (e_to t) (Z.to_nat z)) as [o|] eqn:En; [eexists; reflexivity|].
      apply nth_error_None in En. lia.
    - apply andb_true_iff in Hw as [_ Hb]. unfold write_text.
      destruct b as [|c b']; [eexists; reflexivity|].
      destruct c as [|p|p]; try (eexists; reflexivity).
      repeat (destruct p as [p|p|]; try (eexists; reflexivity)); discriminate.
    - destruct o as [v'|]; [|eexists; reflexivity].
      destruct (IHk v' Hw) as [b ->]. eexists; reflexivity.
  Qed.

  Lemma enc_total : forall ds vs, wf_fields ds vs = true -> exists b, enc ds vs = Some b.
  Proof.
    induction ds as [|d ds IH]; intros [|v vs] Hw; try discriminate; [eexists; reflexivity|].
    cbn [wf_fields enc] in *. apply andb_true_iff in Hw as [H1 H2].
    destruct (enc_field_total d v H1) as [a ->]. destruct (IH vs H2) as [b ->]. eexists; reflexivity.
  Qed.
