(* Field-level model of passage-packets (reader.rs / writer.rs) and a small description
   language for packet bodies.  The per-packet descriptions are GENERATED from the
   Rust sources (PacketsGen.v); this file gives them meaning.  Definitions only. *)
From Passage Require Import Lib.Bytes Lib.Utf8 Codec.VarInt.

(* enum tables as generated from the `From<E> for VarInt` / `TryFrom<VarInt> for E`
   impls: [e_to] lists the ordinal written for variant 0,1,2,... (declaration order),
   [e_from] lists the match arms of the reader: ordinal -> variant index. *)
Record enum_tbl := { e_name : string; e_to : list Z; e_from : list (Z * Z) }.

Fixpoint assoc (k : Z) (l : list (Z * Z)) : option Z :=
  match l with
  | [] => None
  | (a, b) :: r => if a =? k then Some b else assoc k r
  end.

Inductive fk :=
| KVarInt | KVarLong
| KString | KBytes | KBytesN (n : nat)
| KU8 | KI8 | KU16 | KI32 | KU64 | KI64 | KUuid | KBool
| KEnum (t : enum_tbl)
| KVarIntU16            (* written as VarInt::from(u16), read back `as u16` *)
| KConstVarInt (c : Z)  (* a constant written, a VarInt read and ignored *)
| KText                 (* text component *)
| KOpt (k : fk).        (* bool presence flag, then the field if present *)

Inductive fv :=
| VZ (z : Z) | VB (b : bytes) | VBool (b : bool) | VUnit | VOpt (o : option fv).

Section Codec.
  (* loop bounds of read_varint / read_varlong, taken from the source (ConstsGen) *)
  Variable vi vl : nat.

  Definition read_varint := read_varint_n vi.
  Definition read_varlong := read_varlong_n vl.

  Definition read_u8 (bs : bytes) : res Z :=
    match bs with [] => Er EEof | b :: r => Ok b r end.

  Definition read_be (n : nat) (bs : bytes) : res Z :=
    match take_n n bs with Some (a, r) => Ok (be_dec a) r | None => Er EEof end.

  (* read_bytes after the C04 repair: a negative length is an error, and the bytes are
     read through `take(len)` so nothing is allocated ahead of the data. *)
  Definition read_bytes (bs : bytes) : res bytes :=
    bind (read_varint bs) (fun len r =>
      if len <? 0 then Er ELen
      else if Z.of_nat (length r) <? len then Er EEof
      else match take_n (Z.to_nat len) r with
           | Some (a, r') => Ok a r'
           | None => Er EEof
           end).

  Definition read_string (bs : bytes) : res bytes :=
    bind (read_bytes bs) (fun a r => if utf8_valid a then Ok a r else Er EUtf8).

  Definition read_bool (bs : bytes) : res bool := rmap (fun b => b =? 1) (read_u8 bs).

  Definition read_text (bs : bytes) : res bytes :=
    bind (read_u8 bs) (fun tag r =>
      if tag =? 8 then
        bind (read_be 2 r) (fun len r1 =>
          match take_n (Z.to_nat len) r1 with
          | Some (a, r2) => if utf8_valid a then Ok a r2 else Er EUtf8
          | None => Er EEof
          end)
      else Er EUnmodelled).

  Definition write_bytes (b : bytes) : bytes := write_varint (wrap32 (Z.of_nat (length b))) ++ b.
  Definition write_text (s : bytes) : option bytes :=
    match s with
    | 123 :: _ => None     (* '{' : JSON -> NBT through fastnbt, outside the model *)
    | _ => Some (8 :: be_enc 2 (Z.of_nat (length s)) ++ s)
    end.

  Fixpoint enc_field (k : fk) (v : fv) : option bytes :=
    match k, v with
    | KVarInt, VZ z => Some (write_varint z)
    | KVarLong, VZ z => Some (write_varlong z)
    | KString, VB s => Some (write_bytes s)
    | KBytes, VB s => Some (write_bytes s)
    | KBytesN _, VB s => Some (write_bytes s)
    | KU8, VZ z => Some [z mod 256]
    | KI8, VZ z => Some [z mod 256]
    | KU16, VZ z => Some (be_enc 2 z)
    | KI32, VZ z => Some (be_enc 4 z)
    | KU64, VZ z => Some (be_enc 8 z)
    | KI64, VZ z => Some (be_enc 8 z)
    | KUuid, VZ z => Some (be_enc 16 z)
    | KBool, VBool b => Some [if b then 1 else 0]
    | KEnum t, VZ i => match nth_error (e_to t) (Z.to_nat i) with
                       | Some o => Some (write_varint o) | None => None end
    | KVarIntU16, VZ z => Some (write_varint z)
    | KConstVarInt c, VUnit => Some (write_varint c)
    | KText, VB s => write_text s
    | KOpt k', VOpt None => Some [0]
    | KOpt k', VOpt (Some v') => match enc_field k' v' with
                                 | Some b => Some (1 :: b) | None => None end
    | _, _ => None
    end.

  Fixpoint dec_field (k : fk) (bs : bytes) : res fv :=
    match k with
    | KVarInt => rmap VZ (read_varint bs)
    | KVarLong => rmap VZ (read_varlong bs)
    | KString => rmap VB (read_string bs)
    | KBytes => rmap VB (read_bytes bs)
    | KBytesN n => bind (read_bytes bs) (fun a r =>
                     if Nat.eqb (length a) n then Ok (VB a) r else Er EArray)
    | KU8 => rmap VZ (read_u8 bs)
    | KI8 => rmap (fun b => VZ (wrap_s 8 b)) (read_u8 bs)
    | KU16 => rmap VZ (read_be 2 bs)
    | KI32 => rmap (fun z => VZ (wrap32 z)) (read_be 4 bs)
    | KU64 => rmap VZ (read_be 8 bs)
    | KI64 => rmap (fun z => VZ (wrap64 z)) (read_be 8 bs)
    | KUuid => rmap VZ (read_be 16 bs)
    | KBool => rmap VBool (read_bool bs)
    | KEnum t => bind (read_varint bs) (fun o r =>
                   match assoc o (e_from t) with
                   | Some i => Ok (VZ i) r | None => Er EEnum end)
    | KVarIntU16 => rmap (fun z => VZ (z mod 65536)) (read_varint bs)
    | KConstVarInt _ => rmap (fun _ => VUnit) (read_varint bs)
    | KText => rmap VB (read_text bs)
    | KOpt k' => bind (read_bool bs) (fun b r =>
                   if b then rmap (fun v => VOpt (Some v)) (dec_field k' r)
                   else Ok (VOpt None) r)
    end.

  Fixpoint enc (ds : list fk) (vs : list fv) : option bytes :=
    match ds, vs with
    | [], [] => Some []
    | d :: ds', v :: vs' =>
        match enc_field d v, enc ds' vs' with
        | Some a, Some b => Some (a ++ b)
        | _, _ => None
        end
    | _, _ => None
    end.

  Fixpoint dec (ds : list fk) (bs : bytes) : res (list fv) :=
    match ds with
    | [] => Ok [] bs
    | d :: ds' => bind (dec_field d bs) (fun v r => rmap (cons v) (dec ds' r))
    end.
End Codec.

(* values "within protocol limits" for a field kind *)
Fixpoint wf_field (k : fk) (v : fv) : bool :=
  match k, v with
  | KVarInt, VZ z => (- 2 ^ 31 <=? z) && (z <? 2 ^ 31)
  | KVarLong, VZ z => (- 2 ^ 63 <=? z) && (z <? 2 ^ 63)
  | KString, VB s => utf8_valid s && (Z.of_nat (length s) <? 2 ^ 31)
  | KBytes, VB s => Z.of_nat (length s) <? 2 ^ 31
  | KBytesN n, VB s => Nat.eqb (length s) n && (Z.of_nat (length s) <? 2 ^ 31)
  | KU8, VZ z => (0 <=? z) && (z <? 256)
  | KI8, VZ z => (- 128 <=? z) && (z <? 128)
  | KU16, VZ z => (0 <=? z) && (z <? 2 ^ 16)
  | KI32, VZ z => (- 2 ^ 31 <=? z) && (z <? 2 ^ 31)
  | KU64, VZ z => (0 <=? z) && (z <? 2 ^ 64)
  | KI64, VZ z => (- 2 ^ 63 <=? z) && (z <? 2 ^ 63)
  | KUuid, VZ z => (0 <=? z) && (z <? 2 ^ 128)
  | KBool, VBool _ => true
  | KEnum t, VZ i => (0 <=? i) && (i <? Z.of_nat (length (e_to t)))
  | KVarIntU16, VZ z => (0 <=? z) && (z <? 2 ^ 16)
  | KConstVarInt c, VUnit => (- 2 ^ 31 <=? c) && (c <? 2 ^ 31)
  | KText, VB s => utf8_valid s && (Z.of_nat (length s) <? 2 ^ 16)
                   && match s with 123 :: _ => false | _ => true end
  | KOpt k', VOpt None => true
  | KOpt k', VOpt (Some v') => wf_field k' v'
  | _, _ => false
  end.

Fixpoint wf_fields (ds : list fk) (vs : list fv) : bool :=
  match ds, vs with
  | [], [] => true
  | d :: ds', v :: vs' => wf_field d v && wf_fields ds' vs'
  | _, _ => false
  end.

(* an enum table is coherent when reader and writer are inverse on the defined variants,
   every ordinal is a 32-bit value, and the reader accepts nothing else *)
Fixpoint enum_ok_from (i : nat) (tos : list Z) (from : list (Z * Z)) : bool :=
  match tos with
  | [] => true
  | o :: r => (- 2 ^ 31 <=? o) && (o <? 2 ^ 31)
              && match assoc o from with Some j => j =? Z.of_nat i | None => false end
              && enum_ok_from (S i) r from
  end.
Definition enum_ok (t : enum_tbl) : bool :=
  enum_ok_from 0 (e_to t) (e_from t)
  && forallb (fun p => match nth_error (e_to t) (Z.to_nat (snd p)) with
                       | Some o => (o =? fst p) && (0 <=? snd p) | None => false end) (e_from t).

Fixpoint kind_ok (k : fk) : bool :=
  match k with
  | KEnum t => enum_ok t
  | KOpt k' => kind_ok k'
  | _ => true
  end.
