(* Proofs about the VarInt/VarLong model: the writer produces LEB128 of the two's
   complement pattern, and the reader inverts it for EVERY value when it runs the
   number of iterations the protocol needs (5 / 10). *)
From Passage Require Import Lib.Bytes Spec.Leb128 Codec.VarInt.

Lemma wr_S mask f v : wr_var mask (S f) v =
  if (v / 128) mod mask =? 0 then Some [v mod 128]
  else match wr_var mask f ((v / 128) mod mask) with
       | Some r => Some ((v mod 128 + 128) :: r) | None => None end.
Proof. reflexivity. Qed.

Lemma rd_S n i acc b r : rd_var (S n) i acc (b :: r) =
  if b <? 128 then Ok (acc + (b mod 128) * 2 ^ (7 * i)) r
  else rd_var n (i + 1) (acc + (b mod 128) * 2 ^ (7 * i)) r.
Proof. reflexivity. Qed.

(* once the value is a non-negative number below the mask, the masked shift is a plain
   division and the writer is LEB128 *)
Lemma wr_leb mask f : forall u, 128 <= mask -> 0 <= u < mask ->
  0 <= u < 128 ^ Z.of_nat (S f) ->
  wr_var mask (S f) u = Some (leb (S f) u).
Proof.
  induction f as [|f IH]; intros u Hm Hu Hf.
  - change (128 ^ Z.of_nat 1) with 128 in Hf. rewrite wr_S, leb_S.
    rewrite (Z.mod_small (u / 128) mask) by lia.
    destruct (Z.eqb_spec (u / 128) 0) as [E|E]; destruct (Z.ltb_spec u 128); try lia.
    f_equal. f_equal. lia.
  - rewrite wr_S, leb_S.
    rewrite Nat2Z.inj_succ, Z.pow_succ_r in Hf by lia.
    assert (Hq : 0 <= u / 128 < mask) by lia.
    rewrite (Z.mod_small (u / 128) mask) by lia.
    destruct (Z.eqb_spec (u / 128) 0) as [E|E]; destruct (Z.ltb_spec u 128); try lia.
    + f_equal. f_equal. lia.
    + rewrite IH by lia. reflexivity.
Qed.

Lemma wr_top mask f v : 128 <= mask -> 0 < mask ->
  let u := v mod (128 * mask) in
  0 <= u < 128 ^ Z.of_nat (S (S f)) -> mask <= 128 ^ Z.of_nat (S f) ->
  wr_var mask (S (S f)) v = Some (leb (S (S f)) u).
Proof.
  intros Hm Hp u Hu Hmf. rewrite wr_S, leb_S.
  assert (Hu' : u = v mod 128 + 128 * ((v / 128) mod mask)).
  { unfold u. rewrite Z.rem_mul_r by lia. reflexivity. }
  assert (Ha : 0 <= v mod 128 < 128) by (apply Z.mod_pos_bound; lia).
  assert (Hc : 0 <= (v / 128) mod mask < mask) by (apply Z.mod_pos_bound; lia).
  set (a := v mod 128) in *. set (c := (v / 128) mod mask) in *.
  assert (Hb : a = u mod 128) by lia.
  assert (Hq : c = u / 128) by lia.
  rewrite Hq, Hb.
  assert (0 <= u / 128 < mask) by lia.
  destruct (Z.eqb_spec (u / 128) 0) as [E|E]; destruct (Z.ltb_spec u 128); try lia.
  - f_equal. f_equal. lia.
  - rewrite wr_leb by lia. reflexivity.
Qed.

Theorem write_varint_leb v : write_varint_opt v = Some (varint_spec v).
Proof.
  unfold write_varint_opt, varint_spec.
  change (2 ^ 32) with (128 * 2 ^ 25).
  apply (wr_top (2 ^ 25) 3 v); lia.
Qed.

Theorem write_varlong_leb v : write_varlong_opt v = Some (varlong_spec v).
Proof.
  unfold write_varlong_opt, varlong_spec.
  change (2 ^ 64) with (128 * 2 ^ 57).
  apply (wr_top (2 ^ 57) 8 v); lia.
Qed.

Corollary write_varint_eq v : write_varint v = varint_spec v.
Proof. unfold write_varint. rewrite write_varint_leb. reflexivity. Qed.
Corollary write_varlong_eq v : write_varlong v = varlong_spec v.
Proof. unfold write_varlong. rewrite write_varlong_leb. reflexivity. Qed.

(* the reader consumes exactly a LEB128 code and rebuilds the number, provided it is
   allowed at least as many iterations as the code has groups *)
Lemma rd_leb f : forall n i acc u r, (S f <= n)%nat -> 0 <= i -> 0 <= u < 128 ^ Z.of_nat (S f) ->
  rd_var n i acc (leb (S f) u ++ r) = Ok (acc + u * 2 ^ (7 * i)) r.
Proof.
  induction f as [|f IH]; intros n i acc u r Hn Hi Hu.
  - change (128 ^ Z.of_nat 1) with 128 in Hu. destruct n as [|n]; [lia|]. rewrite leb_S.
    destruct (Z.ltb_spec u 128); [|lia].
    cbn [app]. rewrite rd_S.
    destruct (Z.ltb_spec u 128); [|lia]. rewrite Z.mod_small by lia. reflexivity.
  - destruct n as [|n]; [lia|]. rewrite leb_S.
    rewrite Nat2Z.inj_succ, Z.pow_succ_r in Hu by lia.
    destruct (Z.ltb_spec u 128).
    + cbn [app]. rewrite rd_S.
      destruct (Z.ltb_spec u 128); [|lia]. rewrite Z.mod_small by lia. reflexivity.
    + cbn [app]. rewrite rd_S.
      destruct (Z.ltb_spec (u mod 128 + 128) 128); [lia|].
      rewrite IH by lia.
      f_equal.
      replace ((u mod 128 + 128) mod 128) with (u mod 128) by lia.
      replace (7 * (i + 1)) with (7 * i + 7) by lia.
      rewrite Z.pow_add_r by lia. change (2 ^ 7) with 128.
      rewrite (Z.div_mod u 128) at 3 by lia. ring.
Qed.

(* ---- the round trips, for every 32-bit / 64-bit value ---- *)
Theorem varint_roundtrip n v r : (5 <= n)%nat -> in_i32 v ->
  read_varint_n n (write_varint v ++ r) = Ok v r.
Proof.
  intros Hn Hv. rewrite write_varint_eq. unfold read_varint_n, varint_spec.
  rewrite (rd_leb 4) by (try lia; change (128 ^ Z.of_nat 5) with (2 ^ 35);
    assert (0 <= v mod 2 ^ 32 < 2 ^ 32) by (apply Z.mod_pos_bound; lia); lia).
  cbn [rmap]. f_equal. change (7 * 0) with 0. rewrite Z.pow_0_r, Z.mul_1_r, Z.add_0_l.
  apply wrap32_id; assumption.
Qed.

Theorem varlong_roundtrip n v r : (10 <= n)%nat -> in_i64 v ->
  read_varlong_n n (write_varlong v ++ r) = Ok v r.
Proof.
  intros Hn Hv. rewrite write_varlong_eq. unfold read_varlong_n, varlong_spec.
  rewrite (rd_leb 9) by (try lia; change (128 ^ Z.of_nat 10) with (2 ^ 70);
    assert (0 <= v mod 2 ^ 64 < 2 ^ 64) by (apply Z.mod_pos_bound; lia); lia).
  cbn [rmap]. f_equal. change (7 * 0) with 0. rewrite Z.pow_0_r, Z.mul_1_r, Z.add_0_l.
  apply wrap64_id; assumption.
Qed.

(* With only 9 iterations (the loop bound before the repair) the VarLong reader is
   wrong on every negative value: witness -1. *)
Example varlong_9_refuted :
  read_varlong_n 9 (write_varlong (-1)) = Ok 9223372036854775807 [1].
Proof. vm_compute. reflexivity. Qed.

Lemma write_varint_length v : (1 <= length (write_varint v) <= 5)%nat.
Proof. rewrite write_varint_eq. apply varint_spec_length. Qed.
Lemma write_varlong_length v : (1 <= length (write_varlong v) <= 10)%nat.
Proof. rewrite write_varlong_eq. apply varlong_spec_length. Qed.
Lemma write_varint_wf v : wf_bytes (write_varint v).
Proof. rewrite write_varint_eq. apply leb_wf. apply Z.mod_pos_bound. lia. Qed.
Lemma write_varlong_wf v : wf_bytes (write_varlong v).
Proof. rewrite write_varlong_eq. apply leb_wf. apply Z.mod_pos_bound. lia. Qed.
