(* The decoders never reserve more than the bytes they were given, except for the one
   u16-prefixed text component buffer (<= 65535). *)
From Passage Require Import Lib.Bytes Lib.Utf8 Codec.VarInt Codec.Desc Codec.Alloc.

Lemma take_n_len n (l a r : bytes) : take_n n l = Some (a, r) -> length l = (length a + length r)%nat.
Proof. intros H. apply take_n_spec in H as [H _]. subst. apply app_length. Qed.

Lemma rd_var_rest n : forall i acc bs v r, rd_var n i acc bs = Ok v r -> (length r <= length bs)%nat.
Proof.
  induction n as [|n IH]; intros i acc bs v r; cbn [rd_var]; [intros H; inversion H; subst; lia|].
  destruct bs as [|b t]; [discriminate|]. destruct (b <? 128).
  - intros H; inversion H; subst. cbn [length]. lia.
  - intros H. apply IH in H. cbn [length]. lia.
Qed.

Lemma rmap_ok {A B} (f : A -> B) x v r : rmap f x = Ok v r -> exists a, x = Ok a r /\ v = f a.
Proof. destruct x as [a rest|e]; cbn; [|discriminate]. intros H; inversion H; subst. eauto. Qed.

Lemma bind_ok {A B} (x : res A) (k : A -> bytes -> res B) v r :
  bind x k = Ok v r -> exists a rest, x = Ok a rest /\ k a rest = Ok v r.
Proof. destruct x as [a rest|e]; cbn; [|discriminate]. eauto. Qed.

Section MemP.
  Variable vi vl : nat.

  Lemma read_varint_rest bs v r : read_varint vi bs = Ok v r -> (length r <= length bs)%nat.
  Proof. unfold read_varint, read_varint_n. intros H. apply rmap_ok in H as (?x & H & _). eapply rd_var_rest; eauto. Qed.
  Lemma read_varlong_rest bs v r : read_varlong vl bs = Ok v r -> (length r <= length bs)%nat.
  Proof. unfold read_varlong, read_varlong_n. intros H. apply rmap_ok in H as (?x & H & _). eapply rd_var_rest; eauto. Qed.
  Lemma read_u8_rest bs v r : read_u8 bs = Ok v r -> (length r < length bs)%nat.
  Proof. destruct bs; cbn; [discriminate|]. intros H; inversion H; subst. lia. Qed.
  Lemma read_be_rest n bs v r : read_be n bs = Ok v r -> (length r <= length bs)%nat.
  Proof. unfold read_be. destruct (take_n n bs) as [[a r']|] eqn:E; [|discriminate]. intros H; inversion H; subst.
         rewrite (take_n_len _ _ _ _ E). lia. Qed.
  Lemma read_bytes_rest bs v r : read_bytes vi bs = Ok v r -> (length r <= length bs)%nat.
  Proof.
    unfold read_bytes. intros H. apply bind_ok in H as (len & rest & Hv & H). apply read_varint_rest in Hv.
    destruct (len <? 0); [discriminate|]. destruct (Z.of_nat (length rest) <? len); [discriminate|].
    destruct (take_n (Z.to_nat len) rest) as [[a r']|] eqn:E; [|discriminate]. inversion H; subst.
    rewrite (take_n_len _ _ _ _ E) in Hv. lia.
  Qed.
  Lemma read_bool_rest bs v r : read_bool bs = Ok v r -> (length r < length bs)%nat.
  Proof. unfold read_bool. intros H. apply rmap_ok in H as (?x & H & _). eapply read_u8_rest; eauto. Qed.

  Lemma dec_field_rest : forall k bs v r, dec_field vi vl k bs = Ok v r -> (length r <= length bs)%nat.
  Proof.
    induction k; intros bs v r H; cbn [dec_field] in H;
      try (apply rmap_ok in H as (?x & H & _);
           first [ eapply read_varint_rest; eassumption | eapply read_varlong_rest; eassumption
                 | eapply read_bytes_rest; eassumption | eapply read_be_rest; eassumption
                 | (apply read_u8_rest in H; lia) | (apply read_bool_rest in H; lia) | idtac ]).
    - (* KString *) unfold read_string in H. apply bind_ok in H as (b & rest & Hb & H). apply read_bytes_rest in Hb.
      destruct (utf8_valid b); [|discriminate]. inversion H; subst. exact Hb.
    - (* KBytesN *) apply bind_ok in H as (b & rest & Hb & H). apply read_bytes_rest in Hb.
      destruct (Nat.eqb (length b) n); [|discriminate]. inversion H; subst. exact Hb.
    - (* KEnum *) apply bind_ok in H as (o & rest & Hb & H). apply read_varint_rest in Hb.
      destruct (assoc o (e_from t)); [|discriminate]. inversion H; subst. exact Hb.
    - (* KText *) unfold read_text in H. apply bind_ok in H as (tag & r0 & Ht & H). apply read_u8_rest in Ht.
      destruct (tag =? 8); [|discriminate]. apply bind_ok in H as (len & r1 & Hl & H). apply read_be_rest in Hl.
      destruct (take_n (Z.to_nat len) r1) as [[a r2]|] eqn:E; [|discriminate]. destruct (utf8_valid a); [|discriminate].
      inversion H; subst. rewrite (take_n_len _ _ _ _ E) in Hl. lia.
    - (* KOpt *) apply bind_ok in H as (b & rest & Hb & H). apply read_bool_rest in Hb.
      destruct b.
      + apply rmap_ok in H as (?x & H & _). apply IHk in H. lia.
      + inversion H; subst. lia.
  Qed.

  Lemma mem_bytes_bound bs : 0 <= mem_bytes vi bs <= Z.of_nat (length bs).
  Proof.
    unfold mem_bytes. destruct (read_varint vi bs) as [len r|e] eqn:E; [|lia].
    apply read_varint_rest in E. destruct (len <? 0) eqn:Hn; lia.
  Qed.

  Lemma be_dec_2_bound a : length a = 2%nat -> Forall (fun b => 0 <= b < 256) a -> 0 <= be_dec a < 65536.
  Proof.
    destruct a as [|x [|y [|z t]]]; cbn [length]; try discriminate. intros _ H.
    inversion H as [|? ? Hx H1]; subst. inversion H1 as [|? ? Hy _]; subst.
    unfold be_dec. cbn [be_dec_acc]. lia.
  Qed.

  (* the u16 length of a text component is below 2^16 whenever the input consists of bytes *)
  Lemma mem_text_bound bs : Forall (fun b => 0 <= b < 256) bs -> 0 <= mem_text bs <= Z.max (Z.of_nat (length bs)) 65535.
  Proof.
    intros Hb. unfold mem_text. destruct bs as [|tag r]; cbn [read_u8]; [lia|].
    destruct (tag =? 8); [|lia]. unfold read_be. destruct (take_n 2 r) as [[a r']|] eqn:E; [|lia].
    inversion Hb as [|? ? _ Hr]; subst.
    assert (Ha : length a = 2%nat /\ Forall (fun b => 0 <= b < 256) a).
    { destruct r as [|x [|y t]]; cbn in E; try discriminate. inversion E; subst. split; [reflexivity|].
      inversion Hr as [|? ? Hx H1]; subst. inversion H1 as [|? ? Hy _]; subst. constructor; [assumption|]. constructor; [assumption|constructor]. }
    destruct Ha as [Hl Hf]. pose proof (be_dec_2_bound a Hl Hf). lia.
  Qed.

  Lemma mem_field_bound : forall k bs, Forall (fun b => 0 <= b < 256) bs ->
    0 <= mem_field vi k bs <= Z.max (Z.of_nat (length bs)) 65535.
  Proof.
    induction k; intros bs Hb; cbn [mem_field]; try lia;
      try (pose proof (mem_bytes_bound bs); lia).
    - pose proof (mem_text_bound bs Hb). lia.
    - destruct (read_bool bs) as [b r|er] eqn:E; [|lia]. destruct b; [|lia].
      assert (Hr : Forall (fun b => 0 <= b < 256) r /\ (length r < length bs)%nat).
      { unfold read_bool in E. apply rmap_ok in E as (a & E & _). destruct bs as [|x t]; cbn in E; [discriminate|].
        inversion E; subst. inversion Hb; subst. split; [assumption | cbn; lia]. }
      destruct Hr as [Hf Hl]. specialize (IHk r Hf). lia.
  Qed.

  Lemma rd_var_Forall (Q : Z -> Prop) n : forall i acc bs v r, rd_var n i acc bs = Ok v r -> Forall Q bs -> Forall Q r.
  Proof.
    induction n as [|n IH]; intros i acc bs v r; cbn [rd_var]; [intros H Hf; inversion H; subst; assumption|].
    destruct bs as [|b t]; [discriminate|]. intros H Hf. inversion Hf; subst. destruct (b <? 128).
    - inversion H; subst; assumption.
    - eapply IH; eauto.
  Qed.

  Definition suffix (r bs : bytes) : Prop := exists pre, bs = pre ++ r.
  Lemma suffix_refl bs : suffix bs bs. Proof. exists []; reflexivity. Qed.
  Lemma suffix_trans a b c : suffix a b -> suffix b c -> suffix a c.
  Proof. intros [p Hp] [q Hq]. exists (q ++ p). subst. rewrite app_assoc. reflexivity. Qed.
  Lemma suffix_cons x bs : suffix bs (x :: bs). Proof. exists [x]; reflexivity. Qed.
  Lemma suffix_Forall (Q : Z -> Prop) r bs : suffix r bs -> Forall Q bs -> Forall Q r.
  Proof. intros [p Hp] H. subst. apply Forall_app in H. tauto. Qed.
  Lemma suffix_len r bs : suffix r bs -> (length r <= length bs)%nat.
  Proof. intros [p Hp]. subst. rewrite app_length. lia. Qed.

  Lemma take_n_app' n (l a r : bytes) : take_n n l = Some (a, r) -> l = a ++ r.
  Proof. intros H. apply take_n_spec in H as [H _]. exact H. Qed.
  Lemma rd_var_suffix n : forall i acc bs v r, rd_var n i acc bs = Ok v r -> suffix r bs.
  Proof.
    induction n as [|n IH]; intros i acc bs v r; cbn [rd_var]; [intros H; inversion H; subst; apply suffix_refl|].
    destruct bs as [|b t]; [discriminate|]. destruct (b <? 128).
    - intros H; inversion H; subst. apply suffix_cons.
    - intros H. eapply suffix_trans; [eapply IH; eauto | apply suffix_cons].
  Qed.
  Lemma read_varint_suffix bs v r : read_varint vi bs = Ok v r -> suffix r bs.
  Proof. unfold read_varint, read_varint_n. intros H. apply rmap_ok in H as (?x & H & _). eapply rd_var_suffix; eauto. Qed.
  Lemma read_varlong_suffix bs v r : read_varlong vl bs = Ok v r -> suffix r bs.
  Proof. unfold read_varlong, read_varlong_n. intros H. apply rmap_ok in H as (?x & H & _). eapply rd_var_suffix; eauto. Qed.
  Lemma read_u8_suffix bs v r : read_u8 bs = Ok v r -> suffix r bs.
  Proof. destruct bs; cbn; [discriminate|]. intros H; inversion H; subst. apply suffix_cons. Qed.
  Lemma read_be_suffix n bs v r : read_be n bs = Ok v r -> suffix r bs.
  Proof. unfold read_be. destruct (take_n n bs) as [[a r']|] eqn:E; [|discriminate]. intros H; inversion H; subst.
         exists a. apply take_n_app' in E. exact E. Qed.
  Lemma read_bytes_suffix bs v r : read_bytes vi bs = Ok v r -> suffix r bs.
  Proof.
    unfold read_bytes. intros H. apply bind_ok in H as (len & rest & Hv & H). apply read_varint_suffix in Hv.
    destruct (len <? 0); [discriminate|]. destruct (Z.of_nat (length rest) <? len); [discriminate|].
    destruct (take_n (Z.to_nat len) rest) as [[a r']|] eqn:E; [|discriminate]. inversion H; subst.
    eapply suffix_trans; [|exact Hv]. eexists. apply take_n_app' in E. exact E.
  Qed.
  Lemma read_bool_suffix bs v r : read_bool bs = Ok v r -> suffix r bs.
  Proof. unfold read_bool. intros H. apply rmap_ok in H as (?x & H & _). eapply read_u8_suffix; eauto. Qed.

  (* whatever a field decoder leaves over is a suffix of its input *)
  Lemma dec_field_suffix : forall k bs v r, dec_field vi vl k bs = Ok v r -> suffix r bs.
  Proof.
    induction k; intros bs v r H; cbn [dec_field] in H;
      try (apply rmap_ok in H as (?x & H & _);
           first [ eapply read_varint_suffix; eassumption | eapply read_varlong_suffix; eassumption
                 | eapply read_bytes_suffix; eassumption | eapply read_be_suffix; eassumption
                 | eapply read_u8_suffix; eassumption | eapply read_bool_suffix; eassumption | idtac ]).
    - unfold read_string in H. apply bind_ok in H as (b & rest & Hb & H). apply read_bytes_suffix in Hb.
      destruct (utf8_valid b); [|discriminate]. inversion H; subst. exact Hb.
    - apply bind_ok in H as (b & rest & Hb & H). apply read_bytes_suffix in Hb.
      destruct (Nat.eqb (length b) n); [|discriminate]. inversion H; subst. exact Hb.
    - apply bind_ok in H as (o & rest & Hb & H). apply read_varint_suffix in Hb.
      destruct (assoc o (e_from t)); [|discriminate]. inversion H; subst. exact Hb.
    - unfold read_text in H. apply bind_ok in H as (tag & r0 & Ht & H). apply read_u8_suffix in Ht.
      destruct (tag =? 8); [|discriminate]. apply bind_ok in H as (len & r1 & Hl & H). apply read_be_suffix in Hl.
      destruct (take_n (Z.to_nat len) r1) as [[a r2]|] eqn:E; [|discriminate]. destruct (utf8_valid a); [|discriminate].
      inversion H; subst. eapply suffix_trans; [|eapply suffix_trans; [exact Hl | exact Ht]].
      eexists. apply take_n_app' in E. exact E.
    - apply bind_ok in H as (b & rest & Hb & H). apply read_bool_suffix in Hb.
      destruct b.
      + apply rmap_ok in H as (?x & H & _). apply IHk in H. eapply suffix_trans; eauto.
      + inversion H; subst. exact Hb.
  Qed.

  (* THE BOUND: decoding a packet body never reserves more than the body's own length, except
     for the single u16-prefixed text buffer (at most 65535 bytes) *)
  Theorem mem_dec_bound : forall ds bs, Forall (fun b => 0 <= b < 256) bs ->
    0 <= mem_dec vi vl ds bs <= Z.max (Z.of_nat (length bs)) 65535.
  Proof.
    induction ds as [|d ds IH]; intros bs Hb; cbn [mem_dec]; [lia|].
    pose proof (mem_field_bound d bs Hb) as Hf.
    destruct (dec_field vi vl d bs) as [v r|er] eqn:E; [|lia].
    apply dec_field_suffix in E. pose proof (suffix_len _ _ E). pose proof (IH r (suffix_Forall _ _ _ E Hb)). lia.
  Qed.

  (* without a text component in the description the bound is the input length alone *)
  Fixpoint no_text (k : fk) : bool := match k with KText => false | KOpt k' => no_text k' | _ => true end.
  Lemma mem_field_bound_nt : forall k bs, no_text k = true -> 0 <= mem_field vi k bs <= Z.of_nat (length bs).
  Proof.
    induction k; intros bs Hn; cbn [mem_field]; try lia; try (pose proof (mem_bytes_bound bs); lia); try discriminate.
    destruct (read_bool bs) as [b r|er] eqn:E; [|lia]. destruct b; [|lia].
    apply read_bool_suffix in E. apply suffix_len in E. specialize (IHk r Hn). lia.
  Qed.
  Theorem mem_dec_bound_nt : forall ds bs, forallb no_text ds = true ->
    0 <= mem_dec vi vl ds bs <= Z.of_nat (length bs).
  Proof.
    induction ds as [|d ds IH]; intros bs Hn; cbn [mem_dec]; [lia|]. cbn [forallb] in Hn. apply andb_prop in Hn as [Hd Hr].
    pose proof (mem_field_bound_nt d bs Hd) as Hf.
    destruct (dec_field vi vl d bs) as [v r|er] eqn:E; [|lia].
    apply dec_field_suffix in E. apply suffix_len in E. specialize (IH r Hr). lia.
  Qed.
End MemP.
