(* The decoder model never reaches a panic: every failure is an ordinary error. *)
From Passage Require Import Lib.Bytes Lib.Utf8 Codec.VarInt Codec.Desc.

Lemma rd_var_no_panic n : forall i acc bs, rd_var n i acc bs <> Er EPanic.
Proof.
  induction n as [|n IH]; intros i acc bs; cbn [rd_var]; [discriminate|].
  destruct bs as [|b r]; [discriminate|]. destruct (b <? 128); [discriminate | apply IH].
Qed.

Lemma rmap_no_panic {A B} (f : A -> B) r : r <> Er EPanic -> rmap f r <> Er EPanic.
Proof. destruct r as [a rest|e]; cbn; [discriminate|]. intros H H2. apply H. inversion H2. reflexivity. Qed.

Lemma bind_no_panic {A B} (r : res A) (k : A -> bytes -> res B) :
  r <> Er EPanic -> (forall a rest, k a rest <> Er EPanic) -> bind r k <> Er EPanic.
Proof. destruct r as [a rest|e]; cbn; [intros _ H; apply H | intros H _ H2; apply H; inversion H2; reflexivity]. Qed.

Section NP.
  Variable vi vl : nat.

  Lemma read_varint_np bs : read_varint vi bs <> Er EPanic.
  Proof. unfold read_varint, read_varint_n. apply rmap_no_panic, rd_var_no_panic. Qed.
  Lemma read_varlong_np bs : read_varlong vl bs <> Er EPanic.
  Proof. unfold read_varlong, read_varlong_n. apply rmap_no_panic, rd_var_no_panic. Qed.
  Lemma read_u8_np bs : read_u8 bs <> Er EPanic.
  Proof. destruct bs; cbn; discriminate. Qed.
  Lemma read_be_np n bs : read_be n bs <> Er EPanic.
  Proof. unfold read_be. destruct (take_n n bs) as [[a r]|]; discriminate. Qed.
  Lemma read_bytes_np bs : read_bytes vi bs <> Er EPanic.
  Proof.
    unfold read_bytes. apply bind_no_panic; [apply read_varint_np|]. intros len r.
    destruct (len <? 0); [discriminate|]. destruct (Z.of_nat (length r) <? len); [discriminate|].
    destruct (take_n (Z.to_nat len) r) as [[a r']|]; discriminate.
  Qed.
  Lemma read_string_np bs : read_string vi bs <> Er EPanic.
  Proof.
    unfold read_string. apply bind_no_panic; [apply read_bytes_np|]. intros a r.
    destruct (utf8_valid a); discriminate.
  Qed.
  Lemma read_bool_np bs : read_bool bs <> Er EPanic.
  Proof. unfold read_bool. apply rmap_no_panic, read_u8_np. Qed.
  Lemma read_text_np bs : read_text bs <> Er EPanic.
  Proof.
    unfold read_text. apply bind_no_panic; [apply read_u8_np|]. intros tag r.
    destruct (tag =? 8); [|discriminate].
    apply bind_no_panic; [apply read_be_np|]. intros len r1.
    destruct (take_n (Z.to_nat len) r1) as [[a r2]|]; [|discriminate]. destruct (utf8_valid a); discriminate.
  Qed.

  Lemma dec_field_no_panic : forall k bs, dec_field vi vl k bs <> Er EPanic.
  Proof.
    induction k; intros bs; cbn [dec_field];
      try (apply rmap_no_panic;
           first [apply read_varint_np | apply read_varlong_np | apply read_string_np | apply read_bytes_np
                 | apply read_u8_np | apply read_be_np | apply read_bool_np | apply read_text_np]).
    - apply bind_no_panic; [apply read_bytes_np|]. intros a r. destruct (Nat.eqb (length a) n); discriminate.
    - apply bind_no_panic; [apply read_varint_np|]. intros o r. destruct (assoc o (e_from t)); discriminate.
    - apply bind_no_panic; [apply read_bool_np|]. intros b r. destruct b; [|discriminate].
      apply rmap_no_panic, IHk.
  Qed.

  Theorem dec_no_panic : forall ds bs, dec vi vl ds bs <> Er EPanic.
  Proof.
    induction ds as [|d ds IH]; intros bs; cbn [dec]; [discriminate|].
    apply bind_no_panic; [apply dec_field_no_panic|]. intros v r. apply rmap_no_panic, IH.
  Qed.
End NP.
