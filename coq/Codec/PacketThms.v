(* Theorems about the GENERATED packet descriptions: re-checked against what the Rust
   sources say on every run. *)
From Passage Require Import Lib.Bytes Lib.Utf8 Codec.VarInt Codec.VarIntProofs Codec.Desc Codec.DescProofs
  Spec.McLayout Gen.PacketsGen Gen.ConstsGen Codec.PacketCheck.

Lemma zlist_eqb_eq a b : zlist_eqb a b = true -> a = b.
Proof.
  revert b; induction a as [|x a IH]; intros [|y b] H; try discriminate; [reflexivity|].
  cbn in H. apply andb_true_iff in H as [H1 H2]. apply Z.eqb_eq in H1. f_equal; auto.
Qed.
Lemma zzlist_eqb_eq a b : zzlist_eqb a b = true -> a = b.
Proof.
  revert b; induction a as [|[x1 x2] a IH]; intros [|[y1 y2] b] H; try discriminate; [reflexivity|].
  cbn in H. apply andb_true_iff in H as [H H3]. apply andb_true_iff in H as [H1 H2].
  apply Z.eqb_eq in H1, H2. subst. f_equal; auto.
Qed.
Lemma tbl_eqb_eq a b : tbl_eqb a b = true -> a = b.
Proof.
  destruct a, b. unfold tbl_eqb; cbn. intros H.
  apply andb_true_iff in H as [H H3]. apply andb_true_iff in H as [H1 H2].
  apply String.eqb_eq in H1. apply zlist_eqb_eq in H2. apply zzlist_eqb_eq in H3. subst. reflexivity.
Qed.
Lemma fk_eqb_eq : forall a b, fk_eqb a b = true -> a = b.
Proof.
  induction a; intros b H; destruct b; try discriminate; try reflexivity; cbn in H.
  - apply Nat.eqb_eq in H. subst. reflexivity.
  - apply tbl_eqb_eq in H. subst. reflexivity.
  - apply Z.eqb_eq in H. subst. reflexivity.
  - f_equal. auto.
Qed.
Lemma ops_eqb_kinds a b : ops_eqb a b = true -> map snd a = map snd b.
Proof.
  revert b; induction a as [|[f k] a IH]; intros [|[g l] b] H; try discriminate; [reflexivity|].
  cbn in H. apply andb_true_iff in H as [H H3]. apply andb_true_iff in H as [_ H2].
  apply fk_eqb_eq in H2. cbn. f_equal; auto.
Qed.

(* the round trip of one packet body, from the decidable check *)
Theorem packet_roundtrip p : packet_ok p = true -> iters_ok = true ->
  forall vs b r, wf_fields (kinds p) vs = true -> enc (kinds p) vs = Some b ->
  dec varint_read_iters varlong_read_iters (rkinds p) (b ++ r) = Ok vs r.
Proof.
  unfold packet_ok, iters_ok. intros Hp Hi vs b r Hw He.
  apply andb_true_iff in Hp as [Hp _]. apply andb_true_iff in Hp as [Hp Hk].
  apply andb_true_iff in Hp as [_ Heq].
  apply andb_true_iff in Hi as [Hi H10]. apply andb_true_iff in Hi as [_ H5].
  apply Nat.leb_le in H5, H10.
  unfold rkinds. rewrite <- (ops_eqb_kinds _ _ Heq).
  apply dec_enc; assumption.
Qed.

Theorem packet_encodable p vs : wf_fields (kinds p) vs = true -> exists b, enc (kinds p) vs = Some b.
Proof. apply enc_total. Qed.

(* framing as done by send_packet: VarInt length, VarInt id, body *)
Definition frame (id : Z) (body : bytes) : bytes :=
  let inner := write_varint id ++ body in
  write_varint (wrap32 (Z.of_nat (length inner))) ++ inner.
