(* Model of passage-packets' VarInt / VarLong codec (reader.rs / writer.rs).
   Definitions only; the proofs are in VarIntProofs.v.

   write_varint(value: i32):
     loop { b = value & 0x7f; value = (value >> 7) & (i32::MAX >> 6);
            if value != 0 { b |= 0x80 }; write b; if value == 0 { break } }
   `>>` on i32 is arithmetic, i.e. floor division by 128; `& (i32::MAX >> 6)` keeps the
   low 25 bits, i.e. `mod 2^25`.  For i64 the mask keeps 57 bits.

   read_varint:
     ans = 0; for i in 0..ITERS { b = next byte (EOF -> error);
       ans |= ((b & 0x7f) as i32) << (7*i); if b & 0x80 == 0 { break } }  Ok(ans)
   The groups occupy disjoint bit ranges, so `|=` is `+` on the 32-bit pattern; the
   shift of the last group discards the bits above the word (Rust's `<<` wraps), which
   is the final `wrap`.  Falling out of the loop is NOT an error in the Rust code. *)
From Passage Require Import Lib.Bytes.

Inductive err :=
| EEof            (* UnexpectedEof: the buffer ended inside a field *)
| EUtf8           (* InvalidEncoding *)
| EEnum           (* IllegalEnumValue *)
| EArray          (* ArrayConversionFailed *)
| ELen            (* IllegalPacketLength: negative inner length *)
| EPanic          (* the Rust code would panic here *)
| EUnmodelled.    (* NBT-form text component: outside the model *)

Inductive res (A : Type) :=
| Ok (a : A) (rest : bytes)
| Er (e : err).
Arguments Ok {A} a rest.
Arguments Er {A} e.

Definition bind {A B} (r : res A) (k : A -> bytes -> res B) : res B :=
  match r with Ok a rest => k a rest | Er e => Er e end.
Definition rmap {A B} (f : A -> B) (r : res A) : res B :=
  match r with Ok a rest => Ok (f a) rest | Er e => Er e end.

(* ---- writer ---- *)
(* [mask] = 2^25 (i32) or 2^57 (i64); fuel bounds the loop and provably suffices. *)
Fixpoint wr_var (mask : Z) (fuel : nat) (v : Z) : option bytes :=
  match fuel with
  | O => None
  | S f =>
      let b := v mod 128 in
      let v' := (v / 128) mod mask in
      if v' =? 0 then Some [b]
      else match wr_var mask f v' with
           | Some r => Some ((b + 128) :: r)
           | None => None
           end
  end.

Definition write_varint_opt (v : Z) : option bytes := wr_var (2 ^ 25) 5 v.
Definition write_varlong_opt (v : Z) : option bytes := wr_var (2 ^ 57) 10 v.
Definition write_varint (v : Z) : bytes := match write_varint_opt v with Some b => b | None => [] end.
Definition write_varlong (v : Z) : bytes := match write_varlong_opt v with Some b => b | None => [] end.

(* ---- reader ---- *)
Fixpoint rd_var (iters : nat) (i : Z) (acc : Z) (bs : bytes) : res Z :=
  match iters with
  | O => Ok acc bs
  | S n =>
      match bs with
      | [] => Er EEof
      | b :: r =>
          let acc' := acc + (b mod 128) * 2 ^ (7 * i) in
          if b <? 128 then Ok acc' r else rd_var n (i + 1) acc' r
      end
  end.

Definition read_varint_n (iters : nat) (bs : bytes) : res Z := rmap wrap32 (rd_var iters 0 0 bs).
Definition read_varlong_n (iters : nat) (bs : bytes) : res Z := rmap wrap64 (rd_var iters 0 0 bs).
