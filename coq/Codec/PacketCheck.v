(* Decidable checks relating the generated packet descriptions (Gen/PacketsGen.v) to the
   protocol layout table (Spec/McLayout.v).  Definitions only. *)
From Passage Require Import Lib.Bytes Codec.Desc Spec.McLayout Gen.PacketsGen Gen.ConstsGen.

Fixpoint zlist_eqb (a b : list Z) : bool :=
  match a, b with
  | [], [] => true
  | x :: a', y :: b' => (x =? y) && zlist_eqb a' b'
  | _, _ => false
  end.
Fixpoint zzlist_eqb (a b : list (Z * Z)) : bool :=
  match a, b with
  | [], [] => true
  | (x1, x2) :: a', (y1, y2) :: b' => (x1 =? y1) && (x2 =? y2) && zzlist_eqb a' b'
  | _, _ => false
  end.
Definition tbl_eqb (a b : enum_tbl) : bool :=
  String.eqb (e_name a) (e_name b) && zlist_eqb (e_to a) (e_to b) && zzlist_eqb (e_from a) (e_from b).

Fixpoint fk_eqb (a b : fk) : bool :=
  match a, b with
  | KVarInt, KVarInt | KVarLong, KVarLong | KString, KString | KBytes, KBytes
  | KU8, KU8 | KI8, KI8 | KU16, KU16 | KI32, KI32 | KU64, KU64 | KI64, KI64
  | KUuid, KUuid | KBool, KBool | KVarIntU16, KVarIntU16 | KText, KText => true
  | KBytesN n, KBytesN m => Nat.eqb n m
  | KEnum s, KEnum t => tbl_eqb s t
  | KConstVarInt c, KConstVarInt d => c =? d
  | KOpt x, KOpt y => fk_eqb x y
  | _, _ => false
  end.

(* wire-level equality: a fixed-size array is an ordinary byte array on the wire *)
Fixpoint fk_wire_eqb (code spec : fk) : bool :=
  match code, spec with
  | KBytesN _, KBytes => true
  | KOpt x, KOpt y => fk_wire_eqb x y
  | _, _ => fk_eqb code spec
  end.

Fixpoint ops_eqb (a b : list (string * fk)) : bool :=
  match a, b with
  | [], [] => true
  | (f, k) :: a', (g, l) :: b' => String.eqb f g && fk_eqb k l && ops_eqb a' b'
  | _, _ => false
  end.

Fixpoint kinds_wire_eqb (a b : list fk) : bool :=
  match a, b with
  | [], [] => true
  | k :: a', l :: b' => fk_wire_eqb k l && kinds_wire_eqb a' b'
  | _, _ => false
  end.

Fixpoint strs_eqb (a b : list string) : bool :=
  match a, b with
  | [], [] => true
  | x :: a', y :: b' => String.eqb x y && strs_eqb a' b'
  | _, _ => false
  end.

Definition same_packet (p : packet) (l : layout) : bool :=
  String.eqb (p_state p) (l_state l) && String.eqb (p_dir p) (l_dir l) && String.eqb (p_name p) (l_name l).

Fixpoint find_layout (p : packet) (ls : list layout) : option layout :=
  match ls with
  | [] => None
  | l :: r => if same_packet p l then Some l else find_layout p r
  end.

(* what the protocol table says the packet looks like *)
Definition table_kinds (p : packet) : list fk :=
  match find_layout p mc_layout with
  | Some l => match l_fields l with Some ks => ks | None => [] end
  | None => []
  end.

(* the wire form of a packet as the models use it: what the translator read off the impl; for an impl
   written in a form the translator does not understand ([p_parsed] false), what the protocol table
   says - the models then still run, C09's tie theorem (every packet parsed and equal to the table)
   fails, and the correspondence decides whether the code still does what the table says *)
Definition kinds (p : packet) : list fk := if p_parsed p then map snd (p_write p) else table_kinds p.
Definition rkinds (p : packet) : list fk := if p_parsed p then map snd (p_read p) else table_kinds p.

(* the reader mirrors the writer field for field, every struct field is on the wire
   exactly once in declaration order, and every enum table is coherent *)
Definition packet_ok (p : packet) : bool :=
  p_parsed p
  && ops_eqb (p_write p) (p_read p)
  && forallb kind_ok (kinds p)
  && strs_eqb (filter (fun f => negb (String.eqb f "_const")) (map fst (p_write p))) (p_fields p).

Definition layout_ok (p : packet) : bool :=
  match find_layout p mc_layout with
  | Some l => (p_id p =? l_id l)
              && match l_fields l with
                 | Some ks => kinds_wire_eqb (kinds p) ks
                 | None => true   (* placeholder: body not implemented by the crate, see known findings *)
                 end
  | None => false
  end.

Definition is_placeholder (p : packet) : bool :=
  match find_layout p mc_layout with
  | Some l => match l_fields l with None => true | Some _ => false end
  | None => false
  end.
(* placeholders that still encode nothing: each one is a listed known finding *)
Definition unimplemented_placeholders : list string :=
  map (fun p => (p_state p ++ "::" ++ p_dir p ++ "::" ++ p_name p)%string)
      (filter (fun p => is_placeholder p && match p_write p with [] => true | _ => false end) all_packets).

Definition spec_covered (l : layout) : bool := existsb (fun p => same_packet p l) all_packets.

Definition enums_match : bool :=
  (Nat.eqb (length all_enums) (length spec_enums))
  && forallb (fun t => existsb (tbl_eqb t) spec_enums) all_enums
  && forallb enum_ok all_enums.

Definition iters_ok : bool :=
  read_iters_found && Nat.leb 5 varint_read_iters && Nat.leb 10 varlong_read_iters.
