(* Proofs about the Agones discovery model (Adapters/Agones.v): the repaired cache offers,
   for EVERY event sequence, exactly what the abstract truth obliges it to offer. *)
From Passage Require Import Lib.Bytes Lib.IpText Adapters.Agones.
From Coq Require Import Permutation.

Definition ids (l : list atarget) : list bytes := map a_id l.

(* ------------------------------------------------------------------ small facts *)
Lemma beq_false a b : beq a b = false <-> a <> b.
Proof.
  split.
  - intros H E. apply beq_spec in E. congruence.
  - intros H. destruct (beq a b) eqn:E; [|reflexivity]. apply beq_spec in E. contradiction.
Qed.

Lemma has_id_true n t : has_id n t = true <-> a_id t = n.
Proof. unfold has_id. apply beq_spec. Qed.
Lemma has_id_false n t : has_id n t = false <-> a_id t <> n.
Proof. unfold has_id. apply beq_false. Qed.

Lemma in_ids t l : In t l -> In (a_id t) (ids l).
Proof. intros H. unfold ids. apply in_map. exact H. Qed.

(* ------------------------------------------------------------------ metadata maps *)
Lemma mget_mset k k' v m : mget k (mset k' v m) = if beq k k' then Some v else mget k m.
Proof.
  induction m as [|[a b] r IH]; cbn [mset mget].
  - destruct (beq k k'); reflexivity.
  - destruct (beq k' a) eqn:E1; cbn [mget].
    + apply beq_spec in E1; subst a. destruct (beq k k'); reflexivity.
    + destruct (beq k a) eqn:E2.
      * destruct (beq k k') eqn:E3; [|reflexivity].
        apply beq_spec in E2, E3; subst. rewrite beq_refl in E1; discriminate.
      * exact IH.
Qed.

Lemma mget_minserts es : forall m k,
  mget k (minserts es m) = match last_binding k es with Some v => Some v | None => mget k m end.
Proof.
  induction es as [|[k' v] es IH]; intros m k; [reflexivity|].
  change (minserts ((k', v) :: es) m) with (minserts es (mset k' v m)).
  rewrite IH. cbn [last_binding]. destruct (last_binding k es); [reflexivity|].
  rewrite mget_mset. destruct (beq k k'); reflexivity.
Qed.

Lemma last_binding_app k a b :
  last_binding k (a ++ b)
  = match last_binding k b with Some v => Some v | None => last_binding k a end.
Proof.
  induction a as [|[k' v] a IH]; cbn [app last_binding].
  - destruct (last_binding k b); reflexivity.
  - rewrite IH. destruct (last_binding k b); reflexivity.
Qed.

Lemma mset_keys_in k v m x : In x (map fst (mset k v m)) -> x = k \/ In x (map fst m).
Proof.
  induction m as [|[a b] r IH]; cbn [mset map fst In].
  - intros [H|[]]; auto.
  - destruct (beq k a) eqn:E; cbn [map fst In].
    + apply beq_spec in E; subst a. intros [H|H]; auto.
    + intros [H|H]; auto. destruct (IH H); auto.
Qed.

Lemma mset_keys_nodup k v m : NoDup (map fst m) -> NoDup (map fst (mset k v m)).
Proof.
  induction m as [|[a b] r IH]; cbn [mset map fst]; intros H.
  - constructor; [intros []|constructor].
  - inversion H as [|x l Hn Hr]; subst. destruct (beq k a) eqn:E; cbn [map fst].
    + apply beq_spec in E; subst a. constructor; assumption.
    + constructor; [|apply IH; exact Hr].
      intros Hin. apply mset_keys_in in Hin as [->|Hin]; [|contradiction].
      rewrite beq_refl in E; discriminate.
Qed.

Lemma minserts_keys_nodup es : forall m, NoDup (map fst m) -> NoDup (map fst (minserts es m)).
Proof.
  induction es as [|[k v] es IH]; intros m H; [exact H|].
  change (minserts ((k, v) :: es) m) with (minserts es (mset k v m)).
  apply IH, mset_keys_nodup, H.
Qed.

Theorem build_meta_spec g s k : mget k (build_meta g s) = meta_spec g s k.
Proof.
  unfold build_meta, meta_spec, meta_entries. rewrite mget_minserts.
  change ((state_key, s_state s) :: ?l) with ([(state_key, s_state s)] ++ l).
  rewrite !last_binding_app.
  destruct (last_binding k (g_annotations g)); [reflexivity|].
  destruct (last_binding k (g_labels g)); [reflexivity|].
  destruct (last_binding k (map _ (s_lists s))); [reflexivity|].
  destruct (last_binding k (map _ (s_counters s))); [reflexivity|].
  cbn [last_binding mget]. destruct (beq k state_key); reflexivity.
Qed.

Theorem build_meta_keys g s : NoDup (map fst (build_meta g s)).
Proof. unfold build_meta. apply minserts_keys_nodup. constructor. Qed.

(* ------------------------------------------------------------------ convert *)
Theorem convert_spec g t :
  convert g = Some t <->
  exists n s a p ps,
    g_name g = Some n /\ g_status g = Some s /\ parse_ip (s_address s) = Some a
    /\ s_ports s = p :: ps
    /\ t = mkATarget n a p (build_meta g s).
Proof.
  unfold convert. split.
  - destruct (g_name g) as [n|]; [|discriminate].
    destruct (g_status g) as [s|]; [|discriminate].
    destruct (parse_ip (s_address s)) as [a|] eqn:Ea; [|discriminate].
    destruct (s_ports s) as [|p ps] eqn:Ep; [discriminate|].
    intros H; inversion H; subst. exists n, s, a, p, ps. repeat split; assumption.
  - intros (n & s & a & p & ps & -> & -> & -> & -> & ->). reflexivity.
Qed.

Theorem convert_none g :
  convert g = None <->
  g_name g = None \/ g_status g = None
  \/ exists s, g_status g = Some s /\ (parse_ip (s_address s) = None \/ s_ports s = []).
Proof.
  unfold convert. split.
  - destruct (g_name g) as [n|]; [|auto].
    destruct (g_status g) as [s|]; [|auto].
    destruct (parse_ip (s_address s)) as [a|] eqn:Ea; [|intros _; right; right; exists s; auto].
    destruct (s_ports s) as [|p ps] eqn:Ep; [intros _; right; right; exists s; auto|discriminate].
  - intros [->|[H|(s & Hs & H)]]; [reflexivity| |].
    + destruct (g_name g); [|reflexivity]. rewrite H. reflexivity.
    + destruct (g_name g); [|reflexivity]. rewrite Hs.
      destruct H as [->| ->]; [reflexivity|]. destruct (parse_ip (s_address s)); reflexivity.
Qed.

Lemma convert_id g t : convert g = Some t -> g_name g = Some (a_id t).
Proof. intros H. apply convert_spec in H as (n & s & a & p & ps & Hn & _ & _ & _ & ->). exact Hn. Qed.

Lemma offer_spec g t : offer g = Some t <-> ready g = true /\ convert g = Some t.
Proof.
  unfold offer. destruct (ready g); split; try (intros [H1 H2]); try discriminate; auto.
Qed.

Lemma offer_id g t : offer g = Some t -> g_name g = Some (a_id t).
Proof. intros H. apply offer_spec in H as [_ H]. apply convert_id, H. Qed.

(* ------------------------------------------------------------------ the vector operations *)
Lemma position_some n l : forall i, position n l = Some i ->
  exists pre x post, l = pre ++ x :: post /\ length pre = i /\ a_id x = n.
Proof.
  induction l as [|t r IH]; intros i H; cbn [position] in H; [discriminate|].
  destruct (has_id n t) eqn:E.
  - inversion H; subst. exists [], t, r. repeat split. apply has_id_true; exact E.
  - destruct (position n r) as [j|] eqn:P; [|discriminate]. inversion H; subst.
    destruct (IH j eq_refl) as (pre & x & post & -> & <- & Hx).
    exists (t :: pre), x, post. repeat split; auto.
Qed.

Lemma position_none n l : position n l = None -> forall y, In y l -> a_id y <> n.
Proof.
  induction l as [|t r IH]; intros H y Hy; [destruct Hy|].
  cbn [position] in H. destruct (has_id n t) eqn:E; [discriminate|].
  destruct (position n r) eqn:P; [discriminate|].
  destruct Hy as [<-|Hy]; [apply has_id_false; exact E | apply IH; auto].
Qed.

(* swap_remove takes out exactly the element at the given index *)
Lemma swap_remove_perm pre x post :
  Permutation (x :: swap_remove (length pre) (pre ++ x :: post)) (pre ++ x :: post).
Proof.
  induction post as [|y post _] using rev_ind; unfold swap_remove.
  - rewrite rev_app_distr. cbn [rev app]. rewrite removelast_last, Nat.eqb_refl.
    apply Permutation_cons_append.
  - replace (pre ++ x :: post ++ [y]) with ((pre ++ x :: post) ++ [y])
      by (rewrite <- app_assoc; reflexivity).
    rewrite rev_app_distr. cbn [rev app]. rewrite removelast_last.
    replace (length pre =? length (pre ++ x :: post))%nat with false
      by (symmetry; apply Nat.eqb_neq; rewrite app_length; cbn [length]; lia).
    rewrite firstn_app, firstn_all, Nat.sub_diag. cbn [firstn]. rewrite app_nil_r.
    rewrite skipn_app, skipn_all2 by lia.
    replace (S (length pre) - length pre)%nat with 1%nat by lia. cbn [skipn app].
    rewrite <- app_assoc. cbn [app].
    apply Permutation_cons_app. apply Permutation_app_head. apply Permutation_cons_append.
Qed.

Lemma remove_id_spec n l : NoDup (ids l) ->
  NoDup (ids (remove_id n l)) /\ forall y, In y (remove_id n l) <-> In y l /\ a_id y <> n.
Proof.
  intros Hnd. unfold remove_id. destruct (position n l) as [i|] eqn:P.
  - destruct (position_some _ _ _ P) as (pre & x & post & -> & <- & Hx).
    pose proof (swap_remove_perm pre x post) as Hp.
    set (R := swap_remove (length pre) (pre ++ x :: post)) in *.
    assert (Hnd' : NoDup (ids (x :: R))).
    { unfold ids. eapply Permutation_NoDup; [apply Permutation_map, Permutation_sym, Hp | exact Hnd]. }
    cbn [ids map] in Hnd'. inversion Hnd' as [|a b Hnotin HndR]; subst.
    split; [exact HndR|]. intros y; split.
    + intros Hy. split.
      * eapply Permutation_in; [exact Hp | right; exact Hy].
      * intros E. apply Hnotin. rewrite <- E. apply in_ids, Hy.
    + intros [Hy Hne]. apply (Permutation_in _ (Permutation_sym Hp)) in Hy.
      destruct Hy as [<-|Hy]; [contradiction | exact Hy].
  - split; [exact Hnd|]. intros y; split; [|tauto].
    intros Hy; split; [exact Hy | eapply position_none; eauto].
Qed.

Lemma put_spec t l : NoDup (ids l) ->
  NoDup (ids (put t l)) /\ forall y, In y (put t l) <-> y = t \/ (In y l /\ a_id y <> a_id t).
Proof.
  induction l as [|u r IH]; intros Hnd; cbn [put].
  - split; [constructor; [intros []|constructor]|].
    intros y; cbn [In]; split; [intros [<-|[]]; auto | intros [->|[[] _]]; auto].
  - cbn [ids map] in Hnd. inversion Hnd as [|a b Hnotin Hr]; subst.
    destruct (has_id (a_id t) u) eqn:E.
    + apply has_id_true in E. split.
      * cbn [ids map]. rewrite <- E. exact Hnd.
      * intros y; cbn [In]; split.
        -- intros [<-|Hy]; [auto|]. right. split; [auto|].
           intros Ey. apply Hnotin. rewrite E, <- Ey. apply in_ids, Hy.
        -- intros [->|[[<-|Hy] Hne]]; auto. contradiction.
    + apply has_id_false in E. destruct (IH Hr) as [IHn IHi]. split.
      * cbn [ids map]. constructor; [|exact IHn].
        intros Hin. unfold ids in Hin. apply in_map_iff in Hin as (y & Ey & Hy).
        apply IHi in Hy as [->|[Hy _]]; [congruence|].
        apply Hnotin. rewrite <- Ey. apply in_ids, Hy.
      * intros y; cbn [In]; rewrite IHi; split.
        -- intros [<-|[->|[Hy Hne]]]; auto.
        -- intros [->|[[<-|Hy] Hne]]; auto.
Qed.

(* ------------------------------------------------------------------ views *)
Definition WFv (v : view) : Prop := forall n g, v n = Some g -> g_name g = Some n.

(* l represents what v obliges to offer *)
Definition Rep (v : view) (l : list atarget) : Prop :=
  NoDup (ids l) /\ forall t, In t l <-> Offers v t.

Lemma WFv_empty : WFv vempty.
Proof. intros n g H; discriminate. Qed.
Lemma WFv_vset n g v : WFv v -> g_name g = Some n -> WFv (vset n g v).
Proof.
  intros Hv Hn m h. unfold vset. destruct (beq m n) eqn:E; [|apply Hv].
  apply beq_spec in E; subst. intros H; inversion H; subst; exact Hn.
Qed.
Lemma WFv_vdel n v : WFv v -> WFv (vdel n v).
Proof. intros Hv m h. unfold vdel. destruct (beq m n); [discriminate | apply Hv]. Qed.

Lemma Offers_empty t : ~ Offers vempty t.
Proof. intros (n & g & H & _); discriminate. Qed.

Lemma Offers_vset v n g t : WFv v -> g_name g = Some n ->
  (Offers (vset n g v) t <-> offer g = Some t \/ (a_id t <> n /\ Offers v t)).
Proof.
  intros Hv Hn. split.
  - intros (m & h & Hm & Hr & Hc). unfold vset in Hm. destruct (beq m n) eqn:E.
    + inversion Hm; subst. left. apply offer_spec; auto.
    + right. apply beq_false in E. pose proof (Hv _ _ Hm) as Hh.
      rewrite (convert_id _ _ Hc) in Hh. inversion Hh; subst.
      split; [exact E|]. exists (a_id t), h; auto.
  - intros [Ho|[Hne (m & h & Hm & Hr & Hc)]].
    + apply offer_spec in Ho as [Hr Hc]. exists n, g. unfold vset. rewrite beq_refl. auto.
    + pose proof (Hv _ _ Hm) as Hh. rewrite (convert_id _ _ Hc) in Hh. inversion Hh; subst.
      exists (a_id t), h. unfold vset. apply beq_false in Hne. rewrite Hne. auto.
Qed.

Lemma Offers_vdel v n t : WFv v -> (Offers (vdel n v) t <-> a_id t <> n /\ Offers v t).
Proof.
  intros Hv. split.
  - intros (m & h & Hm & Hr & Hc). unfold vdel in Hm. destruct (beq m n) eqn:E; [discriminate|].
    apply beq_false in E. pose proof (Hv _ _ Hm) as Hh.
    rewrite (convert_id _ _ Hc) in Hh. inversion Hh; subst.
    split; [exact E|]. exists (a_id t), h; auto.
  - intros [Hne (m & h & Hm & Hr & Hc)].
    pose proof (Hv _ _ Hm) as Hh. rewrite (convert_id _ _ Hc) in Hh. inversion Hh; subst.
    exists (a_id t), h. unfold vdel. apply beq_false in Hne. rewrite Hne. auto.
Qed.

Lemma Rep_empty : Rep vempty [].
Proof.
  split; [constructor|]. intros t; split; [intros [] | intros H; exact (Offers_empty _ H)].
Qed.

Lemma Rep_remove v l n : WFv v -> Rep v l -> Rep (vdel n v) (remove_id n l).
Proof.
  intros Hv [Hnd Hin]. destruct (remove_id_spec n l Hnd) as [Hnd' Hin']. split; [exact Hnd'|].
  intros t. rewrite Hin', Offers_vdel, Hin by exact Hv. tauto.
Qed.

Lemma Rep_upsert v l n g : WFv v -> Rep v l -> g_name g = Some n ->
  Rep (vset n g v) (upsert l g).
Proof.
  intros Hv [Hnd Hin] Hn. unfold upsert. rewrite Hn. destruct (offer g) as [t0|] eqn:Ho.
  - pose proof (offer_id _ _ Ho) as Hid. rewrite Hn in Hid. inversion Hid; subst n.
    destruct (put_spec t0 l Hnd) as [Hnd' Hin']. split; [exact Hnd'|].
    intros t. rewrite Hin', (Offers_vset v _ g t Hv Hn), Hin. split.
    + intros [->|[Ht Hne]]; auto.
    + intros [H|[Hne Ht]]; [left; congruence | auto].
  - destruct (remove_id_spec n l Hnd) as [Hnd' Hin']. split; [exact Hnd'|].
    intros t. rewrite Hin', (Offers_vset v _ g t Hv Hn), Hin. split.
    + intros [Ht Hne]; auto.
    + intros [H|[Hne Ht]]; [congruence | auto].
Qed.

Lemma Rep_observe v l g : WFv v -> Rep v l ->
  WFv (vobserve v g) /\ Rep (vobserve v g) (upsert l g).
Proof.
  intros Hv Hr. unfold vobserve. destruct (g_name g) as [n|] eqn:Hn.
  - split; [apply WFv_vset; auto | apply Rep_upsert; auto].
  - unfold upsert. rewrite Hn. auto.
Qed.

(* ------------------------------------------------------------------ the simulation *)
Definition Inv (c : cache) (s : tstate) : Prop :=
  WFv (ts_cur s) /\ Rep (ts_cur s) (c_cur c) /\
  match c_buf c, ts_pend s with
  | Some b, Some p => WFv p /\ Rep p b
  | None, None => True
  | _, _ => False
  end.

Lemma Inv_init : Inv cache0 tstate0.
Proof. split; [apply WFv_empty|]. split; [apply Rep_empty | exact I]. Qed.

Lemma Inv_step c s e : Inv c s -> Inv (cache_step c e) (truth_step s e).
Proof.
  destruct c as [cur buf], s as [tc tp]. unfold Inv; cbn [c_cur c_buf ts_cur ts_pend].
  intros (Hv & Hr & Hb). destruct e; cbn [cache_step truth_step c_cur c_buf ts_cur ts_pend].
  - (* Init *) split; [exact Hv|]. split; [exact Hr|]. split; [apply WFv_empty | apply Rep_empty].
  - (* InitApply *) split; [exact Hv|]. split; [exact Hr|].
    destruct buf as [b|], tp as [p|]; try contradiction; cbn [buf_or_new].
    + destruct Hb as [Hvp Hrp]. apply Rep_observe; auto.
    + apply Rep_observe; [apply WFv_empty | apply Rep_empty].
  - (* InitDone *)
    destruct buf as [b|], tp as [p|]; try contradiction; cbn [c_cur c_buf ts_cur ts_pend].
    + destruct Hb as [Hvp Hrp]. auto.
    + auto.
  - (* Apply *) destruct (Rep_observe tc cur g Hv Hr) as [Hv' Hr']. auto.
  - (* Delete *) destruct (g_name g) as [n|]; cbn [c_cur c_buf ts_cur ts_pend].
    + split; [apply WFv_vdel; exact Hv|]. split; [apply Rep_remove; auto | exact Hb].
    + auto.
  - (* Error *) auto.
Qed.

Lemma Inv_fold evs : forall c s, Inv c s ->
  Inv (fold_left cache_step evs c) (fold_left truth_step evs s).
Proof.
  induction evs as [|e evs IH]; intros c s H; [exact H|].
  cbn [fold_left]. apply IH, Inv_step, H.
Qed.

Theorem run_inv evs : Inv (run evs) (truth_state evs).
Proof. apply Inv_fold, Inv_init. Qed.

(* ------------------------------------------------------------------ main results *)
Theorem refines : forall evs : list event,
  NoDup (map a_id (offered (run evs)))
  /\ (forall t, In t (offered (run evs)) <-> Offers (truth evs) t)
  /\ match c_buf (run evs), pending evs with
     | Some b, Some p => NoDup (map a_id b) /\ (forall t, In t b <-> Offers p t)
     | None, None => True
     | _, _ => False
     end.
Proof.
  intros evs. destruct (run_inv evs) as (_ & [Hnd Hin] & Hb).
  split; [exact Hnd|]. split; [exact Hin|].
  unfold pending. destruct (c_buf (run evs)), (ts_pend (truth_state evs)); try exact Hb.
  destruct Hb as [_ [H1 H2]]. auto.
Qed.

Theorem unique_ids : forall evs, NoDup (map a_id (offered (run evs))).
Proof. intros evs. apply refines. Qed.

(* modulo order: any duplicate-free enumeration of the obliged set is a permutation of the
   offered list *)
Theorem refines_perm : forall evs exp,
  NoDup exp -> (forall t, In t exp <-> Offers (truth evs) t) ->
  Permutation (offered (run evs)) exp.
Proof.
  intros evs exp Hnd Hin. destruct (refines evs) as (Hu & Ho & _).
  apply NoDup_Permutation; [eapply NoDup_map_inv; exact Hu | exact Hnd|].
  intros t. rewrite Ho, Hin. tauto.
Qed.

(* identifiers determine the offered target: the current data of that name *)
Theorem offered_current : forall evs t,
  In t (offered (run evs)) ->
  exists g, truth evs (a_id t) = Some g /\ ready g = true /\ convert g = Some t.
Proof.
  intros evs t H. destruct (run_inv evs) as (Hv & [_ Hin] & _).
  apply Hin in H as (n & g & Hn & Hr & Hc). exists g.
  pose proof (Hv _ _ Hn) as Hg. rewrite (convert_id _ _ Hc) in Hg. inversion Hg; subst. auto.
Qed.

(* ---- the shape of the truth *)
Lemma fold_observe l : forall v n,
  fold_left vobserve l v n = match last_named n l with Some h => Some h | None => v n end.
Proof.
  induction l as [|g l IH]; intros v n; [reflexivity|].
  cbn [fold_left last_named]. rewrite IH. destruct (last_named n l); [reflexivity|].
  unfold vobserve. destruct (g_name g) as [m|]; [|reflexivity].
  unfold vset. destruct (beq n m); reflexivity.
Qed.

Lemma truth_fold_initapply l : forall cur p,
  fold_left truth_step (map EInitApply l) (mkT cur (Some p)) = mkT cur (Some (fold_left vobserve l p)).
Proof. induction l as [|g l IH]; intros cur p; [reflexivity|]. cbn [map fold_left truth_step ts_cur ts_pend]. apply IH. Qed.

Lemma cache_fold_initapply l : forall cur b,
  fold_left cache_step (map EInitApply l) (mkCache cur (Some b)) = mkCache cur (Some (fold_left upsert l b)).
Proof. induction l as [|g l IH]; intros cur b; [reflexivity|]. cbn [map fold_left cache_step c_cur c_buf buf_or_new]. apply IH. Qed.

Theorem truth_watch : forall evs g,
  truth (evs ++ [EApply g]) = vobserve (truth evs) g
  /\ truth (evs ++ [EDelete g])
     = match g_name g with Some n => vdel n (truth evs) | None => truth evs end
  /\ truth (evs ++ [EError]) = truth evs.
Proof.
  intros evs g. unfold truth, truth_state. rewrite !fold_left_app. cbn [fold_left truth_step].
  repeat split. destruct (g_name g); reflexivity.
Qed.

Theorem relist : forall evs l,
  let mid := evs ++ EInit :: map EInitApply l in
  offered (run mid) = offered (run evs)
  /\ truth mid = truth evs
  /\ (forall n, truth (mid ++ [EInitDone]) n = last_named n l)
  /\ (forall t, In t (offered (run (mid ++ [EInitDone])))
                <-> exists n g, last_named n l = Some g /\ ready g = true /\ convert g = Some t).
Proof.
  intros evs l mid.
  assert (Hc : run mid = mkCache (c_cur (run evs)) (Some (fold_left upsert l []))).
  { unfold mid, run. rewrite fold_left_app. cbn [fold_left cache_step]. apply cache_fold_initapply. }
  assert (Ht : truth_state mid = mkT (ts_cur (truth_state evs)) (Some (fold_left vobserve l vempty))).
  { unfold mid, truth_state. rewrite fold_left_app. cbn [fold_left truth_step]. apply truth_fold_initapply. }
  assert (Hd : forall n, truth (mid ++ [EInitDone]) n = last_named n l).
  { intros n. unfold truth, truth_state. rewrite fold_left_app. fold (truth_state mid). rewrite Ht.
    cbn [fold_left truth_step ts_pend ts_cur]. rewrite fold_observe. destruct (last_named n l); reflexivity. }
  split; [unfold offered; rewrite Hc; reflexivity|].
  split; [unfold truth; rewrite Ht; reflexivity|].
  split; [exact Hd|].
  intros t. destruct (refines (mid ++ [EInitDone])) as (_ & Ho & _). rewrite Ho.
  unfold Offers. split; intros (n & g & H1 & H2); exists n, g; split; auto.
  - rewrite <- Hd. exact H1.
  - rewrite Hd. exact H1.
Qed.

(* ------------------------------------------------------------------ the old loop is refuted *)
Theorem delete_old_refuted :
  ready w_a = true /\ convert w_a <> None
  /\ truth w_delete (str "gs-a") = None
  /\ offered (run w_delete) = []
  /\ map a_id (run_old w_delete) = [str "gs-a"].
Proof. vm_compute. repeat split; discriminate. Qed.

Theorem relist_old_refuted :
  truth w_relist (str "gs-b") = None
  /\ map a_id (offered (run w_relist)) = [str "gs-a"]
  /\ map a_id (run_old w_relist) = [str "gs-a"; str "gs-b"].
Proof. vm_compute. repeat split. Qed.

Theorem stale_old_refuted :
  (exists g, truth w_stale (str "gs-a") = Some g /\ ready g = true /\ convert g = None)
  /\ offered (run w_stale) = []
  /\ map (fun t => (a_id t, show_ip (a_ip t), a_port t)) (run_old w_stale)
     = [(str "gs-a", str "10.0.0.1", 7777)].
Proof.
  split; [exists (w_gs "gs-a" "10.0.0.9" [] "Ready"); vm_compute; repeat split | vm_compute; repeat split].
Qed.

Theorem statekey_old_refuted :
  ready w_masked = false /\ ready w_hidden = true
  /\ map a_id (offered (run w_statekey)) = [str "gs-h"]
  /\ map a_id (run_old w_statekey) = [str "gs-m"].
Proof. vm_compute. repeat split. Qed.

(* ------------------------------------------------------------------ non-vacuity *)
(* refines on a history with a re-list in progress: both sides are inhabited, current and
   pending *)
Definition ex_t (name st : string) : atarget :=
  match convert (ex_gs name st) with Some t => t | None => mkATarget [] (V4 0 0 0 0) 0 [] end.

Example ex_refines_inhabited :
  In (ex_t "gs-2" "Allocated") (offered (run ex_history))
  /\ Offers (truth ex_history) (ex_t "gs-2" "Allocated")
  /\ match c_buf (run ex_history), pending ex_history with
     | Some b, Some p => In (ex_t "gs-3" "Ready") b /\ Offers p (ex_t "gs-3" "Ready")
     | _, _ => False
     end
  /\ ~ Offers (truth ex_history) (ex_t "gs-1" "Ready").
Proof.
  assert (H2 : In (ex_t "gs-2" "Allocated") (offered (run ex_history))) by (vm_compute; auto).
  assert (Eb : c_buf (run ex_history) = Some [ex_t "gs-3" "Ready"]) by (vm_compute; reflexivity).
  destruct (refines ex_history) as (_ & Ho & Hb).
  split; [exact H2|]. split; [exact (proj1 (Ho _) H2)|]. split.
  - clear H2 Ho. destruct (c_buf (run ex_history)) as [b|]; [|discriminate Eb]. injection Eb as ->.
    destruct (pending ex_history) as [p|]; [|contradiction].
    destruct Hb as [_ Hb]. split; [left; reflexivity | apply (proj1 (Hb _)); left; reflexivity].
  - intros H. apply (proj2 (Ho _)) in H. vm_compute in H. destruct H as [H|[H|[]]]; discriminate.
Qed.

Example ex_perm : Permutation (offered (run ex_history)) (rev (offered (run ex_history))).
Proof.
  apply refines_perm.
  - apply NoDup_rev. eapply NoDup_map_inv. apply unique_ids.
  - intros t. rewrite <- in_rev. apply refines.
Qed.

Example ex_relist :
  map a_id (offered (run (firstn 7 ex_history))) = [str "gs-3"; str "gs-2"]
  /\ map a_id (offered (run (firstn 7 ex_history ++ EInit :: map EInitApply [ex_gs "gs-3" "Ready"])))
     = [str "gs-3"; str "gs-2"]
  /\ last_named (str "gs-3") [ex_gs "gs-3" "Ready"] = Some (ex_gs "gs-3" "Ready")
  /\ last_named (str "gs-2") [ex_gs "gs-3" "Ready"] = None.
Proof. vm_compute. repeat split. Qed.

Example ex_meta_precedence :
  let g := ex_gs "gs-1" "Ready" in
  map (meta_spec g (ex_status "Ready")) [str "tier"; str "players"; str "rooms"; str "tags"; str "state"; str "nope"]
  = [Some (str "annotation-wins"); Some (str "label-wins"); Some (str "0"); Some (str "a,b");
     Some (str "Ready"); None].
Proof. vm_compute. reflexivity. Qed.
