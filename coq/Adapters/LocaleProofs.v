From Passage Require Import Lib.Bytes Adapters.Locale.

(* the fallback chain: the reported locale, its prefixes at every '_' from the longest to
   the shortest, then the default locale and its prefixes *)
Lemma underscores_spec l : forall i0 i, In i (underscores i0 l) <-> (i0 <= i)%nat /\ nth_error l (i - i0) = Some 95.
Proof.
  induction l as [|b r IH]; intros i0 i; cbn [underscores].
  - split; [intros [] | intros [_ H]; destruct (i - i0)%nat; discriminate].
  - destruct (Z.eqb_spec b 95) as [->|Hb].
    + cbn [In]. rewrite IH. split.
      * intros [<-|[H1 H2]]; [split; [lia|]; rewrite Nat.sub_diag; reflexivity|].
        split; [lia|]. replace (i - i0)%nat with (S (i - S i0)) by lia. exact H2.
      * intros [H1 H2]. destruct (Nat.eq_dec i i0) as [->|Hn]; [left; reflexivity|right].
        split; [lia|]. replace (i - i0)%nat with (S (i - S i0)) in H2 by lia. exact H2.
    + rewrite IH. split.
      * intros [H1 H2]. split; [lia|]. replace (i - i0)%nat with (S (i - S i0)) by lia. exact H2.
      * intros [H1 H2]. destruct (Nat.eq_dec i i0) as [->|Hn].
        { rewrite Nat.sub_diag in H2. cbn in H2. congruence. }
        split; [lia|]. replace (i - i0)%nat with (S (i - S i0)) in H2 by lia. exact H2.
Qed.

(* every candidate is the locale or a prefix of it ending just before a '_' *)
Theorem candidates_are_prefixes loc c :
  In c (append_locale loc) <-> c = loc \/ exists i, nth_error loc i = Some 95 /\ c = firstn i loc.
Proof.
  unfold append_locale. cbn [In]. rewrite in_map_iff. split.
  - intros [<-|(i & <- & Hi)]; [left; reflexivity|]. right. exists i. split; [|reflexivity].
    apply in_rev in Hi. apply underscores_spec in Hi as [_ H]. rewrite Nat.sub_0_r in H. exact H.
  - intros [->|(i & Hi & ->)]; [left; reflexivity|]. right. exists i. split; [reflexivity|].
    apply -> in_rev. apply underscores_spec. split; [lia|]. rewrite Nat.sub_0_r. exact Hi.
Qed.

(* the result is the entry of the first candidate that has a table, or the key *)
Theorem localize_first_table tables dflt loc key :
  localize tables dflt loc key =
    match first_table (candidates loc dflt) tables with
    | None => key
    | Some t => match lookup_tbl key t with Some m => m | None => key end
    end.
Proof. reflexivity. Qed.

Theorem first_table_spec tables : forall cands t,
  first_table cands tables = Some t <->
  exists pre c post, cands = pre ++ c :: post /\ lookup_tbl c tables = Some t
                     /\ forall x, In x pre -> lookup_tbl x tables = None.
Proof.
  induction cands as [|c r IH]; intros t; cbn [first_table].
  - split; [discriminate | intros (pre & c & post & H & _); destruct pre; discriminate].
  - destruct (lookup_tbl c tables) as [tc|] eqn:E.
    + split.
      * intros H; inversion H; subst. exists [], c, r. split; [reflexivity|]. split; [exact E | intros x []].
      * intros (pre & c' & post & H & Hl & Hp). destruct pre as [|p pre].
        -- inversion H; subst. congruence.
        -- inversion H; subst. specialize (Hp p (or_introl eq_refl)). congruence.
    + rewrite IH. split.
      * intros (pre & c' & post & -> & Hl & Hp). exists (c :: pre), c', post. split; [reflexivity|]. split; [exact Hl|].
        intros x [<-|Hx]; [exact E | apply Hp; exact Hx].
      * intros (pre & c' & post & H & Hl & Hp). destruct pre as [|p pre].
        -- inversion H; subst. congruence.
        -- inversion H; subst. exists pre, c', post. split; [reflexivity|]. split; [exact Hl|].
           intros x Hx. apply Hp. right. exact Hx.
Qed.
