(* C19: targets across the gRPC adapter boundary.

   Model of passage-adapters/grpc/src/proto.rs
       impl From<&passage_adapters::Target> for Target          (to_wire)
       impl TryFrom<Target> for passage_adapters::Target        (from_wire; from_wire_old = before the fix)
       impl TryFrom<Address> for SocketAddr                     (addr_of)
   of discovery_adapter.rs `discover` (from_wire_list) and of strategy_adapter.rs `select`
   (build_request, select_result).  The protobuf encoding and the HTTP/2 transport
   (prost, tonic) are not modelled: a wire target here is the decoded prost message.

   Definitions and Examples only; the proofs are in Adapters/GrpcProofs.v. *)
From Coq Require Import Permutation.
From Passage Require Import Lib.Bytes Lib.IpText.

(* ------------------------------------------------------------------ the two sides *)
(* proto message Target { string identifier; Address address; repeated MetaEntry meta }
   with Address { string hostname; uint32 port }: a message field may be absent. *)
Record wtarget := mkW {
  w_id : bytes;
  w_addr : option (bytes * Z);          (* hostname text, port (u32) *)
  w_meta : list (bytes * bytes) }.      (* repeated field: wire order, duplicates possible *)

(* passage_adapters::Target { identifier: String, address: SocketAddr, meta: HashMap<String, String> }.
   The address is (ip, port); flowinfo and scope id of a SocketAddrV6 are not part of the
   wire form (`ip().to_string()` drops them, `SocketAddr::new` sets them to 0).  The map
   is an association list with unique keys; its order stands for the (arbitrary)
   iteration order of the HashMap. *)
Record rtarget := mkR {
  r_id : bytes;
  r_ip : ip;
  r_port : Z;
  r_meta : list (bytes * bytes) }.

Definition wf_target (t : rtarget) : Prop :=
  wf_ip (r_ip t) = true /\ 0 <= r_port t < 65536 /\ NoDup (map fst (r_meta t)).

(* passage_adapters::Error::FailedParse by the dynamic type of its cause:
   MissingFieldError / AddrParseError / TryFromIntError; EOther = anything else
   (never produced by the model). *)
Inductive gerr := EMissing | EHost | EPort | EOther.
Inductive gres (A : Type) := GOk (a : A) | GErr (e : gerr).
Arguments GOk {A} a.
Arguments GErr {A} e.

(* ------------------------------------------------------------------ metadata *)
Fixpoint lookup (k : bytes) (m : list (bytes * bytes)) : option bytes :=
  match m with
  | [] => None
  | (k', v) :: r => if beq k k' then Some v else lookup k r
  end.

(* HashMap::insert: the value of an existing key is replaced, a new key is added (at the
   end: the position only matters up to `meta_equiv`) *)
Fixpoint insert (k v : bytes) (m : list (bytes * bytes)) : list (bytes * bytes) :=
  match m with
  | [] => [(k, v)]
  | (k', v') :: r => if beq k k' then (k', v) :: r else (k', v') :: insert k v r
  end.

(* `.into_iter().map(|e| (e.key, e.value)).collect::<HashMap<_, _>>()`: inserts in wire
   order, so a later duplicate overrides an earlier one *)
Definition meta_collect (l : list (bytes * bytes)) : list (bytes * bytes) :=
  fold_left (fun m kv => insert (fst kv) (snd kv) m) l [].

(* equality of maps: HashMap iteration order is arbitrary *)
Definition meta_equiv (a b : list (bytes * bytes)) : Prop := forall k, lookup k a = lookup k b.

Definition target_equiv (a b : rtarget) : Prop :=
  r_id a = r_id b /\ r_ip a = r_ip b /\ r_port a = r_port b /\ meta_equiv (r_meta a) (r_meta b).

(* ------------------------------------------------------------------ router -> wire *)
(* hostname: value.address.ip().to_string(); port: u32::from(u16); meta: one entry per
   map entry, in the map's iteration order *)
Definition to_wire (t : rtarget) : wtarget :=
  mkW (r_id t) (Some (show_ip (r_ip t), r_port t)) (r_meta t).

(* the map's iteration order is arbitrary: any permutation of the entries may be sent *)
Definition wire_of (t : rtarget) (w : wtarget) : Prop :=
  w_id w = r_id t /\ w_addr w = Some (show_ip (r_ip t), r_port t) /\ Permutation (w_meta w) (r_meta t).

(* ------------------------------------------------------------------ wire -> router *)
(* impl TryFrom<Address> for SocketAddr:
     Self::new(IpAddr::from_str(&hostname)?, u16::try_from(port)?)
   the host is converted first, so a reply with a bad host and a bad port reports the host *)
Definition addr_of (a : bytes * Z) : gres (ip * Z) :=
  match parse_ip (fst a) with
  | None => GErr EHost
  | Some i => if 65535 <? snd a then GErr EPort else GOk (i, snd a)
  end.

(* impl TryFrom<Target> for passage_adapters::Target, after the fix *)
Definition from_wire (w : wtarget) : gres rtarget :=
  match w_addr w with
  | None => GErr EMissing
  | Some a =>
      match addr_of a with
      | GErr e => GErr e
      | GOk (i, p) => GOk (mkR (w_id w) i p (meta_collect (w_meta w)))
      end
  end.

(* before the fix: SocketAddr::from_str(&format!("{}:{}", hostname, port)) *)
Definition from_wire_old (w : wtarget) : gres rtarget :=
  match w_addr w with
  | None => GErr EMissing
  | Some (h, p) =>
      match parse_sockaddr (h ++ ch_colon :: show_dec p) with
      | None => GErr EHost
      | Some (i, p') => GOk (mkR (w_id w) i p' (meta_collect (w_meta w)))
      end
  end.

(* discover(): targets.into_iter().map(TryInto::try_into).collect::<Result<Vec<_>, _>>():
   the first failing element decides the error, otherwise all elements in order *)
Fixpoint from_wire_list (ws : list wtarget) : gres (list rtarget) :=
  match ws with
  | [] => GOk []
  | w :: r =>
      match from_wire w with
      | GErr e => GErr e
      | GOk t => match from_wire_list r with
                 | GErr e => GErr e
                 | GOk ts => GOk (t :: ts)
                 end
      end
  end.

(* ------------------------------------------------------------------ select request *)
(* Uuid::to_string(): hyphenated lower-case hex of the 16 big-endian bytes, 8-4-4-4-12 *)
Definition hex2 (b : Z) : bytes := [hchar (b / 16); hchar (b mod 16)].
Definition ch_hyphen : Z := 45.
Definition uuid_text (b : bytes) : bytes :=
  match b with
  | [b0; b1; b2; b3; b4; b5; b6; b7; b8; b9; b10; b11; b12; b13; b14; b15] =>
      hex2 b0 ++ hex2 b1 ++ hex2 b2 ++ hex2 b3 ++ ch_hyphen ::
      hex2 b4 ++ hex2 b5 ++ ch_hyphen ::
      hex2 b6 ++ hex2 b7 ++ ch_hyphen ::
      hex2 b8 ++ hex2 b9 ++ ch_hyphen ::
      hex2 b10 ++ hex2 b11 ++ hex2 b12 ++ hex2 b13 ++ hex2 b14 ++ hex2 b15
  | _ => []
  end.
(* u = Uuid::as_u128() *)
Definition show_uuid (u : Z) : bytes := uuid_text (be_enc 16 u).

(* message SelectRequest { Address client_address; Address server_address; uint64 protocol;
                           string username; string user_id; repeated Target targets } *)
Record wreq := mkReq {
  q_client : option (bytes * Z);
  q_server : option (bytes * Z);
  q_proto : Z;
  q_user : bytes;
  q_uid : bytes;
  q_targets : list wtarget }.

(* the arguments of StrategyAdapter::select:
   client_addr: &SocketAddr, server_addr: (&str, u16), protocol: i32, user: (&str, &Uuid),
   targets: Vec<Target> *)
Record selin := mkSel {
  s_cip : ip;
  s_cport : Z;
  s_host : bytes;          (* the host name the client asked for: text, NOT an IP address *)
  s_sport : Z;
  s_proto : Z;             (* i32 *)
  s_user : bytes;
  s_uid : Z;               (* u128 *)
  s_targets : list rtarget }.

Definition wf_selin (s : selin) : Prop :=
  wf_ip (s_cip s) = true /\ 0 <= s_cport s < 65536 /\ 0 <= s_sport s < 65536 /\
  in_i32 (s_proto s) /\ 0 <= s_uid s < 2 ^ 128 /\ Forall wf_target (s_targets s).

(* `protocol as u64` of an i32 sign-extends: -1 becomes 2^64 - 1 *)
Definition build_request (s : selin) : wreq :=
  mkReq (Some (show_ip (s_cip s), s_cport s))
        (Some (s_host s, s_sport s))
        (s_proto s mod 2 ^ 64)
        (s_user s)
        (show_uuid (s_uid s))
        (map to_wire (s_targets s)).

(* response.into_inner().target.map(TryInto::try_into).transpose() *)
Definition select_result (reply : option wtarget) : gres (option rtarget) :=
  match reply with
  | None => GOk None
  | Some w => match from_wire w with
              | GOk t => GOk (Some t)
              | GErr e => GErr e
              end
  end.

(* ------------------------------------------------------------------ Examples *)
Definition ex_t6 : rtarget :=
  mkR (str "lobby-1") (V6 [8193; 3512; 0; 0; 0; 0; 0; 1]) 25565 [(str "region", str "eu"); (str "type", str "lobby")].

Example ex_to_wire :
  to_wire ex_t6 = mkW (str "lobby-1") (Some (str "2001:db8::1", 25565)) [(str "region", str "eu"); (str "type", str "lobby")].
Proof. vm_compute. reflexivity. Qed.
Example ex_roundtrip6 : from_wire (to_wire ex_t6) = GOk ex_t6.
Proof. vm_compute. reflexivity. Qed.
(* the defect: the unbracketed IPv6 text that to_wire sends is not a socket address *)
Example ex_old_rejects6 : from_wire_old (to_wire ex_t6) = GErr EHost.
Proof. vm_compute. reflexivity. Qed.
Example ex_old_accepts4 :
  from_wire_old (mkW (str "a") (Some (str "10.0.0.1", 25565)) []) = GOk (mkR (str "a") (V4 10 0 0 1) 25565 []).
Proof. vm_compute. reflexivity. Qed.
(* the old code did accept a bracketed host (a service could work around the defect that
   way); the crate's own Address conversion, used after the fix, does not *)
Example ex_bracketed :
  (from_wire_old (mkW [] (Some (str "[::1]", 80)) []), from_wire (mkW [] (Some (str "[::1]", 80)) []))
  = (GOk (mkR [] (V6 [0; 0; 0; 0; 0; 0; 0; 1]) 80 []), GErr EHost).
Proof. vm_compute. reflexivity. Qed.
Example ex_other_spellings :
  map (fun h => from_wire (mkW [] (Some (str h, 1)) []))
      ["2001:DB8:0:0:0:0:0:1"; "::ffff:10.0.0.1"; "0:0:0:0:0:ffff:a00:1"; "10.0.0.1"]%string
  = [GOk (mkR [] (V6 [8193; 3512; 0; 0; 0; 0; 0; 1]) 1 []);
     GOk (mkR [] (V6 [0; 0; 0; 0; 0; 65535; 2560; 1]) 1 []);
     GOk (mkR [] (V6 [0; 0; 0; 0; 0; 65535; 2560; 1]) 1 []);
     GOk (mkR [] (V4 10 0 0 1) 1 [])].
Proof. vm_compute. reflexivity. Qed.
Example ex_rejects :
  map from_wire
      [mkW [] None []; mkW [] (Some (str "localhost", 25565)) []; mkW [] (Some (str "fe80::1%3", 25565)) [];
       mkW [] (Some (str "10.0.0.1", 65536)) []; mkW [] (Some (str "::1", 4294967295)) [];
       mkW [] (Some (str "localhost", 65536)) []; mkW [] (Some (str "10.0.0.1", 65535)) []]
  = [GErr EMissing; GErr EHost; GErr EHost; GErr EPort; GErr EPort; GErr EHost; GOk (mkR [] (V4 10 0 0 1) 65535 [])].
Proof. vm_compute. reflexivity. Qed.
(* the old code also rejected a port above 65535 (as an address parse error) *)
Example ex_old_bad_port : from_wire_old (mkW [] (Some (str "10.0.0.1", 65536)) []) = GErr EHost.
Proof. vm_compute. reflexivity. Qed.
Example ex_meta_last_wins :
  meta_collect [(str "a", str "1"); (str "b", str "2"); (str "a", str "3"); (str "", str "x"); (str "b", str "5")]
  = [(str "a", str "3"); (str "b", str "5"); (str "", str "x")].
Proof. vm_compute. reflexivity. Qed.
Example ex_list_first_error :
  from_wire_list [to_wire ex_t6; mkW [] (Some (str "10.0.0.1", 65536)) []; mkW [] None []] = GErr EPort.
Proof. vm_compute. reflexivity. Qed.
Example ex_uuid :
  (show_uuid 0, show_uuid 1512366075204170929049582354406559215, show_uuid (2 ^ 128 - 1))
  = (str "00000000-0000-0000-0000-000000000000", str "01234567-89ab-cdef-0123-456789abcdef",
     str "ffffffff-ffff-ffff-ffff-ffffffffffff").
Proof. vm_compute. reflexivity. Qed.
Example ex_request :
  build_request (mkSel (V6 [0; 0; 0; 0; 0; 0; 0; 1]) 50000 (str "mc.example.org") 25565 (-1) (str "Steve") 1 [ex_t6])
  = mkReq (Some (str "::1", 50000)) (Some (str "mc.example.org", 25565)) 18446744073709551615 (str "Steve")
          (str "00000000-0000-0000-0000-000000000001") [to_wire ex_t6].
Proof. vm_compute. reflexivity. Qed.
