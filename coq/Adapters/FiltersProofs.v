(* Proofs about the filter chain / strategy model of Adapters/Filters.v (property C18). *)
From Passage Require Import Lib.Bytes Adapters.Filters.

(* ------------------------------------------------------------------ list helpers *)
Lemma filter_all_true {A} (f : A -> bool) l : (forall x, In x l -> f x = true) -> filter f l = l.
Proof.
  induction l as [|a l IH]; intros H; cbn [filter]; [reflexivity|].
  rewrite (H a (or_introl eq_refl)). f_equal. apply IH. intros x Hx. apply H. right. exact Hx.
Qed.

Lemma filter_nil_all_false {A} (f : A -> bool) l : filter f l = [] -> forall x, In x l -> f x = false.
Proof.
  intros E x Hx. destruct (f x) eqn:Fx; [|reflexivity].
  assert (Hin : In x (filter f l)) by (apply filter_In; split; assumption).
  rewrite E in Hin. destruct Hin.
Qed.

Lemma filter_filter {A} (f g : A -> bool) l :
  filter g (filter f l) = filter (fun x => f x && g x) l.
Proof.
  induction l as [|a l IH]; cbn [filter]; [reflexivity|].
  destruct (f a); cbn [filter andb]; rewrite IH; reflexivity.
Qed.

Lemma filter_pointwise {A} (f g : A -> bool) l : (forall x, f x = g x) -> filter f l = filter g l.
Proof.
  intros H. induction l as [|a l IH]; cbn [filter]; [reflexivity|]. rewrite H, IH. reflexivity.
Qed.

(* a split of the filtered list lifts to a split of the original list *)
Lemma filter_split {A} (f : A -> bool) l : forall a x b,
  filter f l = a ++ x :: b ->
  exists a' b', l = a' ++ x :: b' /\ filter f a' = a /\ filter f b' = b /\ f x = true.
Proof.
  induction l as [|y l IH]; intros a x b E; cbn [filter] in E.
  - destruct a; discriminate E.
  - destruct (f y) eqn:Fy.
    + destruct a as [|z a0]; cbn [app] in E.
      * inversion E; subst. exists [], l. cbn [app filter]. repeat split; assumption || reflexivity.
      * inversion E as [[Ey E']]; subst z. destruct (IH _ _ _ E') as (a' & b' & El & Ea & Eb & Fx).
        exists (y :: a'), b'. cbn [app filter]. rewrite Fy, Ea, El. repeat split; assumption || reflexivity.
    + destruct (IH _ _ _ E) as (a' & b' & El & Ea & Eb & Fx).
      exists (y :: a'), b'. cbn [app filter]. rewrite Fy, El. repeat split; assumption || reflexivity.
Qed.

Lemma subseq_nil_l {A} (l : list A) : subseq [] l.
Proof. induction l; constructor; assumption. Qed.

Lemma subseq_refl {A} (l : list A) : subseq l l.
Proof. induction l; constructor; assumption. Qed.

Lemma filter_subseq {A} (f : A -> bool) l : subseq (filter f l) l.
Proof.
  induction l as [|a l IH]; cbn [filter]; [constructor|].
  destruct (f a); constructor; exact IH.
Qed.

Lemma subseq_In {A} (l1 l2 : list A) : subseq l1 l2 -> forall x, In x l1 -> In x l2.
Proof.
  induction 1 as [|y l1 l2 _ IH|y l1 l2 _ IH]; intros x Hx.
  - exact Hx.
  - right. apply IH. exact Hx.
  - destruct Hx as [->|Hx]; [left; reflexivity | right; apply IH; exact Hx].
Qed.

Lemma subseq_length {A} (l1 l2 : list A) : subseq l1 l2 -> (length l1 <= length l2)%nat.
Proof. induction 1; cbn [length]; lia. Qed.

(* ------------------------------------------------------------------ metadata map *)
(* the association list with unique keys is a faithful HashMap: lookup = membership *)
Lemma lookup_In k v m : NoDup (map fst m) -> (lookup k m = Some v <-> In (k, v) m).
Proof.
  induction m as [|[k' v'] m IH]; intros ND; cbn [lookup].
  - split; [discriminate | intros []].
  - cbn [map fst] in ND. inversion ND as [|? ? Hnot ND']; subst.
    destruct (beq k k') eqn:E.
    + apply beq_spec in E. subst k'. split.
      * intros H. inversion H. left. reflexivity.
      * intros [H|H]; [inversion H; reflexivity|].
        exfalso. apply Hnot. apply (in_map fst) in H. exact H.
    + split.
      * intros H. right. apply IH; assumption.
      * intros [H|H]; [|apply IH; assumption].
        inversion H; subst. rewrite beq_refl in E. discriminate.
Qed.

Lemma lookup_None k m : lookup k m = None <-> ~ In k (map fst m).
Proof.
  induction m as [|[k' v'] m IH]; cbn [lookup map fst In].
  - split; [intros _ [] | reflexivity].
  - destruct (beq k k') eqn:E.
    + apply beq_spec in E. subst. split; [discriminate | intros H; exfalso; apply H; left; reflexivity].
    + rewrite IH. split.
      * intros H [H1|H1]; [subst; rewrite beq_refl in E; discriminate | exact (H H1)].
      * intros H H1. apply H. right. exact H1.
Qed.

(* ------------------------------------------------------------------ rule semantics *)
Lemma memb_spec v vs : memb v vs = true <-> In v vs.
Proof.
  unfold memb. rewrite existsb_exists. split.
  - intros [x [Hx E]]. apply beq_spec in E. subst. exact Hx.
  - intros H. exists v. split; [exact H | apply beq_refl].
Qed.

Lemma op_matches_spec o fv : op_matches o fv = true <-> op_sat o fv.
Proof.
  destruct o as [v|v| | |vs|vs], fv as [x|]; cbn [op_matches op_sat].
  - rewrite beq_spec. split; [intros ->; reflexivity | intros H; inversion H; reflexivity].
  - split; discriminate.
  - rewrite negb_true_iff. split.
    + intros H E. inversion E; subst. rewrite beq_refl in H. discriminate.
    + intros H. destruct (beq x v) eqn:E; [|reflexivity].
      apply beq_spec in E. subst. exfalso. apply H. reflexivity.
  - split; [intros _; discriminate | reflexivity].
  - split; [intros _; discriminate | reflexivity].
  - split; [discriminate | intros H; exfalso; apply H; reflexivity].
  - split; discriminate.
  - split; reflexivity.
  - rewrite memb_spec. split.
    + intros H. exists x. split; [reflexivity | exact H].
    + intros [v [E H]]. inversion E; subst. exact H.
  - split; [discriminate | intros [v [E _]]; discriminate].
  - rewrite negb_true_iff. split.
    + intros H v E Hin. inversion E; subst. apply memb_spec in Hin. congruence.
    + intros H. destruct (memb x vs) eqn:E; [|reflexivity].
      apply memb_spec in E. exfalso. exact (H x eq_refl E).
  - split; [intros _ v E; discriminate | reflexivity].
Qed.

(* ------------------------------------------------------------------ parse_u32 *)
Lemma parse_digits_range s : forall acc n, 0 <= acc <= u32_max -> parse_digits acc s = Some n -> acc <= n <= u32_max.
Proof.
  induction s as [|b r IH]; intros acc n Hacc H; cbn [parse_digits] in H.
  - inversion H; subst. lia.
  - unfold digit_of in H.
    destruct ((48 <=? b) && (b <=? 57)) eqn:D; [|discriminate].
    destruct (acc * 10 >? u32_max) eqn:M; [discriminate|].
    destruct (acc * 10 + (b - 48) >? u32_max) eqn:S; [discriminate|].
    apply IH in H; unfold u32_max in *; lia.
Qed.

Lemma parse_u32_range s n : parse_u32 s = Some n -> 0 <= n <= u32_max.
Proof.
  assert (Z0 : 0 <= 0 <= u32_max) by (unfold u32_max; lia).
  intros H.
  assert (G : exists s', parse_digits 0 s' = Some n).
  { unfold parse_u32 in H.
    repeat match type of H with
           | None = Some _ => discriminate H
           | match ?x with _ => _ end = _ => destruct x
           end; eexists; exact H. }
  destruct G as [s' G]. apply parse_digits_range in G; [lia | exact Z0].
Qed.

Lemma count_range field t : 0 <= count field t <= u32_max.
Proof.
  unfold count. destruct (lookup field (t_meta t)) as [v|]; [|unfold u32_max; lia].
  destruct (parse_u32 v) as [n|] eqn:E; [apply parse_u32_range in E; exact E | unfold u32_max; lia].
Qed.

(* ------------------------------------------------------------------ strategies *)
Lemma max_last_spec {A} (key : A -> Z) l : forall best,
  exists pre post,
    best :: l = pre ++ max_last key best l :: post
    /\ (forall u, In u (best :: l) -> key u <= key (max_last key best l))
    /\ (forall u, In u post -> key u < key (max_last key best l)).
Proof.
  induction l as [|y r IH]; intros best; cbn [max_last].
  - exists [], []. cbn [app]. split; [reflexivity|]. split.
    + intros u [->|[]]. lia.
    + intros u [].
  - destruct (key best >? key y) eqn:C.
    + destruct (IH best) as (pre & post & E & Hmax & Hpost).
      remember (max_last key best r) as m eqn:Dm. clear Dm IH.
      assert (Hb : key best <= key m) by (apply Hmax; left; reflexivity).
      destruct pre as [|p pre0]; cbn [app] in E.
      * injection E as Em Er. subst m post. exists [], (y :: r). cbn [app].
        split; [reflexivity|]. split.
        -- intros u [->|[->|Hu]]; [lia | lia |]. apply Hmax. right. exact Hu.
        -- intros u [->|Hu]; [lia|]. apply Hpost. exact Hu.
      * injection E as Ep Er. subst p r. exists (best :: y :: pre0), post. cbn [app].
        split; [reflexivity|]. split; [|exact Hpost].
        intros u [->|[->|Hu]]; [exact Hb | lia |]. apply Hmax. right. exact Hu.
    + destruct (IH y) as (pre & post & E & Hmax & Hpost).
      remember (max_last key y r) as m eqn:Dm. clear Dm IH.
      assert (Hy : key y <= key m) by (apply Hmax; left; reflexivity).
      exists (best :: pre), post. cbn [app]. rewrite E.
      split; [reflexivity|]. split; [|exact Hpost].
      intros u [->|Hu]; [lia|]. rewrite <- E in Hu. apply Hmax. exact Hu.
Qed.

Lemma max_by_key_spec {A} (key : A -> Z) l :
  match max_by_key key l with
  | Some m => exists pre post, l = pre ++ m :: post
                /\ (forall u, In u l -> key u <= key m)
                /\ (forall u, In u post -> key u < key m)
  | None => l = []
  end.
Proof.
  destruct l as [|x r]; cbn [max_by_key]; [reflexivity|]. apply max_last_spec.
Qed.

Lemma select_fill_spec field maxp ts : fill_rule field maxp ts (select_fill field maxp ts).
Proof.
  unfold select_fill, fill_rule.
  set (f := fun t => count field t <? maxp).
  pose proof (max_by_key_spec (count field) (filter f ts)) as H.
  destruct (max_by_key (count field) (filter f ts)) as [t|].
  - destruct H as (pre & post & E & Hmax & Hpost).
    destruct (filter_split f ts pre t post E) as (pre' & post' & Ets & Epre & Epost & Ft).
    exists pre', post'. split; [exact Ets|]. split; [unfold f in Ft; lia|]. split.
    + intros u Hu Hc. apply Hmax. apply filter_In. split; [exact Hu | unfold f; lia].
    + intros u Hu Hc. apply Hpost. rewrite <- Epost. apply filter_In. split; [exact Hu | unfold f; lia].
  - intros u Hu. pose proof (filter_nil_all_false f ts H u Hu) as Fu. unfold f in Fu. lia.
Qed.

(* ------------------------------------------------------------------ the chain *)
Section Proofs.
  Variable rm : bytes -> bytes -> bool.

  Lemma applicable_spec f host : applicable rm f host = true <-> Applicable rm f host.
  Proof.
    unfold applicable, Applicable. destruct (f_host f) as [pat|].
    - split.
      + intros H. right. exists pat. split; [reflexivity | exact H].
      + intros [H|[p [E H]]]; [discriminate | inversion E; subst; exact H].
    - split; [intros _; left; reflexivity | reflexivity].
  Qed.

  Lemma opt_any_names name o :
    opt_any (fun x => beq x name) o = true <-> exists l, o = Some l /\ In name l.
  Proof.
    destruct o as [l|]; cbn [opt_any].
    - rewrite existsb_exists. split.
      + intros [x [Hx E]]. apply beq_spec in E. subst. exists l. split; [reflexivity | exact Hx].
      + intros [l' [E H]]. inversion E; subst. exists name. split; [exact H | apply beq_refl].
    - split; [discriminate | intros [l [E _]]; discriminate].
  Qed.

  Lemma opt_any_ids uuid o :
    opt_any (fun x => x =? uuid) o = true <-> exists l, o = Some l /\ In uuid l.
  Proof.
    destruct o as [l|]; cbn [opt_any].
    - rewrite existsb_exists. split.
      + intros [x [Hx E]]. apply Z.eqb_eq in E. subst. exists l. split; [reflexivity | exact Hx].
      + intros [l' [E H]]. inversion E; subst. exists uuid. split; [exact H | apply Z.eqb_refl].
    - split; [discriminate | intros [l [E _]]; discriminate].
  Qed.

  Lemma plist_hit_spec p name uuid : plist_hit rm p name uuid = true <-> Hit rm p name uuid.
  Proof.
    unfold plist_hit, Hit. rewrite !orb_true_iff, opt_any_names, opt_any_ids.
    assert (P : match pl_pattern p with Some pat => rm pat name | None => false end = true
                <-> exists pat, pl_pattern p = Some pat /\ rm pat name = true).
    { destruct (pl_pattern p) as [pat|].
      - split; [intros H; exists pat; split; [reflexivity | exact H]
               | intros [q [E H]]; inversion E; subst; exact H].
      - split; [discriminate | intros [q [E _]]; discriminate]. }
    rewrite P. tauto.
  Qed.

  Lemma qualifiesb_spec fs host t : qualifiesb rm fs host t = true <-> Qualifies rm fs host t.
  Proof.
    unfold qualifiesb, Qualifies. rewrite forallb_forall. split.
    - intros H f rules r Hf Happ Hk Hr. specialize (H f Hf). unfold qualifies1 in H.
      apply applicable_spec in Happ. rewrite Happ, Hk in H.
      unfold meta_matches in H. rewrite forallb_forall in H. specialize (H r Hr).
      apply op_matches_spec. exact H.
    - intros H f Hf. unfold qualifies1.
      destruct (applicable rm f host) eqn:Ea; [|reflexivity].
      destruct (f_kind f) as [rules|p|p] eqn:Ek; try reflexivity.
      unfold meta_matches. apply forallb_forall. intros r Hr. unfold rule_matches.
      apply op_matches_spec. apply (H f rules r Hf); [apply applicable_spec; exact Ea | exact Ek | exact Hr].
  Qed.

  Lemma passesb_spec fs host name uuid : passesb rm fs host name uuid = true <-> Passes rm fs host name uuid.
  Proof.
    unfold passesb, Passes. rewrite forallb_forall. split.
    - intros H f Hf Happ. specialize (H f Hf). unfold passes1 in H.
      apply applicable_spec in Happ. rewrite Happ in H. split; intros p Ek; rewrite Ek in H.
      + apply plist_hit_spec. exact H.
      + intros Hh. apply plist_hit_spec in Hh. rewrite Hh in H. discriminate.
    - intros H f Hf. unfold passes1.
      destruct (applicable rm f host) eqn:Ea; [|reflexivity].
      apply applicable_spec in Ea. destruct (H f Hf Ea) as [Ha Hb].
      destruct (f_kind f) as [rules|p|p]; [reflexivity | |].
      + apply plist_hit_spec. apply Ha. reflexivity.
      + apply negb_true_iff. destruct (plist_hit rm p name uuid) eqn:E; [|reflexivity].
        exfalso. apply (Hb p eq_refl). apply plist_hit_spec. exact E.
  Qed.

  Lemma refused_iff fs host name uuid : Refused rm fs host name uuid <-> ~ Passes rm fs host name uuid.
  Proof.
    split.
    - intros (f & Hf & Ha & [[p [Ek Hn]]|[p [Ek Hh]]]) HP; destruct (HP f Hf Ha) as [H1 H2].
      + apply Hn. apply H1. exact Ek.
      + apply (H2 p Ek). exact Hh.
    - intros HP. rewrite <- passesb_spec in HP. apply not_true_is_false in HP.
      unfold passesb in HP.
      assert (G : exists f, In f fs /\ passes1 rm host name uuid f = false).
      { clear -HP. induction fs as [|f fs' IH]; cbn [forallb] in HP; [discriminate|].
        apply andb_false_iff in HP as [H|H].
        - exists f. split; [left; reflexivity | exact H].
        - destruct (IH H) as [g [Hg Hp]]. exists g. split; [right; exact Hg | exact Hp]. }
      destruct G as (f & Hf & Hp). exists f. split; [exact Hf|].
      unfold passes1 in Hp. destruct (applicable rm f host) eqn:Ea; [|discriminate].
      split; [apply applicable_spec; exact Ea|].
      destruct (f_kind f) as [rules|p|p]; [discriminate | left | right]; exists p; split; try reflexivity.
      + intros Hh. apply plist_hit_spec in Hh. congruence.
      + apply negb_false_iff in Hp. apply plist_hit_spec. exact Hp.
  Qed.

  Lemma chain_cons f fs host name uuid ts :
    chain rm (f :: fs) host name uuid ts = chain rm fs host name uuid (apply_filter rm f host name uuid ts).
  Proof. reflexivity. Qed.

  (* the operational fold equals its declarative reading *)
  Lemma chain_eq fs host name uuid : forall ts,
    chain rm fs host name uuid ts
    = if passesb rm fs host name uuid then filter (qualifiesb rm fs host) ts else [].
  Proof.
    induction fs as [|f fs IH]; intros ts.
    - cbn. symmetry. apply filter_all_true. reflexivity.
    - rewrite chain_cons, IH.
      change (passesb rm (f :: fs) host name uuid)
        with (passes1 rm host name uuid f && passesb rm fs host name uuid).
      rewrite (filter_pointwise (qualifiesb rm (f :: fs) host)
                 (fun t => qualifies1 rm host t f && qualifiesb rm fs host t)) by reflexivity.
      rewrite <- (filter_filter (fun t => qualifies1 rm host t f) (qualifiesb rm fs host)).
      unfold apply_filter, passes1, qualifies1.
      destruct (applicable rm f host).
      + destruct (f_kind f) as [rules|p|p]; cbn [apply_kind].
        * cbn [andb]. reflexivity.
        * destruct (plist_hit rm p name uuid); cbn [andb].
          -- rewrite (filter_all_true (fun _ => true)) by reflexivity. reflexivity.
          -- cbn [filter]. destruct (passesb rm fs host name uuid); reflexivity.
        * destruct (plist_hit rm p name uuid); cbn [andb negb].
          -- cbn [filter]. destruct (passesb rm fs host name uuid); reflexivity.
          -- rewrite (filter_all_true (fun _ => true)) by reflexivity. reflexivity.
      + cbn [andb]. rewrite (filter_all_true (fun _ => true)) by reflexivity. reflexivity.
  Qed.

  Theorem chain_sound fs host name uuid ts :
    let out := chain rm fs host name uuid ts in
    subseq out ts
    /\ (forall t, In t out -> Qualifies rm fs host t)
    /\ (~ Passes rm fs host name uuid -> out = [])
    /\ (Refused rm fs host name uuid -> out = []).
  Proof.
    cbv zeta. rewrite chain_eq.
    destruct (passesb rm fs host name uuid) eqn:P.
    - split; [apply filter_subseq|]. split.
      + intros t Ht. apply filter_In in Ht as [_ Ht]. apply qualifiesb_spec. exact Ht.
      + apply passesb_spec in P. split; [intros H | intros H; apply refused_iff in H]; exfalso; exact (H P).
    - split; [apply subseq_nil_l|]. split; [intros t []|]. split; reflexivity.
  Qed.

  Theorem chain_complete fs host name uuid ts :
    Passes rm fs host name uuid ->
    chain rm fs host name uuid ts = filter (qualifiesb rm fs host) ts
    /\ (forall t, qualifiesb rm fs host t = true <-> Qualifies rm fs host t).
  Proof.
    intros P. apply passesb_spec in P. rewrite chain_eq, P.
    split; [reflexivity | intros t; apply qualifiesb_spec].
  Qed.

  (* ---------------- strategies ---------------- *)
  Theorem any_first ts :
    (select_any ts = None <-> ts = [])
    /\ (forall t r, ts = t :: r -> select_any ts = Some t).
  Proof.
    split.
    - destruct ts; cbn [select_any]; split; intros H; reflexivity || discriminate H.
    - intros t r ->. reflexivity.
  Qed.

  (* ---------------- chain + strategy ---------------- *)
  Theorem end_to_end fs s host name uuid ts :
    match route rm fs s host name uuid ts with
    | Some t => In t ts /\ Eligible rm fs host name uuid t /\ selected_rule rm fs s host ts t
    | None => refusal_rule rm fs s host name uuid ts
    end.
  Proof.
    unfold route. rewrite chain_eq.
    destruct (passesb rm fs host name uuid) eqn:P.
    2: { assert (E : select s [] = None) by (destruct s; reflexivity). rewrite E.
         intros u _ [HP _]. apply passesb_spec in HP. congruence. }
    pose proof P as P'. apply passesb_spec in P'.
    set (Q := qualifiesb rm fs host).
    destruct s as [|field maxp]; cbn [select].
    - destruct (filter Q ts) as [|t r] eqn:E; cbn [select_any].
      + intros u Hu [_ HQ]. apply qualifiesb_spec in HQ.
        pose proof (filter_nil_all_false Q ts E u Hu) as F. unfold Q in F. congruence.
      + destruct (filter_split Q ts [] t r E) as (pre & post & Ets & Epre & _ & Qt).
        split; [rewrite Ets; apply in_or_app; right; left; reflexivity|].
        split; [split; [exact P' | apply qualifiesb_spec; exact Qt]|].
        exists pre, post. split; [exact Ets|].
        intros u Hu HQ. apply qualifiesb_spec in HQ.
        pose proof (filter_nil_all_false Q pre Epre u Hu) as F. unfold Q in F. congruence.
    - pose proof (select_fill_spec field maxp (filter Q ts)) as H. unfold fill_rule in H.
      destruct (select_fill field maxp (filter Q ts)) as [t|].
      + destruct H as (pre & post & E & Hlt & Hmax & Hpost).
        destruct (filter_split Q ts pre t post E) as (pre' & post' & Ets & _ & Epost & Qt).
        split; [rewrite Ets; apply in_or_app; right; left; reflexivity|].
        split; [split; [exact P' | apply qualifiesb_spec; exact Qt]|].
        exists pre', post'. split; [exact Ets|]. split; [exact Hlt|]. split.
        * intros u Hu HQ Hc. apply Hmax; [|exact Hc].
          apply filter_In. split; [exact Hu | apply qualifiesb_spec; exact HQ].
        * intros u Hu HQ Hc. apply Hpost; [|exact Hc]. rewrite <- Epost.
          apply filter_In. split; [exact Hu | apply qualifiesb_spec; exact HQ].
      + intros u Hu [_ HQ]. apply H. apply filter_In. split; [exact Hu | apply qualifiesb_spec; exact HQ].
  Qed.
End Proofs.

(* ------------------------------------------------------------------ non-vacuity *)
Module Example18.
  Local Open Scope string_scope.
  (* regex table as the harness would record it: "^lobby\." scopes, "^Steve" name pattern *)
  Definition tab : regex_table :=
    [ ((str "^lobby\.", str "lobby.example.org"), true);
      ((str "^hub\.", str "lobby.example.org"), false);
      ((str "^Steve", str "Steve42"), true) ].
  Definition rm := tab_match tab.

  Definition tg (id : string) (a : Z) (m : list (string * string)) : target :=
    mkTarget (str id) a (map (fun kv => (str (fst kv), str (snd kv))) m).

  Definition ts : list target :=
    [ tg "t0" 0 [("region", "eu"); ("players", "3")];
      tg "t1" 1 [("region", "us"); ("players", "9")];
      tg "t2" 2 [("region", "eu"); ("players", "+7")];
      tg "t3" 3 [("region", "eu"); ("players", "007")];
      tg "t4" 4 [("region", "eu"); ("players", "10")];
      tg "t5" 5 [("region", "eu"); ("players", "-0"); ("draining", "yes")];
      tg "t6" 6 [("region", "eu")] ].

  Definition fs : list ofilter :=
    [ mkFilter (Some (str "^lobby\.")) (FMeta [mkRule (str "region") (OIn [str "eu"; str "ap"]);
                                               mkRule (str "draining") ONotExists]);
      mkFilter (Some (str "^hub\.")) (FMeta [mkRule (str "region") (OEquals (str "us"))]);
      mkFilter None (FAllow (mkPlist None (Some (str "^Steve")) (Some [17])));
      mkFilter (Some (str "^hub\.")) (FBlock (mkPlist (Some [str "Steve42"]) None None));
      mkFilter None (FBlock (mkPlist (Some [str "Alex"]) None (Some [18]))) ].

  Definition host := str "lobby.example.org".
  Definition name := str "Steve42".

  Example passes : Passes rm fs host name 99.
  Proof. apply passesb_spec. vm_compute. reflexivity. Qed.

  Example chain_ex : map t_addr (chain rm fs host name 99 ts) = [0; 2; 3; 4; 6].
  Proof. vm_compute. reflexivity. Qed.

  (* the last of the two fullest targets below capacity (t2 "+7" and t3 "007") is chosen *)
  Example fill_ex : option_map t_addr (route rm fs (SFill (str "players") 10) host name 99 ts) = Some 3.
  Proof. vm_compute. reflexivity. Qed.

  Example any_ex : option_map t_addr (route rm fs SAny host name 99 ts) = Some 0.
  Proof. vm_compute. reflexivity. Qed.

  (* a blocked player gets nothing although targets qualify *)
  Example blocked_ex : route rm fs SAny host (str "Alex") 99 ts = None
                       /\ Refused rm fs host (str "Alex") 99.
  Proof.
    split; [vm_compute; reflexivity|].
    apply refused_iff. rewrite <- passesb_spec. vm_compute. discriminate.
  Qed.

  (* everybody full: refusal although targets qualify *)
  Example full_ex : route rm fs (SFill (str "players") 0) host name 99 ts = None.
  Proof. vm_compute. reflexivity. Qed.
End Example18.
