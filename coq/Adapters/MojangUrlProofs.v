(* Passage.Adapters.MojangUrlProofs - proofs about the has-joined URL model of
   Adapters/MojangUrl.v: for every byte string claimed as user name and every hash the
   repaired construction yields the fixed path and exactly the two intended parameters;
   the original interpolation does not. *)
From Passage Require Import Lib.Bytes Spec.Sha1 Spec.SignedHex Spec.FormUrl Spec.FormUrlProofs
  Crypto.McHash Crypto.McHashProofs Adapters.MojangUrl.

(* the query string of the model *)
Definition query (name hash : bytes) : bytes :=
  k_username ++ 61 :: enc name ++ 38 :: k_server_id ++ 61 :: enc hash.

Lemma enc_keys : enc k_username = k_username /\ enc k_server_id = k_server_id.
Proof. vm_compute. auto. Qed.

Lemma build_shape name hash : build name hash = (origin ++ has_joined_path) ++ 63 :: query name hash.
Proof.
  unfold build, query. destruct enc_keys as [-> ->].
  rewrite <- !app_assoc. cbn [app]. repeat (rewrite <- ?app_assoc; cbn [app]). reflexivity.
Qed.

Lemma target_shape name hash : target (build name hash) = has_joined_path ++ 63 :: query name hash.
Proof.
  rewrite build_shape. unfold target. rewrite <- app_assoc.
  rewrite skipn_app, skipn_all, Nat.sub_diag. reflexivity.
Qed.

Lemma wf_keys : wf_bytes k_username /\ wf_bytes k_server_id.
Proof. split; apply wfb_spec; reflexivity. Qed.

(* the query consists of inert bytes except for its own three delimiters *)
Lemma query_lacks c name hash : wf_bytes name -> wf_bytes hash ->
  inert c = false -> (c =? 61) = false -> (c =? 38) = false -> lacks c (query name hash) = true.
Proof.
  intros Hn Hh Hc H61 H38. unfold query.
  assert (L : forall l, wf_bytes l -> lacks c (enc l) = true)
    by (intros l Hl; apply inert_lacks; [exact Hc | apply enc_inert, Hl]).
  assert (Lk : lacks c k_username = true /\ lacks c k_server_id = true).
  { destruct enc_keys as [E1 E2]. destruct wf_keys as [W1 W2]. rewrite <- E1 at 1. rewrite <- E2. auto. }
  destruct Lk as [Lk1 Lk2].
  rewrite lacks_app, Lk1. cbn [andb lacks forallb]. rewrite Z.eqb_sym, H61. cbn [negb andb].
  fold (lacks c (enc name ++ 38 :: k_server_id ++ 61 :: enc hash)).
  rewrite lacks_app, (L name Hn). cbn [andb lacks forallb]. rewrite (Z.eqb_sym 38 c), H38. cbn [negb andb].
  fold (lacks c (k_server_id ++ 61 :: enc hash)).
  rewrite lacks_app, Lk2. cbn [andb lacks forallb]. rewrite (Z.eqb_sym 61 c), H61. cbn [negb andb].
  apply (L hash Hh).
Qed.

Lemma query_parse name hash : wf_bytes name -> wf_bytes hash ->
  parse_query (query name hash) = [(k_username, name); (k_server_id, hash)].
Proof.
  intros Hn Hh. unfold parse_query, query. destruct wf_keys as [W1 W2]. destruct enc_keys as [E1 E2].
  assert (A1 : lacks 38 (k_username ++ 61 :: enc name) = true).
  { rewrite lacks_app. apply andb_true_iff. split; [reflexivity|]. cbn [lacks forallb]. cbn [andb].
    change (negb (61 =? 38)) with true. cbn [andb]. apply inert_lacks; [reflexivity | apply enc_inert, Hn]. }
  assert (A2 : lacks 38 (k_server_id ++ 61 :: enc hash) = true).
  { rewrite lacks_app. apply andb_true_iff. split; [reflexivity|]. cbn [lacks forallb].
    change (negb (61 =? 38)) with true. cbn [andb]. apply inert_lacks; [reflexivity | apply enc_inert, Hh]. }
  replace (k_username ++ 61 :: enc name ++ 38 :: k_server_id ++ 61 :: enc hash)
    with ((k_username ++ 61 :: enc name) ++ 38 :: (k_server_id ++ 61 :: enc hash))
    by (rewrite <- app_assoc; reflexivity).
  rewrite split_on_app by exact A1. rewrite split_on_none by exact A2.
  cbn [filter]. change (nonempty (k_username ++ 61 :: enc name)) with true.
  change (nonempty (k_server_id ++ 61 :: enc hash)) with true. cbv iota. cbn [map].
  rewrite <- E1 at 1. rewrite <- E2 at 1.
  rewrite !parse_pair_enc by assumption. reflexivity.
Qed.

Lemma path_lacks : lacks 63 (origin ++ has_joined_path) = true /\ lacks 35 (origin ++ has_joined_path) = true
  /\ lacks 63 has_joined_path = true /\ lacks 35 has_joined_path = true.
Proof. vm_compute. auto. Qed.

(* cutting an URL or request target of the form  prefix ? query *)
Lemma cut_target pre q : lacks 63 pre = true -> lacks 35 pre = true -> lacks 35 q = true ->
  strip_fragment (pre ++ 63 :: q) = pre ++ 63 :: q /\
  target_path (pre ++ 63 :: q) = pre /\ target_query (pre ++ 63 :: q) = q.
Proof.
  intros H63 H35 Hq.
  assert (S : strip_fragment (pre ++ 63 :: q) = pre ++ 63 :: q).
  { unfold strip_fragment. rewrite split_first_none; [reflexivity|].
    rewrite lacks_app, H35. cbn [andb lacks forallb]. exact Hq. }
  unfold target_path, target_query. rewrite S, split_first_app by exact H63. auto.
Qed.

Section Repaired.
  Variables name hash : bytes.
  Hypothesis Hn : wf_bytes name.
  Hypothesis Hh : wf_bytes hash.

  Lemma query_no_fragment : lacks 35 (query name hash) = true.
  Proof. apply query_lacks; auto. Qed.

  Lemma url_cut :
    target_path (build name hash) = origin ++ has_joined_path /\
    target_query (build name hash) = query name hash /\
    has_byte 35 (build name hash) = false.
  Proof.
    destruct path_lacks as (P1 & P2 & _ & _). rewrite build_shape.
    destruct (cut_target _ _ P1 P2 query_no_fragment) as (_ & C2 & C3). repeat split; auto.
    apply negb_true_iff. rewrite <- lacks_has, lacks_app, P2. cbn [andb lacks forallb]. exact query_no_fragment.
  Qed.

  Lemma target_cut :
    target_path (target (build name hash)) = has_joined_path /\
    target_query (target (build name hash)) = query name hash /\
    has_byte 35 (target (build name hash)) = false.
  Proof.
    destruct path_lacks as (_ & _ & P1 & P2). rewrite target_shape.
    destruct (cut_target _ _ P1 P2 query_no_fragment) as (_ & C2 & C3). repeat split; auto.
    apply negb_true_iff. rewrite <- lacks_has, lacks_app, P2. cbn [andb lacks forallb]. exact query_no_fragment.
  Qed.

  Theorem build_params :
    parse_query (target_query (build name hash)) = [(k_username, name); (k_server_id, hash)].
  Proof. destruct url_cut as (_ & -> & _). apply query_parse; assumption. Qed.

  Theorem target_params :
    parse_query (target_query (target (build name hash))) = [(k_username, name); (k_server_id, hash)].
  Proof. destruct target_cut as (_ & -> & _). apply query_parse; assumption. Qed.

  (* every byte of the request target is visible ASCII *)
  Lemma target_visible : forallb (inrange 33 126) (target (build name hash)) = true.
  Proof.
    assert (V : forall l, wf_bytes l -> forallb (inrange 33 126) (enc l) = true).
    { intros l Hl. apply (forallb_impl inert); [|apply enc_inert, Hl].
      intros x Hx. unfold inert in Hx. apply andb_true_iff in Hx as [Hx _]. exact Hx. }
    rewrite target_shape. unfold query. repeat (rewrite forallb_app; cbn [forallb]).
    rewrite (V name Hn), (V hash Hh). vm_compute. reflexivity.
  Qed.

  Lemma query_pct_ok : pct_ok (query name hash) = true.
  Proof.
    unfold query. destruct enc_keys as [E1 E2]. destruct wf_keys as [W1 W2].
    rewrite pct_ok_app by reflexivity.
    change (pct_ok (61 :: enc name ++ 38 :: k_server_id ++ 61 :: enc hash))
      with (pct_ok (enc name ++ 38 :: k_server_id ++ 61 :: enc hash)).
    rewrite pct_ok_app by (apply enc_pct_ok, Hn).
    change (pct_ok (38 :: k_server_id ++ 61 :: enc hash)) with (pct_ok (k_server_id ++ 61 :: enc hash)).
    rewrite pct_ok_app by reflexivity.
    change (pct_ok (61 :: enc hash)) with (pct_ok (enc hash)). apply enc_pct_ok, Hh.
  Qed.

  (* the model satisfies the monitor that the harness applies to the real request *)
  Theorem model_target_ok : target_ok name hash (target (build name hash)) = true.
  Proof.
    unfold target_ok. destruct target_cut as (C1 & C2 & C3).
    rewrite target_visible, C3, C1, C2, query_pct_ok, query_parse by assumption.
    rewrite beq_refl. cbn [negb andb length Nat.eqb].
    unfold values_of. cbn [filter fst snd map].
    rewrite (beq_refl k_username), (beq_refl k_server_id).
    change (beq k_server_id k_username) with false. change (beq k_username k_server_id) with false.
    cbv iota. cbn [map snd]. rewrite !beq_refl. reflexivity.
  Qed.
End Repaired.

Theorem build_injective n1 h1 n2 h2 : wf_bytes n1 -> wf_bytes h1 -> wf_bytes n2 -> wf_bytes h2 ->
  build n1 h1 = build n2 h2 -> n1 = n2 /\ h1 = h2.
Proof.
  intros W1 W2 W3 W4 E.
  pose proof (build_params n1 h1 W1 W2) as P1. pose proof (build_params n2 h2 W3 W4) as P2.
  rewrite E, P2 in P1. inversion P1. auto.
Qed.

(* what the monitor guarantees about ANY observed request target *)
Theorem target_ok_sound name hash t : target_ok name hash t = true ->
  target_path t = has_joined_path /\ has_byte 35 t = false /\
  pct_ok (target_query t) = true /\
  length (parse_query (target_query t)) = 2%nat /\
  values_of k_username (parse_query (target_query t)) = [name] /\
  values_of k_server_id (parse_query (target_query t)) = [hash].
Proof.
  unfold target_ok. intros H.
  apply andb_true_iff in H as [H Hq]. apply andb_true_iff in H as [H Hp].
  apply andb_true_iff in H as [H Hpath]. apply andb_true_iff in H as [_ Hfrag].
  apply andb_true_iff in Hq as [Hq Hs]. apply andb_true_iff in Hq as [Hlen Hu].
  split; [apply beq_spec, Hpath|]. split; [apply negb_true_iff, Hfrag|]. split; [exact Hp|].
  split; [apply Nat.eqb_eq, Hlen|].
  split.
  - destruct (values_of k_username _) as [|v [|]]; try discriminate. apply beq_spec in Hu. congruence.
  - destruct (values_of k_server_id _) as [|v [|]]; try discriminate. apply beq_spec in Hs. congruence.
Qed.

(* ---------------------------------------------------------------- the hash goes in verbatim *)
Lemma hash_char_unchanged c : hash_char c = true -> unchanged c = true.
Proof. unfold hash_char, unchanged, inrange. intros H. lia. Qed.

Lemma enc_hash_id h : forallb hash_char h = true -> enc h = h.
Proof. intros H. apply enc_unchanged_id. apply (forallb_impl hash_char); [exact hash_char_unchanged | exact H]. Qed.

Lemma hash_chars_wf h : forallb hash_char h = true -> wf_bytes h.
Proof.
  intros H. unfold wf_bytes. rewrite Forall_forall. rewrite forallb_forall in H. intros x Hx.
  specialize (H x Hx). unfold hash_char, inrange in H. unfold is_byte. lia.
Qed.

Lemma lower_hex_hash_char c : is_lower_hex c = true -> hash_char c = true.
Proof. unfold is_lower_hex, hash_char, inrange. intros H. lia. Qed.

Lemma magnitude_hash_chars s : hex_magnitude_format s = true -> forallb hash_char s = true.
Proof.
  destruct s as [|c r]; [discriminate|]. cbn [hex_magnitude_format].
  destruct (c =? 48) eqn:E.
  - destruct r; [|discriminate]. intros _. apply Z.eqb_eq in E. subst c. reflexivity.
  - apply forallb_impl. exact lower_hex_hash_char.
Qed.

Lemma signed_hex_hash_chars s : signed_hex_format s = true -> forallb hash_char s = true.
Proof.
  destruct s as [|c r]; [discriminate|]. cbn [signed_hex_format].
  destruct (c =? 45) eqn:E.
  - intros H. apply andb_true_iff in H as [H _]. apply Z.eqb_eq in E. subst c.
    cbn [forallb]. change (hash_char 45) with true. apply magnitude_hash_chars, H.
  - apply magnitude_hash_chars.
Qed.

Lemma minecraft_hash_chars id ss pk : forallb hash_char (minecraft_hash id ss pk) = true.
Proof.
  apply signed_hex_hash_chars. unfold minecraft_hash. apply mc_hex_format, sha1_wf.
Qed.

Theorem build_hash_verbatim name h : forallb hash_char h = true ->
  build name h = origin ++ has_joined_path ++ str "?username=" ++ enc name ++ str "&serverId=" ++ h.
Proof.
  intros H. rewrite build_shape. unfold query. rewrite (enc_hash_id h H).
  rewrite <- !app_assoc. reflexivity.
Qed.

(* ---------------------------------------------------------------- the whole adapter call *)
Theorem request_url_params id name ss pk : wf_bytes name ->
  let h := minecraft_hash id ss pk in
  parse_query (target_query (target (request_url id name ss pk))) = [(k_username, name); (k_server_id, h)]
  /\ target_path (target (request_url id name ss pk)) = has_joined_path
  /\ has_byte 35 (target (request_url id name ss pk)) = false
  /\ h = show_signed_hex (twos_complement_be (sha1 (id ++ ss ++ pk))).
Proof.
  intros Hn h. unfold request_url. fold h.
  assert (Hh : wf_bytes h) by (apply hash_chars_wf, minecraft_hash_chars).
  destruct (target_cut name h Hn Hh) as (C1 & _ & C3).
  split; [apply target_params; assumption|]. split; [exact C1|]. split; [exact C3|].
  apply minecraft_hash_signed_hex.
Qed.

(* ---------------------------------------------------------------- the original interpolation *)
Definition h40 : bytes := str "-7c9d5b0044c130109a5d7b5fb5c317c02b4e28c1".

(* a name that carries its own serverId: the request has TWO serverId parameters, the
   attacker's one first (servers commonly take the first or the last) *)
Lemma raw_extra_parameter :
  parse_query (target_query (build_raw (str "Victim&serverId=abc") h40))
  = [(k_username, str "Victim"); (k_server_id, str "abc"); (k_server_id, h40)].
Proof. vm_compute. reflexivity. Qed.

(* a name ending in '#': the serverId parameter becomes the fragment and is never sent *)
Lemma raw_dropped_parameter :
  parse_query (target_query (build_raw (str "x#") h40)) = [(k_username, str "x")].
Proof. vm_compute. reflexivity. Qed.

(* a name containing an escape: the server is asked about a different name *)
Lemma raw_other_name :
  parse_query (target_query (build_raw (str "a%26b+c") h40)) = [(k_username, str "a&b c"); (k_server_id, h40)].
Proof. vm_compute. reflexivity. Qed.

(* two different claimed names, one request *)
Lemma raw_not_injective :
  build_raw (str "x&serverId=0") (str "1") = build_raw (str "x") (str "0&serverId=1") /\
  build_raw (str "a#") (str "1") <> build_raw (str "a") (str "1") /\
  target_query (build_raw (str "a#") (str "1")) = target_query (build_raw (str "a#b") (str "2")).
Proof. split; [vm_compute; reflexivity|]. split; [discriminate|]. vm_compute. reflexivity. Qed.
