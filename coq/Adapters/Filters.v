(* Executable model of the built-in filter chain and selection strategies of passage
   (passage-adapters/src/filter/{meta,option,player_allow,player_block,mod}.rs,
    passage-adapters/src/strategy/{any,player_fill}.rs, src/adapter/{filter,strategy}.rs).
   Definitions only; proofs are in FiltersProofs.v.

   Strings are UTF-8 byte strings.  A target's metadata (a Rust HashMap<String,String>,
   hence unique keys) is an association list; `lookup` returns the first match, which under
   unique keys is the only one (FiltersProofs.lookup_In).  The regex engine is a Section
   variable `regex_match pattern text`; for execution it is instantiated by a finite table
   recorded from the real `regex` crate (tab_match). *)
From Passage Require Import Lib.Bytes.

(* ------------------------------------------------------------------ targets *)
Record target := mkTarget {
  t_id   : bytes;                  (* Target::identifier *)
  t_addr : Z;                      (* Target::address, opaque to filters and strategies *)
  t_meta : list (bytes * bytes)    (* Target::meta *)
}.

Fixpoint lookup (k : bytes) (m : list (bytes * bytes)) : option bytes :=
  match m with
  | [] => None
  | (k', v) :: r => if beq k k' then Some v else lookup k r
  end.

(* ------------------------------------------------------------------ meta filter *)
(* passage_adapters::filter::meta::FilterOperation *)
Inductive op :=
| OEquals (v : bytes)
| ONotEquals (v : bytes)
| OExists
| ONotExists
| OIn (vs : list bytes)
| ONotIn (vs : list bytes).

Definition memb (v : bytes) (vs : list bytes) : bool := existsb (fun x => beq x v) vs.

(* FilterOperation::matches(field_value: Option<&str>) *)
Definition op_matches (o : op) (fv : option bytes) : bool :=
  match o, fv with
  | OEquals v, Some x => beq x v
  | OEquals _, None => false
  | ONotEquals v, Some x => negb (beq x v)
  | ONotEquals _, None => true
  | OExists, Some _ => true
  | OExists, None => false
  | ONotExists, Some _ => false
  | ONotExists, None => true
  | OIn vs, Some x => memb x vs
  | OIn _, None => false
  | ONotIn vs, Some x => negb (memb x vs)
  | ONotIn _, None => true
  end.

Record rule := mkRule { r_key : bytes; r_op : op }.

(* FilterRule::matches *)
Definition rule_matches (r : rule) (t : target) : bool :=
  op_matches (r_op r) (lookup (r_key r) (t_meta t)).

(* MetaFilterAdapter::matches_filters: empty rules accept; otherwise all rules (AND) *)
Definition meta_matches (rules : list rule) (t : target) : bool :=
  forallb (fun r => rule_matches r t) rules.

(* ------------------------------------------------------------------ player lists *)
(* the three optional criteria shared by PlayerAllowFilterAdapter / PlayerBlockFilterAdapter;
   UUIDs are their 128-bit value *)
Record plist := mkPlist {
  pl_names   : option (list bytes);
  pl_pattern : option bytes;
  pl_ids     : option (list Z)
}.

Inductive fkind :=
| FMeta (rules : list rule)
| FAllow (p : plist)
| FBlock (p : plist).

(* config::OptionFilterAdapter / OptionFilterAdapter<T>: optional hostname regex scope *)
Record ofilter := mkFilter { f_host : option bytes; f_kind : fkind }.

(* config::StrategyAdapter (built-in ones) *)
Inductive strategy :=
| SAny
| SFill (field : bytes) (max_players : Z).

(* ------------------------------------------------------------------ str::parse::<u32> *)
(* core::num::from_str_radix for an unsigned type, radix 10: empty -> Err; a lone "+" or "-"
   -> Err; one leading '+' is stripped ('-' is not: it is then an invalid digit); every
   remaining byte must be an ASCII digit; checked_mul(10) then checked_add(digit) per digit *)
Definition u32_max : Z := 4294967295.

Definition digit_of (b : Z) : option Z :=
  if (48 <=? b) && (b <=? 57) then Some (b - 48) else None.

Fixpoint parse_digits (acc : Z) (s : bytes) : option Z :=
  match s with
  | [] => Some acc
  | b :: r =>
      match digit_of b with
      | None => None
      | Some d =>
          let m := acc * 10 in
          if m >? u32_max then None else
          let a := m + d in
          if a >? u32_max then None else parse_digits a r
      end
  end.

Definition parse_u32 (s : bytes) : option Z :=
  match s with
  | [] => None
  | [43] => None                       (* "+" *)
  | [45] => None                       (* "-" *)
  | 43 :: r => parse_digits 0 r        (* '+' digits *)
  | _ => parse_digits 0 s
  end.

(* PlayerFillStrategyAdapter: meta.get(field).and_then(parse::<u32>().ok()).unwrap_or(0) *)
Definition count (field : bytes) (t : target) : Z :=
  match lookup field (t_meta t) with
  | Some v => match parse_u32 v with Some n => n | None => 0 end
  | None => 0
  end.

(* Iterator::max_by_key = reduce(|x, y| if key(x) > key(y) { x } else { y }): among equal
   keys the LAST element wins *)
Fixpoint max_last {A} (key : A -> Z) (best : A) (l : list A) : A :=
  match l with
  | [] => best
  | y :: r => max_last key (if key best >? key y then best else y) r
  end.

Definition max_by_key {A} (key : A -> Z) (l : list A) : option A :=
  match l with
  | [] => None
  | x :: r => Some (max_last key x r)
  end.

Definition select_any (ts : list target) : option target :=
  match ts with [] => None | t :: _ => Some t end.

Definition select_fill (field : bytes) (maxp : Z) (ts : list target) : option target :=
  max_by_key (count field) (filter (fun t => count field t <? maxp) ts).

Definition select (s : strategy) (ts : list target) : option target :=
  match s with
  | SAny => select_any ts
  | SFill field maxp => select_fill field maxp ts
  end.

(* ------------------------------------------------------------------ regex-dependent part *)
Section WithRegex.
  Variable regex_match : bytes -> bytes -> bool.   (* Regex::new(pattern).is_match(text) *)

  Definition opt_any {A} (f : A -> bool) (o : option (list A)) : bool :=
    match o with Some l => existsb f l | None => false end.

  (* the common test of the allow and block adapters: names, then pattern, then ids *)
  Definition plist_hit (p : plist) (name : bytes) (uuid : Z) : bool :=
    opt_any (fun x => beq x name) (pl_names p)
    || match pl_pattern p with Some pat => regex_match pat name | None => false end
    || opt_any (fun x => x =? uuid) (pl_ids p).

  (* OptionFilterAdapter::filter: a scope that does not match passes the list through *)
  Definition applicable (f : ofilter) (host : bytes) : bool :=
    match f_host f with
    | None => true
    | Some pat => regex_match pat host
    end.

  Definition apply_kind (k : fkind) (name : bytes) (uuid : Z) (ts : list target) : list target :=
    match k with
    | FMeta rules => filter (meta_matches rules) ts
    | FAllow p => if plist_hit p name uuid then ts else []
    | FBlock p => if plist_hit p name uuid then [] else ts
    end.

  Definition apply_filter (f : ofilter) (host name : bytes) (uuid : Z) (ts : list target) : list target :=
    if applicable f host then apply_kind (f_kind f) name uuid ts else ts.

  (* DynFilterAdapters::filter / impl FilterAdapter for Vec<T>: left fold over the chain *)
  Definition chain (fs : list ofilter) (host name : bytes) (uuid : Z) (ts : list target) : list target :=
    fold_left (fun acc f => apply_filter f host name uuid acc) fs ts.

  (* connection handler: filter, then select *)
  Definition route (fs : list ofilter) (s : strategy) (host name : bytes) (uuid : Z)
      (ts : list target) : option target :=
    select s (chain fs host name uuid ts).

  (* ---------------- specification-level predicates (decidable form) ---------------- *)
  (* the target satisfies every rule of every applicable meta filter *)
  Definition qualifies1 (host : bytes) (t : target) (f : ofilter) : bool :=
    if applicable f host then
      match f_kind f with FMeta rules => meta_matches rules t | _ => true end
    else true.
  Definition qualifiesb (fs : list ofilter) (host : bytes) (t : target) : bool :=
    forallb (qualifies1 host t) fs.

  (* the player is accepted by every applicable allow list and hit by no applicable block list *)
  Definition passes1 (host name : bytes) (uuid : Z) (f : ofilter) : bool :=
    if applicable f host then
      match f_kind f with
      | FMeta _ => true
      | FAllow p => plist_hit p name uuid
      | FBlock p => negb (plist_hit p name uuid)
      end
    else true.
  Definition passesb (fs : list ofilter) (host name : bytes) (uuid : Z) : bool :=
    forallb (passes1 host name uuid) fs.

  (* ---------------- the same predicates, declaratively ---------------- *)
  Definition Applicable (f : ofilter) (host : bytes) : Prop :=
    f_host f = None \/ exists pat, f_host f = Some pat /\ regex_match pat host = true.

  Definition Hit (p : plist) (name : bytes) (uuid : Z) : Prop :=
    (exists l, pl_names p = Some l /\ In name l)
    \/ (exists pat, pl_pattern p = Some pat /\ regex_match pat name = true)
    \/ (exists l, pl_ids p = Some l /\ In uuid l).

  (* what a rule demands of the (optional) value stored under its key *)
  Definition op_sat (o : op) (fv : option bytes) : Prop :=
    match o with
    | OEquals v => fv = Some v
    | ONotEquals v => fv <> Some v
    | OExists => fv <> None
    | ONotExists => fv = None
    | OIn vs => exists v, fv = Some v /\ In v vs
    | ONotIn vs => forall v, fv = Some v -> ~ In v vs
    end.

  Definition Qualifies (fs : list ofilter) (host : bytes) (t : target) : Prop :=
    forall f rules r, In f fs -> Applicable f host -> f_kind f = FMeta rules -> In r rules ->
      op_sat (r_op r) (lookup (r_key r) (t_meta t)).

  Definition Passes (fs : list ofilter) (host name : bytes) (uuid : Z) : Prop :=
    forall f, In f fs -> Applicable f host ->
      (forall p, f_kind f = FAllow p -> Hit p name uuid)
      /\ (forall p, f_kind f = FBlock p -> ~ Hit p name uuid).

  (* a target the player may be sent to *)
  Definition Eligible (fs : list ofilter) (host name : bytes) (uuid : Z) (t : target) : Prop :=
    Passes fs host name uuid /\ Qualifies fs host t.
  (* "some applicable allow list does not accept the player or some applicable block list
     hits the player" (equivalent to ~ Passes: FiltersProofs.refused_iff) *)
  Definition Refused (fs : list ofilter) (host name : bytes) (uuid : Z) : Prop :=
    exists f, In f fs /\ Applicable f host
      /\ ((exists p, f_kind f = FAllow p /\ ~ Hit p name uuid)
          \/ (exists p, f_kind f = FBlock p /\ Hit p name uuid)).

  (* what the strategy promises about the selected target, relative to the DISCOVERED list:
     default strategy = the first qualifying target; player fill = below capacity, no
     qualifying target below capacity is fuller, and it is the last of the fullest ones *)
  Definition selected_rule (fs : list ofilter) (s : strategy) (host : bytes)
      (ts : list target) (t : target) : Prop :=
    exists pre post, ts = pre ++ t :: post /\
      match s with
      | SAny => forall u, In u pre -> ~ Qualifies fs host u
      | SFill field maxp =>
          count field t < maxp
          /\ (forall u, In u ts -> Qualifies fs host u -> count field u < maxp ->
                count field u <= count field t)
          /\ (forall u, In u post -> Qualifies fs host u -> count field u < maxp ->
                count field u < count field t)
      end.

  (* what must hold of every discovered target when nobody is selected *)
  Definition refusal_rule (fs : list ofilter) (s : strategy) (host name : bytes) (uuid : Z)
      (ts : list target) : Prop :=
    forall u, In u ts -> Eligible fs host name uuid u ->
      match s with
      | SAny => False
      | SFill field maxp => maxp <= count field u
      end.
End WithRegex.

(* the player-fill rule on the list handed to the strategy *)
Definition fill_rule (field : bytes) (maxp : Z) (ts : list target) (res : option target) : Prop :=
  match res with
  | Some t =>
      exists pre post, ts = pre ++ t :: post
        /\ count field t < maxp
        /\ (forall u, In u ts -> count field u < maxp -> count field u <= count field t)
        /\ (forall u, In u post -> count field u < maxp -> count field u < count field t)
  | None => forall u, In u ts -> maxp <= count field u
  end.

(* order-preserving sub-list *)
Inductive subseq {A} : list A -> list A -> Prop :=
| subseq_nil : subseq [] []
| subseq_skip x l1 l2 : subseq l1 l2 -> subseq l1 (x :: l2)
| subseq_keep x l1 l2 : subseq l1 l2 -> subseq (x :: l1) (x :: l2).

(* ------------------------------------------------------------------ finite regex table *)
Definition regex_table := list ((bytes * bytes) * bool).

Fixpoint tab_lookup (tab : regex_table) (pat text : bytes) : option bool :=
  match tab with
  | [] => None
  | ((p, x), b) :: r => if beq p pat && beq x text then Some b else tab_lookup r pat text
  end.

Definition tab_match (tab : regex_table) (pat text : bytes) : bool :=
  match tab_lookup tab pat text with Some b => b | None => false end.

(* ------------------------------------------------------------------ examples *)
Example parse_u32_ex :
  map parse_u32 [str "5"; str "+5"; str "007"; str "4294967295"; str "4294967296"; str "-0";
                 str " 5"; str ""; str "+"; str "-"; str "++5"; str "5 "; str "00000000000000000012";
                 str "99999999999"; str "+-5"; str "1e3"]
  = [Some 5; Some 5; Some 7; Some 4294967295; None; None; None; None; None; None; None; None; Some 12;
     None; None; None].
Proof. vm_compute. reflexivity. Qed.

Example max_by_key_last : max_by_key (fun p : Z * Z => fst p) [(3, 0); (7, 1); (2, 2); (7, 3); (1, 4)] = Some (7, 3).
Proof. vm_compute. reflexivity. Qed.
