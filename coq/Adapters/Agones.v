(* Executable model of the Agones discovery adapter of passage
     passage-adapters/agones/src/lib.rs                (TryFrom<GameServer> for Target)
     passage-adapters/agones/src/discovery_adapter.rs  (the watch loop)
   and of what the adapter SHOULD offer (`truth`).  Definitions and Examples only; the proofs
   are in AgonesProofs.v.

   Strings are UTF-8 byte strings.  The adapter consumes the event stream of
   kube::runtime::watcher (kube 3.0.1):
     Event::{Init, InitApply(K), InitDone, Apply(K), Delete(K)}  and  Err(watcher::Error).
   How kube derives these events from HTTP list / watch traffic (bookmarks, resumed watches,
   410 Gone -> re-list, backoff) is NOT modelled here; it is exercised by the harness.

   Identity of a GameServer is `metadata.name` alone, as in the code (`Target::identifier`).
   With `Api::all` two GameServers of the same name in different namespaces are one
   identifier for the adapter, hence for this model (stated assumption of C20).

   HashMap<String,String> metadata is an association list with unique keys: `mset` replaces
   the value of an existing key in place and appends a new key, so later inserts override
   earlier ones exactly as `HashMap::insert` does.  Metadata is compared as a finite map
   (`mget`), never by the order of the list. *)
From Passage Require Import Lib.Bytes Lib.IpText.

(* ------------------------------------------------------------------ GameServer objects *)
(* GameServerStatus {address, ports: Vec<GameServerPort{name, port:u16}>, state,
   counters: Option<HashMap<String, {count: Option<u32>, ..}>>,
   lists: Option<HashMap<String, {values: Vec<String>, ..}>>}.
   Only the port numbers of `ports` matter.  An absent counters/lists map is the empty list.
   A list with a repeated key stands for a JSON object with a repeated key, where serde keeps
   the last value: later entries win. *)
Record gstatus := mkStatus {
  s_address  : bytes;
  s_ports    : list Z;
  s_state    : bytes;
  s_counters : list (bytes * option Z);
  s_lists    : list (bytes * list bytes)
}.

(* GameServer {metadata: {name, labels, annotations, ..}, status: Option<GameServerStatus>} *)
Record gs := mkGs {
  g_name        : option bytes;
  g_status      : option gstatus;
  g_labels      : list (bytes * bytes);
  g_annotations : list (bytes * bytes)
}.

(* passage_adapters::Target {identifier, address: SocketAddr (ip, port), meta} *)
Record atarget := mkATarget {
  a_id   : bytes;
  a_ip   : ip;
  a_port : Z;
  a_meta : list (bytes * bytes)
}.

(* ------------------------------------------------------------------ metadata maps *)
Fixpoint mget (k : bytes) (m : list (bytes * bytes)) : option bytes :=
  match m with
  | [] => None
  | (k', v) :: r => if beq k k' then Some v else mget k r
  end.

(* HashMap::insert *)
Fixpoint mset (k v : bytes) (m : list (bytes * bytes)) : list (bytes * bytes) :=
  match m with
  | [] => [(k, v)]
  | (k', v') :: r => if beq k k' then (k, v) :: r else (k', v') :: mset k v r
  end.

Definition minserts (es : list (bytes * bytes)) (m : list (bytes * bytes)) : list (bytes * bytes) :=
  fold_left (fun m kv => mset (fst kv) (snd kv) m) es m.

(* the LAST binding of k in a sequence of inserts *)
Fixpoint last_binding (k : bytes) (es : list (bytes * bytes)) : option bytes :=
  match es with
  | [] => None
  | (k', v) :: r => match last_binding k r with
                    | Some w => Some w
                    | None => if beq k k' then Some v else None
                    end
  end.

(* [String]::join(",") *)
Definition ch_comma : Z := 44.
Fixpoint join_comma (l : list bytes) : bytes :=
  match l with
  | [] => []
  | [x] => x
  | x :: r => x ++ ch_comma :: join_comma r
  end.

Definition state_key : bytes := str "state".          (* META_STATE *)
Definition st_ready : bytes := str "Ready".
Definition st_allocated : bytes := str "Allocated".

(* counter.count.unwrap_or(0).to_string(): a u32 in decimal *)
Definition counter_text (c : option Z) : bytes :=
  show_dec (match c with Some v => v | None => 0 end).

(* the inserts of `TryFrom<GameServer> for Target`, in program order *)
Definition meta_entries (g : gs) (s : gstatus) : list (bytes * bytes) :=
  (state_key, s_state s)
  :: map (fun kc => (fst kc, counter_text (snd kc))) (s_counters s)
  ++ map (fun kl => (fst kl, join_comma (snd kl))) (s_lists s)
  ++ g_labels g
  ++ g_annotations g.

Definition build_meta (g : gs) (s : gstatus) : list (bytes * bytes) :=
  minserts (meta_entries g s) [].

(* what build_meta amounts to, key by key: annotations over labels over lists over counters
   over the state; within one map the last entry of a key *)
Definition meta_spec (g : gs) (s : gstatus) (k : bytes) : option bytes :=
  match last_binding k (g_annotations g) with Some v => Some v | None =>
  match last_binding k (g_labels g) with Some v => Some v | None =>
  match last_binding k (map (fun kl => (fst kl, join_comma (snd kl))) (s_lists s)) with Some v => Some v | None =>
  match last_binding k (map (fun kc => (fst kc, counter_text (snd kc))) (s_counters s)) with Some v => Some v | None =>
  if beq k state_key then Some (s_state s) else None
  end end end end.

(* TryFrom<GameServer> for Target: NoName, NotStatus, InvalidAddress, NotPublic, in this
   order; the model only keeps that there was an error *)
Definition convert (g : gs) : option atarget :=
  match g_name g with None => None | Some n =>
  match g_status g with None => None | Some s =>
  match parse_ip (s_address s) with None => None | Some a =>
  match s_ports s with [] => None | p :: _ =>
  Some (mkATarget n a p (build_meta g s))
  end end end end.

(* status.state is "Ready" or "Allocated" *)
Definition ready_state (st : bytes) : bool := beq st st_ready || beq st st_allocated.
Definition ready (g : gs) : bool :=
  match g_status g with Some s => ready_state (s_state s) | None => false end.

(* what the adapter has to offer for one GameServer object *)
Definition offer (g : gs) : option atarget := if ready g then convert g else None.

(* ------------------------------------------------------------------ the Vec<Target> *)
Definition has_id (n : bytes) (t : atarget) : bool := beq (a_id t) n.

(* iter().position(|i| i.identifier == n) *)
Fixpoint position (n : bytes) (l : list atarget) : option nat :=
  match l with
  | [] => None
  | t :: r => if has_id n t then Some O
              else match position n r with Some i => Some (S i) | None => None end
  end.

(* Vec::swap_remove(i), i < len: the last element takes the place of element i *)
Definition swap_remove (i : nat) (l : list atarget) : list atarget :=
  match rev l with
  | [] => []
  | lst :: _ =>
      let body := removelast l in
      if (i =? length body)%nat then body
      else firstn i body ++ lst :: skipn (S i) body
  end.

(* fn remove(targets, identifier) *)
Definition remove_id (n : bytes) (l : list atarget) : list atarget :=
  match position n l with Some i => swap_remove i l | None => l end.

(* `match iter_mut().find(..) { Some(found) => *found = target, None => push(target) }` *)
Fixpoint put (t : atarget) (l : list atarget) : list atarget :=
  match l with
  | [] => [t]
  | u :: r => if has_id (a_id t) u then t :: r else u :: put t r
  end.

(* fn apply(targets, server), the repaired per-object update *)
Definition upsert (l : list atarget) (g : gs) : list atarget :=
  match g_name g with
  | None => l
  | Some n => match offer g with
              | Some t => put t l
              | None => remove_id n l
              end
  end.

(* ------------------------------------------------------------------ events and the cache *)
Inductive event :=
| EInit
| EInitApply (g : gs)
| EInitDone
| EApply (g : gs)
| EDelete (g : gs)
| EError.

(* c_cur = the shared `inner` vector (what discover() returns);
   c_buf = `relist`, the targets of a (re-)list that has not completed yet *)
Record cache := mkCache { c_cur : list atarget; c_buf : option (list atarget) }.
Definition cache0 : cache := mkCache [] None.

Definition buf_or_new (b : option (list atarget)) : list atarget :=
  match b with Some l => l | None => [] end.

(* the repaired loop body *)
Definition cache_step (c : cache) (e : event) : cache :=
  match e with
  | EInit => mkCache (c_cur c) (Some [])
  | EInitApply g => mkCache (c_cur c) (Some (upsert (buf_or_new (c_buf c)) g))
  | EInitDone => match c_buf c with
                 | Some b => mkCache b None
                 | None => c
                 end
  | EApply g => mkCache (upsert (c_cur c) g) (c_buf c)
  | EDelete g => match g_name g with
                 | Some n => mkCache (remove_id n (c_cur c)) (c_buf c)
                 | None => c
                 end
  | EError => c
  end.

Definition run (evs : list event) : cache := fold_left cache_step evs cache0.
Definition offered (c : cache) : list atarget := c_cur c.

(* ------------------------------------------------------------------ the code before the fix *)
(* `watcher(..).default_backoff().applied_objects()`: only the objects of Apply / InitApply
   reach the loop.  An object that cannot be converted is skipped (`continue`); otherwise the
   decision is taken on meta["state"] (after all overriding inserts), default "". *)
Definition meta_state (t : atarget) : bytes :=
  match mget state_key (a_meta t) with Some v => v | None => [] end.

Definition old_apply (l : list atarget) (g : gs) : list atarget :=
  match convert g with
  | None => l
  | Some t => if ready_state (meta_state t) then put t l else remove_id (a_id t) l
  end.

Definition cache_step_old (l : list atarget) (e : event) : list atarget :=
  match e with
  | EApply g | EInitApply g => old_apply l g
  | _ => l
  end.

Definition run_old (evs : list event) : list atarget := fold_left cache_step_old evs [].

(* ------------------------------------------------------------------ the abstract truth *)
(* latest observed object per name.  A view is a function name -> option gs.  Apply/Delete
   update the current view; Init opens a fresh view that the InitApply objects fill; InitDone
   makes that view the current one (everything not listed again is gone).  Until InitDone the
   current view stays what it was: the watcher has not yet said what exists now.
   kube's watcher never emits Apply/Delete between Init and InitDone, nor InitApply/InitDone
   without a preceding Init (see step_trampolined); the clauses for those orders are total
   choices, the same as the adapter's. *)
Definition view := bytes -> option gs.
Definition vempty : view := fun _ => None.
Definition vset (n : bytes) (g : gs) (v : view) : view := fun k => if beq k n then Some g else v k.
Definition vdel (n : bytes) (v : view) : view := fun k => if beq k n then None else v k.

Definition vobserve (v : view) (g : gs) : view :=
  match g_name g with Some n => vset n g v | None => v end.

Record tstate := mkT { ts_cur : view; ts_pend : option view }.
Definition tstate0 : tstate := mkT vempty None.

Definition truth_step (s : tstate) (e : event) : tstate :=
  match e with
  | EInit => mkT (ts_cur s) (Some vempty)
  | EInitApply g => mkT (ts_cur s)
                        (Some (vobserve (match ts_pend s with Some p => p | None => vempty end) g))
  | EInitDone => match ts_pend s with Some p => mkT p None | None => s end
  | EApply g => mkT (vobserve (ts_cur s) g) (ts_pend s)
  | EDelete g => match g_name g with
                 | Some n => mkT (vdel n (ts_cur s)) (ts_pend s)
                 | None => s
                 end
  | EError => s
  end.

Definition truth_state (evs : list event) : tstate := fold_left truth_step evs tstate0.
(* the current truth: latest observed object of each name *)
Definition truth (evs : list event) : view := ts_cur (truth_state evs).
(* the part of an unfinished (re-)list seen so far, if one is in progress *)
Definition pending (evs : list event) : option view := ts_pend (truth_state evs).

(* the last object called n in a list result *)
Fixpoint last_named (n : bytes) (l : list gs) : option gs :=
  match l with
  | [] => None
  | g :: r => match last_named n r with
              | Some h => Some h
              | None => match g_name g with
                        | Some m => if beq n m then Some g else None
                        | None => None
                        end
              end
  end.

(* the set a view obliges the adapter to offer *)
Definition Offers (v : view) (t : atarget) : Prop :=
  exists n g, v n = Some g /\ ready g = true /\ convert g = Some t.

(* ------------------------------------------------------------------ comparing targets *)
Definition meta_sub (m1 m2 : list (bytes * bytes)) : bool :=
  forallb (fun kv => match mget (fst kv) m2 with Some v => beq v (snd kv) | None => false end) m1.
Definition meta_eqb (m1 m2 : list (bytes * bytes)) : bool := meta_sub m1 m2 && meta_sub m2 m1.

Definition atarget_eqb (t u : atarget) : bool :=
  beq (a_id t) (a_id u) && ip_eqb (a_ip t) (a_ip u) && (a_port t =? a_port u)
  && meta_eqb (a_meta t) (a_meta u).

(* ------------------------------------------------------------------ Examples *)
Definition ex_status (st : string) : gstatus :=
  mkStatus (str "10.1.2.3") [7777; 7778] (str st)
           [(str "players", Some 12); (str "rooms", None)]
           [(str "tags", [str "a"; str "b"]); (str "empty", [])].
Definition ex_gs (name st : string) : gs :=
  mkGs (Some (str name)) (Some (ex_status st))
       [(str "tier", str "gold"); (str "players", str "label-wins")]
       [(str "tier", str "annotation-wins")].

Example ex_convert :
  convert (ex_gs "gs-1" "Ready")
  = Some (mkATarget (str "gs-1") (V4 10 1 2 3) 7777
            [(str "state", str "Ready"); (str "players", str "label-wins"); (str "rooms", str "0");
             (str "tags", str "a,b"); (str "empty", []); (str "tier", str "annotation-wins")]).
Proof. vm_compute. reflexivity. Qed.

Example ex_convert_fail :
  (convert (mkGs None (Some (ex_status "Ready")) [] []),
   convert (mkGs (Some (str "x")) None [] []),
   convert (mkGs (Some (str "x")) (Some (mkStatus (str "host.example") [1] (str "Ready") [] [])) [] []),
   convert (mkGs (Some (str "x")) (Some (mkStatus (str "10.0.0.1") [] (str "Ready") [] [])) [] []))
  = (None, None, None, None).
Proof. vm_compute. reflexivity. Qed.

Example ex_swap_remove :
  map a_port (swap_remove 1 (map (fun p => mkATarget [] (V4 0 0 0 0) p []) [0; 1; 2; 3])) = [0; 3; 2]
  /\ map a_port (swap_remove 3 (map (fun p => mkATarget [] (V4 0 0 0 0) p []) [0; 1; 2; 3])) = [0; 1; 2]
  /\ map a_port (swap_remove 0 (map (fun p => mkATarget [] (V4 0 0 0 0) p []) [5])) = [].
Proof. vm_compute. auto. Qed.

(* a re-list from which gs-2 is missing: the old set stays offered until InitDone *)
Definition ex_history : list event :=
  [EInit; EInitApply (ex_gs "gs-1" "Ready"); EInitApply (ex_gs "gs-2" "Allocated"); EInitDone;
   EApply (ex_gs "gs-3" "Ready"); EApply (ex_gs "gs-1" "Shutdown"); EError;
   EInit; EInitApply (ex_gs "gs-3" "Ready")].

Example ex_run_mid : map a_id (offered (run ex_history)) = [str "gs-3"; str "gs-2"].
Proof. vm_compute. reflexivity. Qed.
Example ex_run_done : map a_id (offered (run (ex_history ++ [EInitDone]))) = [str "gs-3"].
Proof. vm_compute. reflexivity. Qed.
Example ex_truth_done :
  (truth (ex_history ++ [EInitDone]) (str "gs-2"), truth ex_history (str "gs-2"))
  = (None, Some (ex_gs "gs-2" "Allocated")).
Proof. vm_compute. reflexivity. Qed.

(* ------------------------------------------------------------------ witnesses against the old loop *)
Definition w_gs (name addr : string) (ports : list Z) (st : string) : gs :=
  mkGs (Some (str name)) (Some (mkStatus (str addr) ports (str st) [] [])) [] [].
Definition w_a : gs := w_gs "gs-a" "10.0.0.1" [7777] "Ready".
Definition w_b : gs := w_gs "gs-b" "10.0.0.2" [7777] "Allocated".
(* deleted while Ready *)
Definition w_delete : list event := [EApply w_a; EDelete w_a].
(* gs-b vanished during a watch gap: it is not in the re-list *)
Definition w_relist : list event :=
  [EInit; EInitApply w_a; EInitApply w_b; EInitDone; EError; EInit; EInitApply w_a; EInitDone].
(* gs-a moves and loses its ports: the latest object cannot be converted *)
Definition w_stale : list event := [EApply w_a; EApply (w_gs "gs-a" "10.0.0.9" [] "Ready")].
(* a label called "state" masks the real state; an annotation hides a Ready server *)
Definition w_masked : gs :=
  mkGs (Some (str "gs-m")) (Some (mkStatus (str "10.0.0.3") [7777] (str "Shutdown") [] []))
       [(str "state", str "Ready")] [].
Definition w_hidden : gs :=
  mkGs (Some (str "gs-h")) (Some (mkStatus (str "10.0.0.4") [7777] (str "Ready") [] []))
       [] [(str "state", str "Draining")].
Definition w_statekey : list event := [EApply w_masked; EApply w_hidden].
