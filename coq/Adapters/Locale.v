(* Model of passage-adapters/src/localization/fixed.rs FixedLocalizationAdapter::localize
   (no parameters are substituted by the router: `params` is always empty).
   Definitions only. *)
From Passage Require Import Lib.Bytes.

(* positions of '_' (95) in the locale string, then the decreasing prefixes *)
Fixpoint underscores (i : nat) (l : bytes) : list nat :=
  match l with
  | [] => []
  | b :: r => if b =? 95 then i :: underscores (S i) r else underscores (S i) r
  end.

(* append_locale: the locale itself, then locale[..i] for every '_' position i, last first *)
Definition append_locale (loc : bytes) : list bytes :=
  loc :: map (fun i => firstn i loc) (rev (underscores 0 loc)).

Definition candidates (loc : option bytes) (dflt : bytes) : list bytes :=
  append_locale (match loc with Some l => l | None => dflt end) ++ append_locale dflt.

Fixpoint lookup_tbl {A} (k : bytes) (t : list (bytes * A)) : option A :=
  match t with [] => None | (a, v) :: r => if beq a k then Some v else lookup_tbl k r end.

(* the first candidate that has a table decides; no table at all or no entry: the key *)
Fixpoint first_table (cands : list bytes) (tables : list (bytes * list (bytes * bytes)))
  : option (list (bytes * bytes)) :=
  match cands with
  | [] => None
  | c :: r => match lookup_tbl c tables with Some t => Some t | None => first_table r tables end
  end.

Definition localize (tables : list (bytes * list (bytes * bytes))) (dflt : bytes)
    (loc : option bytes) (key : bytes) : bytes :=
  match first_table (candidates loc dflt) tables with
  | None => key
  | Some t => match lookup_tbl key t with Some m => m | None => key end
  end.

Example cand_de_DE : candidates (Some (str "de_DE")) (str "en_us")
  = [str "de_DE"; str "de"; str "en_us"; str "en"].
Proof. vm_compute. reflexivity. Qed.
Example cand_three : append_locale (str "zh_Hans_CN") = [str "zh_Hans_CN"; str "zh_Hans"; str "zh"].
Proof. vm_compute. reflexivity. Qed.
