(* Passage.Adapters.MojangUrl - model of the URL that
   passage-adapters/http/src/mojang_adapter.rs : MojangAdapter::authenticate requests
   (definitions only).

   Repaired code:
     let hash = minecraft_hash(&self.server_id, shared_secret, encoded_public);
     let url = reqwest::Url::parse_with_params(
         "https://sessionserver.mojang.com/session/minecraft/hasJoined",
         [("username", username), ("serverId", hash.as_str())])?;
     HTTP_CLIENT.get(url).send()
   url 2.5.8: `parse_with_params` parses the constant (serialisation = the constant itself: it
   is already in normal form, has no query and no fragment), then `query_pairs_mut()` pushes
   '?' and `extend_pairs` appends, per pair, '&' unless the query is still empty, then
   byte_serialize(name), '=', byte_serialize(value) (form_urlencoded 1.2.2 append_pair).
   The keys "username" and "serverId" consist of unchanged bytes.  An empty name therefore
   gives "username=&serverId=..".  [build] is `url.as_str()`; the request line hyper writes
   carries the part after scheme and authority ([target]); that last step (reqwest Url -> http
   Uri -> hyper request line) is trusted and tied by the mojang harness.

   Original code (kept for the refutation):
     format!("https://sessionserver.mojang.com/session/minecraft/hasJoined?username={username}&serverId={hash}")
   = [build_raw], the string handed to reqwest, which parses it as an URL: the first '#'
   starts the fragment (never sent), '&' and '=' inside the name are ordinary query
   delimiters. *)
From Passage Require Import Lib.Bytes Spec.FormUrl Crypto.McHash.

Definition origin : bytes := str "https://sessionserver.mojang.com".
Definition has_joined_path : bytes := str "/session/minecraft/hasJoined".
Definition k_username : bytes := str "username".
Definition k_server_id : bytes := str "serverId".

(* Url::parse_with_params(..).as_str() *)
Definition build (name hash : bytes) : bytes :=
  origin ++ has_joined_path ++ [63] ++ enc k_username ++ [61] ++ enc name
         ++ [38] ++ enc k_server_id ++ [61] ++ enc hash.

(* the old interpolation *)
Definition build_raw (name hash : bytes) : bytes :=
  origin ++ has_joined_path ++ str "?username=" ++ name ++ str "&serverId=" ++ hash.

(* path and query of the request line: everything after scheme and authority *)
Definition target (url : bytes) : bytes := skipn (length origin) url.

(* the whole adapter call: which URL is requested for a connection *)
Definition request_url (server_id name secret pubkey : bytes) : bytes :=
  build name (minecraft_hash server_id secret pubkey).

(* charset of minecraft_hash's output: '-', 0-9, a-f *)
Definition hash_char (c : Z) : bool := (c =? 45) || inrange 48 57 c || inrange 97 102 c.

(* ---- the property as a decidable monitor on ONE observed request target, independent of
   [build]: visible ASCII only, no fragment, the fixed path, every '%' a valid escape, and
   the urlencoded parser sees exactly two parameters, one username = name and one
   serverId = hash (in either order) ---- *)
Definition target_ok (name hash t : bytes) : bool :=
  forallb (inrange 33 126) t
  && negb (has_byte 35 t)
  && beq (target_path t) has_joined_path
  && pct_ok (target_query t)
  && (let ps := parse_query (target_query t) in
      Nat.eqb (length ps) 2
      && match values_of k_username ps with [v] => beq v name | _ => false end
      && match values_of k_server_id ps with [v] => beq v hash | _ => false end).

(* ---------------------------------------------------------------- examples *)
Definition h_ex : bytes := str "-7c9d5b0044c130109a5d7b5fb5c317c02b4e28c1".

Example build_plain : build (str "Notch") (str "4ed1f46b") =
  str "https://sessionserver.mojang.com/session/minecraft/hasJoined?username=Notch&serverId=4ed1f46b".
Proof. vm_compute. reflexivity. Qed.
Example build_empty : target (build [] h_ex) =
  str "/session/minecraft/hasJoined?username=&serverId=-7c9d5b0044c130109a5d7b5fb5c317c02b4e28c1".
Proof. vm_compute. reflexivity. Qed.
Example build_inject : target (build (str "Victim&serverId=abc") (str "1f")) =
  str "/session/minecraft/hasJoined?username=Victim%26serverId%3Dabc&serverId=1f".
Proof. vm_compute. reflexivity. Qed.
Example build_specials : target (build (str "a b+c%26#?/\" ++ [0; 9; 13; 10; 127] ++ [195; 169; 240; 157; 132; 158]) (str "0")) =
  str "/session/minecraft/hasJoined?username=a+b%2Bc%2526%23%3F%2F%5C%00%09%0D%0A%7F%C3%A9%F0%9D%84%9E&serverId=0".
Proof. vm_compute. reflexivity. Qed.
Example raw_same_on_plain : build_raw (str "Notch_1") h_ex = build (str "Notch_1") h_ex.
Proof. vm_compute. reflexivity. Qed.
Example request_url_ex : target (request_url [] (str "x#") (str "jeb_") []) =
  str "/session/minecraft/hasJoined?username=x%23&serverId=-7c9d5b0044c130109a5d7b5fb5c317c02b4e28c1".
Proof. vm_compute. reflexivity. Qed.

(* the monitor accepts other correct encodings (%20 for space, lower-case hex, escaped
   letters) and rejects the shapes the old code produces *)
Example target_ok_accepts : map (target_ok (str "a b") (str "1f"))
  [str "/session/minecraft/hasJoined?username=a+b&serverId=1f";
   str "/session/minecraft/hasJoined?username=a%20b&serverId=1f";
   str "/session/minecraft/hasJoined?username=%61%20b&serverId=%31f"] = [true; true; true].
Proof. vm_compute. reflexivity. Qed.
Example target_ok_rejects : map (target_ok (str "Victim&serverId=abc") (str "1f"))
  [str "/session/minecraft/hasJoined?username=Victim&serverId=abc&serverId=1f";   (* extra parameter *)
   str "/session/minecraft/hasJoined?username=Victim%26serverId%3Dabc";            (* serverId missing *)
   str "/session/minecraft/hasJoined?serverId=1f&username=Victim%26serverId%3Dabc";(* other order: fine *)
   str "/session/minecraft/hasJoined?username=Victim%26serverId%3Dabc&serverId=1f#";
   str "/session/minecraft/join?username=Victim%26serverId%3Dabc&serverId=1f";
   str "/session/minecraft/hasJoined?username=Victim%26serverId%3Dabc&serverId=1f&";  (* empty sequence: skipped by the parser *)
   str "/session/minecraft/hasJoined?username=Victim%26serverId%3Dabc&serverId=1f%";
   str "/session/minecraft/hasJoined?username=Victim%26serverId%3Dabc&serverId=1f x";
   []] = [false; false; true; false; false; true; false; false; false].
Proof. vm_compute. reflexivity. Qed.
