(* Proofs about Adapters/Grpc.v (C19). *)
From Coq Require Import Permutation.
From Passage Require Import Lib.Bytes Lib.IpText Lib.IpTextProofs Adapters.Grpc.

(* ------------------------------------------------------------------ metadata maps *)
Lemma beq_true a b : beq a b = true -> a = b.
Proof. apply beq_spec. Qed.
Lemma beq_false a b : beq a b = false -> a <> b.
Proof. intros H E. subst. rewrite beq_refl in H. discriminate. Qed.
Lemma beq_neq a b : a <> b -> beq a b = false.
Proof. intros H. destruct (beq a b) eqn:E; [apply beq_true in E; contradiction | reflexivity]. Qed.

Lemma lookup_app k a b :
  lookup k (a ++ b) = match lookup k a with Some v => Some v | None => lookup k b end.
Proof.
  induction a as [|[k' v'] a IH]; cbn [app lookup]; [reflexivity|].
  destruct (beq k k'); [reflexivity | exact IH].
Qed.

Lemma lookup_insert k k' v m :
  lookup k (insert k' v m) = if beq k k' then Some v else lookup k m.
Proof.
  induction m as [|[k0 v0] m IH]; cbn [insert lookup].
  - reflexivity.
  - destruct (beq k' k0) eqn:E0; cbn [lookup].
    + apply beq_true in E0. subst k0. destruct (beq k k'); reflexivity.
    + destruct (beq k k0) eqn:E1.
      * apply beq_true in E1. subst k0.
        rewrite (beq_neq k k'); [reflexivity|]. apply beq_false in E0. congruence.
      * exact IH.
Qed.

Lemma fold_insert_lookup k l : forall m,
  lookup k (fold_left (fun m kv => insert (fst kv) (snd kv) m) l m)
  = match lookup k (rev l) with Some v => Some v | None => lookup k m end.
Proof.
  induction l as [|[k' v'] l IH]; intros m; cbn [fold_left rev lookup fst snd].
  - reflexivity.
  - rewrite IH, lookup_app, lookup_insert. cbn [lookup].
    destruct (lookup k (rev l)); [reflexivity|]. destruct (beq k k'); reflexivity.
Qed.

(* a later duplicate overrides an earlier one: the collected map answers every key with
   the LAST entry of the wire list that carries the key *)
Theorem collect_lookup : forall k l, lookup k (meta_collect l) = lookup k (rev l).
Proof.
  intros k l. unfold meta_collect. rewrite fold_insert_lookup. cbn [lookup].
  destruct (lookup k (rev l)); reflexivity.
Qed.

Lemma insert_keys_in k v m : In k (map fst m) -> map fst (insert k v m) = map fst m.
Proof.
  induction m as [|[k0 v0] m IH]; cbn [insert map fst In]; [tauto|].
  intros H. destruct (beq k k0) eqn:E; cbn [map fst]; [reflexivity|].
  f_equal. apply IH. destruct H as [H|H]; [|exact H]. apply beq_false in E. congruence.
Qed.

Lemma insert_fresh k v m : ~ In k (map fst m) -> insert k v m = m ++ [(k, v)].
Proof.
  induction m as [|[k0 v0] m IH]; cbn [insert map fst In app]; [reflexivity|].
  intros H. rewrite beq_neq by (intros E; apply H; left; congruence).
  f_equal. apply IH. tauto.
Qed.

Lemma nodup_snoc {A} (x : A) l : NoDup l -> ~ In x l -> NoDup (l ++ [x]).
Proof.
  induction l as [|y l IH]; cbn [app In]; intros Hn Hx.
  - constructor; [intros [] | constructor].
  - inversion Hn as [|? ? Hy Hl]; subst. constructor.
    + intros I. apply in_app_or in I. destruct I as [I|[I|[]]]; [contradiction | subst; tauto].
    + apply IH; tauto.
Qed.

Lemma insert_nodup k v m : NoDup (map fst m) -> NoDup (map fst (insert k v m)).
Proof.
  intros H. destruct (in_dec (list_eq_dec Z.eq_dec) k (map fst m)) as [I|I].
  - rewrite insert_keys_in by exact I. exact H.
  - rewrite insert_fresh by exact I. rewrite map_app. cbn [map fst].
    apply nodup_snoc; assumption.
Qed.

Theorem collect_nodup : forall l, NoDup (map fst (meta_collect l)).
Proof.
  intros l. unfold meta_collect.
  assert (G : forall m, NoDup (map fst m) ->
              NoDup (map fst (fold_left (fun m kv => insert (fst kv) (snd kv) m) l m))).
  { induction l as [|x l IH]; intros m Hm; cbn [fold_left]; [exact Hm|].
    apply IH. apply insert_nodup. exact Hm. }
  apply G. constructor.
Qed.

(* a list with unique keys is collected as it is *)
Theorem collect_id : forall l, NoDup (map fst l) -> meta_collect l = l.
Proof.
  intros l. unfold meta_collect.
  assert (G : forall m, NoDup (map fst (m ++ l)) ->
              fold_left (fun m kv => insert (fst kv) (snd kv) m) l m = m ++ l).
  { induction l as [|[k v] l IH]; intros m Hm; cbn [fold_left fst snd].
    - rewrite app_nil_r. reflexivity.
    - rewrite insert_fresh.
      + rewrite IH; rewrite <- app_assoc; [reflexivity | exact Hm].
      + rewrite map_app in Hm. cbn [map fst] in Hm. apply NoDup_remove_2 in Hm.
        intros I. apply Hm. apply in_or_app. left. exact I. }
  intros H. apply (G []). exact H.
Qed.

Lemma lookup_in k v m : lookup k m = Some v -> In (k, v) m.
Proof.
  induction m as [|[k0 v0] m IH]; cbn [lookup In]; [discriminate|].
  destruct (beq k k0) eqn:E; intros H.
  - apply beq_true in E. left. congruence.
  - right. apply IH. exact H.
Qed.

Lemma in_lookup k v m : NoDup (map fst m) -> In (k, v) m -> lookup k m = Some v.
Proof.
  induction m as [|[k0 v0] m IH]; cbn [lookup In map fst]; [tauto|].
  intros Hn [H|H].
  - inversion H; subst. rewrite beq_refl. reflexivity.
  - inversion Hn as [|? ? Hni Hn']; subst.
    rewrite beq_neq; [apply IH; assumption|].
    intros E. subst k0. apply Hni. change k with (fst (k, v)). apply in_map. exact H.
Qed.

Lemma lookup_perm k a b : NoDup (map fst a) -> Permutation a b -> lookup k a = lookup k b.
Proof.
  intros Ha P.
  assert (Hb : NoDup (map fst b)) by (eapply Permutation_NoDup; [apply Permutation_map; exact P | exact Ha]).
  destruct (lookup k a) as [v|] eqn:Ea.
  - symmetry. apply in_lookup; [exact Hb|]. eapply Permutation_in; [exact P|]. apply lookup_in. exact Ea.
  - destruct (lookup k b) as [v|] eqn:Eb; [|reflexivity].
    apply lookup_in in Eb. apply (Permutation_in _ (Permutation_sym P)) in Eb.
    apply (in_lookup _ _ _ Ha) in Eb. congruence.
Qed.

(* whatever order the sender's map iterates in, the receiver's map is the same map *)
Theorem collect_perm : forall l m, NoDup (map fst m) -> Permutation l m -> meta_equiv (meta_collect l) m.
Proof.
  intros l m Hm P k. rewrite collect_lookup.
  assert (Hl : NoDup (map fst l)).
  { eapply Permutation_NoDup; [apply Permutation_map; apply Permutation_sym; exact P | exact Hm]. }
  rewrite <- (lookup_perm k l m Hl P).
  symmetry. apply lookup_perm; [exact Hl | apply Permutation_rev].
Qed.

(* ------------------------------------------------------------------ one target *)
Lemma from_wire_missing w : w_addr w = None -> from_wire w = GErr EMissing.
Proof. intros H. unfold from_wire. rewrite H. reflexivity. Qed.

Lemma from_wire_bad_host w h p : w_addr w = Some (h, p) -> parse_ip h = None -> from_wire w = GErr EHost.
Proof. intros H E. unfold from_wire, addr_of. rewrite H. cbn [fst snd]. rewrite E. reflexivity. Qed.

Lemma from_wire_bad_port w h p :
  w_addr w = Some (h, p) -> 65535 < p ->
  from_wire w = GErr (match parse_ip h with Some _ => EPort | None => EHost end).
Proof.
  intros H L. unfold from_wire, addr_of. rewrite H. cbn [fst snd].
  destruct (parse_ip h); [|reflexivity].
  destruct (Z.ltb_spec 65535 p); [reflexivity | lia].
Qed.

(* acceptance is exact: the accepted target is the wire target *)
Theorem from_wire_ok : forall w t, from_wire w = GOk t <->
  exists h p, w_addr w = Some (h, p) /\ parse_ip h = Some (r_ip t) /\ p <= 65535 /\ r_port t = p /\
              r_id t = w_id w /\ r_meta t = meta_collect (w_meta w).
Proof.
  intros w t. unfold from_wire, addr_of. split.
  - destruct (w_addr w) as [[h p]|]; [|discriminate]. cbn [fst snd].
    destruct (parse_ip h) as [i|] eqn:Ei; [|discriminate].
    destruct (Z.ltb_spec 65535 p) as [L|L]; [discriminate|].
    intros E. inversion E; subst; clear E. cbn [r_ip r_port r_id r_meta].
    exists h, p. repeat split; try reflexivity; [exact Ei | lia].
  - intros (h & p & Ha & Hi & Hp & Hport & Hid & Hm). rewrite Ha. cbn [fst snd]. rewrite Hi.
    destruct (Z.ltb_spec 65535 p) as [L|L]; [lia|].
    destruct t as [id i pt m]; cbn [r_ip r_port r_id r_meta] in *. subst. reflexivity.
Qed.

Theorem from_wire_err : forall w e, from_wire w = GErr e <->
  (w_addr w = None /\ e = EMissing) \/
  (exists h p, w_addr w = Some (h, p) /\ parse_ip h = None /\ e = EHost) \/
  (exists h p, w_addr w = Some (h, p) /\ parse_ip h <> None /\ 65535 < p /\ e = EPort).
Proof.
  intros w e. unfold from_wire, addr_of. destruct (w_addr w) as [[h p]|]; cbn [fst snd].
  - destruct (parse_ip h) as [i|] eqn:Ei.
    + destruct (Z.ltb_spec 65535 p) as [L|L]; split; intros H.
      * inversion H; subst. right. right. exists h, p. repeat split; congruence.
      * destruct H as [[H _]|[(h' & p' & H & H1 & _)|(h' & p' & H & _ & _ & He)]]; try discriminate.
        -- inversion H; subst. congruence.
        -- subst. reflexivity.
      * discriminate.
      * destruct H as [[H _]|[(h' & p' & H & H1 & _)|(h' & p' & H & _ & Hp & He)]]; try discriminate.
        -- inversion H; subst. congruence.
        -- inversion H; subst. lia.
    + split; intros H.
      * inversion H; subst. right. left. exists h, p. auto.
      * destruct H as [[H _]|[(h' & p' & H & _ & He)|(h' & p' & H & Hn & _)]]; try discriminate.
        -- subst. reflexivity.
        -- inversion H; subst. congruence.
  - split; intros H.
    + inversion H; subst. left. auto.
    + destruct H as [[_ H]|[(h' & p' & H & _)|(h' & p' & H & _)]]; try discriminate. subst. reflexivity.
Qed.

Theorem roundtrip_any_order : forall t w, wf_target t -> wire_of t w ->
  exists t', from_wire w = GOk t' /\ target_equiv t' t.
Proof.
  intros t w (Hip & Hport & Hnd) (Hid & Haddr & Hperm).
  exists (mkR (w_id w) (r_ip t) (r_port t) (meta_collect (w_meta w))). split.
  - unfold from_wire, addr_of. rewrite Haddr. cbn [fst snd].
    rewrite (parse_ip_show _ Hip).
    destruct (Z.ltb_spec 65535 (r_port t)); [lia | reflexivity].
  - unfold target_equiv. cbn [r_id r_ip r_port r_meta]. repeat split; try assumption; try reflexivity.
    apply collect_perm; assumption.
Qed.

Lemma wire_of_to_wire t : wire_of t (to_wire t).
Proof. unfold wire_of, to_wire. cbn [w_id w_addr w_meta]. repeat split; reflexivity || apply Permutation_refl. Qed.

Theorem roundtrip_exact : forall t, wf_target t -> from_wire (to_wire t) = GOk t.
Proof.
  intros [id i p m] (Hip & Hport & Hnd). cbn [r_ip r_port r_meta] in *.
  unfold from_wire, to_wire, addr_of. cbn [w_addr w_id w_meta r_id r_ip r_port r_meta fst snd].
  rewrite (parse_ip_show _ Hip).
  destruct (Z.ltb_spec 65535 p); [lia|].
  rewrite collect_id by exact Hnd. reflexivity.
Qed.

Lemma meta_equiv_refl m : meta_equiv m m.
Proof. intros k. reflexivity. Qed.

Theorem roundtrip : forall t, wf_target t ->
  exists t', from_wire (to_wire t) = GOk t' /\ target_equiv t' t.
Proof.
  intros t H. exists t. split; [apply roundtrip_exact; exact H|].
  unfold target_equiv. repeat split; apply meta_equiv_refl.
Qed.

(* two well-formed targets that look the same on the wire are the same target *)
Theorem to_wire_inj : forall a b, wf_target a -> wf_target b -> to_wire a = to_wire b -> a = b.
Proof.
  intros a b Ha Hb E. apply roundtrip_exact in Ha. apply roundtrip_exact in Hb.
  rewrite E in Ha. congruence.
Qed.

(* ------------------------------------------------------------------ lists *)
Theorem from_wire_list_ok : forall ws ts,
  from_wire_list ws = GOk ts <-> Forall2 (fun w t => from_wire w = GOk t) ws ts.
Proof.
  induction ws as [|w ws IH]; intros ts; cbn [from_wire_list].
  - split; intros H.
    + inversion H; subst. constructor.
    + inversion H; subst. reflexivity.
  - destruct (from_wire w) as [t|e] eqn:Ew.
    + destruct (from_wire_list ws) as [ts'|e] eqn:El; split; intros H.
      * inversion H; subst. constructor; [exact Ew | apply IH; reflexivity].
      * inversion H as [|? ? ? ? H1 H2]; subst. apply IH in H2. congruence.
      * discriminate.
      * inversion H as [|? ? ? ? H1 H2]; subst. apply IH in H2. discriminate.
    + split; intros H; [discriminate|]. inversion H; subst. congruence.
Qed.

Lemma from_wire_list_err_fwd : forall ws e, from_wire_list ws = GErr e ->
  exists pre w post, ws = pre ++ w :: post /\ (exists ts, from_wire_list pre = GOk ts) /\ from_wire w = GErr e.
Proof.
  induction ws as [|w ws IH]; intros e; cbn [from_wire_list]; [discriminate|].
  destruct (from_wire w) as [t|e0] eqn:Ew.
  - destruct (from_wire_list ws) as [ts'|e1] eqn:El; [discriminate|].
    intros H. inversion H; subst. destruct (IH e eq_refl) as (pre & w' & post & E & (ts & Hpre) & Hw).
    exists (w :: pre), w', post. split; [cbn [app]; congruence|]. split; [|exact Hw].
    exists (t :: ts). cbn [from_wire_list]. rewrite Ew, Hpre. reflexivity.
  - intros H. inversion H; subst. exists [], w, ws.
    split; [reflexivity|]. split; [exists []; reflexivity | exact Ew].
Qed.

Lemma from_wire_list_err_bwd : forall pre ts w post e,
  from_wire_list pre = GOk ts -> from_wire w = GErr e -> from_wire_list (pre ++ w :: post) = GErr e.
Proof.
  induction pre as [|x pre IH]; intros ts w post e Hpre Hw; cbn [app from_wire_list].
  - rewrite Hw. reflexivity.
  - cbn [from_wire_list] in Hpre. destruct (from_wire x) as [t|e0]; [|discriminate].
    destruct (from_wire_list pre) as [ts'|e1] eqn:El; [|discriminate].
    rewrite (IH ts' w post e eq_refl Hw). reflexivity.
Qed.

(* the first element that fails decides the error *)
Theorem from_wire_list_err : forall ws e,
  from_wire_list ws = GErr e <->
  exists pre w post, ws = pre ++ w :: post /\ (exists ts, from_wire_list pre = GOk ts) /\ from_wire w = GErr e.
Proof.
  intros ws e. split; [apply from_wire_list_err_fwd|].
  intros (pre & w & post & E & (ts & Hpre) & Hw). subst ws. eapply from_wire_list_err_bwd; eassumption.
Qed.

Theorem from_wire_list_length : forall ws ts, from_wire_list ws = GOk ts -> length ts = length ws.
Proof.
  intros ws ts H. apply from_wire_list_ok in H.
  induction H as [|w t ws ts _ _ IH]; cbn [length]; congruence.
Qed.

Theorem roundtrip_list : forall ts, Forall wf_target ts -> from_wire_list (map to_wire ts) = GOk ts.
Proof.
  intros ts H. apply from_wire_list_ok. induction H as [|t ts Ht _ IH]; cbn [map]; constructor.
  - apply roundtrip_exact. exact Ht.
  - exact IH.
Qed.

(* ------------------------------------------------------------------ UUID text *)
Lemma hchar_inj a b : 0 <= a < 16 -> 0 <= b < 16 -> hchar a = hchar b -> a = b.
Proof.
  unfold hchar. intros Ha Hb.
  destruct (Z.ltb_spec a 10), (Z.ltb_spec b 10); lia.
Qed.

Lemma byte_of_hex x y :
  0 <= x < 256 -> 0 <= y < 256 -> hchar (x / 16) = hchar (y / 16) -> hchar (x mod 16) = hchar (y mod 16) -> x = y.
Proof.
  intros Hx Hy H1 H2. apply hchar_inj in H1; [|lia|lia]. apply hchar_inj in H2; [|lia|lia]. lia.
Qed.

Lemma uuid_text_inj a b :
  length a = 16%nat -> length b = 16%nat -> wf_bytes a -> wf_bytes b -> uuid_text a = uuid_text b -> a = b.
Proof.
  intros La Lb Wa Wb.
  do 17 (destruct a as [|? a]; try discriminate La).
  do 17 (destruct b as [|? b]; try discriminate Lb).
  unfold uuid_text, hex2. cbn [app]. intros E.
  unfold wf_bytes in Wa, Wb.
  repeat match goal with H : Forall _ (_ :: _) |- _ => inversion H; clear H; subst end.
  unfold is_byte in *.
  injection E; intros.
  repeat (apply (f_equal2 (@cons Z)); [apply byte_of_hex; assumption|]). reflexivity.
Qed.

Theorem show_uuid_inj : forall u v, 0 <= u < 2 ^ 128 -> 0 <= v < 2 ^ 128 -> show_uuid u = show_uuid v -> u = v.
Proof.
  intros u v Hu Hv E. unfold show_uuid in E.
  apply uuid_text_inj in E; try apply be_enc_length; try apply be_enc_wf.
  rewrite <- (be_dec_enc 16 u), <- (be_dec_enc 16 v), E; [reflexivity | |];
    change (256 ^ Z.of_nat 16) with (2 ^ 128); assumption.
Qed.

Lemma uuid_text_length b : length b = 16%nat -> length (uuid_text b) = 36%nat.
Proof.
  intros L. do 17 (destruct b as [|? b]; try discriminate L). reflexivity.
Qed.
Lemma show_uuid_length u : length (show_uuid u) = 36%nat.
Proof. unfold show_uuid. apply uuid_text_length. apply be_enc_length. Qed.

(* ------------------------------------------------------------------ select *)
Theorem request_fields : forall s,
  q_client (build_request s) = Some (show_ip (s_cip s), s_cport s) /\
  q_server (build_request s) = Some (s_host s, s_sport s) /\
  q_proto (build_request s) = s_proto s mod 2 ^ 64 /\
  q_user (build_request s) = s_user s /\
  q_uid (build_request s) = show_uuid (s_uid s) /\
  q_targets (build_request s) = map to_wire (s_targets s).
Proof. intros s. repeat split. Qed.

(* nothing is lost: the receiving service can recover every argument from the request *)
Theorem request_lossless : forall s, wf_selin s ->
  (exists h, q_client (build_request s) = Some (h, s_cport s) /\ parse_ip h = Some (s_cip s)) /\
  q_server (build_request s) = Some (s_host s, s_sport s) /\
  0 <= q_proto (build_request s) < 2 ^ 64 /\ wrap64 (q_proto (build_request s)) = s_proto s /\
  q_user (build_request s) = s_user s /\
  (forall u, 0 <= u < 2 ^ 128 -> show_uuid u = q_uid (build_request s) -> u = s_uid s) /\
  from_wire_list (q_targets (build_request s)) = GOk (s_targets s).
Proof.
  intros s (Hip & Hcp & Hsp & Hpr & Hu & Hts). cbn [build_request q_client q_server q_proto q_user q_uid q_targets].
  split; [exists (show_ip (s_cip s)); split; [reflexivity | apply parse_ip_show; exact Hip]|].
  split; [reflexivity|].
  split; [apply Z.mod_pos_bound; lia|].
  split; [apply wrap64_id; unfold in_i32, in_i64 in *; lia|].
  split; [reflexivity|].
  split; [intros u Hu' E; apply show_uuid_inj; assumption|].
  apply roundtrip_list. exact Hts.
Qed.

Theorem select_result_spec : forall reply,
  match reply with
  | None => select_result reply = GOk None
  | Some w => match from_wire w with
              | GOk t => select_result reply = GOk (Some t)
              | GErr e => select_result reply = GErr e
              end
  end.
Proof. intros [w|]; cbn [select_result]; [destruct (from_wire w)|]; reflexivity. Qed.

(* a strategy service that echoes candidate t as it received it hands t back to the router *)
Theorem select_echo : forall s t, wf_selin s -> In t (s_targets s) ->
  In (to_wire t) (q_targets (build_request s)) /\ select_result (Some (to_wire t)) = GOk (Some t).
Proof.
  intros s t (_ & _ & _ & _ & _ & Hts) Hin. split.
  - cbn [build_request q_targets]. apply in_map. exact Hin.
  - cbn [select_result]. rewrite roundtrip_exact; [reflexivity|].
    rewrite Forall_forall in Hts. apply Hts. exact Hin.
Qed.

(* ------------------------------------------------------------------ the old code *)
Theorem old_refuted : exists t, wf_target t /\ (exists s, r_ip t = V6 s) /\
  from_wire_old (to_wire t) = GErr EHost /\ from_wire (to_wire t) = GOk t.
Proof.
  exists ex_t6. split.
  - unfold wf_target, ex_t6. cbn [r_ip r_port r_meta]. split; [vm_compute; reflexivity|]. split; [lia|].
    cbn [map fst]. constructor.
    + cbn [In]. intros [H|[]]. apply (f_equal (@length Z)) in H. discriminate H.
    + constructor; [intros [] | constructor].
  - split; [eexists; reflexivity|]. split; vm_compute; reflexivity.
Qed.

(* non-vacuity *)
Example ex_wf_t6 : wf_target ex_t6.
Proof.
  unfold wf_target, ex_t6. cbn [r_ip r_port r_meta]. split; [vm_compute; reflexivity|]. split; [lia|].
  cbn [map fst]. constructor.
  - cbn [In]. intros [H|[]]. apply (f_equal (@length Z)) in H. discriminate H.
  - constructor; [intros [] | constructor].
Qed.
Example ex_any_order :
  exists t', from_wire (mkW (str "lobby-1") (Some (str "2001:db8::1", 25565)) [(str "type", str "lobby"); (str "region", str "eu")])
             = GOk t' /\ target_equiv t' ex_t6.
Proof.
  apply roundtrip_any_order; [exact ex_wf_t6|].
  unfold wire_of, ex_t6. cbn [w_id w_addr w_meta r_id r_ip r_port r_meta].
  split; [reflexivity|]. split; [vm_compute; reflexivity | apply perm_swap].
Qed.
Example ex_wf_sel :
  wf_selin (mkSel (V6 [0; 0; 0; 0; 0; 0; 0; 1]) 50000 (str "mc.example.org") 25565 (-1) (str "Steve") 1 [ex_t6]).
Proof.
  unfold wf_selin. cbn [s_cip s_cport s_sport s_proto s_uid s_targets].
  split; [vm_compute; reflexivity|]. unfold in_i32. repeat split; try lia.
  constructor; [exact ex_wf_t6 | constructor].
Qed.
Example ex_list_iff :
  from_wire_list [to_wire ex_t6; mkW [] (Some (str "10.0.0.1", 80)) []] = GOk [ex_t6; mkR [] (V4 10 0 0 1) 80 []]
  /\ from_wire_list [to_wire ex_t6; mkW [] (Some (str "10.0.0.1", 65536)) []; mkW [] None []] = GErr EPort.
Proof. split; vm_compute; reflexivity. Qed.
Example ex_uuid_differs : show_uuid 1 <> show_uuid 2.
Proof. intros H. apply show_uuid_inj in H; lia. Qed.
