(* The rate limiter of Limiter/Limiter.v satisfies the per-key independence that
   Listener/MachineProofs.v `noninterference` asks of its `admit_fn` parameter: a corollary of
   C13_independent. *)
From Passage Require Import Lib.Bytes Limiter.F32 Limiter.Bucket Limiter.Limiter
  Limiter.F32Proofs Limiter.LimiterProofs Listener.Machine Listener.MachineProofs.

Lemma lfin_lfinal c a : forall st, lfin lstate (enqueue c) st a = lfinal c st a.
Proof.
  unfold lfin. induction a as [|[k t] r IH]; intros st; cbn; [reflexivity|]. apply IH.
Qed.

Lemma tsorted_hist a : forall lo k t, tsorted lo a t -> hist_sorted_from lo (a ++ [(k, t)]).
Proof.
  induction a as [|[k' t'] r IH]; cbn; intros lo k t H; [auto|]. destruct H. split; auto.
Qed.

Lemma decisions_for_snoc k c a : forall st t,
  decisions_for k c st (a ++ [(k, t)]) = decisions_for k c st a ++ [snd (enqueue c (lfinal c st a) k t)].
Proof.
  induction a as [|[k' t'] r IH]; intros st t; cbn [app decisions_for lfinal].
  - destruct (enqueue c st k t) as [st' ok]. rewrite Z.eqb_refl. reflexivity.
  - destruct (enqueue c st k' t') as [st' ok] eqn:E. cbn [fst]. rewrite IH.
    destruct (k' =? k); reflexivity.
Qed.

Lemma attempts_of_keyf k a : attempts_of k a = map snd (keyf k a).
Proof. reflexivity. Qed.

Lemma app_inj_last {A} (a b : list A) x y : a ++ [x] = b ++ [y] -> x = y.
Proof. intros H. apply app_inj_tail in H. tauto. Qed.

Theorem enqueue_indep c t0 : 0 < dur c ->
  forall a a' k t, tsorted t0 a t -> tsorted t0 a' t -> keyf k a = keyf k a' ->
  snd (enqueue c (lfin lstate (enqueue c) (linit t0) a) k t)
  = snd (enqueue c (lfin lstate (enqueue c) (linit t0) a') k t).
Proof.
  intros D a a' k t S S' K. rewrite !lfin_lfinal.
  pose proof (independent c D t0 (a ++ [(k, t)]) k (tsorted_hist _ _ k _ S)) as I.
  pose proof (independent c D t0 (a' ++ [(k, t)]) k (tsorted_hist _ _ k _ S')) as I'.
  assert (EA : attempts_of k (a ++ [(k, t)]) = attempts_of k (a' ++ [(k, t)])).
  { rewrite !attempts_of_app, !(attempts_of_keyf k a), !(attempts_of_keyf k a'), K. reflexivity. }
  rewrite EA, <- I' in I. rewrite !decisions_for_snoc in I. apply app_inj_last in I. exact I.
Qed.
