(* Proofs about the configuration path of Listener/Wire.v. *)
From Passage Require Import Lib.Bytes Conn.Types Conn.Prog Conn.Sem1 Listener.Wire.

Lemma wired a eff pk :
  let c := conn_cfg_of (listener_of a) eff pk in
  cf_max_len c = wrap32 (a_max a) /\ cf_expiry c = a_expiry a /\ cf_secret c = a_secret a
  /\ cf_client c = eff /\ l_timeout_ms (listener_of a) = 1000 * a_timeout a
  /\ l_lim (listener_of a) = a_lim a /\ l_proxy (listener_of a) = a_proxy a.
Proof. cbn. repeat split; reflexivity. Qed.

Lemma wrap32_small v : 0 <= v < 2 ^ 31 -> wrap32 v = v.
Proof.
  intros H. unfold wrap32, wrap_s. change (32 - 1) with 31.
  rewrite Z.mod_small by lia. destruct (Z.ltb_spec v (2 ^ 31)); lia.
Qed.
Lemma wrap32_high v : 2 ^ 31 <= v < 2 ^ 32 -> wrap32 v = v - 2 ^ 32.
Proof.
  intros H. unfold wrap32, wrap_s. change (32 - 1) with 31.
  rewrite Z.mod_small by lia. destruct (Z.ltb_spec v (2 ^ 31)); lia.
Qed.

(* the check of the connection model is this check on the connection's configured maximum *)
Lemma len_ok_frame cfg id body : len_ok cfg id body = frame_len_ok (cf_max_len cfg) (frame_len id body).
Proof. reflexivity. Qed.

Lemma frames_refused a eff pk len :
  1 <= a_max a < 2 ^ 31 -> a_max a < len ->
  frame_len_ok (cf_max_len (conn_cfg_of (listener_of a) eff pk)) len = false.
Proof.
  intros H Hl. cbn. rewrite wrap32_small by lia. unfold frame_len_ok.
  destruct (Z.leb_spec len (a_max a)); [lia|]. apply andb_false_r.
Qed.
Lemma frames_accepted a eff pk len :
  1 <= a_max a < 2 ^ 31 -> 0 < len <= a_max a ->
  frame_len_ok (cf_max_len (conn_cfg_of (listener_of a) eff pk)) len = true.
Proof.
  intros H Hl. cbn. rewrite wrap32_small by lia. unfold frame_len_ok.
  destruct (Z.ltb_spec 0 len); [|lia]. destruct (Z.leb_spec len (a_max a)); [reflexivity|lia].
Qed.
(* observation: `max_packet_length as i32` of a u64 with bit 31 set is negative: every frame is
   refused, the listener is unusable (not a defect of the wiring; the configuration is a u64) *)
Lemma frames_all_refused_when_wrapped a eff pk len :
  2 ^ 31 <= a_max a < 2 ^ 32 ->
  frame_len_ok (cf_max_len (conn_cfg_of (listener_of a) eff pk)) len = false.
Proof.
  intros H. cbn. rewrite wrap32_high by lia. unfold frame_len_ok.
  destruct (Z.ltb_spec 0 len); [|reflexivity]. destruct (Z.leb_spec len (a_max a - 2 ^ 32)); [lia|reflexivity].
Qed.

Lemma expiry_configured a eff pk ts now :
  cookie_fresh (cf_expiry (conn_cfg_of (listener_of a) eff pk)) ts now = true
  <-> now <= Z.min (ts + a_expiry a) (2 ^ 64 - 1).
Proof.
  cbn. unfold cookie_fresh. rewrite negb_true_iff, Z.ltb_ge. tauto.
Qed.
