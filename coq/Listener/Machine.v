(* The accept loop of passage-protocol/src/listener.rs (`Listener::listen` / `handle`) AFTER the
   repair fix-c16, as an executable machine over events.  Definitions only.

   One event = one thing that happens to the listener or to one connection task:
     Arrive c peer t   the kernel hands connection c (TCP peer address `peer`) to `accept`
     Header c h t      the PROXY-protocol header of c is complete (`create_from_tokio` returns);
                       a header that never completes has no Header event
     ConnDone c t      `Connection::listen` of c returns on its own (success or protocol error)
     Deadline c t      the `timeout_at(deadline, ..)` timer of c's task fires
     Stop t            the cancellation token is observed by the accept loop
   Outputs: Spawn c (the tracked task exists), Serve c eff (the connection protocol starts,
   `with_client_address(eff)`), Close c reason (the task ends and the socket is shut down or
   dropped), Return (`listen` returns).

   The limiter is a parameter: `admit_fn l key t` is `RateLimiter::enqueue(key)` at time t
   (no limiter configured: a function that always admits).  Addresses are (ip key, port). *)
From Passage Require Import Lib.Bytes.

Definition addr := (Z * Z)%type.

(* what the client put in front of its stream, by PROXY-protocol version; `src` = the announced
   source, None for the LOCAL command / "PROXY UNKNOWN" *)
Inductive hdr := HV1 (src : option addr) | HV2 (src : option addr) | HBad.

(* proxy_header::ProxyHeader::parse: first byte 'P' -> v1 if allowed, '\r' -> v2 if allowed,
   anything else (or a disabled version, or a decoder error) -> Invalid.   None = Invalid *)
Definition header_result (pc : bool * bool) (h : hdr) : option (option addr) :=
  match h with
  | HV1 s => if fst pc then Some s else None
  | HV2 s => if snd pc then Some s else None
  | HBad => None
  end.

(* `.proxied_address().map(|a| a.source).unwrap_or(addr)` *)
Definition effective (src : option addr) (peer : addr) : addr :=
  match src with Some s => s | None => peer end.

Inductive event :=
| Arrive (c : Z) (peer : addr) (t : Z)
| Header (c : Z) (h : hdr) (t : Z)
| ConnDone (c : Z) (t : Z)
| Deadline (c : Z) (t : Z)
| Stop (t : Z).

Inductive reason := RRejected (eff : addr) | RBadHeader | RDeadline | RFinished.
Inductive output := Spawn (c : Z) | Serve (c : Z) (eff : addr) | Close (c : Z) (r : reason) | Return.

Inductive phase := PWait (peer : addr) | PServe (eff : addr).

Record mcfg := MCfg { m_proxy : option (bool * bool);   (* (allow_v1, allow_v2) *)
                      m_timeout : Z }.

Definition time_of (ev : event) : Z :=
  match ev with Arrive _ _ t | Header _ _ t | ConnDone _ t | Deadline _ t | Stop t => t end.
Definition conn_of (ev : event) : option Z :=
  match ev with Arrive c _ _ | Header c _ _ | ConnDone c _ | Deadline c _ => Some c | Stop _ => None end.
(* the connection an output is about *)
Definition about (o : output) : option Z :=
  match o with Spawn c | Serve c _ | Close c _ => Some c | Return => None end.

Definition entry := (phase * Z)%type.            (* phase, time the task was spawned *)

Fixpoint find (c : Z) (l : list (Z * entry)) : option entry :=
  match l with
  | [] => None
  | (c', e) :: r => if c =? c' then Some e else find c r
  end.
Fixpoint remove (c : Z) (l : list (Z * entry)) : list (Z * entry) :=
  match l with
  | [] => []
  | (c', e) :: r => if c =? c' then remove c r else (c', e) :: remove c r
  end.
Definition memz (c : Z) (l : list Z) : bool := existsb (Z.eqb c) l.
Definition isnil {A} (l : list A) : bool := match l with [] => true | _ => false end.

Section Machine.
  Variable L : Type.
  Variable admit_fn : L -> Z -> Z -> L * bool.

  Record state := St {
    accepting : bool;                 (* the accept loop is still running *)
    returned : bool;                  (* `listen` has returned *)
    seen : list Z;                    (* every connection ever accepted *)
    tracked : list (Z * entry);       (* the TaskTracker: live connection tasks *)
    lim : L }.

  Definition init (l0 : L) : state := St true false [] [] l0.

  Definition with_tracked (st : state) (tr : list (Z * entry)) : state :=
    St (accepting st) (returned st) (seen st) tr (lim st).

  (* inside the task: ask the limiter about the effective address; `rest` = the tracker
     without c *)
  Definition decide (st : state) (c : Z) (eff : addr) (spawned t : Z) (rest : list (Z * entry))
      : state * list output :=
    let '(l', ok) := admit_fn (lim st) (fst eff) t in
    if ok then (St (accepting st) (returned st) (seen st) ((c, (PServe eff, spawned)) :: rest) l',
                [Serve c eff])
    else (St (accepting st) (returned st) (seen st) rest l', [Close c (RRejected eff)]).

  Definition step_core (cf : mcfg) (st : state) (ev : event) : state * list output :=
    match ev with
    | Arrive c peer t =>
        if accepting st && negb (memz c (seen st)) then
          let st1 := St true (returned st) (c :: seen st) (tracked st) (lim st) in
          match m_proxy cf with
          | None =>      (* no header to wait for: the task asks the limiter at once *)
              let '(st2, o) := decide st1 c peer t t (tracked st) in (st2, Spawn c :: o)
          | Some _ => (with_tracked st1 ((c, (PWait peer, t)) :: tracked st), [Spawn c])
          end
        else (st, [])
    | Header c h t =>
        match m_proxy cf, find c (tracked st) with
        | Some pc, Some (PWait peer, sp) =>
            match header_result pc h with
            | None => (with_tracked st (remove c (tracked st)), [Close c RBadHeader])
            | Some src => decide st c (effective src peer) sp t (remove c (tracked st))
            end
        | _, _ => (st, [])
        end
    | ConnDone c t =>
        match find c (tracked st) with
        | Some (PServe _, _) => (with_tracked st (remove c (tracked st)), [Close c RFinished])
        | _ => (st, [])
        end
    | Deadline c t =>
        match find c (tracked st) with
        | Some (_, sp) =>
            if sp + m_timeout cf <=? t
            then (with_tracked st (remove c (tracked st)), [Close c RDeadline])
            else (st, [])                        (* a timer never fires early *)
        | None => (st, [])
        end
    | Stop t => (St false (returned st) (seen st) (tracked st) (lim st), [])
    end.

  (* `tracker.close(); tracker.wait().await` completes when no task is left *)
  Definition finish (so : state * list output) : state * list output :=
    let '(st, o) := so in
    if negb (accepting st) && isnil (tracked st) && negb (returned st)
    then (St false true (seen st) (tracked st) (lim st), o ++ [Return])
    else (st, o).

  Definition step (cf : mcfg) (st : state) (ev : event) : state * list output :=
    finish (step_core cf st ev).

  Fixpoint run (cf : mcfg) (st : state) (h : list event) : list (Z * output) :=
    match h with
    | [] => []
    | ev :: r => let '(st', o) := step cf st ev in map (pair (time_of ev)) o ++ run cf st' r
    end.
  Fixpoint final (cf : mcfg) (st : state) (h : list event) : state :=
    match h with
    | [] => st
    | ev :: r => final cf (fst (step cf st ev)) r
    end.

  (* the outputs about one connection *)
  Definition outputs_for (c : Z) (o : list (Z * output)) : list (Z * output) :=
    filter (fun x => match about (snd x) with Some c' => c' =? c | None => false end) o.

  (* ------------------------------------------------------------------------------------
     The accept loop BEFORE the repair: `handle` awaited the PROXY header inline, with no
     deadline, so the loop is busy with one connection while later ones wait in the kernel
     backlog (their header bytes, if any, wait in the socket buffer); the stop signal is only
     looked at between two connections.  Used for the refutation examples only. *)
  Record ostate := OSt {
    o_accepting : bool; o_stop_pending : bool; o_returned : bool;
    o_busy : option (Z * addr);                       (* awaiting this header inline *)
    o_backlog : list (Z * addr * option hdr);         (* not yet accepted, oldest first *)
    o_tracked : list (Z * entry);
    o_lim : L }.

  Definition oinit (l0 : L) : ostate := OSt true false false None [] [] l0.

  Definition odecide (st : ostate) (c : Z) (eff : addr) (t : Z) : ostate * list output :=
    let '(l', ok) := admit_fn (o_lim st) (fst eff) t in
    if ok then (OSt (o_accepting st) (o_stop_pending st) (o_returned st) None (o_backlog st)
                    ((c, (PServe eff, t)) :: o_tracked st) l', [Spawn c; Serve c eff])
    else (OSt (o_accepting st) (o_stop_pending st) (o_returned st) None (o_backlog st)
              (o_tracked st) l', [Close c (RRejected eff)]).

  (* handle one accepted connection whose header (if already complete) is `ho` *)
  Definition ohandle (cf : mcfg) (st : ostate) (c : Z) (peer : addr) (ho : option hdr) (t : Z)
      : ostate * list output :=
    match m_proxy cf with
    | None => odecide st c peer t
    | Some pc =>
        match ho with
        | None => (OSt (o_accepting st) (o_stop_pending st) (o_returned st) (Some (c, peer))
                       (o_backlog st) (o_tracked st) (o_lim st), [])
        | Some h =>
            match header_result pc h with
            | None => (OSt (o_accepting st) (o_stop_pending st) (o_returned st) None (o_backlog st)
                           (o_tracked st) (o_lim st), [Close c RBadHeader])
            | Some src => odecide st c (effective src peer) t
            end
        end
    end.

  (* the loop is free again: look at the stop signal, else accept the next connection *)
  Fixpoint opump (fuel : nat) (cf : mcfg) (st : ostate) (t : Z) : ostate * list output :=
    match fuel with
    | O => (st, [])
    | S f =>
        match o_busy st with
        | Some _ => (st, [])
        | None =>
            if o_stop_pending st
            then (OSt false false (o_returned st) None (o_backlog st) (o_tracked st) (o_lim st), [])
            else match o_backlog st with
                 | [] => (st, [])
                 | (c, peer, ho) :: r =>
                     let st1 := OSt (o_accepting st) false (o_returned st) None r (o_tracked st) (o_lim st) in
                     let '(st2, o2) := ohandle cf st1 c peer ho t in
                     let '(st3, o3) := opump f cf st2 t in (st3, o2 ++ o3)
                 end
        end
    end.

  Fixpoint set_hdr (c : Z) (h : hdr) (l : list (Z * addr * option hdr)) : list (Z * addr * option hdr) :=
    match l with
    | [] => []
    | (c', p, ho) :: r => if c =? c' then (c', p, Some h) :: r else (c', p, ho) :: set_hdr c h r
    end.

  Definition ostep_core (cf : mcfg) (st : ostate) (ev : event) : ostate * list output :=
    match ev with
    | Arrive c peer t =>
        if negb (o_accepting st) then (st, [])
        else
          let st1 := OSt true (o_stop_pending st) (o_returned st) (o_busy st)
                         (o_backlog st ++ [(c, peer, None)]) (o_tracked st) (o_lim st) in
          opump (S (length (o_backlog st1))) cf st1 t
    | Header c h t =>
        match o_busy st with
        | Some (c', peer) =>
            if c =? c' then
              let st1 := OSt (o_accepting st) (o_stop_pending st) (o_returned st) None (o_backlog st)
                             (o_tracked st) (o_lim st) in
              let '(st2, o2) := ohandle cf st1 c peer (Some h) t in
              let '(st3, o3) := opump (S (length (o_backlog st2))) cf st2 t in (st3, o2 ++ o3)
            else (OSt (o_accepting st) (o_stop_pending st) (o_returned st) (o_busy st)
                      (set_hdr c h (o_backlog st)) (o_tracked st) (o_lim st), [])
        | None => (OSt (o_accepting st) (o_stop_pending st) (o_returned st) None
                       (set_hdr c h (o_backlog st)) (o_tracked st) (o_lim st), [])
        end
    | ConnDone c t =>
        match find c (o_tracked st) with
        | Some (PServe _, _) =>
            (OSt (o_accepting st) (o_stop_pending st) (o_returned st) (o_busy st) (o_backlog st)
                 (remove c (o_tracked st)) (o_lim st), [Close c RFinished])
        | _ => (st, [])
        end
    | Deadline c t =>
        match find c (o_tracked st) with      (* only spawned tasks have a timer *)
        | Some (_, sp) =>
            if sp + m_timeout cf <=? t
            then (OSt (o_accepting st) (o_stop_pending st) (o_returned st) (o_busy st) (o_backlog st)
                      (remove c (o_tracked st)) (o_lim st), [Close c RDeadline])
            else (st, [])
        | None => (st, [])
        end
    | Stop t =>
        match o_busy st with
        | Some _ => (OSt (o_accepting st) true (o_returned st) (o_busy st) (o_backlog st)
                         (o_tracked st) (o_lim st), [])
        | None => (OSt false false (o_returned st) None (o_backlog st) (o_tracked st) (o_lim st), [])
        end
    end.

  Definition ofinish (so : ostate * list output) : ostate * list output :=
    let '(st, o) := so in
    if negb (o_accepting st) && isnil (o_tracked st) && negb (o_returned st)
    then (OSt false false true (o_busy st) (o_backlog st) (o_tracked st) (o_lim st), o ++ [Return])
    else (st, o).

  Fixpoint orun (cf : mcfg) (st : ostate) (h : list event) : list (Z * output) :=
    match h with
    | [] => []
    | ev :: r => let '(st', o) := ofinish (ostep_core cf st ev) in
                 map (pair (time_of ev)) o ++ orun cf st' r
    end.
End Machine.

Arguments St {L}. Arguments accepting {L}. Arguments returned {L}. Arguments seen {L}.
Arguments tracked {L}. Arguments lim {L}. Arguments init {L}. Arguments with_tracked {L}.
Arguments oinit {L}.

(* no limiter configured *)
Definition admit_all (l : unit) (k t : Z) : unit * bool := (l, true).

(* two balancer peers, PROXY v1+v2 allowed, timeout 10 s: a silent peer, then a client that
   announces 203.0.113.5 and finishes on its own, then the stop request *)
Definition ex_cfg := MCfg (Some (true, true)) 10000.
Definition ex_hist : list event :=
  [Arrive 1 (2130706434, 40000) 0; Arrive 2 (2130706435, 40001) 100;
   Header 2 (HV1 (Some (3405803781, 5555))) 100; ConnDone 2 110; Stop 500;
   Arrive 3 (2130706435, 40002) 600; Deadline 1 10000; Deadline 2 10100].
Example ex_run :
  run unit admit_all ex_cfg (init tt) ex_hist
  = [(0, Spawn 1); (100, Spawn 2); (100, Serve 2 (3405803781, 5555)); (110, Close 2 RFinished);
     (10000, Close 1 RDeadline); (10000, Return)].
Proof. vm_compute. reflexivity. Qed.
(* the loop before the repair on the same history: connection 2 is never even accepted and
   `listen` never returns *)
Example ex_orun : orun unit admit_all ex_cfg (oinit tt) ex_hist = [].
Proof. vm_compute. reflexivity. Qed.
