(* Proofs about the listener machine of Listener/Machine.v (the repaired accept loop). *)
From Passage Require Import Lib.Bytes Limiter.Limiter Listener.Machine.

Ltac break_match :=
  match goal with
  | |- context [match ?x with _ => _ end] => destruct x eqn:?
  | H : context [match ?x with _ => _ end] |- _ => destruct x eqn:?
  end.
Ltac inv H := inversion H; subst; clear H.

(* ---------------------------------------------------------------- association lists *)
Lemma find_remove_same c l : find c (remove c l) = None.
Proof.
  induction l as [|[c' e] r IH]; cbn; [reflexivity|].
  destruct (Z.eqb_spec c c'); [exact IH|]. cbn. destruct (Z.eqb_spec c c'); [lia|exact IH].
Qed.
Lemma find_remove_other c d l : c <> d -> find c (remove d l) = find c l.
Proof.
  intros N. induction l as [|[c' e] r IH]; cbn; [reflexivity|].
  destruct (Z.eqb_spec d c'); subst.
  - destruct (Z.eqb_spec c c'); [lia|exact IH].
  - cbn. destruct (Z.eqb_spec c c'); [reflexivity|exact IH].
Qed.
Lemma find_cons_same c e l : find c ((c, e) :: l) = Some e.
Proof. cbn. rewrite Z.eqb_refl. reflexivity. Qed.
Lemma find_cons_other c d e l : c <> d -> find c ((d, e) :: l) = find c l.
Proof. intros N. cbn. destruct (Z.eqb_spec c d); [lia|reflexivity]. Qed.
Lemma memz_cons_same c l : memz c (c :: l) = true.
Proof. unfold memz. cbn. rewrite Z.eqb_refl. reflexivity. Qed.
Lemma memz_cons_other c d l : c <> d -> memz c (d :: l) = memz c l.
Proof. intros N. unfold memz. cbn. destruct (Z.eqb_spec c d); [lia|reflexivity]. Qed.
Lemma isnil_true {A} (l : list A) : isnil l = true -> l = [].
Proof. destruct l; cbn; congruence. Qed.
Lemma find_nil_none c l : l = [] -> find c l = None.
Proof. intros ->. reflexivity. Qed.

Lemma option_eq_dec_Z (a b : option Z) : {a = b} + {a <> b}.
Proof. decide equality. apply Z.eq_dec. Qed.

Section Proofs.
  Variable L : Type.
  Variable admit_fn : L -> Z -> Z -> L * bool.
  Variable cf : mcfg.

  Notation state := (state L).
  Notation step := (step L admit_fn cf).
  Notation step_core := (step_core L admit_fn cf).
  Notation run := (run L admit_fn cf).
  Notation final := (final L admit_fn cf).
  Notation decide := (decide L admit_fn).

  (* ---------------------------------------------------------------- run / final *)
  Lemma run_app st a b : run st (a ++ b) = run st a ++ run (final st a) b.
  Proof.
    revert st. induction a as [|ev r IH]; intros st; cbn; [reflexivity|].
    destruct (step st ev) as [st' o] eqn:E. cbn. rewrite IH, app_assoc. reflexivity.
  Qed.
  Lemma final_app st a b : final st (a ++ b) = final (final st a) b.
  Proof. revert st. induction a as [|ev r IH]; intros st; cbn; [reflexivity|apply IH]. Qed.
  Lemma run_times st h t o : In (t, o) (run st h) -> exists ev, In ev h /\ time_of ev = t.
  Proof.
    revert st. induction h as [|ev r IH]; intros st; cbn; [intros []|].
    destruct (step st ev) as [st' os]. intros H. apply in_app_or in H. destruct H as [H|H].
    - apply in_map_iff in H. destruct H as (x & Hx & _). inv Hx. exists ev. auto.
    - destruct (IH _ H) as (e & He & Ht). exists e. auto.
  Qed.

  (* ---------------------------------------------------------------- one step *)
  Lemma finish_tracked so : tracked (fst (finish L so)) = tracked (fst so)
    /\ seen (fst (finish L so)) = seen (fst so) /\ lim (fst (finish L so)) = lim (fst so)
    /\ accepting (fst (finish L so)) = accepting (fst so).
  Proof.
    destruct so as [st o]. unfold finish.
    destruct (negb (accepting st) && isnil (tracked st) && negb (returned st)) eqn:E; cbn; auto.
    repeat split. apply andb_prop in E. destruct E as [E _]. apply andb_prop in E. destruct E as [E _].
    destruct (accepting st); cbn in *; congruence.
  Qed.
  Lemma finish_outputs so x : In x (snd (finish L so)) -> In x (snd so) \/ x = Return.
  Proof.
    destruct so as [st o]. unfold finish.
    destruct (negb (accepting st) && isnil (tracked st) && negb (returned st)); cbn; auto.
    intros H. apply in_app_or in H. cbn in H. destruct H as [H|[H|[]]]; auto.
  Qed.
  Lemma finish_outputs_incl so x : In x (snd so) -> In x (snd (finish L so)).
  Proof.
    destruct so as [st o]. unfold finish.
    destruct (negb (accepting st) && isnil (tracked st) && negb (returned st)); cbn; auto.
    intros H. apply in_or_app. auto.
  Qed.

  Lemma decide_spec st c eff sp t rest st' o :
    decide st c eff sp t rest = (st', o) ->
    accepting st' = accepting st /\ returned st' = returned st /\ seen st' = seen st
    /\ lim st' = fst (admit_fn (lim st) (fst eff) t)
    /\ ((snd (admit_fn (lim st) (fst eff) t) = true /\ tracked st' = (c, (PServe eff, sp)) :: rest /\ o = [Serve c eff])
        \/ (snd (admit_fn (lim st) (fst eff) t) = false /\ tracked st' = rest /\ o = [Close c (RRejected eff)])).
  Proof.
    unfold Machine.decide. destruct (admit_fn (lim st) (fst eff) t) as [l' ok]. cbn.
    destruct ok; intros E; inv E; cbn; repeat split; auto.
  Qed.

  (* an event about another connection (or Stop) does not touch c and says nothing about c *)
  Ltac simp_st := unfold with_tracked in *; cbn [tracked seen lim accepting returned fst snd] in *.

  Lemma step_core_other st ev c st' o :
    conn_of ev <> Some c -> step_core st ev = (st', o) ->
    find c (tracked st') = find c (tracked st) /\ memz c (seen st') = memz c (seen st)
    /\ (forall x, In x o -> about x <> Some c).
  Proof.
    intros N E. destruct ev as [d peer t|d h t|d t|d t|t]; cbn [conn_of] in N; cbn [Machine.step_core] in E.
    - assert (c <> d) by congruence.
      destruct (accepting st && negb (memz d (seen st))); [|inv E; repeat split; auto; intros x [] ].
      destruct (m_proxy cf).
      + inv E. simp_st. rewrite find_cons_other, memz_cons_other by lia. repeat split; auto.
        intros x [<-|[]]. cbn. congruence.
      + destruct (decide _ d peer t t (tracked st)) as [st2 o2] eqn:D. inv E.
        apply decide_spec in D. simp_st. destruct D as (_ & _ & Hs & _ & [(_ & Ht & ->)|(_ & Ht & ->)]);
          rewrite Ht, Hs; rewrite ?find_cons_other, memz_cons_other by lia; repeat split; auto;
          intros x [<-|[<-|[]]]; cbn; congruence.
    - assert (c <> d) by congruence.
      destruct (m_proxy cf) as [pc|]; [|inv E; repeat split; auto; intros x []].
      destruct (find d (tracked st)) as [[[peer|eff] sp]|]; try (inv E; repeat split; auto; intros x []; fail).
      destruct (header_result pc h) as [src|].
      + apply decide_spec in E. destruct E as (_ & _ & Hs & _ & [(_ & Ht & ->)|(_ & Ht & ->)]);
          rewrite Ht, Hs; rewrite ?find_cons_other, ?find_remove_other by lia; repeat split; auto;
          intros x [<-|[]]; cbn; congruence.
      + inv E. simp_st. rewrite find_remove_other by lia. repeat split; auto. intros x [<-|[]]; cbn; congruence.
    - assert (c <> d) by congruence.
      destruct (find d (tracked st)) as [[[peer|eff] sp]|]; inv E; simp_st; rewrite ?find_remove_other by lia;
        repeat split; auto; try (intros x []; fail). intros x [<-|[]]; cbn; congruence.
    - assert (c <> d) by congruence.
      destruct (find d (tracked st)) as [[ph sp]|]; [|inv E; repeat split; auto; intros x []].
      destruct (sp + m_timeout cf <=? t); inv E; simp_st; rewrite ?find_remove_other by lia;
        repeat split; auto; try (intros x []; fail). intros x [<-|[]]; cbn; congruence.
    - inv E. simp_st. repeat split; auto.
  Qed.

  Lemma step_other st ev c st' o :
    conn_of ev <> Some c -> step st ev = (st', o) ->
    find c (tracked st') = find c (tracked st) /\ memz c (seen st') = memz c (seen st)
    /\ (forall x, In x o -> about x <> Some c).
  Proof.
    intros N E. unfold Machine.step in E. destruct (step_core st ev) as [st1 o1] eqn:E1.
    destruct (step_core_other _ _ _ _ _ N E1) as (A & B & C).
    pose proof (finish_tracked (st1, o1)) as (F1 & F2 & _). rewrite E in F1, F2. cbn in F1, F2.
    rewrite F1, F2. repeat split; auto.
    intros x Hx. pose proof (finish_outputs (st1, o1) x) as G. rewrite E in G. cbn in G.
    destruct (G Hx) as [G1| ->]; [auto|cbn; congruence].
  Qed.

  (* ---------------------------------------------------------------- one connection's life *)
  Inductive cview := VNew | VWait (peer : addr) (sp : Z) | VServe (eff : addr) (sp : Z) | VClosed.
  Definition view (st : state) (c : Z) : cview :=
    match find c (tracked st) with
    | Some (PWait p, sp) => VWait p sp
    | Some (PServe e, sp) => VServe e sp
    | None => if memz c (seen st) then VClosed else VNew
    end.
  (* every tracked connection was accepted *)
  Definition wfst (st : state) : Prop := forall c, find c (tracked st) <> None -> memz c (seen st) = true.

  Definition unserved_reason (r : reason) : Prop := match r with RFinished => False | _ => True end.
  Definition served_reason (r : reason) : Prop := match r with RDeadline | RFinished => True | _ => False end.
  (* everything the machine has said about c so far, by the state c is in *)
  Definition shape (c : Z) (v : cview) (o : list (Z * output)) : Prop :=
    match v with
    | VNew => o = []
    | VWait p sp => o = [(sp, Spawn c)]
    | VServe e sp => exists t, o = [(sp, Spawn c); (t, Serve c e)]
    | VClosed => exists sp t r, (r = RDeadline -> sp + m_timeout cf <= t) /\
        ((o = [(sp, Spawn c); (t, Close c r)] /\ unserved_reason r)
         \/ (exists e t1, o = [(sp, Spawn c); (t1, Serve c e); (t, Close c r)] /\ served_reason r))
    end.

  Notation ofor := outputs_for.

  Lemma ofor_app c a b : ofor c (a ++ b) = ofor c a ++ ofor c b.
  Proof. unfold outputs_for. apply filter_app. Qed.
  Lemma ofor_none c t o : (forall x, In x o -> about x <> Some c) -> ofor c (map (pair t) o) = [].
  Proof.
    induction o as [|x r IH]; intros H; cbn; [reflexivity|].
    destruct (about x) as [c'|] eqn:A.
    - destruct (Z.eqb_spec c' c); [subst; exfalso; apply (H x); cbn; auto|]. apply IH. intros y Hy. apply H. cbn. auto.
    - apply IH. intros y Hy. apply H. cbn. auto.
  Qed.
  Lemma ofor_finish c t so : ofor c (map (pair t) (snd (finish L so))) = ofor c (map (pair t) (snd so)).
  Proof.
    destruct so as [st o]. unfold finish.
    destruct (negb (accepting st) && isnil (tracked st) && negb (returned st)); cbn [snd]; [|reflexivity].
    rewrite map_app, ofor_app. cbn. rewrite app_nil_r. reflexivity.
  Qed.
  Lemma view_finish c so : view (fst (finish L so)) c = view (fst so) c.
  Proof. unfold view. pose proof (finish_tracked so) as (A & B & _). rewrite A, B. reflexivity. Qed.

  Lemma wfst_none st c : wfst st -> memz c (seen st) = false -> find c (tracked st) = None.
  Proof.
    intros W M. destruct (find c (tracked st)) eqn:F; [|reflexivity].
    assert (memz c (seen st) = true) by (apply W; congruence). congruence.
  Qed.

  Lemma step_core_wfst st ev st' o : wfst st -> step_core st ev = (st', o) -> wfst st'.
  Proof.
    intros W E. destruct ev as [d peer t|d h t|d t|d t|t]; cbn [Machine.step_core] in E.
    - destruct (accepting st && negb (memz d (seen st))); [|inv E; exact W].
      assert (W1 : forall c, find c ((d, (PWait peer, t)) :: tracked st) <> None -> memz c (d :: seen st) = true).
      { intros c. destruct (Z.eq_dec c d); [subst; intros _; apply memz_cons_same|].
        rewrite find_cons_other, memz_cons_other by lia. apply W. }
      destruct (m_proxy cf).
      + inv E. exact W1.
      + destruct (decide _ d peer t t (tracked st)) as [st2 o2] eqn:D. inv E.
        apply decide_spec in D. simp_st. destruct D as (_ & _ & Hs & _ & [(_ & Ht & _)|(_ & Ht & _)]);
          intros c; rewrite Ht, Hs.
        * destruct (Z.eq_dec c d); [subst; intros _; apply memz_cons_same|].
          rewrite find_cons_other, memz_cons_other by lia. apply W.
        * destruct (Z.eq_dec c d); [subst; intros _; apply memz_cons_same|].
          rewrite memz_cons_other by lia. apply W.
    - destruct (m_proxy cf) as [pc|]; [|inv E; exact W].
      destruct (find d (tracked st)) as [[[peer|eff] sp]|] eqn:F; try (inv E; exact W).
      assert (Wr : forall c, find c (remove d (tracked st)) <> None -> memz c (seen st) = true).
      { intros c. destruct (Z.eq_dec c d); [subst; rewrite find_remove_same; congruence|].
        rewrite find_remove_other by lia. apply W. }
      destruct (header_result pc h) as [src|].
      + apply decide_spec in E. destruct E as (_ & _ & Hs & _ & [(_ & Ht & _)|(_ & Ht & _)]); intros c; rewrite Ht, Hs.
        * destruct (Z.eq_dec c d); [subst; intros _; apply W; congruence|]. rewrite find_cons_other by lia. apply Wr.
        * apply Wr.
      + inv E. exact Wr.
    - destruct (find d (tracked st)) as [[[peer|eff] sp]|] eqn:F; inv E; try exact W.
      intros c. simp_st. destruct (Z.eq_dec c d); [subst; rewrite find_remove_same; congruence|].
      rewrite find_remove_other by lia. apply W.
    - destruct (find d (tracked st)) as [[ph sp]|] eqn:F; [|inv E; exact W].
      destruct (sp + m_timeout cf <=? t); inv E; try exact W.
      intros c. simp_st. destruct (Z.eq_dec c d); [subst; rewrite find_remove_same; congruence|].
      rewrite find_remove_other by lia. apply W.
    - inv E. exact W.
  Qed.
  Lemma step_wfst st ev st' o : wfst st -> step st ev = (st', o) -> wfst st'.
  Proof.
    intros W E. unfold Machine.step in E. destruct (step_core st ev) as [st1 o1] eqn:E1.
    pose proof (step_core_wfst _ _ _ _ W E1) as W1.
    pose proof (finish_tracked (st1, o1)) as (A & B & _). rewrite E in A, B. cbn in A, B.
    intros c. rewrite A, B. apply W1.
  Qed.
  Lemma final_wfst st h : wfst st -> wfst (final st h).
  Proof.
    revert st. induction h as [|ev r IH]; intros st W; cbn; [exact W|].
    destruct (step st ev) as [st' o] eqn:E. cbn. apply IH. eapply step_wfst; eauto.
  Qed.
  Lemma init_wfst l0 : wfst (init l0).
  Proof. intros c. cbn. congruence. Qed.

  Ltac ofor_simp := cbn [Machine.outputs_for map filter about snd fst app]; rewrite ?Z.eqb_refl; cbn [app].

  Lemma step_core_self_shape st ev c st' o o0 :
    wfst st -> conn_of ev = Some c -> step_core st ev = (st', o) ->
    shape c (view st c) o0 -> shape c (view st' c) (o0 ++ ofor c (map (pair (time_of ev)) o)).
  Proof.
    intros W N E S. destruct ev as [d peer t|d h t|d t|d t|t]; cbn [conn_of] in N; inv N;
      cbn [Machine.step_core] in E; cbn [time_of].
    - (* Arrive *)
      destruct (accepting st && negb (memz c (seen st))) eqn:A;
        [|inv E; cbn; rewrite app_nil_r; exact S].
      apply andb_prop in A. destruct A as [_ A]. apply negb_true_iff in A.
      pose proof (wfst_none _ _ W A) as F. unfold view in S. rewrite F, A in S. cbn in S. subst o0.
      destruct (m_proxy cf).
      + inv E. unfold view. simp_st. rewrite find_cons_same. ofor_simp. reflexivity.
      + destruct (decide _ c peer t t (tracked st)) as [st2 o2] eqn:D. inv E.
        apply decide_spec in D. simp_st. destruct D as (_ & _ & Hs & _ & [(_ & Ht & ->)|(_ & Ht & ->)]);
          unfold view; rewrite Ht, Hs.
        * rewrite find_cons_same. ofor_simp. exists t. reflexivity.
        * rewrite F, memz_cons_same. ofor_simp. exists t, t, (RRejected peer). split; [congruence|].
          left. split; [reflexivity|exact I].
    - (* Header *)
      destruct (m_proxy cf) as [pc|]; [|inv E; cbn; rewrite app_nil_r; exact S].
      destruct (find c (tracked st)) as [[[peer|eff] sp]|] eqn:F;
        try (inv E; cbn; rewrite app_nil_r; exact S).
      assert (M : memz c (seen st) = true) by (apply W; congruence).
      unfold view in S. rewrite F in S. cbn in S. subst o0.
      destruct (header_result pc h) as [src|].
      + apply decide_spec in E. destruct E as (_ & _ & Hs & _ & [(_ & Ht & ->)|(_ & Ht & ->)]);
          unfold view; rewrite Ht, Hs.
        * rewrite find_cons_same. ofor_simp. exists t. reflexivity.
        * rewrite find_remove_same, M. ofor_simp. exists sp, t, (RRejected (effective src peer)).
          split; [congruence|]. left. split; [reflexivity|exact I].
      + inv E. unfold view. simp_st. rewrite find_remove_same, M. ofor_simp.
        exists sp, t, RBadHeader. split; [congruence|]. left. split; [reflexivity|exact I].
    - (* ConnDone *)
      destruct (find c (tracked st)) as [[[peer|eff] sp]|] eqn:F;
        try (inv E; cbn; rewrite app_nil_r; exact S).
      assert (M : memz c (seen st) = true) by (apply W; congruence).
      unfold view in S. rewrite F in S. cbn in S. destruct S as (t1 & ->).
      inv E. unfold view. simp_st. rewrite find_remove_same, M. ofor_simp.
      exists sp, t, RFinished. split; [congruence|]. right. exists eff, t1. split; [reflexivity|exact I].
    - (* Deadline *)
      destruct (find c (tracked st)) as [[ph sp]|] eqn:F; [|inv E; cbn; rewrite app_nil_r; exact S].
      assert (M : memz c (seen st) = true) by (apply W; congruence).
      destruct (Z.leb_spec (sp + m_timeout cf) t) as [Le|Gt]; [|inv E; cbn; rewrite app_nil_r; exact S].
      inv E. unfold view in *. simp_st. rewrite find_remove_same, M. rewrite F in S.
      destruct ph as [peer|eff]; cbn in S.
      + subst o0. ofor_simp. exists sp, t, RDeadline. split; [auto|]. left. split; [reflexivity|exact I].
      + destruct S as (t1 & ->). ofor_simp. exists sp, t, RDeadline. split; [auto|].
        right. exists eff, t1. split; [reflexivity|exact I].
  Qed.

  Lemma step_shape st ev c st' o o0 :
    wfst st -> step st ev = (st', o) ->
    shape c (view st c) o0 -> shape c (view st' c) (o0 ++ ofor c (map (pair (time_of ev)) o)).
  Proof.
    intros W E S. destruct (option_eq_dec_Z (conn_of ev) (Some c)) as [N|N].
    - unfold Machine.step in E. destruct (step_core st ev) as [st1 o1] eqn:E1.
      pose proof (step_core_self_shape _ _ _ _ _ _ W N E1 S) as S1.
      pose proof (view_finish c (st1, o1)) as V. pose proof (ofor_finish c (time_of ev) (st1, o1)) as O.
      rewrite E in V, O. cbn [fst snd] in V, O. rewrite V, O. exact S1.
    - destruct (step_other _ _ _ _ _ N E) as (A & B & C).
      rewrite (ofor_none _ _ _ C), app_nil_r. unfold view. rewrite A, B. exact S.
  Qed.

  Lemma run_shape h : forall st c o0, wfst st -> shape c (view st c) o0 ->
    shape c (view (final st h) c) (o0 ++ ofor c (run st h)).
  Proof.
    induction h as [|ev r IH]; intros st c o0 W S; cbn [Machine.run Machine.final].
    - cbn. rewrite app_nil_r. exact S.
    - destruct (step st ev) as [st' o] eqn:E. cbn [fst]. rewrite ofor_app, app_assoc.
      apply IH; [eapply step_wfst; eauto|]. eapply step_shape; eauto.
  Qed.

  (* from the initial state: the outputs about c always have one of six forms *)
  Theorem trace_shape l0 h c : shape c (view (final (init l0) h) c) (ofor c (run (init l0) h)).
  Proof. apply (run_shape h (init l0) c []); [apply init_wfst|reflexivity]. Qed.

  (* ---------------------------------------------------------------- membership helpers *)
  Lemma ofor_in c x l : In x (ofor c l) <-> In x l /\ about (snd x) = Some c.
  Proof.
    unfold outputs_for. rewrite filter_In. split; intros [A B]; split; auto.
    - destruct (about (snd x)) as [c'|]; [|discriminate]. apply Z.eqb_eq in B. congruence.
    - rewrite B. apply Z.eqb_refl.
  Qed.
  Lemma view_wait st c p sp : view st c = VWait p sp -> find c (tracked st) = Some (PWait p, sp).
  Proof. unfold view. destruct (find c (tracked st)) as [[[q|e] s]|]; try destruct (memz c (seen st)); intros X; inv X; reflexivity. Qed.
  Lemma view_serve st c e sp : view st c = VServe e sp -> find c (tracked st) = Some (PServe e, sp).
  Proof. unfold view. destruct (find c (tracked st)) as [[[q|e'] s]|]; try destruct (memz c (seen st)); intros X; inv X; reflexivity. Qed.
  Lemma view_untracked st c : find c (tracked st) = None -> view st c = VNew \/ view st c = VClosed.
  Proof. unfold view. intros ->. destruct (memz c (seen st)); auto. Qed.

  Lemma step_core_no_return st ev : ~ In Return (snd (step_core st ev)).
  Proof.
    destruct ev as [d peer t|d h t|d t|d t|t]; cbn [Machine.step_core].
    - destruct (accepting st && negb (memz d (seen st))); [|cbn; tauto].
      destruct (m_proxy cf); [cbn; intuition congruence|].
      destruct (decide _ d peer t t (tracked st)) as [st2 o2] eqn:D. apply decide_spec in D.
      destruct D as (_ & _ & _ & _ & [(_ & _ & ->)|(_ & _ & ->)]); cbn; intuition congruence.
    - destruct (m_proxy cf) as [pc|]; [|cbn; tauto].
      destruct (find d (tracked st)) as [[[peer|eff] sp]|]; try (cbn; tauto).
      destruct (header_result pc h) as [src|]; [|cbn; intuition congruence].
      destruct (decide st d (effective src peer) sp t (remove d (tracked st))) as [st2 o2] eqn:D.
      apply decide_spec in D. destruct D as (_ & _ & _ & _ & [(_ & _ & ->)|(_ & _ & ->)]); cbn; intuition congruence.
    - destruct (find d (tracked st)) as [[[peer|eff] sp]|]; cbn; intuition congruence.
    - destruct (find d (tracked st)) as [[ph sp]|]; [|cbn; tauto].
      destruct (sp + m_timeout cf <=? t); cbn; intuition congruence.
    - cbn. tauto.
  Qed.

  (* ---------------------------------------------------------------- C14: the deadline *)
  Lemma deadline_step st c td ph sp :
    find c (tracked st) = Some (ph, sp) -> sp + m_timeout cf <= td ->
    In (Close c RDeadline) (snd (step st (Deadline c td))).
  Proof.
    intros F Le. unfold Machine.step. apply finish_outputs_incl. cbn [Machine.step_core]. rewrite F.
    destruct (Z.leb_spec (sp + m_timeout cf) td); [cbn; auto|lia].
  Qed.

  Theorem deadline_closes l0 h1 c td h2 ts :
    In (ts, Spawn c) (run (init l0) h1) -> ts + m_timeout cf <= td ->
    (forall ev, In ev h1 -> time_of ev <= td) ->
    exists t r, In (t, Close c r) (run (init l0) (h1 ++ Deadline c td :: h2)) /\ t <= td.
  Proof.
    intros Hs Le Ht. pose proof (trace_shape l0 h1 c) as S.
    assert (Hs' : In (ts, Spawn c) (ofor c (run (init l0) h1))) by (apply ofor_in; auto).
    rewrite run_app. cbn [Machine.run].
    destruct (step (final (init l0) h1) (Deadline c td)) as [st2 o2] eqn:E.
    assert (Hd : forall ph sp, find c (tracked (final (init l0) h1)) = Some (ph, sp) -> sp = ts ->
                 exists t r, In (t, Close c r) (run (init l0) h1 ++ map (pair (time_of (Deadline c td))) o2 ++ run st2 h2) /\ t <= td).
    { intros ph sp F ->. exists td, RDeadline. split; [|lia]. apply in_or_app. right. apply in_or_app. left.
      apply in_map_iff. exists (Close c RDeadline). split; [reflexivity|].
      pose proof (deadline_step _ _ _ _ _ F Le) as D. rewrite E in D. exact D. }
    destruct (view (final (init l0) h1) c) as [|p sp|e sp|] eqn:V; cbn in S.
    - rewrite S in Hs'. destruct Hs'.
    - rewrite S in Hs'. destruct Hs' as [X|[]]. inv X. eapply Hd; [apply view_wait; eauto|reflexivity].
    - destruct S as (t1 & S). rewrite S in Hs'. destruct Hs' as [X|[X|[]]]; inv X.
      eapply Hd; [apply view_serve; eauto|reflexivity].
    - destruct S as (sp & t & r & _ & [(S & _)|(e & t1 & S & _)]).
      + exists t, r. assert (I : In (t, Close c r) (ofor c (run (init l0) h1))) by (rewrite S; cbn; auto).
        apply ofor_in in I. destruct I as [I _]. split; [apply in_or_app; auto|].
        destruct (run_times _ _ _ _ I) as (ev & He & <-). auto.
      + exists t, r. assert (I : In (t, Close c r) (ofor c (run (init l0) h1))) by (rewrite S; cbn; auto).
        apply ofor_in in I. destruct I as [I _]. split; [apply in_or_app; auto|].
        destruct (run_times _ _ _ _ I) as (ev & He & <-). auto.
  Qed.

  (* a deadline close never comes early, and only for a connection that was spawned *)
  Theorem deadline_not_early l0 h c t :
    In (t, Close c RDeadline) (run (init l0) h) ->
    exists ts, In (ts, Spawn c) (run (init l0) h) /\ ts + m_timeout cf <= t.
  Proof.
    intros H. pose proof (trace_shape l0 h c) as S.
    assert (H' : In (t, Close c RDeadline) (ofor c (run (init l0) h))) by (apply ofor_in; auto).
    destruct (view (final (init l0) h) c) as [|p sp|e sp|]; cbn in S.
    - rewrite S in H'. destruct H'.
    - rewrite S in H'. destruct H' as [X|[]]. inv X.
    - destruct S as (t1 & S). rewrite S in H'. destruct H' as [X|[X|[]]]; inv X.
    - destruct S as (sp & t' & r & Hr & [(S & _)|(e & t1 & S & _)]); rewrite S in H'.
      + destruct H' as [X|[X|[]]]; inv X. exists sp. split; [|auto].
        apply (proj1 (ofor_in c _ _)). rewrite S. cbn. auto.
      + destruct H' as [X|[X|[X|[]]]]; inv X. exists sp. split; [|auto].
        apply (proj1 (ofor_in c _ _)). rewrite S. cbn. auto.
  Qed.

  (* ---------------------------------------------------------------- C15 *)
  (* a refused connection (limiter or header) never gets a Serve, before or after *)
  Theorem refused_silent l0 h c t r :
    In (t, Close c r) (run (init l0) h) -> (r = RBadHeader \/ exists e, r = RRejected e) ->
    forall t' e', ~ In (t', Serve c e') (run (init l0) h).
  Proof.
    intros H Hr t' e' Hs. pose proof (trace_shape l0 h c) as S.
    assert (H' : In (t, Close c r) (ofor c (run (init l0) h))) by (apply ofor_in; auto).
    assert (Hs' : In (t', Serve c e') (ofor c (run (init l0) h))) by (apply ofor_in; auto).
    destruct (view (final (init l0) h) c) as [|p sp|e sp|]; cbn in S.
    - rewrite S in H'. destruct H'.
    - rewrite S in H'. destruct H' as [X|[]]. inv X.
    - destruct S as (t1 & S). rewrite S in H'. destruct H' as [X|[X|[]]]; inv X.
    - destruct S as (sp & t2 & r2 & _ & [(S & _)|(e & t1 & S & Sr)]).
      + rewrite S in Hs'. destruct Hs' as [X|[X|[]]]; inv X.
      + rewrite S in H'. destruct H' as [X|[X|[X|[]]]]; inv X.
        destruct Hr as [->|(e0 & ->)]; exact Sr.
  Qed.

  Definition admits (st : state) (ev : event) (c : Z) (eff : addr) : Prop :=
    match ev with
    | Arrive c' peer t =>
        c' = c /\ accepting st = true /\ memz c (seen st) = false /\ m_proxy cf = None /\ eff = peer
        /\ snd (admit_fn (lim st) (fst eff) t) = true
    | Header c' h t =>
        c' = c /\ exists pc peer sp src,
          m_proxy cf = Some pc /\ find c (tracked st) = Some (PWait peer, sp)
          /\ header_result pc h = Some src /\ eff = effective src peer
          /\ snd (admit_fn (lim st) (fst eff) t) = true
    | _ => False
    end.

  Lemma finish_in_iff so x : x <> Return -> (In x (snd (finish L so)) <-> In x (snd so)).
  Proof.
    intros N. split; [|apply finish_outputs_incl].
    intros H. destruct (finish_outputs _ _ H); [auto|congruence].
  Qed.

  Lemma step_serve_iff st ev c eff : In (Serve c eff) (snd (step st ev)) <-> admits st ev c eff.
  Proof.
    unfold Machine.step. rewrite finish_in_iff by congruence.
    destruct ev as [d peer t|d h t|d t|d t|t]; cbn [Machine.step_core admits].
    - destruct (accepting st) eqn:A; cbn [andb].
      2:{ cbn. intuition congruence. }
      destruct (memz d (seen st)) eqn:M; cbn [negb].
      { cbn. split; [tauto|]. intros (-> & _ & M' & _). congruence. }
      destruct (m_proxy cf) as [pc|] eqn:P.
      { cbn. split; [intuition congruence|]. intros (_ & _ & _ & X & _). congruence. }
      destruct (decide _ d peer t t (tracked st)) as [st2 o2] eqn:D. apply decide_spec in D. simp_st.
      destruct D as (_ & _ & _ & _ & [(Ok & _ & ->)|(Ok & _ & ->)]); cbn.
      + split.
        * intros [X|[X|[]]]; inv X. repeat split; auto.
        * intros (-> & _ & _ & _ & -> & _). auto.
      + split.
        * intros [X|[X|[]]]; inv X.
        * intros (-> & _ & _ & _ & -> & Ok'). congruence.
    - destruct (m_proxy cf) as [pc|] eqn:P.
      2:{ cbn. split; [tauto|]. intros (_ & pc & peer & sp & src & X & _). congruence. }
      destruct (find d (tracked st)) as [[[peer|e0] sp]|] eqn:F.
      + destruct (header_result pc h) as [src|] eqn:HR.
        * destruct (decide st d (effective src peer) sp t (remove d (tracked st))) as [st2 o2] eqn:D.
          apply decide_spec in D. destruct D as (_ & _ & _ & _ & [(Ok & _ & ->)|(Ok & _ & ->)]); cbn.
          -- split.
             ++ intros [X|[]]. inv X. split; [reflexivity|]. exists pc, peer, sp, src. repeat split; auto.
             ++ intros (-> & pc' & peer' & sp' & src' & Hp & Hf & Hh & -> & _).
                rewrite F in Hf. inv Hf. inv Hp. rewrite HR in Hh. inv Hh. auto.
          -- split.
             ++ intros [X|[]]. inv X.
             ++ intros (-> & pc' & peer' & sp' & src' & Hp & Hf & Hh & -> & Ok').
                rewrite F in Hf. inv Hf. inv Hp. rewrite HR in Hh. inv Hh. congruence.
        * cbn. split; [intros [X|[]]; inv X|].
          intros (-> & pc' & peer' & sp' & src' & Hp & Hf & Hh & _). inv Hp. rewrite F in Hf. inv Hf. congruence.
      + cbn. split; [tauto|]. intros (-> & pc' & peer' & sp' & src' & _ & Hf & _). rewrite F in Hf. congruence.
      + cbn. split; [tauto|]. intros (-> & pc' & peer' & sp' & src' & _ & Hf & _). rewrite F in Hf. congruence.
    - destruct (find d (tracked st)) as [[[peer|e0] sp]|]; cbn; intuition congruence.
    - destruct (find d (tracked st)) as [[ph sp]|]; [|cbn; tauto].
      destruct (sp + m_timeout cf <=? t); cbn; intuition congruence.
    - cbn. tauto.
  Qed.

  Theorem served_iff st h t c eff :
    In (t, Serve c eff) (run st h) <->
    exists h1 ev h2, h = h1 ++ ev :: h2 /\ time_of ev = t /\ admits (final st h1) ev c eff.
  Proof.
    revert st. induction h as [|ev r IH]; intros st.
    - cbn. split; [tauto|]. intros (h1 & e & h2 & H & _). destruct h1; discriminate.
    - cbn [Machine.run]. destruct (step st ev) as [st' o] eqn:E. split.
      + intros H. apply in_app_or in H. destruct H as [H|H].
        * apply in_map_iff in H. destruct H as (x & Hx & Hi). inv Hx.
          exists [], ev, r. cbn. repeat split; auto. apply step_serve_iff. rewrite E. exact Hi.
        * apply IH in H. destruct H as (h1 & e & h2 & -> & Ht & Ha).
          exists (ev :: h1), e, h2. cbn. rewrite E. cbn. auto.
      + intros (h1 & e & h2 & Hh & Ht & Ha). destruct h1 as [|e1 h1]; cbn in Hh; inv Hh.
        * apply in_or_app. left. apply in_map_iff. exists (Serve c eff). split; [reflexivity|].
          cbn in Ha. apply step_serve_iff in Ha. rewrite E in Ha. exact Ha.
        * apply in_or_app. right. apply IH. exists h1, e, h2. cbn in Ha. rewrite E in Ha. cbn in Ha. auto.
  Qed.

  (* the limiter is consulted only where a Serve or a rate-limit Close is produced *)
  Theorem lim_only_by_admission st ev :
    (forall c e, ~ In (Serve c e) (snd (step st ev)) /\ ~ In (Close c (RRejected e)) (snd (step st ev))) ->
    lim (fst (step st ev)) = lim st.
  Proof.
    intros H. unfold Machine.step in *.
    pose proof (finish_tracked (step_core st ev)) as (_ & _ & Fl & _). rewrite Fl.
    assert (H' : forall c e, ~ In (Serve c e) (snd (step_core st ev)) /\ ~ In (Close c (RRejected e)) (snd (step_core st ev))).
    { intros c e. destruct (H c e) as [A B]. split; intros X; [apply A|apply B]; apply finish_outputs_incl; exact X. }
    clear H Fl. destruct ev as [d peer t|d h t|d t|d t|t]; cbn [Machine.step_core] in *.
    - destruct (accepting st && negb (memz d (seen st))); [|reflexivity].
      destruct (m_proxy cf); [reflexivity|].
      destruct (decide _ d peer t t (tracked st)) as [st2 o2] eqn:D. apply decide_spec in D. simp_st.
      destruct D as (_ & _ & _ & _ & [(_ & _ & ->)|(_ & _ & ->)]); exfalso.
      + apply (proj1 (H' d peer)). cbn. auto.
      + apply (proj2 (H' d peer)). cbn. auto.
    - destruct (m_proxy cf) as [pc|]; [|reflexivity].
      destruct (find d (tracked st)) as [[[peer|e0] sp]|]; try reflexivity.
      destruct (header_result pc h) as [src|]; [|reflexivity].
      destruct (decide st d (effective src peer) sp t (remove d (tracked st))) as [st2 o2] eqn:D.
      apply decide_spec in D. destruct D as (_ & _ & _ & _ & [(_ & _ & ->)|(_ & _ & ->)]); exfalso.
      + apply (proj1 (H' d (effective src peer))). cbn. auto.
      + apply (proj2 (H' d (effective src peer))). cbn. auto.
    - destruct (find d (tracked st)) as [[[peer|e0] sp]|]; reflexivity.
    - destruct (find d (tracked st)) as [[ph sp]|]; [|reflexivity]. destruct (sp + m_timeout cf <=? t); reflexivity.
    - reflexivity.
  Qed.

  (* an invalid (malformed, disabled-version, truncated-then-closed) header: the connection is
     closed unserved and the limiter is not touched *)
  Theorem invalid_free st c h t pc :
    m_proxy cf = Some pc -> header_result pc h = None ->
    lim (fst (step st (Header c h t))) = lim st
    /\ (forall c' e, ~ In (Serve c' e) (snd (step st (Header c h t))))
    /\ (forall peer sp, find c (tracked st) = Some (PWait peer, sp) ->
          In (Close c RBadHeader) (snd (step st (Header c h t))) /\ find c (tracked (fst (step st (Header c h t)))) = None).
  Proof.
    intros P HR.
    assert (NS : forall c' e, ~ In (Serve c' e) (snd (step st (Header c h t)))).
    { intros c' e X. apply step_serve_iff in X. cbn in X.
      destruct X as (_ & pc' & peer & sp & src & Hp & _ & Hh & _). rewrite P in Hp. inv Hp. congruence. }
    split; [|split; [exact NS|]].
    - apply lim_only_by_admission. intros c' e. split; [apply NS|].
      unfold Machine.step. rewrite finish_in_iff by congruence. cbn [Machine.step_core]. rewrite P.
      destruct (find c (tracked st)) as [[[peer|e0] sp]|]; try (cbn; tauto).
      rewrite HR. cbn. intuition congruence.
    - intros peer sp F. unfold Machine.step. split.
      + apply finish_outputs_incl. cbn [Machine.step_core]. rewrite P, F, HR. cbn. auto.
      + pose proof (finish_tracked (step_core st (Header c h t))) as (Ft & _). rewrite Ft.
        cbn [Machine.step_core]. rewrite P, F, HR. simp_st. apply find_remove_same.
  Qed.

  (* where a waiting connection's peer address comes from *)
  Lemma step_wait_origin st ev c peer sp :
    find c (tracked (fst (step st ev))) = Some (PWait peer, sp) ->
    find c (tracked st) = Some (PWait peer, sp) \/ ev = Arrive c peer sp.
  Proof.
    unfold Machine.step. pose proof (finish_tracked (step_core st ev)) as (Ft & _). rewrite Ft. clear Ft.
    destruct (option_eq_dec_Z (conn_of ev) (Some c)) as [N|N].
    2:{ destruct (step_core st ev) as [st1 o1] eqn:E. destruct (step_core_other _ _ _ _ _ N E) as (A & _). cbn [fst]. rewrite A. auto. }
    destruct ev as [d p t|d h t|d t|d t|t]; cbn [conn_of] in N; inv N; cbn [Machine.step_core].
    - destruct (accepting st && negb (memz c (seen st))); [|simp_st; rewrite ?F; auto].
      destruct (m_proxy cf).
      + simp_st. rewrite find_cons_same. intros X. inv X. auto.
      + destruct (decide _ c p t t (tracked st)) as [st2 o2] eqn:D. apply decide_spec in D. simp_st.
        destruct D as (_ & _ & _ & _ & [(_ & Ht & _)|(_ & Ht & _)]); rewrite Ht; [rewrite find_cons_same; congruence|auto].
    - destruct (m_proxy cf) as [pc|]; [|simp_st; rewrite ?F; auto].
      destruct (find c (tracked st)) as [[[q|e0] s]|] eqn:F; try (simp_st; rewrite ?F; auto; fail).
      destruct (header_result pc h) as [src|].
      + destruct (decide st c (effective src q) s t (remove c (tracked st))) as [st2 o2] eqn:D.
        apply decide_spec in D. destruct D as (_ & _ & _ & _ & [(_ & Ht & _)|(_ & Ht & _)]); cbn [fst]; rewrite Ht;
          [rewrite find_cons_same; congruence|rewrite find_remove_same; congruence].
      + simp_st. rewrite find_remove_same. congruence.
    - destruct (find c (tracked st)) as [[[q|e0] s]|] eqn:F; try (simp_st; rewrite ?F; auto; fail). simp_st. rewrite find_remove_same. congruence.
    - destruct (find c (tracked st)) as [[ph s]|] eqn:F; try (simp_st; rewrite ?F; auto; fail).
      destruct (s + m_timeout cf <=? t); [|simp_st; rewrite ?F; auto]. simp_st. rewrite find_remove_same. congruence.
  Qed.
  Lemma wait_origin h : forall st c peer sp,
    find c (tracked (final st h)) = Some (PWait peer, sp) ->
    find c (tracked st) = Some (PWait peer, sp) \/ In (Arrive c peer sp) h.
  Proof.
    induction h as [|ev r IH]; intros st c peer sp F; cbn in F; [auto|].
    destruct (IH _ _ _ _ F) as [G|G]; [|cbn; auto].
    destruct (step_wait_origin _ _ _ _ _ G) as [X| ->]; cbn; auto.
  Qed.

  (* the address a connection is served under is the effective client address: the announced
     source if the header carries one, otherwise the TCP peer of the Arrive event *)
  Theorem address_flows l0 h t c eff :
    In (t, Serve c eff) (run (init l0) h) ->
    (m_proxy cf = None /\ exists ta, In (Arrive c eff ta) h)
    \/ (exists pc peer ta hd th src, m_proxy cf = Some pc /\ In (Arrive c peer ta) h /\ In (Header c hd th) h
          /\ header_result pc hd = Some src /\ eff = effective src peer).
  Proof.
    intros H. apply served_iff in H. destruct H as (h1 & ev & h2 & -> & Ht & Ha).
    destruct ev as [d p t0|d hd t0|d t0|d t0|t0]; cbn in Ha; try contradiction.
    - destruct Ha as (-> & _ & _ & P & -> & _). left. split; [exact P|]. exists t0. apply in_or_app. cbn. auto.
    - destruct Ha as (-> & pc & peer & sp & src & P & F & HR & -> & _). right.
      exists pc, peer, sp, hd, t0, src. repeat split; auto.
      + destruct (wait_origin _ _ _ _ _ F) as [X|X]; [cbn in X; discriminate|]. apply in_or_app. auto.
      + apply in_or_app. cbn. auto.
  Qed.

  (* ---------------------------------------------------------------- C16: accepting never waits *)
  Theorem accept_never_blocks st c peer t :
    accepting st = true -> memz c (seen st) = false ->
    In (Spawn c) (snd (step st (Arrive c peer t)))
    /\ (m_proxy cf <> None -> find c (tracked (fst (step st (Arrive c peer t)))) = Some (PWait peer, t)).
  Proof.
    intros A M. unfold Machine.step. split.
    - apply finish_outputs_incl. cbn [Machine.step_core]. rewrite A, M. cbn [andb negb].
      destruct (m_proxy cf); [cbn; auto|].
      destruct (decide _ c peer t t (tracked st)) as [st2 o2]. cbn. auto.
    - intros P. pose proof (finish_tracked (step_core st (Arrive c peer t))) as (Ft & _). rewrite Ft.
      cbn [Machine.step_core]. rewrite A, M. cbn [andb negb].
      destruct (m_proxy cf); [|congruence]. simp_st. apply find_cons_same.
  Qed.

  (* ---------------------------------------------------------------- C17: shutdown *)
  Lemma step_core_returned st ev : returned (fst (step_core st ev)) = returned st.
  Proof.
    destruct ev as [d peer t|d h t|d t|d t|t]; cbn [Machine.step_core].
    - destruct (accepting st && negb (memz d (seen st))); [|reflexivity].
      destruct (m_proxy cf); [reflexivity|].
      destruct (decide _ d peer t t (tracked st)) as [st2 o2] eqn:D. apply decide_spec in D.
      destruct D as (_ & R & _). exact R.
    - destruct (m_proxy cf) as [pc|]; [|reflexivity].
      destruct (find d (tracked st)) as [[[peer|e0] sp]|]; try reflexivity.
      destruct (header_result pc h) as [src|]; [|reflexivity].
      destruct (decide st d (effective src peer) sp t (remove d (tracked st))) as [st2 o2] eqn:D.
      apply decide_spec in D. destruct D as (_ & R & _). exact R.
    - destruct (find d (tracked st)) as [[[peer|e0] sp]|]; reflexivity.
    - destruct (find d (tracked st)) as [[ph sp]|]; [|reflexivity]. destruct (sp + m_timeout cf <=? t); reflexivity.
    - reflexivity.
  Qed.
  Lemma step_core_accepting st ev :
    accepting (fst (step_core st ev)) = match ev with Stop _ => false | _ => accepting st end.
  Proof.
    destruct ev as [d peer t|d h t|d t|d t|t]; cbn [Machine.step_core].
    - destruct (accepting st) eqn:A; cbn [andb]; [|exact A].
      destruct (negb (memz d (seen st))); [|exact A].
      destruct (m_proxy cf); [reflexivity|].
      destruct (decide _ d peer t t (tracked st)) as [st2 o2] eqn:D. apply decide_spec in D.
      destruct D as (R & _). exact R.
    - destruct (m_proxy cf) as [pc|]; [|reflexivity].
      destruct (find d (tracked st)) as [[[peer|e0] sp]|]; try reflexivity.
      destruct (header_result pc h) as [src|]; [|reflexivity].
      destruct (decide st d (effective src peer) sp t (remove d (tracked st))) as [st2 o2] eqn:D.
      apply decide_spec in D. destruct D as (R & _). exact R.
    - destruct (find d (tracked st)) as [[[peer|e0] sp]|]; reflexivity.
    - destruct (find d (tracked st)) as [[ph sp]|]; [|reflexivity]. destruct (sp + m_timeout cf <=? t); reflexivity.
    - reflexivity.
  Qed.

  (* Return is produced exactly by `finish`, exactly when nothing is left after a stop *)
  Lemma step_return_iff st ev :
    In Return (snd (step st ev)) <->
    (returned st = false /\ accepting (fst (step_core st ev)) = false /\ tracked (fst (step_core st ev)) = []).
  Proof.
    unfold Machine.step. pose proof (step_core_no_return st ev) as NR. pose proof (step_core_returned st ev) as RR.
    destruct (step_core st ev) as [s1 o1]. cbn [fst snd] in *. unfold finish.
    destruct (accepting s1) eqn:A; cbn [negb andb].
    { cbn [snd]. split; [tauto|]. intros (_ & X & _). discriminate. }
    destruct (tracked s1) as [|x r] eqn:T; cbn [isnil andb].
    2:{ cbn [snd]. split; [tauto|]. intros (_ & _ & X). discriminate. }
    rewrite RR. destruct (returned st); cbn [negb snd].
    - split; [tauto|]. intros (X & _). discriminate.
    - split; [auto|]. intros _. apply in_or_app. cbn. auto.
  Qed.
  Lemma step_after_return st ev :
    In Return (snd (step st ev)) ->
    accepting (fst (step st ev)) = false /\ tracked (fst (step st ev)) = [] /\ returned (fst (step st ev)) = true.
  Proof.
    intros H. pose proof H as H2. apply step_return_iff in H2. destruct H2 as (R & A & T).
    unfold Machine.step in *. pose proof (step_core_returned st ev) as RR.
    destruct (step_core st ev) as [s1 o1]. cbn [fst snd] in *. unfold finish.
    rewrite A, T, RR, R. cbn. auto.
  Qed.
  (* stop requested and no task left: `listen` has returned *)
  Lemma step_quiescent st ev :
    accepting (fst (step st ev)) = false -> tracked (fst (step st ev)) = [] -> returned (fst (step st ev)) = true.
  Proof.
    unfold Machine.step. destruct (step_core st ev) as [s1 o1]. unfold finish.
    destruct (accepting s1) eqn:A; cbn [negb andb fst]; [congruence|].
    destruct (tracked s1) as [|x r] eqn:T; cbn [isnil andb fst]; [|congruence].
    destruct (returned s1) eqn:R; cbn [negb fst]; auto.
  Qed.
  Lemma step_returned_origin st ev :
    returned (fst (step st ev)) = true -> returned st = true \/ In Return (snd (step st ev)).
  Proof.
    unfold Machine.step. pose proof (step_core_returned st ev) as RR.
    destruct (step_core st ev) as [s1 o1]. cbn [fst] in RR. unfold finish.
    destruct (negb (accepting s1) && isnil (tracked s1) && negb (returned s1)); cbn [fst snd].
    - intros _. right. apply in_or_app. cbn. auto.
    - rewrite RR. auto.
  Qed.
  (* once returned, nothing happens any more *)
  Lemma step_silent st ev :
    accepting st = false -> tracked st = [] -> returned st = true -> step st ev = (st, []).
  Proof.
    intros A T R. unfold Machine.step.
    assert (E : step_core st ev = (st, [])).
    { destruct ev as [d peer t|d h t|d t|d t|t]; cbn [Machine.step_core]; rewrite ?A, ?T; cbn [andb find]; auto.
      - destruct (m_proxy cf); reflexivity.
      - destruct st; cbn in *; subst; reflexivity. }
    rewrite E. unfold finish. rewrite A, T, R. reflexivity.
  Qed.
  Lemma run_silent h st : accepting st = false -> tracked st = [] -> returned st = true -> run st h = [] /\ final st h = st.
  Proof.
    intros A T R. induction h as [|ev r IH]; cbn; [auto|]. rewrite (step_silent st ev A T R). cbn. exact IH.
  Qed.

  Lemma step_closed_stays st ev c :
    accepting st = false -> find c (tracked st) = None -> find c (tracked (fst (step st ev))) = None.
  Proof.
    intros A F. destruct (option_eq_dec_Z (conn_of ev) (Some c)) as [N|N].
    2:{ destruct (step st ev) as [s1 o1] eqn:E. destruct (step_other _ _ _ _ _ N E) as (X & _). cbn [fst]. congruence. }
    unfold Machine.step. pose proof (finish_tracked (step_core st ev)) as (Ft & _). rewrite Ft.
    destruct ev as [d peer t|d h t|d t|d t|t]; cbn [conn_of] in N; inv N; cbn [Machine.step_core]; rewrite ?A, ?F; cbn [andb fst]; auto.
    destruct (m_proxy cf); auto.
  Qed.

  Lemma step_not_accepting st ev :
    accepting st = false ->
    accepting (fst (step st ev)) = false
    /\ (forall c, ~ In (Spawn c) (snd (step st ev)))
    /\ (forall c e, In (Serve c e) (snd (step st ev)) -> find c (tracked st) <> None).
  Proof.
    intros A. split; [|split].
    - unfold Machine.step. pose proof (finish_tracked (step_core st ev)) as (_ & _ & _ & Fa). rewrite Fa.
      rewrite step_core_accepting. destruct ev; auto.
    - intros c. unfold Machine.step. rewrite finish_in_iff by congruence.
      destruct ev as [d peer t|d h t|d t|d t|t]; cbn [Machine.step_core]; rewrite ?A; cbn [andb snd]; try tauto.
      + destruct (m_proxy cf) as [pc|]; [|cbn; tauto].
        destruct (find d (tracked st)) as [[[peer|e0] sp]|]; try (cbn; tauto).
        destruct (header_result pc h) as [src|]; [|cbn; intuition congruence].
        destruct (decide st d (effective src peer) sp t (remove d (tracked st))) as [st2 o2] eqn:D.
        apply decide_spec in D. destruct D as (_ & _ & _ & _ & [(_ & _ & ->)|(_ & _ & ->)]); cbn; intuition congruence.
      + destruct (find d (tracked st)) as [[[peer|e0] sp]|]; cbn; intuition congruence.
      + destruct (find d (tracked st)) as [[ph sp]|]; [|cbn; tauto].
        destruct (sp + m_timeout cf <=? t); cbn; intuition congruence.
    - intros c e H. apply step_serve_iff in H. destruct ev as [d peer t|d h t|d t|d t|t]; cbn in H; try contradiction.
      + destruct H as (_ & X & _). congruence.
      + destruct H as (-> & pc & peer & sp & src & _ & F & _). congruence.
  Qed.

  (* after the stop request: no connection is spawned any more, and only connections that were
     already in progress are ever served *)
  Theorem no_new_after_stop h : forall st, accepting st = false ->
    forall t o, In (t, o) (run st h) ->
      (forall c, o <> Spawn c) /\ (forall c e, o = Serve c e -> find c (tracked st) <> None).
  Proof.
    induction h as [|ev r IH]; intros st A t o H; cbn in H; [destruct H|].
    destruct (step st ev) as [s1 o1] eqn:E.
    pose proof (step_not_accepting st ev A) as (A1 & NS & SV). rewrite E in A1, NS, SV. cbn [fst snd] in *.
    apply in_app_or in H. destruct H as [H|H].
    - apply in_map_iff in H. destruct H as (x & Hx & Hi). inv Hx. split.
      + intros c ->. exact (NS c Hi).
      + intros c e ->. exact (SV c e Hi).
    - destruct (IH s1 A1 t o H) as (X & Y). split; [exact X|].
      intros c e ->. specialize (Y c e eq_refl). intros F. apply Y.
      pose proof (step_closed_stays st ev c A F) as Z. rewrite E in Z. exact Z.
  Qed.

  (* `listen` returns only when every connection it ever spawned has been closed *)
  Theorem return_after_all l0 h1 ev :
    In Return (snd (step (final (init l0) h1) ev)) ->
    let st2 := final (init l0) (h1 ++ [ev]) in
    accepting st2 = false /\ tracked st2 = [] /\
    (forall c ts, In (ts, Spawn c) (run (init l0) (h1 ++ [ev])) ->
       exists tc r, In (tc, Close c r) (run (init l0) (h1 ++ [ev])))
    /\ (forall h2, run st2 h2 = []).
  Proof.
    intros H st2. assert (E2 : st2 = fst (step (final (init l0) h1) ev)) by (unfold st2; rewrite final_app; reflexivity).
    destruct (step_after_return _ _ H) as (A & T & R). rewrite <- E2 in A, T, R.
    split; [exact A|]. split; [exact T|]. split.
    - intros c ts Hs. pose proof (trace_shape l0 (h1 ++ [ev]) c) as S. fold st2 in S.
      assert (Hs' : In (ts, Spawn c) (ofor c (run (init l0) (h1 ++ [ev])))) by (apply ofor_in; auto).
      destruct (view_untracked st2 c (find_nil_none c _ T)) as [V|V]; rewrite V in S; cbn in S.
      + rewrite S in Hs'. destruct Hs'.
      + destruct S as (sp & t & r & _ & [(S & _)|(e & t1 & S & _)]); exists t, r;
          apply (proj1 (ofor_in c _ _)); rewrite S; cbn; auto.
    - intros h2. apply run_silent; auto.
  Qed.

  Lemma final_quiescent h : forall st,
    (accepting st = false -> tracked st = [] -> returned st = true) ->
    accepting (final st h) = false -> tracked (final st h) = [] -> returned (final st h) = true.
  Proof.
    induction h as [|ev r IH]; intros st J; cbn; [exact J|]. apply IH. apply step_quiescent.
  Qed.
  Lemma returned_origin h : forall st,
    returned (final st h) = true -> returned st = true \/ exists t, In (t, Return) (run st h).
  Proof.
    induction h as [|ev r IH]; intros st H; cbn in *; [auto|].
    destruct (step st ev) as [s1 o1] eqn:E. cbn [fst] in H.
    destruct (IH _ H) as [X|(t & X)].
    - pose proof (step_returned_origin st ev) as Y. rewrite E in Y. cbn in Y. destruct (Y X) as [Z|Z]; [auto|].
      right. exists (time_of ev). apply in_or_app. left. apply in_map_iff. exists Return. auto.
    - right. exists t. apply in_or_app. auto.
  Qed.
  Lemma return_final h : forall st t,
    In (t, Return) (run st h) -> accepting (final st h) = false /\ tracked (final st h) = [].
  Proof.
    induction h as [|ev r IH]; intros st t H; cbn in *; [destruct H|].
    destruct (step st ev) as [s1 o1] eqn:E. cbn [fst]. apply in_app_or in H. destruct H as [H|H].
    - apply in_map_iff in H. destruct H as (x & Hx & Hi). inv Hx.
      pose proof (step_after_return st ev) as X. rewrite E in X. cbn in X. destruct (X Hi) as (A & T & R).
      destruct (run_silent r s1 A T R) as (_ & ->). auto.
    - eapply IH; eauto.
  Qed.
  (* exactly when: Return has been produced iff a stop was requested and no task is left *)
  Theorem returns_iff l0 h :
    (exists t, In (t, Return) (run (init l0) h)) <->
    (accepting (final (init l0) h) = false /\ tracked (final (init l0) h) = []).
  Proof.
    split.
    - intros (t & H). eapply return_final; eauto.
    - intros (A & T). assert (R : returned (final (init l0) h) = true).
      { apply final_quiescent; auto; cbn; congruence. }
      destruct (returned_origin _ _ R) as [X|X]; [cbn in X; discriminate|exact X].
  Qed.
  Lemma accepting_origin h : forall st,
    accepting (final st h) = false -> accepting st = false \/ exists ts, In (Stop ts) h.
  Proof.
    induction h as [|ev r IH]; intros st H; cbn in *; [auto|].
    destruct (IH _ H) as [X|(ts & X)]; [|right; exists ts; auto].
    unfold Machine.step in X. pose proof (finish_tracked (step_core st ev)) as (_ & _ & _ & Fa). rewrite Fa in X.
    rewrite step_core_accepting in X. destruct ev; auto. right. eexists. left. reflexivity.
  Qed.
  Theorem return_needs_stop l0 h t : In (t, Return) (run (init l0) h) -> exists ts, In (Stop ts) h.
  Proof.
    intros H. destruct (return_final _ _ _ H) as (A & _).
    destruct (accepting_origin _ _ A) as [X|X]; [cbn in X; discriminate|exact X].
  Qed.

  (* ---------------------------------------------------------------- C17: in-flight connections *)
  Definition cstate (st : state) (c : Z) := (find c (tracked st), memz c (seen st)).
  Definition past_admission (st : state) (c : Z) : Prop :=
    (exists e sp, find c (tracked st) = Some (PServe e, sp)) \/ (find c (tracked st) = None /\ memz c (seen st) = true).

  Lemma step_core_served_indep st st' ev c :
    wfst st -> wfst st' -> cstate st c = cstate st' c -> past_admission st c -> conn_of ev = Some c ->
    ofor c (map (pair (time_of ev)) (snd (step_core st ev))) = ofor c (map (pair (time_of ev)) (snd (step_core st' ev)))
    /\ cstate (fst (step_core st ev)) c = cstate (fst (step_core st' ev)) c
    /\ past_admission (fst (step_core st ev)) c.
  Proof.
    intros W W' C P N. unfold cstate, past_admission in *. inv C. rename H0 into Cf. rename H1 into Cm.
    assert (M : memz c (seen st) = true).
    { destruct P as [(e & sp & F)|(_ & M)]; [apply W; congruence|exact M]. }
    assert (M' : memz c (seen st') = true) by congruence.
    destruct ev as [d peer t|d h t|d t|d t|t]; cbn [conn_of] in N; inv N; cbn [Machine.step_core time_of].
    - rewrite M, M'. cbn [negb]. rewrite !andb_false_r. cbn [fst snd]. rewrite <- Cf, <- Cm. auto.
    - destruct (m_proxy cf) as [pc|]; [|cbn [fst snd]; rewrite <- Cf, <- Cm; auto].
      rewrite <- Cf. destruct P as [(e & sp & F)|(F & _)]; rewrite F; cbn [fst snd]; rewrite <- ?Cf, ?F, ?M, ?M';
        repeat split; auto; solve [left; eauto | right; auto].
    - rewrite <- Cf. destruct P as [(e & sp & F)|(F & _)]; rewrite F; simp_st.
      + rewrite !find_remove_same, M, M'. repeat split; auto.
      + rewrite <- Cf, F, M, M'. repeat split; auto.
    - rewrite <- Cf. destruct P as [(e & sp & F)|(F & _)]; rewrite F; simp_st.
      + destruct (sp + m_timeout cf <=? t); simp_st.
        * rewrite !find_remove_same, M, M'. repeat split; auto.
        * rewrite <- Cf, F, M, M'. repeat split; auto. left. eauto.
      + rewrite <- Cf, F, M, M'. repeat split; auto.
  Qed.

  Lemma step_served_indep st st' ev c :
    wfst st -> wfst st' -> cstate st c = cstate st' c -> past_admission st c ->
    ofor c (map (pair (time_of ev)) (snd (step st ev))) = ofor c (map (pair (time_of ev)) (snd (step st' ev)))
    /\ cstate (fst (step st ev)) c = cstate (fst (step st' ev)) c
    /\ past_admission (fst (step st ev)) c.
  Proof.
    intros W W' C P. unfold Machine.step. rewrite !ofor_finish. unfold cstate, past_admission.
    pose proof (finish_tracked (step_core st ev)) as (A1 & B1 & _). pose proof (finish_tracked (step_core st' ev)) as (A2 & B2 & _).
    rewrite A1, B1, A2, B2.
    destruct (option_eq_dec_Z (conn_of ev) (Some c)) as [N|N].
    - apply step_core_served_indep; auto.
    - destruct (step_core st ev) as [s1 o1] eqn:E1. destruct (step_core st' ev) as [s2 o2] eqn:E2.
      destruct (step_core_other _ _ _ _ _ N E1) as (X1 & Y1 & Z1). destruct (step_core_other _ _ _ _ _ N E2) as (X2 & Y2 & Z2).
      cbn [fst snd]. rewrite (ofor_none _ _ _ Z1), (ofor_none _ _ _ Z2), X1, Y1, X2, Y2. auto.
  Qed.

  Lemma run_served_indep h : forall st st' c,
    wfst st -> wfst st' -> cstate st c = cstate st' c -> past_admission st c ->
    ofor c (run st h) = ofor c (run st' h).
  Proof.
    induction h as [|ev r IH]; intros st st' c W W' C P; cbn [Machine.run]; [reflexivity|].
    destruct (step_served_indep st st' ev c W W' C P) as (O & C1 & P1).
    destruct (step st ev) as [s1 o1] eqn:E1. destruct (step st' ev) as [s2 o2] eqn:E2. cbn [fst snd] in *.
    rewrite !ofor_app, O. f_equal. apply IH; auto; [apply (step_wfst _ _ _ _ W E1)|apply (step_wfst _ _ _ _ W' E2)].
  Qed.

  (* a connection that is being served when the stop request arrives runs exactly as it would
     have run without the request, whatever else happens afterwards *)
  Theorem inflight_unaffected l0 h1 ts h2 c e sp :
    find c (tracked (final (init l0) h1)) = Some (PServe e, sp) ->
    ofor c (run (init l0) (h1 ++ Stop ts :: h2)) = ofor c (run (init l0) (h1 ++ h2)).
  Proof.
    intros F. rewrite !run_app, !ofor_app. f_equal. cbn [Machine.run].
    destruct (step (final (init l0) h1) (Stop ts)) as [s1 o1] eqn:E.
    assert (N : conn_of (Stop ts) <> Some c) by (cbn; congruence).
    destruct (step_other _ _ _ _ _ N E) as (X & Y & Z).
    rewrite ofor_app, (ofor_none _ _ _ Z). cbn [app].
    pose proof (final_wfst _ h1 (init_wfst l0)) as W.
    apply run_served_indep.
    - eapply step_wfst; eauto.
    - exact W.
    - unfold cstate. rewrite X, Y. reflexivity.
    - left. exists e, sp. congruence.
  Qed.

  (* ---------------------------------------------------------------- C16: non-interference *)
  (* what an event about connection d does to d itself, as a function of d's own entry, the
     accepting flag and the limiter's answer (if it is asked) *)
  Definition query_of (acc : bool) (fd : option entry) (md : bool) (ev : event) : option addr :=
    match ev with
    | Arrive c peer t =>
        if acc && negb md then match m_proxy cf with None => Some peer | Some _ => None end else None
    | Header c h t =>
        match m_proxy cf, fd with
        | Some pc, Some (PWait peer, sp) =>
            match header_result pc h with Some src => Some (effective src peer) | None => None end
        | _, _ => None
        end
    | _ => None
    end.
  Definition self_step (acc : bool) (fd : option entry) (md : bool) (dec : bool) (ev : event)
      : option entry * bool * list output :=
    match ev with
    | Arrive c peer t =>
        if acc && negb md then
          match m_proxy cf with
          | None => if dec then (Some (PServe peer, t), true, [Spawn c; Serve c peer])
                    else (fd, true, [Spawn c; Close c (RRejected peer)])
          | Some _ => (Some (PWait peer, t), true, [Spawn c])
          end
        else (fd, md, [])
    | Header c h t =>
        match m_proxy cf, fd with
        | Some pc, Some (PWait peer, sp) =>
            match header_result pc h with
            | None => (None, md, [Close c RBadHeader])
            | Some src => if dec then (Some (PServe (effective src peer), sp), md, [Serve c (effective src peer)])
                          else (None, md, [Close c (RRejected (effective src peer))])
            end
        | _, _ => (fd, md, [])
        end
    | ConnDone c t => match fd with Some (PServe _, _) => (None, md, [Close c RFinished]) | _ => (fd, md, []) end
    | Deadline c t =>
        match fd with
        | Some (_, sp) => if sp + m_timeout cf <=? t then (None, md, [Close c RDeadline]) else (fd, md, [])
        | None => (fd, md, [])
        end
    | Stop t => (fd, md, [])
    end.

  Lemma step_core_self st ev d s1 o1 :
    conn_of ev = Some d -> step_core st ev = (s1, o1) ->
    let q := query_of (accepting st) (find d (tracked st)) (memz d (seen st)) ev in
    let dec := match q with Some e => snd (admit_fn (lim st) (fst e) (time_of ev)) | None => true end in
    (find d (tracked s1), memz d (seen s1), o1)
      = self_step (accepting st) (find d (tracked st)) (memz d (seen st)) dec ev
    /\ lim s1 = match q with Some e => fst (admit_fn (lim st) (fst e) (time_of ev)) | None => lim st end.
  Proof.
    intros N E. destruct ev as [c peer t|c h t|c t|c t|t]; cbn [conn_of] in N; inv N;
      cbn [Machine.step_core] in E; cbn [query_of self_step time_of].
    - destruct (accepting st && negb (memz d (seen st))); [|inv E; auto].
      destruct (m_proxy cf).
      + inv E. simp_st. rewrite find_cons_same, memz_cons_same. auto.
      + destruct (decide _ d peer t t (tracked st)) as [st2 o2] eqn:D. inv E. apply decide_spec in D. simp_st.
        destruct D as (_ & _ & Hs & Hl & [(Ok & Ht & ->)|(Ok & Ht & ->)]); rewrite Ht, Hs, Hl, Ok;
          rewrite ?find_cons_same, memz_cons_same; auto.
    - destruct (m_proxy cf) as [pc|]; [|inv E; auto].
      destruct (find d (tracked st)) as [[[peer|e0] sp]|] eqn:F; try (inv E; rewrite ?F; auto; fail).
      destruct (header_result pc h) as [src|].
      + apply decide_spec in E. destruct E as (_ & _ & Hs & Hl & [(Ok & Ht & ->)|(Ok & Ht & ->)]); rewrite Ht, Hs, Hl, Ok;
          rewrite ?find_cons_same, ?find_remove_same; auto.
      + inv E. simp_st. rewrite find_remove_same. auto.
    - destruct (find d (tracked st)) as [[[peer|e0] sp]|] eqn:F; inv E; simp_st; rewrite ?find_remove_same, ?F; auto.
    - destruct (find d (tracked st)) as [[ph sp]|] eqn:F; [|inv E; rewrite ?F; auto].
      destruct (sp + m_timeout cf <=? t); inv E; simp_st; rewrite ?find_remove_same, ?F; auto.
  Qed.

  Lemma self_step_query acc fd md dec ev d e :
    conn_of ev = Some d -> query_of acc fd md ev = Some e ->
    In (Serve d e) (snd (self_step acc fd md dec ev)) \/ In (Close d (RRejected e)) (snd (self_step acc fd md dec ev)).
  Proof.
    intros N Q. destruct ev as [c peer t|c h t|c t|c t|t]; cbn [conn_of] in N; inv N; cbn [query_of self_step] in *; try discriminate.
    - destruct (acc && negb md); [|discriminate]. destruct (m_proxy cf); [discriminate|]. inv Q.
      destruct dec; cbn; auto.
    - destruct (m_proxy cf) as [pc|]; [|discriminate].
      destruct fd as [[[peer|e0] sp]|]; try discriminate.
      destruct (header_result pc h) as [src|]; [|discriminate]. inv Q. destruct dec; cbn; auto.
  Qed.

  Variable l0 : L.
  Variable t0 : Z.
  Definition lfin (a : list (Z * Z)) : L := fold_left (fun l kt => fst (admit_fn l (fst kt) (snd kt))) a l0.
  Fixpoint tsorted (lo : Z) (a : list (Z * Z)) (hi : Z) : Prop :=
    match a with [] => lo <= hi | (_, t) :: r => lo <= t /\ tsorted t r hi end.
  Definition keyf (k : Z) (a : list (Z * Z)) : list (Z * Z) := filter (fun x => fst x =? k) a.

  (* per-key independence of the limiter: the answer to an attempt of key k depends only on the
     earlier attempts of k (discharged for RateLimiter in Props/C16.v from C13_independent) *)
  Hypothesis admit_indep : forall a a' k t,
    tsorted t0 a t -> tsorted t0 a' t -> keyf k a = keyf k a' ->
    snd (admit_fn (lfin a) k t) = snd (admit_fn (lfin a') k t).

  Variable kc : Z.             (* the client IP of interest *)
  Variable del : Z -> bool.    (* the connections whose events are deleted *)

  Lemma tsorted_mono a : forall lo hi hi', tsorted lo a hi -> hi <= hi' -> tsorted lo a hi'.
  Proof. induction a as [|[k t] r IH]; cbn; intros lo hi hi' H Le; [lia|]. destruct H. split; eauto. Qed.
  Lemma tsorted_snoc a : forall lo hi k t, tsorted lo a hi -> hi <= t -> tsorted lo (a ++ [(k, t)]) t.
  Proof.
    induction a as [|[k' t'] r IH]; cbn; intros lo hi k t H Le; [lia|]. destruct H. split; eauto.
  Qed.
  Lemma lfin_snoc a k t : lfin (a ++ [(k, t)]) = fst (admit_fn (lfin a) k t).
  Proof. unfold lfin. rewrite fold_left_app. reflexivity. Qed.
  Lemma keyf_snoc k a k' t : keyf k (a ++ [(k', t)]) = keyf k a ++ (if k' =? k then [(k', t)] else []).
  Proof. unfold keyf. rewrite filter_app. cbn. destruct (k' =? k); reflexivity. Qed.

  Definition lrel (now : Z) (l l' : L) : Prop :=
    exists a a', l = lfin a /\ l' = lfin a' /\ tsorted t0 a now /\ tsorted t0 a' now /\ keyf kc a = keyf kc a'.
  Lemma lrel_mono now t l l' : lrel now l l' -> now <= t -> lrel t l l'.
  Proof. intros (a & a' & -> & -> & S & S' & K) Le. exists a, a'. repeat split; eauto using tsorted_mono. Qed.
  Lemma lrel_same now t l l' : lrel now l l' -> now <= t ->
    snd (admit_fn l kc t) = snd (admit_fn l' kc t) /\ lrel t (fst (admit_fn l kc t)) (fst (admit_fn l' kc t)).
  Proof.
    intros (a & a' & -> & -> & S & S' & K) Le. split.
    - apply admit_indep; eauto using tsorted_mono.
    - exists (a ++ [(kc, t)]), (a' ++ [(kc, t)]). rewrite !lfin_snoc, !keyf_snoc, K.
      repeat split; eauto using tsorted_snoc.
  Qed.
  Lemma lrel_left now t k l l' : lrel now l l' -> now <= t -> k <> kc -> lrel t (fst (admit_fn l k t)) l'.
  Proof.
    intros (a & a' & -> & -> & S & S' & K) Le N. exists (a ++ [(k, t)]), a'. rewrite lfin_snoc, keyf_snoc.
    destruct (Z.eqb_spec k kc); [lia|]. rewrite app_nil_r. repeat split; eauto using tsorted_snoc, tsorted_mono.
  Qed.

  Definition srel (now : Z) (st st' : state) : Prop :=
    accepting st' = accepting st
    /\ (forall c, del c = false -> find c (tracked st') = find c (tracked st) /\ memz c (seen st') = memz c (seen st))
    /\ lrel now (lim st) (lim st').

  (* the keys the limiter is asked about: kc by every kept connection, another key by every
     deleted one *)
  Definition okeys (o : list output) : Prop :=
    forall d e, In (Serve d e) o \/ In (Close d (RRejected e)) o ->
      (del d = true -> fst e <> kc) /\ (del d = false -> fst e = kc).

  Definition keep_ev (ev : event) : bool :=
    match conn_of ev with Some d => negb (del d) | None => true end.

  Lemma step_core_kept st st' ev now :
    srel now st st' -> now <= time_of ev -> keep_ev ev = true -> okeys (snd (step_core st ev)) ->
    snd (step_core st ev) = snd (step_core st' ev) /\ srel (time_of ev) (fst (step_core st ev)) (fst (step_core st' ev)).
  Proof.
    intros (A & P & LR) Le K OK. unfold keep_ev in K. destruct (conn_of ev) as [d|] eqn:N.
    - apply negb_true_iff in K. destruct (P d K) as (Fd & Md).
      destruct (step_core st ev) as [s1 o1] eqn:E1. destruct (step_core st' ev) as [s2 o2] eqn:E2.
      pose proof (step_core_self _ _ _ _ _ N E1) as (R1 & L1). pose proof (step_core_self _ _ _ _ _ N E2) as (R2 & L2).
      cbn zeta in *. rewrite A, Fd, Md in R2, L2.
      remember (query_of (accepting st) (find d (tracked st)) (memz d (seen st)) ev) as q eqn:Hq.
      cbn [fst snd] in *.
      assert (X : match q with Some e => snd (admit_fn (lim st) (fst e) (time_of ev)) | None => true end
                  = match q with Some e => snd (admit_fn (lim st') (fst e) (time_of ev)) | None => true end
                  /\ lrel (time_of ev) (lim s1) (lim s2)).
      { rewrite L1, L2. destruct q as [e|] eqn:Q; [|split; [reflexivity|eapply lrel_mono; eauto]].
        assert (Ke : fst e = kc).
        { symmetry in Hq. pose proof (self_step_query _ _ _ (snd (admit_fn (lim st) (fst e) (time_of ev))) _ _ _ N Hq) as O.
          rewrite <- R1 in O. cbn [snd] in O. apply (OK d e O). exact K. }
        rewrite Ke. apply (lrel_same now); auto. }
      destruct X as (X & LR'). rewrite <- X in R2. rewrite <- R1 in R2. inv R2. split; [reflexivity|].
      split; [|split; [|exact LR']].
      + pose proof (step_core_accepting st ev) as A1. pose proof (step_core_accepting st' ev) as A2.
        rewrite E1 in A1. rewrite E2 in A2. cbn [fst] in *. rewrite A1, A2, A. reflexivity.
      + intros c Kc. destruct (Z.eq_dec c d) as [->|Ne]; [auto|].
        assert (N' : conn_of ev <> Some c) by congruence.
        destruct (step_core_other _ _ _ _ _ N' E1) as (F1 & M1 & _).
        destruct (step_core_other _ _ _ _ _ N' E2) as (F2 & M2 & _).
        rewrite F1, M1, F2, M2. apply P. exact Kc.
    - destruct ev; cbn in N; try discriminate. cbn [Machine.step_core fst snd time_of]. split; [reflexivity|].
      split; [reflexivity|]. split; [exact P|]. eapply lrel_mono; eauto.
  Qed.

  Lemma step_core_deleted st st' ev now d :
    srel now st st' -> now <= time_of ev -> conn_of ev = Some d -> del d = true -> okeys (snd (step_core st ev)) ->
    srel (time_of ev) (fst (step_core st ev)) st'.
  Proof.
    intros (A & P & LR) Le N D OK. destruct (step_core st ev) as [s1 o1] eqn:E1.
    pose proof (step_core_self _ _ _ _ _ N E1) as (R1 & L1). cbn zeta in *. cbn [fst snd] in *.
    split; [|split].
    - pose proof (step_core_accepting st ev) as A1. rewrite E1 in A1. cbn [fst] in A1. rewrite A1, A.
      destruct ev; cbn in N; try discriminate; reflexivity.
    - intros c Kc. assert (N' : conn_of ev <> Some c) by (intros X; rewrite X in N; inv N; congruence).
      destruct (step_core_other _ _ _ _ _ N' E1) as (F1 & M1 & _). rewrite F1, M1. apply P. exact Kc.
    - rewrite L1. destruct (query_of (accepting st) (find d (tracked st)) (memz d (seen st)) ev) as [e|] eqn:Q;
        [|eapply lrel_mono; eauto].
      pose proof (self_step_query _ _ _ (snd (admit_fn (lim st) (fst e) (time_of ev))) _ _ _ N Q) as O.
      rewrite <- R1 in O. cbn [snd] in O. eapply lrel_left; eauto. apply (OK d e O). exact D.
  Qed.

  Lemma srel_finish now st st' o o' :
    srel now st st' -> srel now (fst (finish L (st, o))) (fst (finish L (st', o'))).
  Proof.
    intros (A & P & LR).
    pose proof (finish_tracked (st, o)) as (T1 & S1 & L1 & A1). pose proof (finish_tracked (st', o')) as (T2 & S2 & L2 & A2).
    cbn [fst] in *. unfold srel. rewrite T1, S1, L1, A1, T2, S2, L2, A2. auto.
  Qed.

  Fixpoint esorted (lo : Z) (h : list event) : Prop :=
    match h with [] => True | ev :: r => lo <= time_of ev /\ esorted (time_of ev) r end.
  Definition okeys_run (o : list (Z * output)) : Prop :=
    forall t d e, In (t, Serve d e) o \/ In (t, Close d (RRejected e)) o ->
      (del d = true -> fst e <> kc) /\ (del d = false -> fst e = kc).

  Theorem noninterference_from h : forall st st' now,
    srel now st st' -> esorted now h -> okeys_run (run st h) ->
    forall c, del c = false -> ofor c (run st h) = ofor c (run st' (filter keep_ev h)).
  Proof.
    induction h as [|ev r IH]; intros st st' now R ES OK c Kc; [reflexivity|].
    cbn [esorted] in ES. destruct ES as (Le & ES). cbn [filter].
    cbn [Machine.run] in *. destruct (step st ev) as [s1 o1] eqn:E1.
    assert (OK1 : okeys (snd (step_core st ev))).
    { intros d e H. apply (OK (time_of ev) d e).
      assert (I : forall x, In x (snd (step_core st ev)) -> In (time_of ev, x) (map (pair (time_of ev)) o1 ++ run s1 r)).
      { intros x Hx. apply in_or_app. left. apply in_map. unfold Machine.step in E1.
        pose proof (finish_outputs_incl (step_core st ev) x Hx) as Y. rewrite E1 in Y. exact Y. }
      destruct H as [H|H]; [left|right]; apply I; exact H. }
    assert (OKr : okeys_run (run s1 r)).
    { intros t d e H. apply (OK t d e). destruct H as [H|H]; [left|right]; apply in_or_app; right; exact H. }
    rewrite ofor_app. destruct (keep_ev ev) eqn:K.
    - cbn [Machine.run]. destruct (step st' ev) as [s2 o2] eqn:E2. rewrite ofor_app.
      destruct (step_core_kept _ _ _ _ R Le K OK1) as (Oeq & R1).
      unfold Machine.step in E1, E2.
      assert (R2 : srel (time_of ev) s1 s2).
      { pose proof (srel_finish _ _ _ (snd (step_core st ev)) (snd (step_core st' ev)) R1) as X.
        rewrite <- !surjective_pairing in X. rewrite E1, E2 in X. exact X. }
      f_equal; [|eapply IH; eauto].
      pose proof (ofor_finish c (time_of ev) (step_core st ev)) as F1. pose proof (ofor_finish c (time_of ev) (step_core st' ev)) as F2.
      rewrite E1 in F1. rewrite E2 in F2. cbn [snd] in F1, F2. rewrite F1, F2, Oeq. reflexivity.
    - unfold keep_ev in K. destruct (conn_of ev) as [d|] eqn:N; [|discriminate]. apply negb_false_iff in K.
      pose proof (step_core_deleted _ _ _ _ _ R Le N K OK1) as R1.
      unfold Machine.step in E1.
      assert (R2 : srel (time_of ev) s1 st').
      { destruct R1 as (A & P & LR). pose proof (finish_tracked (step_core st ev)) as (T1 & S1 & L1 & A1).
        rewrite E1 in T1, S1, L1, A1. cbn [fst] in *. unfold srel. rewrite T1, S1, L1, A1. auto. }
      assert (N' : conn_of ev <> Some c) by (intros X; rewrite X in N; inv N; congruence).
      assert (E1' : step st ev = (s1, o1)) by exact E1.
      destruct (step_other _ _ _ _ _ N' E1') as (_ & _ & Z). rewrite (ofor_none _ _ _ Z). cbn [app].
      eapply IH; eauto.
  Qed.

  (* from the initial state: deleting every event of connections with another effective IP
     changes nothing that is said about the remaining connections *)
  Theorem noninterference h :
    esorted t0 h -> okeys_run (run (init l0) h) ->
    forall c, del c = false -> ofor c (run (init l0) h) = ofor c (run (init l0) (filter keep_ev h)).
  Proof.
    intros ES OK c Kc. eapply noninterference_from; eauto.
    split; [reflexivity|]. split; [auto|]. exists [], []. cbn. repeat split; lia.
  Qed.

  (* ---------------------------------------------------------------- C17: a stop request acts on
     every tracked connection exactly like "nobody arrives any more" *)
  Definition eqmod (st st' : state) : Prop := seen st = seen st' /\ tracked st = tracked st' /\ lim st = lim st'.
  Definition not_arrive (ev : event) : bool := match ev with Arrive _ _ _ => false | _ => true end.

  Lemma step_core_eqmod st st' ev :
    eqmod st st' -> not_arrive ev = true ->
    snd (step_core st ev) = snd (step_core st' ev) /\ eqmod (fst (step_core st ev)) (fst (step_core st' ev)).
  Proof.
    intros (S & T & Lm) NA. destruct st as [a r s tr l], st' as [a' r' s' tr' l']. cbn in S, T, Lm. subst.
    unfold eqmod. destruct ev as [c peer t|c h t|c t|c t|t]; cbn [not_arrive] in NA; try discriminate;
      cbn [Machine.step_core tracked lim seen accepting returned]; unfold with_tracked, Machine.decide;
      cbn [tracked lim seen accepting returned].
    - destruct (m_proxy cf) as [pc|]; [|cbn; auto].
      destruct (find c tr') as [[[peer|e0] sp]|]; try (cbn; auto; fail).
      destruct (header_result pc h) as [src|]; [|cbn; auto].
      destruct (admit_fn l' (fst (effective src peer)) t) as [l2 ok]. destruct ok; cbn; auto.
    - destruct (find c tr') as [[[peer|e0] sp]|]; cbn; auto.
    - destruct (find c tr') as [[ph sp]|]; [|cbn; auto]. destruct (sp + m_timeout cf <=? t); cbn; auto.
    - cbn. auto.
  Qed.

  Theorem stop_equiv_from h : forall st st' c,
    accepting st = false -> eqmod st st' ->
    ofor c (run st h) = ofor c (run st' (filter not_arrive h)).
  Proof.
    induction h as [|ev r IH]; intros st st' c A EQ; [reflexivity|].
    cbn [filter Machine.run]. destruct (step st ev) as [s1 o1] eqn:E1.
    pose proof (step_not_accepting st ev A) as (A1 & _). rewrite E1 in A1. cbn [fst] in A1.
    rewrite ofor_app. destruct (not_arrive ev) eqn:NA.
    - cbn [Machine.run]. destruct (step st' ev) as [s2 o2] eqn:E2. rewrite ofor_app.
      destruct (step_core_eqmod _ _ _ EQ NA) as (Oeq & EQ1). unfold Machine.step in E1, E2.
      pose proof (ofor_finish c (time_of ev) (step_core st ev)) as F1. pose proof (ofor_finish c (time_of ev) (step_core st' ev)) as F2.
      rewrite E1 in F1. rewrite E2 in F2. cbn [snd] in F1, F2. rewrite F1, F2, Oeq. f_equal.
      apply IH; [exact A1|].
      pose proof (finish_tracked (step_core st ev)) as (T1 & S1 & L1 & _). pose proof (finish_tracked (step_core st' ev)) as (T2 & S2 & L2 & _).
      rewrite E1 in T1, S1, L1. rewrite E2 in T2, S2, L2. cbn [fst] in *. destruct EQ1 as (X & Y & Z).
      unfold eqmod. rewrite T1, S1, L1, T2, S2, L2. auto.
    - destruct ev as [d peer t| | | | ]; cbn in NA; try discriminate.
      unfold Machine.step in E1. cbn [Machine.step_core] in E1. rewrite A in E1. cbn [andb] in E1.
      pose proof (ofor_finish c t (st, [])) as F1. rewrite E1 in F1. cbn [snd time_of] in *. rewrite F1. cbn [map app]. 
      change (ofor c []) with (@nil (Z * output)). cbn [app].
      apply IH; [exact A1|].
      pose proof (finish_tracked (st, @nil output)) as (T1 & S1 & L1 & _). rewrite E1 in T1, S1, L1. cbn [fst] in *.
      destruct EQ as (X & Y & Z). unfold eqmod. rewrite T1, S1, L1. auto.
  Qed.

  Theorem inflight_stop_equiv l1 h1 ts h2 c :
    ofor c (run (init l1) (h1 ++ Stop ts :: h2)) = ofor c (run (init l1) (h1 ++ filter not_arrive h2)).
  Proof.
    rewrite !run_app, !ofor_app. f_equal. cbn [Machine.run].
    destruct (step (final (init l1) h1) (Stop ts)) as [s1 o1] eqn:E.
    assert (N : conn_of (Stop ts) <> Some c) by (cbn; congruence).
    destruct (step_other _ _ _ _ _ N E) as (_ & _ & Z). rewrite ofor_app, (ofor_none _ _ _ Z). cbn [app].
    apply stop_equiv_from.
    - pose proof (finish_tracked (step_core (final (init l1) h1) (Stop ts))) as (_ & _ & _ & Fa).
      unfold Machine.step in E. rewrite E in Fa. cbn [fst] in Fa. rewrite Fa. reflexivity.
    - pose proof (finish_tracked (step_core (final (init l1) h1) (Stop ts))) as (T1 & S1 & L1 & _).
      unfold Machine.step in E. rewrite E in T1, S1, L1. cbn [fst Machine.step_core tracked seen lim] in *.
      unfold eqmod. auto.
  Qed.
End Proofs.
