(* The configuration path  Config (src/config.rs)  ->  Listener (src/lib.rs `start`, the builder
   calls)  ->  Connection (passage-protocol/src/listener.rs `handle`, AFTER fix-c14: the two
   missing `.with_max_packet_length` / `.with_auth_cookie_expiry` calls).  Definitions only. *)
From Passage Require Import Lib.Bytes Conn.Types Conn.Prog.

(* the fields of `Config` that reach the protocol *)
Record app_config := {
  a_max : Z;                         (* max_packet_length : u64 *)
  a_expiry : Z;                      (* auth_cookie_expiry : u64, seconds *)
  a_secret : option bytes;           (* auth_secret : Option<String>, as UTF-8 *)
  a_timeout : Z;                     (* timeout : u64, seconds *)
  a_lim : option (Z * Z);            (* rate_limiter : (limit, duration in seconds) *)
  a_proxy : option (bool * bool) }.  (* proxy_protocol : (allow_v1, allow_v2) *)

(* the fields of `Listener` after the builder calls in `passage::start` *)
Record listener_cfg := {
  l_max : Z;                         (* i32 *)
  l_expiry : Z;
  l_secret : option bytes;
  l_timeout_ms : Z;
  l_lim : option (Z * Z);
  l_proxy : option (bool * bool) }.

(* src/lib.rs: `.with_max_packet_length(config.max_packet_length as i32)`: u64 -> i32 keeps the
   low 32 bits; `Duration::from_secs(config.timeout)`; `String::into_bytes` *)
Definition listener_of (a : app_config) : listener_cfg :=
  {| l_max := wrap32 (a_max a); l_expiry := a_expiry a; l_secret := a_secret a;
     l_timeout_ms := 1000 * a_timeout a; l_lim := a_lim a; l_proxy := a_proxy a |}.

(* listener.rs `handle`: Connection::new(..).with_client_address(eff).with_auth_secret(..)
   .with_max_packet_length(..).with_auth_cookie_expiry(..); the public key is the process-wide
   crypto::KEY_PAIR *)
Definition conn_cfg_of (l : listener_cfg) (eff : sockaddr) (pubkey : bytes) : conn_cfg :=
  {| cf_client := eff; cf_secret := l_secret l; cf_max_len := l_max l; cf_expiry := l_expiry l;
     cf_pubkey := pubkey |}.

(* connection.rs receive_packet: `if length <= 0 || length > self.max_packet_length` refuses *)
Definition frame_len_ok (max len : Z) : bool := (0 <? len) && (len <=? max).

(* connection.rs: `expires_at = timestamp.saturating_add(expiry); ... || expires_at < now` refuses
   (u64 arithmetic); the time half of the cookie check of Conn/Prog.v `transfer_phase` *)
Definition cookie_fresh (expiry ts now : Z) : bool :=
  negb (Z.min (ts + expiry) (2 ^ 64 - 1) <? now).

Example wire_example :
  let a := {| a_max := 300; a_expiry := 100; a_secret := Some (str "s3cret"); a_timeout := 5;
              a_lim := None; a_proxy := Some (true, false) |} in
  let c := conn_cfg_of (listener_of a) {| sa_ip := str "203.0.113.5"; sa_port := 5555 |} [] in
  (cf_max_len c, cf_expiry c, frame_len_ok (cf_max_len c) 300, frame_len_ok (cf_max_len c) 301,
   cookie_fresh (cf_expiry c) 1000 1100, cookie_fresh (cf_expiry c) 1000 1101)
  = (300, 100, true, false, true, false).
Proof. vm_compute. reflexivity. Qed.
(* a configured maximum of 2^31 or more wraps to a negative i32: every frame is refused *)
Example wire_wrap : l_max (listener_of {| a_max := 2 ^ 31; a_expiry := 0; a_secret := None; a_timeout := 1;
                                         a_lim := None; a_proxy := None |}) = - 2 ^ 31.
Proof. vm_compute. reflexivity. Qed.
