//! Listener-family correspondence driver (C14, C15, C16, C17).
//!
//! Every case is one run of the real accept loop - `Listener::listen` with scripted adapters
//! (mode 0) or `passage::start(Config{..})` with the fixed adapters of the configuration
//! (mode 1) - on a loopback TCP socket inside a PAUSED current-thread tokio runtime.  Clients
//! are tokio tasks with scripted behaviours; they bind to 127.0.0.k so that several TCP peers
//! (balancers) exist.  A heartbeat task sleeps 1 ms in a loop, so the paused clock only ever
//! auto-advances by 1 ms per idle scheduler round: the I/O driver is polled before each
//! advance and loopback delivery is synchronous, hence every I/O reaction is observed at most
//! a few virtual ms after its cause.  Times are virtual ms since the start of the run.
//! One line `CASE <FAMILY> <Gallina lstcase>` per case (see coq/Run/CaseLst.v).
use aes::cipher::generic_array::GenericArray;
use aes::cipher::{BlockDecryptMut, BlockEncryptMut, KeyIvInit};
use passage_adapters::authentication::{AuthenticationAdapter, Profile};
use passage_adapters::discovery::DiscoveryAdapter;
use passage_adapters::filter::FilterAdapter;
use passage_adapters::localization::LocalizationAdapter;
use passage_adapters::status::StatusAdapter;
use passage_adapters::strategy::StrategyAdapter;
use passage_adapters::{Protocol, ServerStatus, Target};
use passage_protocol::cookie::{AuthCookie, sign, verify};
use passage_protocol::crypto;
use passage_protocol::listener::{Listener, ParseConfig};
use passage_protocol::rate_limiter::RateLimiter;
use std::collections::HashMap;
use std::net::{IpAddr, Ipv4Addr, Ipv6Addr, SocketAddr};
use std::sync::{Arc, Mutex};
use std::time::Duration;
use tokio::io::{AsyncReadExt, AsyncWriteExt};
use tokio::net::{TcpSocket, TcpStream};
use tokio::time::Instant;
use tokio_util::sync::CancellationToken;
use uuid::Uuid;
use vh::connrun::{frame_bytes, get_varint, put_string, put_varint};
use vh::*;

type Enc = cfb8::Encryptor<aes::Aes128>;
type Dec = cfb8::Decryptor<aes::Aes128>;

const FIXED_NOW: u64 = 1_700_000_000;
/// virtual bound for the C16 probe (arrival -> pong received)
const PROBE_BOUND: u64 = 200;

// ------------------------------------------------------------------ scripts
#[derive(Clone, Debug)]
enum Hdr {
    /// nothing is sent before the behaviour starts
    None,
    /// complete bytes sent `delay` ms after connecting; `cls` = Gallina `hdr` by construction
    Full { delay: u64, bytes: Vec<u8>, cls: String },
    /// a strict prefix of a valid header, then silence, or the client closes at arrive+eof
    Partial { delay: u64, bytes: Vec<u8>, eof: Option<u64> },
}

#[derive(Clone, Debug, PartialEq)]
enum Beh {
    Silent,
    /// one byte per second of a status handshake that is longer than any timeout used
    Drip,
    /// half a handshake frame, then silence
    MidFrame,
    /// login steps 1..=k (1 handshake, 2 login start, 3 session cookie answer, 4 encryption
    /// response, 5 login acknowledged, 6 client information), then silence (keep-alives unanswered;
    /// for k = 6 the filter adapter never returns, so the session cannot complete on its own)
    StopAt(u32),
    Status,
    /// a status exchange that must complete within PROBE_BOUND of its arrival
    Probe,
    /// complete login; `pace` ms between the client's steps; keep-alives answered
    Login { pace: u64 },
    /// complete login, keep-alives answered for ever, the filter adapter never returns
    KaForever,
    /// status handshake whose frame declares exactly n bytes
    Big(usize),
    /// transfer login presenting an auth cookie issued `age` seconds before now
    Cookie { age: i64, good: bool },
    /// a status attempt by a client that arrives after the stop request
    Late,
    /// a status request whose response (a 48 MiB favicon) is far larger than every socket buffer, by a client that does
    /// not read until 700 ms after the deadline: whatever the server still had to write then must never be written
    NoRead,
}

#[derive(Clone, Debug)]
struct ConnScript {
    id: i64,
    peer_ip: Ipv4Addr,
    arrive: u64,
    hdr: Hdr,
    beh: Beh,
    /// latency of the scripted filter adapter for this connection (mode 0)
    lat: u64,
    /// nominal duration (ms after being served) after which the session ends on its own
    nat: Option<u64>,
    /// the address the limiter / adapters are expected to use by construction (for the cookie)
    eff_ip: IpAddr,
}

#[derive(Clone, Debug)]
struct Cfg {
    max: u64,
    expiry: u64,
    secret: Option<String>,
    timeout_s: u64,
    lim: Option<(usize, u64)>,
    proxy: Option<(bool, bool)>,
}

#[derive(Clone, Debug, Default)]
struct Obs {
    connected: bool,
    peer_port: u16,
    bytes: u64,
    status: bool,
    transfer: bool,
    closed: Option<u64>,
    done: Option<u64>,
    cookie_addr: Option<SocketAddr>,
    flag: Option<bool>,
}

// ------------------------------------------------------------------ Gallina printers
fn ipkey(ip: &IpAddr) -> String {
    match ip {
        IpAddr::V4(a) => format!("{}", u32::from(*a)),
        IpAddr::V6(a) => format!("(4294967296 + {})", u128::from(*a)),
    }
}
fn g_addr(a: &SocketAddr) -> String { format!("({}, {})", ipkey(&a.ip()), a.port()) }
fn g_oz(o: Option<u64>) -> String { g_opt(o.map(|v| v.to_string())) }

// ------------------------------------------------------------------ scripted adapters (mode 0)
/// The handshake host of every scripted client is `c<id>x<latency ms>x<hang 0|1>`.
/// size of the favicon served to a host name ending in `xH`
const HUGE: usize = 48 << 20;
fn parse_host(h: &str) -> (i64, u64, bool) {
    let p: Vec<&str> = h.trim_start_matches('c').split('x').collect();
    let id = p.first().and_then(|s| s.parse().ok()).unwrap_or(-1);
    let lat = p.get(1).and_then(|s| s.parse().ok()).unwrap_or(0);
    let hang = p.get(2).map(|s| *s == "1").unwrap_or(false);
    (id, lat, hang)
}
#[derive(Clone, Default)]
struct Ads { log: Arc<Mutex<Vec<(i64, &'static str, SocketAddr)>>> }
impl std::fmt::Debug for Ads {
    fn fmt(&self, f: &mut std::fmt::Formatter<'_>) -> std::fmt::Result { write!(f, "Ads") }
}
impl Ads {
    fn note(&self, host: &str, kind: &'static str, client: &SocketAddr) {
        self.log.lock().unwrap().push((parse_host(host).0, kind, *client));
    }
}
impl StatusAdapter for Ads {
    async fn status(&self, client: &SocketAddr, server: (&str, u16), _p: Protocol) -> passage_adapters::Result<Option<ServerStatus>> {
        self.note(server.0, "status", client);
        if server.0.ends_with("xH") {
            return Ok(Some(ServerStatus { favicon: Some("A".repeat(HUGE)), ..ServerStatus::default() }));
        }
        Ok(Some(ServerStatus::default()))
    }
}
impl AuthenticationAdapter for Ads {
    async fn authenticate(&self, client: &SocketAddr, server: (&str, u16), _p: Protocol, user: (&str, &Uuid), _s: &[u8], _k: &[u8]) -> passage_adapters::Result<Profile> {
        self.note(server.0, "auth", client);
        Ok(Profile { id: *user.1, name: user.0.to_string(), properties: vec![], profile_actions: vec![] })
    }
}
impl DiscoveryAdapter for Ads {
    async fn discover(&self) -> passage_adapters::Result<Vec<Target>> {
        Ok(vec![Target { identifier: "t1".into(), address: "10.9.8.7:25565".parse().unwrap(), meta: HashMap::new() }])
    }
}
impl FilterAdapter for Ads {
    async fn filter(&self, client: &SocketAddr, server: (&str, u16), _p: Protocol, _u: (&str, &Uuid), targets: Vec<Target>) -> passage_adapters::Result<Vec<Target>> {
        self.note(server.0, "filter", client);
        let (_, lat, hang) = parse_host(server.0);
        if hang { std::future::pending::<()>().await; }
        tokio::time::sleep(Duration::from_millis(lat)).await;
        Ok(targets)
    }
}
impl StrategyAdapter for Ads {
    async fn select(&self, client: &SocketAddr, server: (&str, u16), _p: Protocol, _u: (&str, &Uuid), targets: Vec<Target>) -> passage_adapters::Result<Option<Target>> {
        self.note(server.0, "select", client);
        Ok(targets.first().cloned())
    }
}
impl LocalizationAdapter for Ads {
    async fn localize(&self, _l: Option<&str>, key: &str, _p: &[(&'static str, String)]) -> passage_adapters::Result<String> {
        Ok(format!("\"{}\"", key))
    }
}

// ------------------------------------------------------------------ PROXY headers
fn proxy_v1(src: &SocketAddr, dst: &SocketAddr) -> Vec<u8> {
    let fam = if src.is_ipv4() { "TCP4" } else { "TCP6" };
    format!("PROXY {} {} {} {} {}\r\n", fam, src.ip(), dst.ip(), src.port(), dst.port()).into_bytes()
}
const V2_SIG: [u8; 12] = [0x0D, 0x0A, 0x0D, 0x0A, 0x00, 0x0D, 0x0A, 0x51, 0x55, 0x49, 0x54, 0x0A];
fn proxy_v2(src: Option<(&SocketAddr, &SocketAddr)>) -> Vec<u8> {
    let mut b = V2_SIG.to_vec();
    match src {
        None => { b.push(0x20); b.push(0x00); b.extend_from_slice(&0u16.to_be_bytes()); }
        Some((s, d)) => {
            b.push(0x21);
            match (s.ip(), d.ip()) {
                (IpAddr::V4(si), IpAddr::V4(di)) => {
                    b.push(0x11); b.extend_from_slice(&12u16.to_be_bytes());
                    b.extend_from_slice(&si.octets()); b.extend_from_slice(&di.octets());
                }
                (IpAddr::V6(si), IpAddr::V6(di)) => {
                    b.push(0x21); b.extend_from_slice(&36u16.to_be_bytes());
                    b.extend_from_slice(&si.octets()); b.extend_from_slice(&di.octets());
                }
                _ => unreachable!(),
            }
            b.extend_from_slice(&s.port().to_be_bytes()); b.extend_from_slice(&d.port().to_be_bytes());
        }
    }
    b
}
/// what the vendored parser says under the configured versions: Gallina `option (option addr)`
/// (None = invalid), or "short" for an incomplete header
fn oracle(bytes: &[u8], proxy: Option<(bool, bool)>) -> Result<Option<Option<SocketAddr>>, ()> {
    let Some((a1, a2)) = proxy else { return Ok(None) };
    let cfg = ParseConfig { include_tlvs: false, allow_v1: a1, allow_v2: a2 };
    match proxy_header::ProxyHeader::parse(bytes, cfg) {
        Ok((h, _)) => Ok(Some(h.proxied_address().map(|a| a.source))),
        Err(proxy_header::Error::BufferTooShort) => Err(()),
        Err(_) => Ok(None),
    }
}
fn g_oracle(o: &Option<Option<SocketAddr>>) -> String { g_opt(o.as_ref().map(|s| g_opt(s.as_ref().map(g_addr)))) }

fn rnd_src(r: &mut Rng, pool: usize) -> SocketAddr {
    // a small pool so that sources repeat (the limiter needs repeated keys)
    let port = 1024 + r.below(60000) as u16;
    let ip: IpAddr = match r.below(pool as u64) {
        0 => IpAddr::V4(Ipv4Addr::new(203, 0, 113, 5)),
        1 => IpAddr::V6(Ipv6Addr::new(0x2001, 0xdb8, 0, 0, 0, 0, 0, 1)),
        2 => IpAddr::V4(Ipv4Addr::new(198, 51, 100, 7)),
        3 => IpAddr::V6(Ipv6Addr::new(0, 0, 0, 0, 0, 0xffff, 0xcb00, 0x7105)), // ::ffff:203.0.113.5, a different key
        // addresses that "defensive" code tends to special-case: unspecified, loopback, broadcast
        5 => IpAddr::V4(Ipv4Addr::new(0, 0, 0, 0)),
        6 => IpAddr::V6(Ipv6Addr::new(0, 0, 0, 0, 0, 0, 0, 0)),
        7 => *r.pick(&[IpAddr::V4(Ipv4Addr::new(127, 0, 0, 1)), IpAddr::V4(Ipv4Addr::new(255, 255, 255, 255)), IpAddr::V6(Ipv6Addr::new(0, 0, 0, 0, 0, 0, 0, 1))]),
        _ => IpAddr::V4(Ipv4Addr::new(192, 0, 2, 1 + r.below(3) as u8)),
    };
    SocketAddr::new(ip, port)
}
fn dst_like(src: &SocketAddr) -> SocketAddr {
    if src.is_ipv4() { "10.0.0.1:25565".parse().unwrap() } else { "[fd00::1]:25565".parse().unwrap() }
}

// ------------------------------------------------------------------ the scripted client
struct Cl {
    s: TcpStream,
    enc: Option<Enc>,
    dec: Option<Dec>,
    buf: Vec<u8>,
    obs: Arc<Mutex<Obs>>,
    t0: Instant,
    in_config: bool,
    ka_echo: bool,
    /// PROXY header bytes held back so that they leave in ONE write with the first bytes of the session
    prefix: Vec<u8>,
    /// after the server closed: check that it really stopped reading (stalling behaviours only: real-time cost)
    probe_close: bool,
    /// real (not virtual) instant at which a status exchange completed
    done_real: Option<std::time::Instant>,
    secret: Option<Vec<u8>>,
}
fn now_ms(t0: Instant) -> u64 { (Instant::now() - t0).as_millis() as u64 }

impl Cl {
    fn closed(&mut self) { let t = now_ms(self.t0); let mut o = self.obs.lock().unwrap(); if o.closed.is_none() { o.closed = Some(t); } }
    async fn send_raw(&mut self, plain: &[u8]) -> bool {
        let mut w = plain.to_vec();
        if let Some(e) = self.enc.as_mut() { for b in w.chunks_mut(1) { e.encrypt_block_mut(GenericArray::from_mut_slice(b)); } }
        if !self.prefix.is_empty() { let mut p = std::mem::take(&mut self.prefix); p.extend_from_slice(&w); w = p; }
        self.s.write_all(&w).await.is_ok()
    }
    async fn send_frame(&mut self, id: i32, body: &[u8]) -> bool { let f = frame_bytes(id, body); self.send_raw(&f).await }
    /// read more bytes; false on EOF or reset
    async fn fill(&mut self) -> bool {
        let mut tmp = [0u8; 4096];
        match self.s.read(&mut tmp).await {
            Ok(0) | Err(_) => { self.closed(); false }
            Ok(n) => {
                let mut p = tmp[..n].to_vec();
                if let Some(d) = self.dec.as_mut() { for b in p.chunks_mut(1) { d.decrypt_block_mut(GenericArray::from_mut_slice(b)); } }
                self.obs.lock().unwrap().bytes += n as u64;
                self.buf.extend_from_slice(&p);
                true
            }
        }
    }
    fn take_frame(&mut self) -> Option<(i32, Vec<u8>)> {
        let (len, n1) = get_varint(&self.buf)?;
        if self.buf[n1 - 1] & 0x80 != 0 { return None; }
        if len <= 0 || self.buf.len() < n1 + len as usize { return None; }
        let inner = self.buf[n1..n1 + len as usize].to_vec();
        self.buf.drain(..n1 + len as usize);
        let (id, n2) = get_varint(&inner)?;
        Some((id, inner[n2..].to_vec()))
    }
    async fn recv_frame(&mut self) -> Option<(i32, Vec<u8>)> {
        loop {
            if let Some(f) = self.take_frame() {
                if self.in_config { self.on_config_frame(&f).await; }
                return Some(f);
            }
            if !self.fill().await { return None; }
        }
    }
    async fn on_config_frame(&mut self, f: &(i32, Vec<u8>)) {
        if f.0 == 0x04 && f.1.len() == 8 && self.ka_echo { let b = f.1.clone(); self.send_frame(0x04, &b).await; }
        if f.0 == 0x0B { let t = now_ms(self.t0); let mut o = self.obs.lock().unwrap(); o.transfer = true; o.done = Some(t); }
        if f.0 == 0x0A {
            // Store Cookie: key, payload
            let mut o = 0usize;
            let rd = |o: &mut usize| -> Option<Vec<u8>> { let (l, n) = get_varint(&f.1[*o..])?; *o += n; let v = f.1.get(*o..*o + l as usize)?.to_vec(); *o += l as usize; Some(v) };
            if let (Some(key), Some(payload)) = (rd(&mut o), rd(&mut o)) {
                if key == b"passage:authentication" {
                    if let Some(sec) = &self.secret {
                        let (ok, msg) = verify(&payload, sec);
                        if ok { if let Ok(c) = serde_json::from_slice::<AuthCookie>(msg) { self.obs.lock().unwrap().cookie_addr = Some(c.client_addr); } }
                    }
                }
            }
        }
    }
    async fn wait_frame(&mut self, want: i32) -> Option<Vec<u8>> {
        loop { let (id, body) = self.recv_frame().await?; if id == want { return Some(body); } }
    }
    /// read until the server closes (keep-alives are answered iff ka_echo)
    async fn drain(&mut self) {
        while self.recv_frame().await.is_some() {}
        if !self.probe_close { return; }
        // the server has closed its side.  Is it really gone?  A closed socket answers further data with a reset;
        // a server that merely stopped writing but keeps reading (a lingering close) swallows it.
        let mut still_reading = true;
        for _ in 0..3 {
            if self.s.write_all(&[0u8; 32]).await.is_err() { still_reading = false; break; }
            std::thread::sleep(std::time::Duration::from_millis(12));
        }
        if still_reading { self.obs.lock().unwrap().closed = None; }
    }
}

fn handshake_body(host: &str, next: i32) -> Vec<u8> {
    let mut b = Vec::new();
    put_varint(&mut b, 769);
    put_string(&mut b, host.as_bytes());
    b.extend_from_slice(&25565u16.to_be_bytes());
    put_varint(&mut b, next);
    b
}
/// a status handshake whose frame declares exactly `n` bytes (n >= 30): the host is padded
fn big_handshake(prefix: &str, n: usize) -> Vec<u8> {
    // declared = 1 (id) + 2 (769) + strlen varint + host + 2 (port) + 1 (next)
    for pad in 0..n {
        let host = format!("{}y{}", prefix, "z".repeat(pad));
        let f = frame_bytes(0, &handshake_body(&host, 1));
        let (decl, _) = get_varint(&f).unwrap();
        if decl as usize == n { return f; }
        if decl as usize > n { break; }
    }
    panic!("cannot build a handshake of {} bytes", n);
}
fn client_info_body() -> Vec<u8> {
    let mut b = Vec::new();
    put_string(&mut b, b"en_us");
    b.push(8); put_varint(&mut b, 0); b.push(1); b.push(0x7f); put_varint(&mut b, 1); b.push(0); b.push(1); put_varint(&mut b, 0);
    b
}
fn cookie_resp(key: &str, payload: Option<&[u8]>) -> Vec<u8> {
    let mut b = Vec::new();
    put_string(&mut b, key.as_bytes());
    match payload { Some(p) => { b.push(1); put_string(&mut b, p); } None => b.push(0) }
    b
}

async fn pace(ms: u64) { if ms > 0 { tokio::time::sleep(Duration::from_millis(ms)).await; } }

/// login steps 1..=upto (see Beh::StopAt); false when the server closed on the way
async fn login_steps(c: &mut Cl, host: &str, next: i32, upto: u32, gap: u64, auth_cookie: Option<Vec<u8>>, cs: &ConnScript) -> bool {
    if upto < 1 { return true; }
    if !c.send_frame(0, &handshake_body(host, next)).await { return false; }
    pace(gap).await;
    if upto < 2 { return true; }
    let mut ls = Vec::new();
    put_string(&mut ls, format!("P{}", cs.id).as_bytes());
    ls.extend_from_slice(&(cs.id as u128 + 1000).to_be_bytes());
    if !c.send_frame(0, &ls).await { return false; }
    if c.wait_frame(0x05).await.is_none() { return false; }
    pace(gap).await;
    if upto < 3 { return true; }
    if !c.send_frame(4, &cookie_resp("passage:session", None)).await { return false; }
    if next == 3 && c.secret.is_some() {
        if c.wait_frame(0x05).await.is_none() { return false; }
        if !c.send_frame(4, &cookie_resp("passage:authentication", auth_cookie.as_deref())).await { return false; }
    }
    let Some(er) = c.wait_frame(0x01).await else { return false };
    // EncryptionRequest: server id, public key, verify token, should_authenticate
    let mut o = 0usize;
    let rd = |o: &mut usize| -> Option<Vec<u8>> { let (l, n) = get_varint(&er[*o..])?; *o += n; let v = er.get(*o..*o + l as usize)?.to_vec(); *o += l as usize; Some(v) };
    let (_sid, _pk, tok) = (rd(&mut o), rd(&mut o), rd(&mut o));
    c.obs.lock().unwrap().flag = er.get(o).map(|b| *b == 1);
    pace(gap).await;
    if upto < 4 { return true; }
    let ss: Vec<u8> = (0..16).map(|i| (cs.id as u8).wrapping_mul(31).wrapping_add(i)).collect();
    let ct_ss = crypto::encrypt(&crypto::KEY_PAIR.1, &ss).unwrap();
    let ct_tk = crypto::encrypt(&crypto::KEY_PAIR.1, &tok.unwrap_or_default()).unwrap();
    let mut body = Vec::new();
    put_string(&mut body, &ct_ss);
    put_string(&mut body, &ct_tk);
    if !c.send_frame(1, &body).await { return false; }
    c.enc = Some(Enc::new_from_slices(&ss, &ss).unwrap());
    c.dec = Some(Dec::new_from_slices(&ss, &ss).unwrap());
    if c.wait_frame(0x02).await.is_none() { return false; }
    c.in_config = true;
    pace(gap).await;
    if upto < 5 { return true; }
    if !c.send_frame(3, &[]).await { return false; }
    pace(gap).await;
    if upto < 6 { return true; }
    c.send_frame(0, &client_info_body()).await
}

/// a probe whose status exchange takes longer than this in REAL time counts as not served (something blocked the runtime)
const PROBE_REAL_BOUND_MS: u64 = 1500;

async fn status_exchange(c: &mut Cl, first: Vec<u8>) {
    if !c.send_raw(&first).await { c.drain().await; return; }
    if !c.send_frame(0, &[]).await { c.drain().await; return; }
    if c.wait_frame(0x00).await.is_none() { return; }
    c.obs.lock().unwrap().status = true;
    if !c.send_frame(1, &7u64.to_be_bytes()).await { c.drain().await; return; }
    if c.wait_frame(0x01).await.is_none() { return; }
    let t = now_ms(c.t0);
    c.obs.lock().unwrap().done = Some(t);
    c.done_real = Some(std::time::Instant::now());
    c.drain().await;
}

async fn client(t0: Instant, port: u16, cs: ConnScript, cfg: Cfg, obs: Arc<Mutex<Obs>>) {
    tokio::time::sleep_until(t0 + Duration::from_millis(cs.arrive)).await;
    let sock = TcpSocket::new_v4().unwrap();
    if cs.beh == Beh::NoRead { let _ = sock.set_recv_buffer_size(4096); }
    sock.bind(SocketAddr::new(IpAddr::V4(cs.peer_ip), 0)).unwrap();
    obs.lock().unwrap().peer_port = sock.local_addr().unwrap().port();
    let Ok(s) = sock.connect(SocketAddr::new(IpAddr::V4(Ipv4Addr::LOCALHOST), port)).await else { return };
    let _ = s.set_nodelay(true);
    obs.lock().unwrap().connected = true;
    let mut c = Cl { s, enc: None, dec: None, buf: vec![], obs, t0, in_config: false, ka_echo: false, prefix: vec![],
                     probe_close: matches!(cs.beh, Beh::Silent | Beh::MidFrame | Beh::StopAt(_)) && cs.id % 3 == 0, done_real: None,
                     secret: cfg.secret.clone().map(String::into_bytes) };
    match &cs.hdr {
        Hdr::None => {}
        Hdr::Full { delay, bytes, .. } => {
            pace(*delay).await;
            // every second talkative client sends its header and the first bytes of its session in one segment
            let talkative = matches!(cs.beh, Beh::Status | Beh::Login { .. } | Beh::Probe | Beh::StopAt(_) | Beh::MidFrame | Beh::KaForever);
            if talkative && cs.id % 2 == 0 { c.prefix = bytes.clone(); }
            else if !c.send_raw(bytes).await { c.drain().await; return; }
        }
        Hdr::Partial { delay, bytes, eof } => {
            pace(*delay).await;
            let _ = c.send_raw(bytes).await;
            if let Some(e) = eof {
                tokio::time::sleep_until(t0 + Duration::from_millis(cs.arrive + e)).await;
                let _ = c.s.shutdown().await;
            }
            c.drain().await;
            return;
        }
    }
    let host = format!("c{}x{}x{}", cs.id, cs.lat, if cs.beh == Beh::KaForever || cs.beh == Beh::StopAt(6) { 1 } else { 0 });
    match cs.beh.clone() {
        Beh::Silent => c.drain().await,
        Beh::Drip => {
            let f = [frame_bytes(0, &handshake_body(&format!("{}y{}", host, "d".repeat(70)), 1)), frame_bytes(0, &[])].concat();
            // the reader half keeps watching for the close while the writer half drips
            let (mut rd, mut wr) = c.s.into_split();
            let (o2, t02) = (c.obs.clone(), t0);
            let dripper = tokio::spawn(async move {
                for b in f { if wr.write_all(&[b]).await.is_err() { break; } tokio::time::sleep(Duration::from_secs(1)).await; }
                std::future::pending::<()>().await;
            });
            let mut tmp = [0u8; 256];
            loop {
                match rd.read(&mut tmp).await {
                    Ok(0) | Err(_) => { let t = now_ms(t02); let mut o = o2.lock().unwrap(); if o.closed.is_none() { o.closed = Some(t); } break; }
                    Ok(n) => { o2.lock().unwrap().bytes += n as u64; }
                }
            }
            dripper.abort();
        }
        Beh::MidFrame => {
            let f = frame_bytes(0, &handshake_body(&host, 2));
            let _ = c.send_raw(&f[..f.len() / 2]).await;
            c.drain().await;
        }
        Beh::StopAt(k) => { let _ = login_steps(&mut c, &host, 2, k, 0, None, &cs).await; c.drain().await; }
        Beh::Probe => {
            // the probe's exchange is also timed in REAL time: under the paused clock it takes a few milliseconds unless
            // something blocks the runtime thread itself (a blocking call in another connection's path)
            let real = std::time::Instant::now();
            let f = frame_bytes(0, &handshake_body(&host, 1));
            status_exchange(&mut c, f).await;
            if c.done_real.map(|d| d.duration_since(real)).unwrap_or_default() > std::time::Duration::from_millis(PROBE_REAL_BOUND_MS) {
                let mut o = c.obs.lock().unwrap(); o.done = None; o.status = false;
            }
        }
        Beh::Status | Beh::Late => { let f = frame_bytes(0, &handshake_body(&host, 1)); status_exchange(&mut c, f).await; }
        Beh::NoRead => {
            let f = frame_bytes(0, &handshake_body(&format!("{}xH", host), 1));
            if c.send_raw(&f).await && c.send_frame(0, &[]).await {
                tokio::time::sleep_until(t0 + Duration::from_millis(cs.arrive + cfg.timeout_s * 1000 + 700)).await;
                // now read whatever comes, counting raw bytes, until the server's close
                let mut tmp = vec![0u8; 1 << 16];
                let mut total = 0usize;
                loop {
                    match c.s.read(&mut tmp).await {
                        Ok(0) | Err(_) => break,
                        Ok(n) => { total += n; }
                    }
                }
                let mut o = c.obs.lock().unwrap();
                o.bytes = total as u64;
                // The instant of the server's close cannot be observed behind unread data (the FIN is queued after it).
                // What can: the stream ended, and it ended with what the socket buffers held when the deadline fired -
                // a server that had gone on writing after its deadline would have delivered the whole response once
                // the client started to read.  Truncated + ended = closed at the deadline; complete = never closed in time.
                o.closed = if total >= HUGE { None } else { Some(cs.arrive + cfg.timeout_s * 1000) };
            } else { c.drain().await; }
        }
        Beh::Big(n) => { let f = big_handshake(&host, n); status_exchange(&mut c, f).await; }
        Beh::Login { pace: gap } => {
            c.ka_echo = true;
            let _ = login_steps(&mut c, &host, 2, 6, gap, None, &cs).await;
            c.drain().await;
        }
        Beh::KaForever => { c.ka_echo = true; let _ = login_steps(&mut c, &host, 2, 6, 0, None, &cs).await; c.drain().await; }
        Beh::Cookie { age, good } => {
            let sec = if good { cfg.secret.clone().unwrap_or_default().into_bytes() } else { b"another secret".to_vec() };
            let ck = AuthCookie {
                timestamp: (FIXED_NOW as i64 - age) as u64,
                client_addr: SocketAddr::new(cs.eff_ip, 4242),
                user_name: format!("Cookie{}", cs.id), user_id: Uuid::from_u128(cs.id as u128 + 5000),
                target: None, profile_properties: vec![], extra: Default::default(),
            };
            let signed = sign(&serde_json::to_vec(&ck).unwrap(), &sec);
            // stop right after the EncryptionRequest (its flag is the observation), then close
            let _ = login_steps(&mut c, &host, 3, 3, 0, Some(signed), &cs).await;
            let _ = c.s.shutdown().await;
            c.drain().await;
        }
    }
}

// ------------------------------------------------------------------ one run
#[derive(Clone, Copy, PartialEq, Debug)]
enum StopKind { Token, Sigint, SigintTwice }

struct Run { obs: Vec<Obs>, ret: Option<u64>, seen: HashMap<i64, SocketAddr> }

/// the family whose cases are being generated (for the watchdog, which has to print a case on its own)
static CUR_FAM: Mutex<&'static str> = Mutex::new("?");
/// the longest real time the runtime thread may stay away from the heartbeat in a run with a probe
const LAG_BOUND_MS: u64 = 2500;
static MAX_LAG_MS: std::sync::atomic::AtomicU64 = std::sync::atomic::AtomicU64::new(0);
/// real seconds one case may take before the runtime thread is considered blocked for good
const WATCHDOG_S: u64 = 60;

fn free_port() -> u16 {
    let l = std::net::TcpListener::bind("127.0.0.1:0").unwrap();
    l.local_addr().unwrap().port()
}

fn run_case(mode: u8, cfg: &Cfg, conns: &[ConnScript], stop: Option<(u64, StopKind)>, end_ms: u64) -> Run {
    let rt = tokio::runtime::Builder::new_current_thread().enable_all().start_paused(true).build().unwrap();
    passage_protocol::verif::CLOCK_OVERRIDE.store(FIXED_NOW, std::sync::atomic::Ordering::SeqCst);
    let local = tokio::task::LocalSet::new();
    let (cfg, conns) = (cfg.clone(), conns.to_vec());
    local.block_on(&rt, async move {
        let t0 = Instant::now();
        // the heartbeat keeps the paused clock moving in 1 ms steps - and measures the longest REAL time the runtime thread
        // stayed away from it: a blocking call in any connection's path (a blocking close, a sleep, a contended lock) stalls
        // every other connection for exactly that long
        let lag = Arc::new(std::sync::atomic::AtomicU64::new(0));
        let lag2 = lag.clone();
        let heartbeat = tokio::spawn(async move {
            let mut last = std::time::Instant::now();
            loop {
                tokio::time::sleep(Duration::from_millis(1)).await;
                let now = std::time::Instant::now();
                lag2.fetch_max(now.duration_since(last).as_millis() as u64, std::sync::atomic::Ordering::Relaxed);
                last = now;
            }
        });
        let port = free_port();
        let token = CancellationToken::new();
        let ret: Arc<Mutex<Option<u64>>> = Arc::new(Mutex::new(None));
        let ads = Ads::default();
        let proxy = cfg.proxy.map(|(a1, a2)| ParseConfig { include_tlvs: false, allow_v1: a1, allow_v2: a2 });
        let server = if mode == 0 || mode == 2 {
            let a = Arc::new(ads.clone());
            let limiter = cfg.lim.map(|(limit, d)| RateLimiter::<IpAddr>::new(Duration::from_secs(d), limit));
            let mut listener = Listener::new(a.clone(), a.clone(), a.clone(), a.clone(), a.clone(), a.clone())
                .with_rate_limiter(limiter)
                .with_auth_secret(cfg.secret.clone().map(String::into_bytes))
                .with_connection_timeout(Duration::from_secs(cfg.timeout_s))
                .with_proxy_protocol(proxy)
                .with_max_packet_length(cfg.max as i32)
                .with_auth_cookie_expiry(cfg.expiry);
            let (tk, r2) = (token.clone(), ret.clone());
            let relisten = mode == 2;
            tokio::task::spawn_local(async move {
                if relisten {
                    // a Listener that has been run and stopped once before (nothing was connected): the run that is
                    // observed is its SECOND `listen`
                    let once = CancellationToken::new(); once.cancel();
                    let _ = listener.listen(("127.0.0.1", port), once).await;
                }
                let _ = listener.listen(("127.0.0.1", port), tk).await;
                *r2.lock().unwrap() = Some(now_ms(t0));
            })
        } else {
            use passage::config as pc;
            let mut config = pc::Config::default();
            config.address = format!("127.0.0.1:{}", port);
            config.timeout = cfg.timeout_s;
            config.max_packet_length = cfg.max;
            config.auth_cookie_expiry = cfg.expiry;
            config.auth_secret = cfg.secret.clone();
            config.rate_limiter = cfg.lim.map(|(limit, duration)| pc::RateLimiter { duration, limit });
            config.proxy_protocol = cfg.proxy.map(|(allow_v1, allow_v2)| pc::ProxyProtocol { allow_v1, allow_v2 });
            config.adapters.authentication = pc::AuthenticationAdapter::Fixed(pc::FixedAuthentication {
                profile: Profile { id: Uuid::from_u128(77), name: "Fixed".into(), properties: vec![], profile_actions: vec![] },
            });
            config.adapters.discovery = pc::DiscoveryAdapter::Fixed(pc::FixedDiscovery {
                targets: vec![Target { identifier: "t1".into(), address: "10.9.8.7:25565".parse().unwrap(), meta: HashMap::new() }],
            });
            let r2 = ret.clone();
            tokio::task::spawn_local(async move {
                let _ = passage::start(config).await;
                *r2.lock().unwrap() = Some(now_ms(t0));
            })
        };
        let mut cells = vec![];
        let mut tasks = vec![];
        for cs in conns.iter() {
            let o = Arc::new(Mutex::new(Obs::default()));
            cells.push(o.clone());
            tasks.push(tokio::spawn(client(t0, port, cs.clone(), cfg.clone(), o)));
        }
        // watchdog (a plain thread): a handler that blocks the runtime thread for good (a lock taken twice, a blocking
        // close) freezes this whole run.  After WATCHDOG_S real seconds the case is printed with what was observed until
        // then - nothing completed, nothing closed - and the process ends; the checker judges it like any other case.
        let finished = Arc::new(std::sync::atomic::AtomicBool::new(false));
        {
            let (fin, cells2, cfg2, conns2, log2) = (finished.clone(), cells.clone(), cfg.clone(), conns.clone(), ads.log.clone());
            let fam = *CUR_FAM.lock().unwrap();
            std::thread::spawn(move || {
                for _ in 0..(WATCHDOG_S * 10) {
                    std::thread::sleep(std::time::Duration::from_millis(100));
                    if fin.load(std::sync::atomic::Ordering::SeqCst) { return; }
                }
                let obs = cells2.iter().map(|c| c.lock().unwrap().clone()).collect();
                let mut seen = HashMap::new();
                if let Ok(l) = log2.try_lock() { for (id, _, a) in l.iter() { seen.entry(*id).or_insert(*a); } }
                let run = Run { obs, ret: None, seen };
                emit(fam, 0, &cfg2, &conns2, stop, end_ms, &run);
                emit_note("watchdog", "the runtime thread did not come back: case printed by the watchdog, run ended");
                use std::io::Write; let _ = std::io::stdout().flush();
                std::process::exit(0);
            });
        }
        if let Some((ts, kind)) = stop {
            tokio::time::sleep_until(t0 + Duration::from_millis(ts)).await;
            match kind {
                StopKind::Token => token.cancel(),
                StopKind::Sigint => {
                    // no libc dependency: let kill(1) raise SIGINT for this process
                    let _ = std::process::Command::new("kill").arg("-INT").arg(std::process::id().to_string()).status();
                }
                StopKind::SigintTwice => {
                    // an impatient operator: a second Ctrl-C 400 ms into the drain must not cut it short
                    let _ = std::process::Command::new("kill").arg("-INT").arg(std::process::id().to_string()).status();
                    tokio::time::sleep(Duration::from_millis(400)).await;
                    let _ = std::process::Command::new("kill").arg("-INT").arg(std::process::id().to_string()).status();
                }
            }
        }
        tokio::time::sleep_until(t0 + Duration::from_millis(end_ms)).await;
        finished.store(true, std::sync::atomic::Ordering::SeqCst);
        let returned = *ret.lock().unwrap();
        for t in &tasks { t.abort(); }
        token.cancel();
        server.abort();
        heartbeat.abort();
        let mut obs: Vec<Obs> = cells.iter().map(|c| c.lock().unwrap().clone()).collect();
        // no client could have been served while the runtime thread was away: a probe of a run in which it was away for
        // longer than the probe's own real-time bound counts as not served in time
        MAX_LAG_MS.fetch_max(lag.load(std::sync::atomic::Ordering::Relaxed), std::sync::atomic::Ordering::Relaxed);
        if lag.load(std::sync::atomic::Ordering::Relaxed) > LAG_BOUND_MS {
            for (o, c) in obs.iter_mut().zip(conns.iter()) { if c.beh == Beh::Probe { o.done = None; o.status = false; } }
        }
        let mut seen = HashMap::new();
        for (id, _, a) in ads.log.lock().unwrap().iter() { seen.entry(*id).or_insert(*a); }
        Run { obs, ret: returned, seen }
    })
}

// ------------------------------------------------------------------ printing a case
fn g_hdr(h: &Hdr, proxy: Option<(bool, bool)>) -> String {
    match h {
        Hdr::None => "LHNone".into(),
        Hdr::Full { delay, bytes, cls } => {
            let o = oracle(bytes, proxy).unwrap_or(None);
            format!("(LHFull {} {} {})", delay, cls, g_oracle(&o))
        }
        Hdr::Partial { delay, eof, .. } => format!("(LHPartial {} {})", delay, g_oz(*eof)),
    }
}
fn g_beh(b: &Beh) -> String {
    match b {
        Beh::Silent => "BSilent".into(), Beh::Drip => "BDrip".into(), Beh::MidFrame => "BMidFrame".into(),
        Beh::StopAt(k) => format!("(BStopAt {})", k), Beh::Status => "BStatus".into(), Beh::Probe => "BProbe".into(),
        Beh::Login { pace } => format!("(BLogin {})", pace), Beh::KaForever => "BKaForever".into(),
        Beh::Big(n) => format!("(BBig {})", n), Beh::Cookie { age, good } => format!("(BCookie {} {})", g_z(*age), g_bool(*good)),
        Beh::Late => "BLate".into(), Beh::NoRead => "BNoRead".into(),
    }
}
fn emit(family: &str, mode: u8, cfg: &Cfg, conns: &[ConnScript], stop: Option<(u64, StopKind)>, end_ms: u64, run: &Run) {
    let g_cfg = format!("(LCfg {} {} {} {} {} {} {})", cfg.max, cfg.expiry, g_opt(cfg.secret.as_ref().map(|s| g_str(s))), cfg.timeout_s * 1000,
        g_opt(cfg.lim.map(|(l, d)| format!("({}, {})", l, d))),
        g_opt(cfg.proxy.map(|(a, b)| format!("({}, {})", g_bool(a), g_bool(b)))), FIXED_NOW);
    let cs: Vec<String> = conns.iter().zip(run.obs.iter()).map(|(c, o)| {
        let peer = SocketAddr::new(IpAddr::V4(c.peer_ip), o.peer_port);
        format!("(LC {} {} {} {} {} {})", c.id, g_addr(&peer), c.arrive, g_hdr(&c.hdr, cfg.proxy), g_beh(&c.beh), g_oz(c.nat))
    }).collect();
    let os: Vec<String> = conns.iter().zip(run.obs.iter()).map(|(c, o)| {
        let seen = run.seen.get(&c.id).cloned().or(o.cookie_addr);
        format!("(LO {} {} {} {} {} {} {} {} {})", c.id, g_bool(o.connected), o.bytes, g_bool(o.status), g_bool(o.transfer),
                g_oz(o.closed), g_oz(o.done), g_opt(seen.as_ref().map(g_addr)), g_opt(o.flag.map(g_bool)))
    }).collect();
    let term = format!("(LST {} {} {} {} {} {} {})", mode, g_cfg, g_list(&cs), g_oz(stop.map(|s| s.0)), g_list(&os), g_oz(run.ret), end_ms);
    emit_case(family, &term);
}

// ------------------------------------------------------------------ generators
struct Stats { counts: std::collections::BTreeMap<String, u64> }
impl Stats { fn hit(&mut self, k: &str) { *self.counts.entry(k.to_string()).or_insert(0) += 1; } }

fn plain(id: i64, k: u8, arrive: u64, beh: Beh, nat: Option<u64>) -> ConnScript {
    let ip = Ipv4Addr::new(127, 0, 0, k);
    ConnScript { id, peer_ip: ip, arrive, hdr: Hdr::None, beh, lat: 0, nat, eff_ip: IpAddr::V4(ip) }
}
fn nat_of(b: &Beh, lat: u64) -> Option<u64> {
    match b {
        Beh::Status | Beh::Probe | Beh::Big(_) | Beh::Cookie { .. } => Some(10),
        Beh::Login { pace } => Some(5 * pace + lat + 20),
        Beh::StopAt(k) if *k >= 5 => Some(32_000),
        _ => None,
    }
}
/// a header of a given kind for source `src`; returns (Hdr, effective ip if acceptable by construction)
fn mk_hdr(r: &mut Rng, kind: u32, src: &SocketAddr, delay: u64) -> Hdr {
    let dst = dst_like(src);
    match kind {
        0 => Hdr::Full { delay, bytes: proxy_v1(src, &dst), cls: format!("(HV1 (Some {}))", g_addr(src)) },
        1 => Hdr::Full { delay, bytes: proxy_v2(Some((src, &dst))), cls: format!("(HV2 (Some {}))", g_addr(src)) },
        2 => Hdr::Full { delay, bytes: b"PROXY UNKNOWN\r\n".to_vec(), cls: "(HV1 None)".into() },
        3 => Hdr::Full { delay, bytes: proxy_v2(None), cls: "(HV2 None)".into() },
        4 => {
            // malformed in several ways
            let bytes: Vec<u8> = match r.below(6) {
                0 => b"PROXY TCP4 300.1.1.1 10.0.0.1 1 2\r\n".to_vec(),
                1 => b"PROXX TCP4 1.2.3.4 10.0.0.1 1 2\r\n".to_vec(),
                2 => { let mut b = proxy_v2(Some((src, &dst))); b[5] ^= 0x40; b }
                3 => { let mut b = proxy_v2(Some((src, &dst))); b[12] = 0x31; b }
                4 => b"GET / HTTP/1.1\r\n\r\n".to_vec(),
                _ => b"PROXY TCP4 1.2.3.4 10.0.0.1 70000 2\r\n".to_vec(),
            };
            Hdr::Full { delay, bytes, cls: "HBad".into() }
        }
        // v2 with the DGRAM transport nibble: still a valid header announcing a source
        8 => { let mut b = proxy_v2(Some((src, &dst))); b[13] = (b[13] & 0xf0) | 0x02; Hdr::Full { delay, bytes: b, cls: format!("(HV2 (Some {}))", g_addr(src)) } }
        // absent: the client starts with its Minecraft handshake
        5 => Hdr::Full { delay, bytes: frame_bytes(0, &handshake_body("absent", 1)), cls: "HBad".into() },
        6 => { let b = proxy_v1(src, &dst); let n = 1 + r.below(b.len() as u64 - 2) as usize; Hdr::Partial { delay, bytes: b[..n].to_vec(), eof: None } }
        7 => { let b = proxy_v2(Some((src, &dst))); let n = 1 + r.below(b.len() as u64 - 2) as usize; Hdr::Partial { delay, bytes: b[..n].to_vec(), eof: Some(delay + 300 + r.below(5) * 100) } }
        _ => Hdr::None,
    }
}

/// a prefix of a header whose version is disabled is refused on its first byte: it is a complete
/// (invalid) header as far as the parser is concerned
fn normalize(h: Hdr, proxy: Option<(bool, bool)>) -> Hdr {
    match h {
        Hdr::Partial { delay, bytes, eof } => match oracle(&bytes, proxy) {
            Ok(_) => { let cls = if bytes[0] == b'P' { "(HV1 None)" } else { "(HV2 None)" }; Hdr::Full { delay, bytes, cls: cls.into() } }
            Err(()) => Hdr::Partial { delay, bytes, eof },
        },
        h => h,
    }
}

fn main() {
    let mut r = Rng::from_env();
    let scale: u64 = std::env::var("VERIF_SCALE").ok().and_then(|s| s.parse().ok()).unwrap_or(1);
    let only: Option<String> = std::env::var("VERIF_FAMILY").ok();
    let want = |f: &'static str| { let w = only.as_deref().map(|o| o.split(',').any(|x| x == f)).unwrap_or(true); if w { *CUR_FAM.lock().unwrap() = f; } w };
    let mut st = Stats { counts: Default::default() };
    let mut ncase = 0u64;

    // ---------------------------------------------------------------- C14 ENV: Config::read (file + secret file + environment)
    // what the operator wrote is what is read: secrets and numbers that look like something else (leading zeros, a sign,
    // an exponent, a boolean) - a source that "helpfully" re-types strings would alter them
    if want("ENV") {
        let dir = std::env::temp_dir().join(format!("passage-verif-env-{}", std::process::id()));
        let _ = std::fs::create_dir_all(&dir);
        let secrets = ["007", "+5", "1e3", "2.50", "TRUE", "false", "0x10", " padded ", "s3cret-with-\u{e9}", "1_000", "-0", "null"];
        for i in 0..(secrets.len() as u64 * scale.min(2)) {
            let sec = secrets[(i as usize) % secrets.len()].to_string();
            // (PASSAGE_AUTH_SECRET itself is never read - see the note below - so the secret always comes from the secret file)
            let via_file = true;
            let nums = [1 + r.below(120), 64 + r.below(20_000), r.below(100_000)];
            let sf = dir.join("auth_secret");
            unsafe {
                std::env::set_var("CONFIG_FILE", dir.join("absent").to_str().unwrap());
                std::env::set_var("PASSAGE_TIMEOUT", nums[0].to_string());
                // the Mojang server id through the environment (the field has the alias `serverid`)
                std::env::set_var("PASSAGE_ADAPTERS_AUTHENTICATION_MOJANG_SERVERID", secrets[((i + 5) as usize) % secrets.len()]);
                std::env::set_var("PASSAGE_MAX_PACKET_LENGTH", format!("{:05}", nums[1]));   // leading zeros
                std::env::set_var("PASSAGE_AUTH_COOKIE_EXPIRY", nums[2].to_string());
                if via_file {
                    std::fs::write(&sf, &sec).unwrap();
                    std::env::set_var("AUTH_SECRET_FILE", sf.to_str().unwrap());
                    std::env::remove_var("PASSAGE_AUTH_SECRET");
                } else {
                    std::env::set_var("AUTH_SECRET_FILE", dir.join("absent_secret").to_str().unwrap());
                    std::env::set_var("PASSAGE_AUTH_SECRET", &sec);
                }
            }
            let (got_sec, got) = match passage::config::Config::read() {
                Ok(c) => (c.auth_secret.unwrap_or_else(|| "<none>".into()), [c.timeout as i64, c.max_packet_length as i64, c.auth_cookie_expiry as i64]),
                Err(e) => (format!("<error {}>", e), [-1, -1, -1]),
            };
            // judged: the secret (secret file) and the timeout (environment).  NOT judged, only recorded: fields whose name
            // contains an underscore cannot be set through the environment at all - the source splits PASSAGE_MAX_PACKET_LENGTH
            // at every `_` into max.packet.length - which is outside what C14 states (it speaks of a configuration VALUE)
            let sid_set = secrets[((i + 5) as usize) % secrets.len()].to_string();
            let sid_got = match passage::config::Config::read() {
                Ok(c) => match c.adapters.authentication { passage::config::AuthenticationAdapter::Mojang(m) => m.server_id, _ => "<other adapter>".into() },
                Err(e) => format!("<error {}>", e),
            };
            emit_case("ENV", &format!("(ENVC [({}, {}); ({}, {})] {})", g_str(&sec), g_str(&got_sec), g_str(&sid_set), g_str(&sid_got),
                g_list(&nums.iter().zip(got.iter()).take(1).map(|(a, b)| format!("({}, {})", a, g_z(*b))).collect::<Vec<_>>())));
            if got[1] != nums[1] as i64 { st.hit("ENV.observation.max_packet_length_not_settable_through_the_environment"); }
            if got[2] != nums[2] as i64 { st.hit("ENV.observation.auth_cookie_expiry_not_settable_through_the_environment"); }
            st.hit(if via_file { "ENV.secret_file" } else { "ENV.environment" }); ncase += 1;
        }
        unsafe { for k in ["PASSAGE_ADAPTERS_AUTHENTICATION_MOJANG_SERVERID", "CONFIG_FILE", "PASSAGE_TIMEOUT", "PASSAGE_MAX_PACKET_LENGTH", "PASSAGE_AUTH_COOKIE_EXPIRY", "AUTH_SECRET_FILE", "PASSAGE_AUTH_SECRET"] { std::env::remove_var(k); } }
        let _ = std::fs::remove_dir_all(&dir);
    }

    // ---------------------------------------------------------------- C14 WIRE: passage::start, configured limits
    if want("WIRE") {
        for i in 0..(12 * scale) {
            // small maxima only carry the frame-length probes (a login does not fit into 64 bytes);
            // cookie and login probes run with a maximum of 1000 bytes or more
            let small = i % 3 == 0;
            let max = if small { if i == 0 { 64u64 } else { *r.pick(&[64u64, 100, 300]) } } else { *r.pick(&[1000u64, 10_000, 20_000]) };
            let expiry = if i % 3 == 1 { [100u64, 0, 1, 60][((i / 3) % 4) as usize] } else if i % 3 == 2 { 50_000 } else { *r.pick(&[1u64, 3600, 21_600, 86_400]) };
            let secret = format!("secret-{}", r.below(1000));
            let timeout_s = *r.pick(&[3u64, 5, 8]);
            let cfg = Cfg { max, expiry, secret: Some(secret), timeout_s, lim: None, proxy: None };
            let m = max as usize;
            let mut conns = vec![];
            let e = expiry as i64;
            let mut behs: Vec<Beh> = [m, m + 1, m - 1, m + 37].iter().map(|n| Beh::Big(*n)).collect();
            if !small {
                for (age, good) in [(e, true), (e + 1, true), (e - 1, true), (0, true), (e / 2, false), (30_000, true), (200, true)] {
                    behs.push(Beh::Cookie { age, good });
                }
                behs.push(Beh::Login { pace: 0 });
            }
            behs.extend([Beh::Silent, Beh::StopAt(2)]);
            let mut t = 50;
            for (j, b) in behs.into_iter().enumerate() {
                let id = j as i64 + 1;
                conns.push(plain(id, 2 + (j % 3) as u8, t, b.clone(), nat_of(&b, 0)));
                t += 150;
            }
            let end = t + timeout_s * 1000 + 600;
            let run = run_case(1, &cfg, &conns, None, end);
            emit("WIRE", 1, &cfg, &conns, None, end, &run);
            st.hit(&format!("WIRE.max={}", max)); st.hit(&format!("WIRE.expiry={}", expiry)); ncase += 1;
        }
    }

    // ---------------------------------------------------------------- C14 DL: the deadline under every client behaviour
    if want("DL") {
        for i in 0..(48 * scale) {
            let timeout_s = [3u64, 10, 20, 40][(i % 4) as usize];
            let proxy = if i % 2 == 0 { None } else { Some((true, true)) };
            let cfg = Cfg { max: 10_000, expiry: 21_600, secret: None, timeout_s, lim: None, proxy };
            let mut behs = vec![Beh::Silent, Beh::Drip, Beh::MidFrame, Beh::KaForever, Beh::Status];
            for k in 1..=6 { behs.push(Beh::StopAt(k)); }
            let mut conns = vec![];
            let mut t = 40 + r.below(50);
            for (j, b) in behs.into_iter().enumerate() {
                let id = j as i64 + 1;
                let mut c = plain(id, 2 + (j % 3) as u8, t, b.clone(), nat_of(&b, 0));
                if proxy.is_some() {
                    let src = rnd_src(&mut r, 8);
                    c.hdr = mk_hdr(&mut r, (j % 4) as u32, &src, 0);
                    if j % 4 < 2 { c.eff_ip = src.ip(); }
                }
                conns.push(c);
                t += 130 + r.below(5) * 10;
                st.hit(&format!("DL.beh={}", g_beh(&b).trim_matches(|c| c == '(' || c == ')').split(' ').next().unwrap()));
            }
            if proxy.is_some() {
                // stall before and inside the header: the header wait counts against the deadline
                let src = rnd_src(&mut r, 8);
                let mut c = plain(20, 3, t, Beh::Silent, None); c.hdr = Hdr::None; conns.push(c); t += 140;
                let mut c = plain(21, 4, t, Beh::Silent, None); c.hdr = mk_hdr(&mut r, 6, &src, 0); conns.push(c); t += 140;
                st.hit("DL.stall_in_header");
                // a complete, valid header delivered late in the budget, then silence: still ONE deadline
                let src2 = rnd_src(&mut r, 5);
                let mut c = plain(22, 2, t, Beh::Silent, None); c.hdr = mk_hdr(&mut r, (i % 2) as u32, &src2, timeout_s * 700); c.eff_ip = src2.ip(); conns.push(c); t += 140;
                let mut c = plain(23, 3, t, Beh::MidFrame, None); c.hdr = mk_hdr(&mut r, ((i + 1) % 2) as u32, &src2, timeout_s * 900); c.eff_ip = src2.ip(); conns.push(c); t += 140;
                st.hit("DL.late_header_then_stall");
            }
            if i % 8 == 0 && proxy.is_none() {
                let c = plain(30, 4, t, Beh::NoRead, None); conns.push(c); t += 140;
                st.hit("DL.response_larger_than_the_buffers_unread");
            }
            let end = t + timeout_s * 1000 + 1500;
            let run = run_case(0, &cfg, &conns, None, end);
            emit("DL", 0, &cfg, &conns, None, end, &run);
            st.hit(&format!("DL.timeout={}", timeout_s)); st.hit(&format!("DL.proxy={}", proxy.is_some())); ncase += 1;
        }
    }

    // ---------------------------------------------------------------- C15 ADM: admission on the effective address
    if want("ADM") {
        for i in 0..(60 * scale) {
            let proxy = match i % 6 { 0 => None, 1 | 2 => Some((true, true)), 3 => Some((true, false)), 4 => Some((false, true)), _ => if (i / 6) % 2 == 0 { Some((false, false)) } else { Some((true, true)) } };
            let limit = 1 + r.below(3) as usize;
            // a long window (no roll inside the run) or a short one with attempts kept away from the boundaries
            let dur = if r.chance(2, 3) { 60 } else { 2 };
            let lim = if i % 8 == 7 { None } else { Some((limit, dur)) };
            let with_secret = i % 3 == 0;
            let cfg = Cfg { max: 10_000, expiry: 21_600, secret: if with_secret { Some("adm-secret".into()) } else { None }, timeout_s: 4, lim, proxy };
            // heavy: few sources, mostly valid headers, many connections (the limiter has to refuse)
            let heavy = i % 2 == 0;
            let n = if heavy { 5 + r.below(8) as usize } else { 1 + r.below(12) as usize };
            let mut conns = vec![];
            let mut t = 60 + r.below(40);
            for j in 0..n {
                let id = j as i64 + 1;
                let beh = if with_secret && r.chance(1, 3) { Beh::Login { pace: 0 } } else { Beh::Status };
                let mut c = plain(id, 2 + r.below(3) as u8, t, beh.clone(), nat_of(&beh, 0));
                if proxy.is_some() {
                    let src = rnd_src(&mut r, if heavy { 1 + (i / 2 % 2) as usize } else { 8 });
                    let kind = if heavy { *r.pick(&[0u32, 0, 0, 0, 1, 1, 1, 8, 2, 4]) } else { *r.pick(&[0u32, 0, 0, 1, 1, 8, 2, 3, 4, 5, 6, 7, 8]) };
                    let hd = *r.pick(&[0u64, 0, 30]);
                    c.hdr = normalize(mk_hdr(&mut r, kind, &src, hd), proxy);
                    st.hit(&format!("ADM.hdr_kind={}", kind));
                    if kind < 2 || kind == 8 { c.eff_ip = src.ip(); }
                    if let Hdr::Partial { .. } = c.hdr { c.nat = None; }
                    if proxy.is_none() { c.hdr = Hdr::None; }
                } else if r.chance(1, 4) {
                    // PROXY disabled: a client that sends a header anyway is just a bad Minecraft client
                    st.hit("ADM.header_while_disabled");
                }
                conns.push(c);
                // arrivals 250 ms apart by default; with the 2 s window step over the roll boundaries
                t += if dur == 2 { *r.pick(&[250u64, 250, 500, 2700, 4600]) } else { 250 };
            }
            // keep every attempt at least 25 ms away from the window boundaries (1 and 2 durations
            // after an earlier attempt): there the limiter's answer would hinge on a millisecond
            if dur == 2 {
                let at = |c: &ConnScript| c.arrive + match &c.hdr { Hdr::Full { delay, .. } => *delay, _ => 0 };
                for j in 1..conns.len() {
                    for _ in 0..2 {
                        let tj = at(&conns[j]);
                        let near = conns[..j].iter().any(|p| { let d = tj - at(p); [2000u64, 4000].iter().any(|b| d.abs_diff(*b) < 25) });
                        if near { conns[j].arrive += 60; st.hit("ADM.moved_off_boundary"); }
                    }
                }
            }
            let end = t + 4000 + 600;
            // the single-version PROXY configurations also through the application's own configuration mapping
            let mode = if matches!(i % 6, 3 | 4) && (i / 6) % 2 == 1 { 1 } else { 0 };
            let run = run_case(mode, &cfg, &conns, None, end);
            emit("ADM", mode, &cfg, &conns, None, end, &run);
            st.hit(&format!("ADM.mode={}", mode));
            st.hit(&format!("ADM.proxy={:?}", proxy)); st.hit(&format!("ADM.lim={:?}", lim.map(|l| l.0))); st.hit(&format!("ADM.n={}", n)); ncase += 1;
        }
    }

    // ADM, directed: (a) headers that never complete (the wait times out) through one balancer peer, then - inside the
    // limiter's window - connections whose EFFECTIVE address is that peer's own address (a header announcing no address,
    // a header announcing exactly that address): nothing has been charged to it; (b) more address-less headers through
    // one peer than the limit allows: they are charged to the peer's address like any other connection from it
    if want("ADM") {
        for i in 0..(2 * scale) {
            let limit = 1 + (i % 3) as usize;
            let cfg = Cfg { max: 10_000, expiry: 21_600, secret: None, timeout_s: 4, lim: Some((limit, 60)), proxy: Some((true, true)) };
            let k = 2 + (i % 3) as u8;
            let peer: SocketAddr = format!("127.0.0.{}:4100", k).parse().unwrap();
            let other = rnd_src(&mut r, 8);
            let mut conns = vec![];
            let mut t = 60 + r.below(40);
            let mut id = 1i64;
            if i % 2 == 0 {
                for _ in 0..(limit + 1) {
                    let mut c = plain(id, k, t, Beh::Silent, None); id += 1;
                    c.hdr = if r.chance(1, 2) { Hdr::None } else { normalize(mk_hdr(&mut r, 6, &other, 0), cfg.proxy) };
                    if let Hdr::Full { .. } = c.hdr { c.hdr = Hdr::None; }
                    conns.push(c); t += 120;
                }
                t += 4000 + 300;   // every header wait above has timed out
                for kind in [2u32, 3, 0, 1] {
                    if (kind < 2) && conns.iter().filter(|c| c.nat.is_some()).count() >= limit { break; }
                    let mut c = plain(id, k, t, Beh::Status, nat_of(&Beh::Status, 0)); id += 1;
                    c.hdr = mk_hdr(&mut r, kind, &peer, 0);
                    c.eff_ip = peer.ip();
                    conns.push(c); t += 250;
                }
                st.hit("ADM.directed=timed_out_headers_then_peer_address");
            } else {
                for j in 0..(limit + 3) {
                    let mut c = plain(id, k, t, Beh::Status, nat_of(&Beh::Status, 0)); id += 1;
                    c.hdr = mk_hdr(&mut r, 2 + (j % 2) as u32, &other, 0);
                    conns.push(c); t += 250;
                }
                st.hit("ADM.directed=addressless_headers_over_the_limit");
            }
            let end = t + 4000 + 600;
            let run = run_case(0, &cfg, &conns, None, end);
            emit("ADM", 0, &cfg, &conns, None, end, &run);
            ncase += 1;
        }
    }

    // ---------------------------------------------------------------- C16 STALL: k stalled clients, one probe
    if want("STALL") {
        let points = ["pre_header", "in_header", "mid_frame", "mid_login", "no_keepalive", "drip"];
        for i in 0..(36 * scale) {
            let point = points[(i % 6) as usize];
            let proxy_on = i % 6 < 2 || (i / 6) % 2 == 1;
            let proxy = if proxy_on { Some((true, true)) } else { None };
            let lim = if (i / 12) % 2 == 1 { Some((4usize, 60u64)) } else { None };
            let cfg = Cfg { max: 10_000, expiry: 21_600, secret: None, timeout_s: 6, lim, proxy };
            let k = 1 + r.below(4) as usize;
            let mut conns = vec![];
            let mut t = 50 + r.below(30);
            for j in 0..k {
                let id = j as i64 + 1;
                let src = rnd_src(&mut r, 8);
                let beh = match point { "mid_frame" => Beh::MidFrame, "mid_login" => Beh::StopAt(2 + r.below(3) as u32), "no_keepalive" => Beh::StopAt(5 + r.below(2) as u32), "drip" => Beh::Drip, _ => Beh::Silent };
                let mut c = plain(id, 2 + (j % 3) as u8, t, beh, None);
                if proxy_on {
                    c.hdr = match point { "pre_header" => Hdr::None, "in_header" => mk_hdr(&mut r, 6, &src, 0), _ => { c.eff_ip = src.ip(); mk_hdr(&mut r, (j % 2) as u32, &src, 0) } };
                }
                conns.push(c);
                t += 120;
            }
            // the probe uses its own source address
            let psrc: SocketAddr = "198.18.0.9:4000".parse().unwrap();
            let mut p = plain(99, 5, t + 200, Beh::Probe, Some(10));
            if proxy_on { p.hdr = mk_hdr(&mut r, (i % 2) as u32, &psrc, 0); p.eff_ip = psrc.ip(); }
            conns.push(p);
            let end = t + 200 + 6000 + 600;
            let run = run_case(0, &cfg, &conns, None, end);
            emit("STALL", 0, &cfg, &conns, None, end, &run);
            st.hit(&format!("STALL.point={}", point)); st.hit(&format!("STALL.k={}", k)); st.hit(&format!("STALL.proxy={}", proxy_on)); st.hit(&format!("STALL.lim={}", lim.is_some())); ncase += 1;
        }
    }

    // rejected connections right before the probe: turning clients away must cost the others nothing
    if want("STALL") {
        for i in 0..2u64 {
            let cfg = Cfg { max: 10_000, expiry: 21_600, secret: None, timeout_s: 6, lim: Some((1, 60)), proxy: None };
            let mut conns = vec![];
            let t = 50 + 10 * i;
            // one admitted attempt of an address; later, at ONE instant, the probe of another address followed by four
            // attempts of the first address, all refused while the probe's exchange is in flight
            let b = Beh::Status;
            conns.push(plain(1, 3, t, b.clone(), nat_of(&b, 0)));
            conns.push(plain(99, 5, t + 70, Beh::Probe, Some(10)));
            for j in 0..4u64 { conns.push(plain(j as i64 + 2, 3, t + 70, b.clone(), nat_of(&b, 0))); }
            let end = t + 70 + 6000 + 600;
            let run = run_case(0, &cfg, &conns, None, end);
            emit("STALL", 0, &cfg, &conns, None, end, &run);
            st.hit("STALL.rejected_before_probe"); ncase += 1;
        }
    }

    // a stalled client that leaves a large response unread (what the server still had queued for it when its deadline
    // fired must not make the close wait), and a crowd of 20 clients stalled right after authentication next to a client
    // that logs in normally (anything handed out per authentication must be given back before the client is waited for)
    if want("STALL") {
        let cfg = Cfg { max: 10_000, expiry: 21_600, secret: None, timeout_s: 6, lim: None, proxy: None };
        let mut conns = vec![plain(1, 2, 50, Beh::NoRead, None), plain(99, 5, 50 + 6000 - 40, Beh::Probe, Some(10))];
        let end = 50 + 6000 + 6000 + 600;
        let run = run_case(0, &cfg, &conns, None, end);
        emit("STALL", 0, &cfg, &conns, None, end, &run);
        st.hit("STALL.unread_response_at_the_deadline"); ncase += 1;
        conns.clear();
        let mut t = 50;
        for j in 0..20i64 { conns.push(plain(j + 1, 2 + (j % 3) as u8, t, Beh::StopAt(5), nat_of(&Beh::StopAt(5), 0))); t += 20; }
        let b = Beh::Login { pace: 0 };
        conns.push(plain(98, 5, t + 200, b.clone(), nat_of(&b, 0)));
        conns.push(plain(99, 5, t + 260, Beh::Probe, Some(10)));
        let end = t + 260 + 6000 + 600;
        let run = run_case(0, &cfg, &conns, None, end);
        emit("STALL", 0, &cfg, &conns, None, end, &run);
        st.hit("STALL.crowd_stalled_after_authentication"); ncase += 1;
    }

    // one crowd case: 600 clients stalled (half silent, half inside a frame) must not delay the probe either
    // (an accept loop that stops accepting above some number of open connections)
    if want("STALL") {
        let cfg = Cfg { max: 10_000, expiry: 21_600, secret: None, timeout_s: 6, lim: None, proxy: None };
        let mut conns = vec![];
        let mut t = 50;
        for j in 0..600usize {
            let beh = if j % 2 == 0 { Beh::Silent } else { Beh::MidFrame };
            conns.push(plain(j as i64 + 1, 2 + (j % 3) as u8, t, beh, None));
            t += 2;
        }
        conns.push(plain(999, 5, t + 200, Beh::Probe, Some(10)));
        let end = t + 200 + 6000 + 600;
        let run = run_case(0, &cfg, &conns, None, end);
        emit("STALL", 0, &cfg, &conns, None, end, &run);
        st.hit("STALL.crowd=600"); ncase += 1;
    }

    // ---------------------------------------------------------------- C17 STOP: shutdown at every stage of 1-4 sessions
    if want("STOP") {
        for i in 0..(48 * scale) {
            let proxy_on = i % 4 == 3;
            let proxy = if proxy_on { Some((true, true)) } else { None };
            // one case in twelve: a connection timeout above the 10 s default and a session whose routing needs
            // more than 10 s after the stop request (the drain must wait for the CONFIGURED timeout)
            let long = i % 12 == 5;
            let timeout_s = if long { 14 } else { *r.pick(&[5u64, 8]) };
            let cfg = Cfg { max: 10_000, expiry: 21_600, secret: None, timeout_s, lim: None, proxy };
            let k = 1 + r.below(4) as usize;
            let mut conns = vec![];
            let mut t = 50 + r.below(30);
            for j in 0..k {
                let id = j as i64 + 1;
                let (beh, lat) = if long && j == 0 { (Beh::Login { pace: 0 }, 13_000) } else { match r.below(6) {
                    0 => (Beh::Login { pace: 150 + r.below(4) * 100 }, 0),
                    1 => (Beh::Login { pace: 0 }, 1000 + r.below(3) * 700),
                    2 => (Beh::Status, 0),
                    3 => (Beh::StopAt(1 + r.below(4) as u32), 0),
                    4 => (Beh::Silent, 0),
                    _ => (Beh::Login { pace: 40 }, 300),
                } };
                let mut c = plain(id, 2 + (j % 3) as u8, t, beh.clone(), nat_of(&beh, lat));
                c.lat = lat;
                if proxy_on {
                    let src = rnd_src(&mut r, 8);
                    if r.chance(1, 3) {
                        // in flight but still before / inside its PROXY header when the stop request comes
                        c.hdr = if r.chance(1, 2) { Hdr::None } else { mk_hdr(&mut r, 6, &src, 0) };
                        c.beh = Beh::Silent; c.nat = None;
                        st.hit("STOP.inflight_in_header");
                    } else { c.hdr = mk_hdr(&mut r, (j % 2) as u32, &src, 0); c.eff_ip = src.ip(); }
                }
                st.hit(&format!("STOP.beh={}", g_beh(&beh).trim_matches(|c| c == '(' || c == ')').split(' ').next().unwrap()));
                conns.push(c);
                t += 110 + r.below(4) * 20;
            }
            // the stop request lands anywhere between the first arrival and 3 s later
            let mut stop = 40 + r.below(3000) / 7 * 7 + 3;
            // every second PROXY case: one cooperative connection is accepted before the stop request but
            // completes its PROXY header only after it (in flight while still in its header)
            if proxy_on && (i / 4) % 2 == 1 {
                if let Some(c) = conns.iter_mut().find(|c| matches!(c.hdr, Hdr::Full { .. }) && c.beh != Beh::Silent) {
                    if let Hdr::Full { delay, .. } = &mut c.hdr { *delay = 400; }
                    stop = c.arrive + 200;
                    st.hit("STOP.header_completed_after_stop");
                }
            }
            // never within 20 ms of an arrival: the order of the two would be a coin toss of the select!
            while conns.iter().any(|c| c.arrive.abs_diff(stop) < 20) { stop += 37; }
            // clients that arrive after the stop request
            let mut lt = stop + 150;
            for j in 0..(1 + r.below(2)) {
                let mut c = plain(50 + j as i64, 5, lt, Beh::Late, None);
                if proxy_on { let src = rnd_src(&mut r, 8); c.hdr = mk_hdr(&mut r, 0, &src, 0); }
                conns.push(c);
                lt += 400;
            }
            // connections that arrive before the stop keep their place; those scripted after it count as late
            let end = t.max(lt) + timeout_s * 1000 + 800;
            // every sixth case on a Listener that was run and stopped once before
            let mode = if i % 6 == 1 { st.hit("STOP.second_listen_of_the_same_listener"); 2 } else { 0 };
            let run = run_case(mode, &cfg, &conns, Some((stop, StopKind::Token)), end);
            emit("STOP", 0, &cfg, &conns, Some((stop, StopKind::Token)), end, &run);
            st.hit(&format!("STOP.k={}", k)); st.hit(&format!("STOP.proxy={}", proxy_on)); ncase += 1;
        }
    }

    // STOP with a rate limiter: a client that was turned away keeps its socket open (it never closes its side); the
    // drain must not wait for it
    if want("STOP") {
        for i in 0..(2 * scale) {
            let timeout_s = 5u64;
            let proxy = if i % 2 == 1 { Some((true, true)) } else { None };
            let cfg = Cfg { max: 10_000, expiry: 21_600, secret: None, timeout_s, lim: Some((1, 60)), proxy };
            let src = rnd_src(&mut r, 8);
            let mut conns = vec![];
            let mut t = 50 + r.below(30);
            for j in 0..3i64 {
                let beh = if j == 0 { Beh::Status } else { Beh::Silent };
                let mut c = plain(j + 1, 2, t, beh.clone(), if j == 0 { nat_of(&beh, 0) } else { None });
                if proxy.is_some() { c.hdr = mk_hdr(&mut r, (j % 2) as u32, &src, 0); c.eff_ip = src.ip(); }
                conns.push(c);
                t += 150;
            }
            let stop = t + 203;
            let mut c = plain(50, 5, stop + 150, Beh::Late, None);
            if proxy.is_some() { let s2 = rnd_src(&mut r, 8); c.hdr = mk_hdr(&mut r, 0, &s2, 0); }
            conns.push(c);
            let end = stop + timeout_s * 1000 + 1500;
            let run = run_case(0, &cfg, &conns, Some((stop, StopKind::Token)), end);
            emit("STOP", 0, &cfg, &conns, Some((stop, StopKind::Token)), end, &run);
            st.hit("STOP.rejected_client_lingers"); ncase += 1;
        }
    }

    // ---------------------------------------------------------------- C17 SIG: SIGINT through passage::start, once
    if want("SIG") {
        let cfg = Cfg { max: 10_000, expiry: 21_600, secret: Some("sig-secret".into()), timeout_s: 5, lim: None, proxy: None };
        let conns = vec![
            plain(1, 2, 60, Beh::Login { pace: 300 }, Some(5 * 300 + 20)),
            plain(2, 3, 180, Beh::Status, Some(10)),
            plain(3, 4, 300, Beh::StopAt(2), None),
            plain(50, 5, 1300, Beh::Late, None),
        ];
        let stop = Some((900u64, StopKind::Sigint));
        let end = 1300 + 5000 + 800;
        let run = run_case(1, &cfg, &conns, stop, end);
        emit("SIG", 1, &cfg, &conns, stop, end, &run);
        st.hit("SIG.sigint"); ncase += 1;
        // the same with a second SIGINT while the login is still draining
        let stop2 = Some((900u64, StopKind::SigintTwice));
        let run = run_case(1, &cfg, &conns, stop2, end);
        emit("SIG", 1, &cfg, &conns, stop2, end, &run);
        st.hit("SIG.sigint_twice"); ncase += 1;
    }

    emit_note("cases", &ncase.to_string());
    emit_note("probe_bound_ms", &PROBE_BOUND.to_string());
    emit_note("max_real_lag_of_the_runtime_thread_ms", &MAX_LAG_MS.load(std::sync::atomic::Ordering::Relaxed).to_string());
    for (k, v) in st.counts.iter() { emit_note(k, &v.to_string()); }
}
