//! C18 correspondence driver: builds the filter chain and the strategy THROUGH the real
//! configuration path (`DynFilterAdapters::from_config`, `DynStrategyAdapter::from_config`,
//! configuration values either deserialised from JSON with the crate's serde derives or built
//! from the public structs), runs `filter` then `select` on seeded inputs and prints one
//! Gallina `c18case` per line.  Family FS = one filter+select run, family PU32 = one
//! `str::parse::<u32>()`.
use passage::adapter::filter::DynFilterAdapters;
use passage::adapter::strategy::DynStrategyAdapter;
use passage::config;
use passage_adapters::Target;
use passage_adapters::filter::FilterAdapter;
use passage_adapters::strategy::StrategyAdapter;
use regex::Regex;
use serde_json::{Value, json};
use std::collections::{BTreeMap, HashMap};
use std::net::SocketAddr;
use uuid::Uuid;
use vh::*;

// ------------------------------------------------------------------ description of a case
#[derive(Clone, Debug)]
enum Op { Equals(String), NotEquals(String), Exists, NotExists, In(Vec<String>), NotIn(Vec<String>) }
#[derive(Clone, Debug)]
struct Rule { key: String, op: Op }
#[derive(Clone, Debug)]
struct PList { usernames: Option<Vec<String>>, username: Option<String>, ids: Option<Vec<(u128, String)>> }
#[derive(Clone, Debug)]
enum Kind { Meta(Vec<Rule>), Allow(PList), Block(PList) }
#[derive(Clone, Debug)]
struct Filt { hostname: Option<String>, kind: Kind }
#[derive(Clone, Debug)]
enum Strat { Any, Fill(String, u32) }

struct Case { fs: Vec<Filt>, st: Strat, host: String, name: String, uuid: u128, ts: Vec<Target>, via_json: bool }

// ------------------------------------------------------------------ pools
const KEYS: [&str; 7] = ["region", "players", "mode", "draining", "ver", "", "k\u{e9}y"];
const VALS: [&str; 9] = ["eu", "us", "ap", "", "EU", "eu ", "\u{e9}", "yes", "5"];
const COUNTS: [&str; 30] = [
    "0", "1", "5", "+5", "007", "7", "+7", "9", "10", "11", "4294967295", "4294967296", "+4294967295",
    "04294967295", "-0", "-1", " 5", "5 ", "abc", "", "+", "-", "+0", "00", "3.0", "\u{663}", "1e1", "++1",
    "99999999999999999999", "0x5",
];
const HOSTS: [&str; 7] = ["lobby.example.org", "hub.example.org", "play.example.org", "", "LOBBY.example.org", "localhost", "hub.example.org."];
const HOST_PATS: [&str; 9] = ["^lobby\\.", "example", "^hub\\.example\\.org$", "", "(?i)^lobby", "^$", "\\.org$", "^(lobby|hub)\\.", "^play"];
const NAMES: [&str; 8] = ["Steve", "Alex", "Steve42", "alex", "Notch", "", "x_X", "\u{c9}lan"];
const NAME_PATS: [&str; 8] = ["^Steve", "^[A-Z]", "\\d+$", "", "^alex$", "(?i)alex", "^.{6,}$", "^\\w+$"];
const UUIDS: [u128; 6] = [
    0, 1, u128::MAX, 0x069a79f4_44e9_4726_a5be_fca90e38aaf5, 0x853c80ef_3c37_49fd_aa49_938b674adae6,
    0x8000_0000_0000_0000_0000_0000_0000_0000,
];

fn pick_s(r: &mut Rng, xs: &[&str]) -> String { (*r.pick(xs)).to_string() }

fn uuid_text(r: &mut Rng, v: u128) -> String {
    let u = Uuid::from_u128(v);
    match r.below(5) {
        0 => u.simple().to_string(),
        1 => u.hyphenated().to_string().to_uppercase(),
        2 => u.braced().to_string(),
        3 => u.urn().to_string(),
        _ => u.hyphenated().to_string(),
    }
}

fn gen_value(r: &mut Rng) -> String { if r.chance(1, 3) { pick_s(r, &COUNTS) } else { pick_s(r, &VALS) } }
/// values stored under / compared with a key: "region" and "mode" draw from three values so
/// that rules and targets meet often; everything else from the hostile pools
fn gen_value_for(r: &mut Rng, key: &str) -> String {
    if (key == "region" || key == "mode") && r.chance(4, 5) { pick_s(r, &VALS[0..3]) } else { gen_value(r) }
}

fn gen_op(r: &mut Rng, which: u64, key: &str) -> Op {
    let vals = |r: &mut Rng| { let n = r.below(4); (0..n).map(|_| gen_value_for(r, key)).collect::<Vec<_>>() };
    match which {
        0 => Op::Equals(gen_value_for(r, key)),
        1 => Op::NotEquals(gen_value_for(r, key)),
        2 => Op::Exists,
        3 => Op::NotExists,
        4 => Op::In(vals(r)),
        _ => Op::NotIn(vals(r)),
    }
}

fn gen_plist(r: &mut Rng, name: &str, uuid: u128, allow: bool) -> PList {
    let own = if allow { 3 } else { 1 };
    let usernames = if r.chance(if allow { 3 } else { 1 }, 4) {
        let n = r.below(4) + if allow { 1 } else { 0 };
        Some((0..n).map(|_| if r.chance(own, 6) { name.to_string() } else { pick_s(r, &NAMES) }).collect())
    } else { None };
    let username = if r.chance(2, 5) { Some(pick_s(r, &NAME_PATS)) } else { None };
    let ids = if r.chance(1, 2) {
        let n = r.below(4);
        Some((0..n).map(|_| { let v = if r.chance(1, 3) { uuid } else { *r.pick(&UUIDS) }; (v, uuid_text(r, v)) }).collect())
    } else { None };
    PList { usernames, username, ids }
}

fn gen_filter(r: &mut Rng, name: &str, uuid: u128) -> Filt {
    let hostname = if r.chance(1, 2) { Some(pick_s(r, &HOST_PATS)) } else { None };
    let kind = match r.below(5) {
        0 => Kind::Allow(gen_plist(r, name, uuid, true)),
        1 => Kind::Block(gen_plist(r, name, uuid, false)),
        _ => {
            let n = r.below(4);
            Kind::Meta((0..n).map(|_| {
                let w = r.below(6);
                let key = if r.chance(1, 2) { pick_s(r, &KEYS[0..3]) } else { pick_s(r, &KEYS) };
                let op = gen_op(r, w, &key);
                Rule { key, op }
            }).collect())
        }
    };
    Filt { hostname, kind }
}

fn mk_target(id: &str, port: u16, meta: &[(&str, &str)]) -> Target {
    Target {
        identifier: id.to_string(),
        address: SocketAddr::from(([127, 0, 0, 1], port)),
        meta: meta.iter().map(|(k, v)| (k.to_string(), v.to_string())).collect(),
    }
}

fn gen_targets(r: &mut Rng, field: &str) -> Vec<Target> {
    let n = r.below(7) as usize;
    let mut ts: Vec<Target> = Vec::new();
    // a small palette of counts per case makes ties (duplicate counts) frequent
    let palette: Vec<String> = (0..(1 + r.below(3))).map(|_| pick_s(r, &COUNTS)).collect();
    for i in 0..n {
        if !ts.is_empty() && r.chance(1, 6) {
            // exact duplicate (same identifier, address and metadata)
            let d = r.pick(&ts).clone();
            ts.push(d);
            continue;
        }
        let mut meta: HashMap<String, String> = HashMap::new();
        if !ts.is_empty() && r.chance(1, 6) {
            // same identifier and metadata, different address
            let d = r.pick(&ts).clone();
            ts.push(Target { identifier: d.identifier, address: SocketAddr::from(([127, 0, 0, 1], 1000 + i as u16)), meta: d.meta });
            continue;
        }
        for k in KEYS {
            if k == field { continue; }
            if r.chance(1, 2) { let v = gen_value_for(r, k); meta.insert(k.to_string(), v); }
        }
        if r.chance(4, 5) {
            let v = if r.chance(2, 3) { r.pick(&palette).clone() } else { pick_s(r, &COUNTS) };
            meta.insert(field.to_string(), v);
        }
        let identifier = if r.chance(1, 8) { "dup".to_string() } else { format!("t{}", i) };
        ts.push(Target { identifier, address: SocketAddr::from(([127, 0, 0, 1], 1000 + i as u16)), meta });
    }
    ts
}

fn gen_case(r: &mut Rng) -> Case {
    let name = pick_s(r, &NAMES);
    let uuid = if r.chance(1, 4) { ((r.next() as u128) << 64) | r.next() as u128 } else { *r.pick(&UUIDS) };
    let host = pick_s(r, &HOSTS);
    let nf = r.below(5);
    let fs: Vec<Filt> = (0..nf).map(|_| gen_filter(r, &name, uuid)).collect();
    let st = if r.chance(2, 5) { Strat::Any } else {
        let field = if r.chance(4, 5) { "players".to_string() } else { pick_s(r, &KEYS) };
        let maxp = match r.below(6) {
            0 => 0,
            1 => u32::MAX,
            2 => *r.pick(&[1u32, 5, 7, 8, 10, 11]),
            _ => r.below(13) as u32,
        };
        Strat::Fill(field, maxp)
    };
    let field = match &st { Strat::Fill(f, _) => f.clone(), Strat::Any => "players".to_string() };
    let ts = gen_targets(r, &field);
    Case { fs, st, host, name, uuid, ts, via_json: r.chance(1, 2) }
}

// ------------------------------------------------------------------ configuration values
fn op_json(op: &Op) -> Value {
    match op {
        Op::Equals(v) => json!({"op": "equals", "value": v}),
        Op::NotEquals(v) => json!({"op": "not_equals", "value": v}),
        Op::Exists => json!({"op": "exists"}),
        Op::NotExists => json!({"op": "not_exists"}),
        Op::In(vs) => json!({"op": "in", "value": vs}),
        Op::NotIn(vs) => json!({"op": "not_in", "value": vs}),
    }
}
fn plist_json(p: &PList) -> Value {
    let mut m = serde_json::Map::new();
    if let Some(u) = &p.usernames { m.insert("usernames".into(), json!(u)); }
    if let Some(u) = &p.username { m.insert("username".into(), json!(u)); }
    if let Some(ids) = &p.ids { m.insert("ids".into(), json!(ids.iter().map(|(_, s)| s.clone()).collect::<Vec<_>>())); }
    Value::Object(m)
}
fn filters_json(fs: &[Filt]) -> Value {
    Value::Array(fs.iter().map(|f| {
        let mut m = serde_json::Map::new();
        if let Some(h) = &f.hostname { m.insert("hostname".into(), json!(h)); }
        match &f.kind {
            Kind::Meta(rules) => {
                let rs: Vec<Value> = rules.iter().map(|r| {
                    let mut o = op_json(&r.op);
                    o.as_object_mut().unwrap().insert("key".into(), json!(r.key));
                    o
                }).collect();
                m.insert("meta".into(), json!({"rules": rs}));
            }
            Kind::Allow(p) => { m.insert("player_allow".into(), plist_json(p)); }
            Kind::Block(p) => { m.insert("player_block".into(), plist_json(p)); }
        }
        Value::Object(m)
    }).collect())
}
fn strat_json(st: &Strat) -> Value {
    match st {
        Strat::Any => json!("any"),
        Strat::Fill(f, m) => json!({"player_fill": {"field": f, "max_players": m}}),
    }
}

fn op_direct(op: &Op) -> config::FilterOperation {
    match op {
        Op::Equals(v) => config::FilterOperation::Equals(v.clone()),
        Op::NotEquals(v) => config::FilterOperation::NotEquals(v.clone()),
        Op::Exists => config::FilterOperation::Exists,
        Op::NotExists => config::FilterOperation::NotExists,
        Op::In(vs) => config::FilterOperation::In(vs.clone()),
        Op::NotIn(vs) => config::FilterOperation::NotIn(vs.clone()),
    }
}
fn filters_direct(fs: &[Filt]) -> Vec<config::OptionFilterAdapter> {
    fs.iter().map(|f| config::OptionFilterAdapter {
        hostname: f.hostname.clone(),
        filter: match &f.kind {
            Kind::Meta(rules) => config::FilterAdapter::Meta(config::MetaFilter {
                rules: rules.iter().map(|r| config::FilterRule { key: r.key.clone(), operation: op_direct(&r.op) }).collect(),
            }),
            Kind::Allow(p) => config::FilterAdapter::PlayerAllow(config::PlayerAllowFilter {
                usernames: p.usernames.clone(), username: p.username.clone(),
                ids: p.ids.as_ref().map(|v| v.iter().map(|(_, s)| s.clone()).collect()),
            }),
            Kind::Block(p) => config::FilterAdapter::PlayerBlock(config::PlayerBlockFilter {
                usernames: p.usernames.clone(), username: p.username.clone(),
                ids: p.ids.as_ref().map(|v| v.iter().map(|(_, s)| s.clone()).collect()),
            }),
        },
    }).collect()
}
fn strat_direct(st: &Strat) -> config::StrategyAdapter {
    match st {
        Strat::Any => config::StrategyAdapter::Any,
        Strat::Fill(f, m) => config::StrategyAdapter::PlayerFill(config::PlayerFillStrategy { field: f.clone(), max_players: *m }),
    }
}

// ------------------------------------------------------------------ Gallina printers
fn g_strs(v: &[String]) -> String { g_list(&v.iter().map(|s| g_str(s)).collect::<Vec<_>>()) }
fn g_op(op: &Op) -> String {
    match op {
        Op::Equals(v) => format!("OEquals {}", g_str(v)),
        Op::NotEquals(v) => format!("ONotEquals {}", g_str(v)),
        Op::Exists => "OExists".into(),
        Op::NotExists => "ONotExists".into(),
        Op::In(vs) => format!("OIn {}", g_strs(vs)),
        Op::NotIn(vs) => format!("ONotIn {}", g_strs(vs)),
    }
}
fn g_plist(p: &PList) -> String {
    format!("(mkPlist {} {} {})",
        g_opt(p.usernames.as_ref().map(|v| g_strs(v))),
        g_opt(p.username.as_ref().map(|s| g_str(s))),
        g_opt(p.ids.as_ref().map(|v| g_list(&v.iter().map(|(x, _)| g_u128(*x)).collect::<Vec<_>>()))))
}
fn g_filter(f: &Filt) -> String {
    let k = match &f.kind {
        Kind::Meta(rules) => format!("(FMeta {})", g_list(&rules.iter().map(|r| format!("mkRule {} ({})", g_str(&r.key), g_op(&r.op))).collect::<Vec<_>>())),
        Kind::Allow(p) => format!("(FAllow {})", g_plist(p)),
        Kind::Block(p) => format!("(FBlock {})", g_plist(p)),
    };
    format!("mkFilter {} {}", g_opt(f.hostname.as_ref().map(|s| g_str(s))), k)
}
fn g_strat(st: &Strat) -> String {
    match st { Strat::Any => "SAny".into(), Strat::Fill(f, m) => format!("(SFill {} {})", g_str(f), m) }
}
fn g_target(t: &Target) -> String {
    // HashMap iteration order is per-process random: print sorted by key (keys are unique)
    let sorted: BTreeMap<&String, &String> = t.meta.iter().collect();
    let meta: Vec<String> = sorted.iter().map(|(k, v)| format!("({}, {})", g_str(k), g_str(v))).collect();
    format!("mkTarget {} {} {}", g_str(&t.identifier), t.address.port(), g_list(&meta))
}
fn same(a: &Target, b: &Target) -> bool { a.identifier == b.identifier && a.address == b.address && a.meta == b.meta }

// ------------------------------------------------------------------ one run
struct Stats { exact_dups: u64, n: u64, refused: u64, sel_some: u64, sel_none: u64, scoped: u64, scoped_hit: u64, json: u64, ties: u64, survivors: u64, dropped: u64 }

async fn run_case(c: &Case, st: &mut Stats) {
    // every (pattern, text) pair the chain can ask the regex engine about, with the real answer
    let mut tab: Vec<(String, String, bool)> = Vec::new();
    let mut add = |p: &str, x: &str| {
        if !tab.iter().any(|(a, b, _)| a == p && b == x) {
            tab.push((p.to_string(), x.to_string(), Regex::new(p).expect("pool patterns are valid").is_match(x)));
        }
    };
    for f in &c.fs {
        if let Some(h) = &f.hostname { add(h, &c.host); }
        match &f.kind {
            Kind::Allow(p) | Kind::Block(p) => if let Some(u) = &p.username { add(u, &c.name); },
            Kind::Meta(_) => {}
        }
    }
    st.scoped += c.fs.iter().filter(|f| f.hostname.is_some()).count() as u64;
    st.scoped_hit += tab.iter().filter(|(p, x, b)| *b && x == &c.host && c.fs.iter().any(|f| f.hostname.as_deref() == Some(p.as_str()))).count() as u64;

    let (fcfg, scfg) = if c.via_json {
        st.json += 1;
        (serde_json::from_value::<Vec<config::OptionFilterAdapter>>(filters_json(&c.fs)).expect("filter config json"),
         serde_json::from_value::<config::StrategyAdapter>(strat_json(&c.st)).expect("strategy config json"))
    } else {
        (filters_direct(&c.fs), strat_direct(&c.st))
    };
    let filters = DynFilterAdapters::from_config(fcfg).await.expect("filters from_config");
    let strategy = DynStrategyAdapter::from_config(scfg).await.expect("strategy from_config");

    let client: SocketAddr = "192.0.2.7:50000".parse().unwrap();
    let uuid = Uuid::from_u128(c.uuid);
    let filtered = filters
        .filter(&client, (c.host.as_str(), 25565), 774, (c.name.as_str(), &uuid), c.ts.clone())
        .await.expect("built-in filters do not fail");
    let selected = strategy
        .select(&client, (c.host.as_str(), 25565), 774, (c.name.as_str(), &uuid), filtered.clone())
        .await.expect("built-in strategies do not fail");

    // positions: greedy in-order embedding of the output into the input by full content
    let mut pos: Vec<i64> = Vec::new();
    let mut from = 0usize;
    for o in &filtered {
        match (from..c.ts.len()).find(|&i| same(&c.ts[i], o)) {
            Some(i) => { pos.push(i as i64); from = i + 1; }
            None => pos.push(-1),
        }
    }
    let obs_f: Vec<String> = filtered.iter().zip(&pos).map(|(t, p)| format!("({}, {})", g_z(*p), g_str(&t.identifier))).collect();
    let obs_s = selected.as_ref().map(|s| {
        // last surviving position with the same content (content-equal targets are indistinguishable)
        let p = filtered.iter().zip(&pos).rev().find(|(t, _)| same(t, s)).map(|(_, p)| *p).unwrap_or(-1);
        format!("({}, {})", g_z(p), g_str(&s.identifier))
    });

    st.n += 1;
    if (0..c.ts.len()).any(|i| (0..i).any(|j| same(&c.ts[i], &c.ts[j]))) { st.exact_dups += 1; }
    if filtered.is_empty() && !c.ts.is_empty() { st.refused += 1; }
    st.survivors += filtered.len() as u64;
    st.dropped += (c.ts.len() - filtered.len().min(c.ts.len())) as u64;
    if selected.is_some() { st.sel_some += 1 } else { st.sel_none += 1 }
    if let Strat::Fill(f, _) = &c.st {
        let mut cs: Vec<u32> = filtered.iter().map(|t| t.meta.get(f).and_then(|p| p.parse::<u32>().ok()).unwrap_or(0)).collect();
        cs.sort(); let l = cs.len(); cs.dedup(); if cs.len() < l { st.ties += 1; }
    }

    let term = format!("FS {} {} {} {} {} {} {} {} {}",
        g_list(&c.fs.iter().map(g_filter).collect::<Vec<_>>()), g_strat(&c.st), g_str(&c.host), g_str(&c.name),
        g_u128(c.uuid), g_list(&c.ts.iter().map(g_target).collect::<Vec<_>>()),
        g_list(&tab.iter().map(|(p, x, b)| format!("(({}, {}), {})", g_str(p), g_str(x), g_bool(*b))).collect::<Vec<_>>()),
        g_list(&obs_f), g_opt(obs_s));
    emit_case("FS", &term);
}

// deterministic grid: every operation against absent / equal / different value, and the
// player-fill ties, independent of the seed
fn grid() -> Vec<Case> {
    let mut out = Vec::new();
    let ts = vec![
        mk_target("absent", 1000, &[("other", "x")]),
        mk_target("equal", 1001, &[("region", "eu")]),
        mk_target("differs", 1002, &[("region", "us")]),
        mk_target("empty", 1003, &[("region", "")]),
    ];
    let ops = [
        Op::Equals("eu".into()), Op::NotEquals("eu".into()), Op::Exists, Op::NotExists,
        Op::In(vec!["eu".into(), "ap".into()]), Op::NotIn(vec!["eu".into(), "ap".into()]), Op::In(vec![]), Op::NotIn(vec![]),
    ];
    for (i, op) in ops.iter().enumerate() {
        for (h, host) in [(None, "lobby.example.org"), (Some("^lobby\\."), "lobby.example.org"), (Some("^lobby\\."), "hub.example.org")] {
            out.push(Case {
                fs: vec![Filt { hostname: h.map(|s| s.to_string()), kind: Kind::Meta(vec![Rule { key: "region".into(), op: op.clone() }]) }],
                st: Strat::Any, host: host.into(), name: "Steve".into(), uuid: 1, ts: ts.clone(), via_json: i % 2 == 0,
            });
        }
    }
    // player lists: each criterion alone, hit and miss, allow and block, scoped in and out
    for block in [false, true] {
        for (k, pl) in [
            PList { usernames: Some(vec!["Alex".into(), "Steve".into()]), username: None, ids: None },
            PList { usernames: None, username: Some("^Ste".into()), ids: None },
            PList { usernames: None, username: None, ids: Some(vec![(7, Uuid::from_u128(7).to_string())]) },
            PList { usernames: None, username: None, ids: None },
            PList { usernames: Some(vec![]), username: None, ids: Some(vec![]) },
        ].into_iter().enumerate() {
            for (name, uuid) in [("Steve", 7u128), ("Notch", 8u128)] {
                for h in [None, Some("^hub\\.")] {
                    out.push(Case {
                        fs: vec![Filt { hostname: h.map(|s: &str| s.to_string()), kind: if block { Kind::Block(pl.clone()) } else { Kind::Allow(pl.clone()) } }],
                        st: Strat::Any, host: "lobby.example.org".into(), name: name.into(), uuid, ts: ts.clone(), via_json: k % 2 == 1,
                    });
                }
            }
        }
    }
    // player fill: ties, unparsable counts, capacity edge
    let fill_sets: [&[&str]; 8] = [
        &["3", "7", "+7", "007", "2"], &["9", "10", "11"], &["abc", "", "-0", " 5"], &["4294967295", "4294967296", "4294967294"],
        &["0", "0", "0"], &["5"], &[], &["10", "10"],
    ];
    for (k, set) in fill_sets.iter().enumerate() {
        let ts: Vec<Target> = set.iter().enumerate().map(|(i, c)| mk_target(&format!("p{}", i), 2000 + i as u16, &[("players", c)])).collect();
        for maxp in [0u32, 1, 8, 10, 11, u32::MAX] {
            out.push(Case { fs: vec![], st: Strat::Fill("players".into(), maxp), host: "h".into(), name: "n".into(), uuid: 0, ts: ts.clone(), via_json: k % 2 == 0 });
        }
    }
    out
}

fn gen_numeric(r: &mut Rng) -> String {
    match r.below(8) {
        0 => pick_s(r, &COUNTS),
        1 => { // near the u32 boundary, optionally signed / zero padded
            let v = (u32::MAX as i128) + r.range(-3, 3) as i128;
            let pad = "0".repeat(r.below(4) as usize);
            let sign = *r.pick(&["", "+", "-", ""]);
            format!("{}{}{}", sign, pad, v)
        }
        2 => format!("{}", r.next() as u32),
        3 => format!("+{}", r.below(100000)),
        4 => format!("{}", r.next()),
        5 => { // random over a hostile alphabet
            let n = r.below(6) as usize;
            (0..n).map(|_| *r.pick(&['0', '1', '9', '+', '-', ' ', 'a', '_', '.', '\u{663}', '\t', '/', ':'])).collect()
        }
        6 => { let n = r.below(25) as usize; (0..n).map(|_| char::from(b'0' + r.below(10) as u8)).collect() }
        _ => { let v = r.boundary(0, 1i128 << 34); format!("{}", v) }
    }
}

fn main() {
    let mut r = Rng::from_env();
    let scale: u64 = std::env::var("VERIF_SCALE").ok().and_then(|s| s.parse().ok()).unwrap_or(1).max(1);
    let mut st = Stats { exact_dups: 0, n: 0, refused: 0, sel_some: 0, sel_none: 0, scoped: 0, scoped_hit: 0, json: 0, ties: 0, survivors: 0, dropped: 0 };
    block_on(async {
        for c in grid() { run_case(&c, &mut st).await; }
        for _ in 0..(600 * scale) {
            let c = gen_case(&mut r);
            run_case(&c, &mut st).await;
        }
    });
    let mut pu = 0u64; let mut pu_ok = 0u64;
    let mut fixed: Vec<String> = COUNTS.iter().map(|s| s.to_string()).collect();
    fixed.extend(["4294967294", "0000000000", "+00000000004294967295", "42949672950", "429496729", "-", "+-1", "-+1", "1+", "١"].iter().map(|s| s.to_string()));
    let n_rand = 400 * scale;
    for s in fixed.into_iter().chain((0..n_rand).map(|_| gen_numeric(&mut r)).collect::<Vec<_>>()) {
        let res = s.parse::<u32>().ok();
        pu += 1; if res.is_some() { pu_ok += 1; }
        emit_case("PU32", &format!("PU {} {}", g_str(&s), g_opt(res.map(|v| g_z(v)))));
    }
    // configurations outside the model (the model starts after a successful from_config):
    // an invalid scope regex, an invalid name regex and an invalid UUID must all be rejected
    let rejected = block_on(async {
        let bad = [
            json!([{"hostname": "(", "meta": {"rules": []}}]),
            json!([{"player_allow": {"username": "["}}]),
            json!([{"player_block": {"ids": ["not-a-uuid"]}}]),
        ];
        let mut n = 0;
        for b in bad {
            let cfg = serde_json::from_value::<Vec<config::OptionFilterAdapter>>(b).expect("well-formed json config");
            if DynFilterAdapters::from_config(cfg).await.is_err() { n += 1; }
        }
        n
    });
    emit_note("cfg_invalid_rejected_of_3", &rejected.to_string());
    emit_note("fs_cases", &st.n.to_string());
    emit_note("fs_with_exact_duplicate_targets", &st.exact_dups.to_string());
    emit_note("fs_via_json_config", &st.json.to_string());
    emit_note("fs_emptied_nonempty_input", &st.refused.to_string());
    emit_note("fs_selected_some", &st.sel_some.to_string());
    emit_note("fs_selected_none", &st.sel_none.to_string());
    emit_note("fs_fill_with_tied_counts", &st.ties.to_string());
    emit_note("fs_scoped_filters", &st.scoped.to_string());
    emit_note("fs_scope_matches", &st.scoped_hit.to_string());
    emit_note("fs_targets_survived", &st.survivors.to_string());
    emit_note("fs_targets_dropped", &st.dropped.to_string());
    emit_note("pu32_cases", &pu.to_string());
    emit_note("pu32_parsed_ok", &pu_ok.to_string());
}
