#!/bin/sh
# Build the framework from files on disk only (offline): translators, Coq theory, harness.
set -e
cd "$(dirname "$0")"
export CARGO_NET_OFFLINE=true
mkdir -p work evidence replays
python3 tools/translate_packets.py
( cd coq && coq_makefile -f _CoqProject -o Makefile >/dev/null && timeout 3000 make -j16 ) || echo "setup: coq build incomplete (the checks report what is broken)"
cp -f /repo/Cargo.lock harness/Cargo.lock
( cd harness && cargo build --offline -q --bins ) || echo "setup: harness build incomplete"
cp -f /repo/Cargo.lock harness-app/Cargo.lock
( cd harness-app && cargo build --offline -q --bins ) || echo "setup: harness-app build incomplete"
cp -f /repo/Cargo.lock harness-net/Cargo.lock
( cd harness-net && cargo build --offline -q --bins ) || echo "setup: harness-net build incomplete"
cp -f /repo/Cargo.lock harness-k8s/Cargo.lock
( cd harness-k8s && cargo build --offline -q --bins ) || echo "setup: harness-k8s build incomplete"
echo "setup done"
