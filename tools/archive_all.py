#!/usr/bin/env python3
"""archive_all.py : copy every confirmed seeded change from /tmp/mutants into /verif/seeded/<property>/<name>/ with
patch.diff, the demonstration (demo.diff or demo/), meta.json extended by what the coordinator ran:
the confirmation (tools/confirm_slot.sh) and the result of the property's check in the isolated lab."""
import json, os, re, shutil, glob, sys
SRC = "/tmp/mutants"; DST = "/verif/seeded"
WAVES = set(sys.argv[1:])   # e.g. `archive_all.py w3`: only that wave; no argument: every wave found under /tmp/mutants
def results(paths):
    res = {}
    for p in paths:
        for l in open(p):
            m = re.match(r"\[(\w+)/mutant(\d+)\] RESULT (\w+) \S+ exit=(\d+) violations=(\d+) :: (.*)", l)
            if m: res[(m.group(1), int(m.group(2)), m.group(3))] = (int(m.group(4)), int(m.group(5)), m.group(6).strip())
    return res
_old = sum([sorted(glob.glob(SRC + "/queue%s?.txt.log" % q)) for q in ["", "B", "C", "D", "E", "F", "G"]], [])
_w = sorted(glob.glob("/tmp/q/w*_?.log"), key=os.path.getmtime)
lab = results(_old + _w)                    # the latest run of every (change, check) wins
lab_first = results(list(reversed(_w)))     # the earliest run (before the checks were strengthened)
conf = {}
for p in glob.glob(SRC + "/confirm*_*.log") + glob.glob(SRC + "/confirm_*.log") + glob.glob("/tmp/q/w?_confirm.log"):
    for l in open(p):
        m = re.match(r"RESULT (\w+) (\S+) suite=\[([^\]]*)\] demo_with=(\d+) demo_without=(\d+)", l)
        if m: conf[m.group(2)] = (m.group(3), int(m.group(4)), int(m.group(5)))
def slug(s):
    w = re.findall(r"[A-Za-z0-9]+", s.lower())
    stop = {"the","a","an","of","in","is","to","and","now","that","with","for","on","its","it","as","by","instead","passage","src","rs"}
    w = [x for x in w if x not in stop][:6]
    return "-".join(w)[:60] or "change"
n = 0
for d in sorted(glob.glob(SRC + "/C??/mutant?")) + sorted(glob.glob(SRC + "/C??b/mutant?")) + sorted(glob.glob(SRC + "/C??c/mutant?")):
    src_pid = d.split("/")[-2]; pid = src_pid[:3]; k = int(d[-1])
    wave = {"b": "w2", "c": "w3"}.get(src_pid[3:], "")
    if WAVES and wave not in WAVES: continue
    if not os.path.exists(d + "/patch.diff") or not os.path.exists(d + "/meta.json"): continue
    c = conf.get(d)
    if pid != "C19" and (c is None or not c[0].startswith("77 passed 0 failed") or c[1] == 0 or c[2] != 0):
        print("skip (not confirmed):", d, c); continue
    meta = json.load(open(d + "/meta.json"))
    name = "%sm%d-%s" % (wave, k, slug(str(meta.get("summary", meta.get("title", meta.get("description", ""))))))
    dst = os.path.join(DST, pid, name)
    for old in glob.glob(os.path.join(DST, pid, "%sm%d-*" % (wave, k))): shutil.rmtree(old)
    os.makedirs(dst, exist_ok=True)
    shutil.copy(d + "/patch.diff", dst)
    if os.path.exists(d + "/demo.diff"): shutil.copy(d + "/demo.diff", dst)
    if os.path.isdir(d + "/demo"):
        shutil.copytree(d + "/demo", dst + "/demo", dirs_exist_ok=True, ignore=shutil.ignore_patterns("target", "Cargo.lock"))
    checks = {c_: {"exit": r[0], "violation_lines": r[1], "first_line": r[2][:300]} for (p_, k_, c_), r in lab.items() if p_ == src_pid and k_ == k}
    meta["property"] = pid
    first = {c_: {"exit": r[0], "violation_lines": r[1], "first_line": r[2][:300]} for (p_, k_, c_), r in lab_first.items() if p_ == src_pid and k_ == k}
    first = {c_: v for c_, v in first.items() if checks.get(c_) != v}
    if first: meta["checks_in_lab_before_strengthening"] = first
    meta["confirmed_by_coordinator"] = {
        "how": "tools/confirm_slot.sh in a scratch worktree of /repo: patch applied, `cargo test --workspace --no-fail-fast --offline` (%s), demonstration with the patch (exit %s = fails) and without it (exit %s = passes)" % (c if c else ("77 passed 0 failed (agent log)", "101", "0")),
        "checks_in_lab": checks,
        "lab": "tools/mutant_lab.sh: isolated copy of /verif against a scratch worktree of /repo with the patch applied; `./check <property>` quick tier",
    }
    json.dump(meta, open(dst + "/meta.json", "w"), indent=1)
    n += 1
print("archived", n)
