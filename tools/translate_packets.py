#!/usr/bin/env python3
"""Translator: passage-packets Rust sources -> Coq (Gen/PacketsGen.v, Gen/ConstsGen.v).

For every `impl Packet / WritePacket / ReadPacket for X` block it extracts the packet
id, the ordered list of fields written and the ordered list of fields read (each with
the struct field it is stored in and the wire kind), and every enum's ordinal tables
(`From<E> for VarInt`, `TryFrom<VarInt> for E`).  It also extracts the numeric
constants the models depend on.  The theorems in Codec/PacketThms.v and Props/C09.v are
re-checked against this output on every run.

Anything the translator cannot understand is reported on stderr and recorded in the
generated file as an `unparsed` entry, which makes the packet theorems fail (the tie is
then broken, not silently skipped).
"""
import re, sys, os, json

REPO = os.environ.get("PASSAGE_REPO", "/repo")
OUT = os.path.join(os.path.dirname(os.path.abspath(__file__)), "..", "coq", "Gen")

def strip_comments(src):
    src = re.sub(r"//[^\n]*", "", src)
    src = re.sub(r"/\*.*?\*/", "", src, flags=re.S)
    return src

def match_brace(s, i):
    """s[i] == '{' -> index of the matching '}'"""
    assert s[i] == "{", s[i:i+20]
    d = 0
    for j in range(i, len(s)):
        if s[j] == "{": d += 1
        elif s[j] == "}":
            d -= 1
            if d == 0: return j
    raise ValueError("unbalanced")

def coq_str(s): return '"' + s.replace('"', '""') + '"'

# ---------------------------------------------------------------- enums (lib.rs)
def parse_enums(src):
    enums = {}
    for m in re.finditer(r"pub enum (\w+)\s*\{", src):
        name = m.group(1)
        end = match_brace(src, m.end() - 1)
        body = src[m.end():end]
        if "(" in body or "{" in body:   # not a C-like enum (e.g. Error)
            continue
        variants = [v.strip() for v in body.split(",") if v.strip()]
        variants = [re.sub(r"#\[[^\]]*\]\s*", "", v) for v in variants]
        enums[name] = {"variants": variants, "to": None, "from": None}
    for m in re.finditer(r"impl From<(\w+)> for VarInt\s*\{", src):
        name = m.group(1)
        end = match_brace(src, m.end() - 1)
        body = src[m.end():end]
        arms = re.findall(r"(?:Self|" + name + r")::(\w+)\s*=>\s*(-?\d+)", body)
        if name in enums:
            enums[name]["to"] = {v: int(o) for v, o in arms}
    for m in re.finditer(r"impl TryFrom<VarInt> for (\w+)\s*\{", src):
        name = m.group(1)
        end = match_brace(src, m.end() - 1)
        body = src[m.end():end]
        # arm forms understood: `N => Ok(E::V)`, `N => E::V`, `x if x == N => [Ok(]E::V`, `if value == N { .. E::V .. }`
        arms = re.findall(r"(?<![\w.])(-?\d+)\s*=>\s*(?:Ok\(\s*)?(?:Self|" + name + r")::(\w+)", body)
        arms += re.findall(r"\w+\s+if\s+\w+\s*==\s*(-?\d+)\s*=>\s*(?:Ok\(\s*)?(?:Self|" + name + r")::(\w+)", body)
        arms += re.findall(r"if\s+\w+\s*==\s*(-?\d+)\s*\{[^{}]*?(?:Self|" + name + r")::(\w+)", body)
        if name in enums:
            enums[name]["from"] = list(dict.fromkeys((int(o), v) for o, v in arms))
    enums = {k: v for k, v in enums.items() if v["to"] is not None and v["from"] is not None}
    # an impl written in a form that is not understood gives tables that do not cover the variants: the enum is then
    # "unparsed" (empty tables; every packet using it is unparsed too and the models fall back to the protocol table)
    for name, e in enums.items():
        vs = set(e["variants"])
        e["ok"] = (set(e["to"].keys()) == vs and {v for _, v in e["from"]} == vs and len(e["from"]) == len(vs)
                   and len({o for o, _ in e["from"]}) == len(vs))
        if not e["ok"]:
            sys.stderr.write("translate_packets: enum %s: conversion impls not understood\n" % name)
        else:
            e["from"] = sorted(e["from"])     # the ordinals are distinct: the order of the arms does not matter
    return enums

# ---------------------------------------------------------------- packets
WRITE_KINDS = {
    "varint": "KVarInt", "varlong": "KVarLong", "string": "KString", "bytes": "KBytes",
    "u8": "KU8", "i8": "KI8", "u16": "KU16", "i32": "KI32", "u64": "KU64", "i64": "KI64",
    "uuid": "KUuid", "bool": "KBool", "text_component": "KText",
}

class Unparsed(Exception):
    pass

def field_type_kind(kind, ftype, enums, aliases):
    """refine a wire kind by the Rust type of the struct field"""
    return kind

def parse_struct_fields(body):
    fields = []
    for m in re.finditer(r"pub (\w+)\s*:\s*([^,]+),", body):
        fields.append((m.group(1), m.group(2).strip()))
    return fields

def match_brace_paren(s, i):
    """index of the parenthesis closing the one at s[i]"""
    d = 0
    for j in range(i, len(s)):
        if s[j] == "(": d += 1
        elif s[j] == ")":
            d -= 1
            if d == 0: return j
    return -1

def split_stmts(body):
    """split a block body into top-level statements (ends at ';' or at a closing '}' of a
    block statement), whitespace-normalised"""
    out, cur, d = [], "", 0
    i = 0
    while i < len(body):
        c = body[i]
        cur += c
        if c in "({[": d += 1
        elif c in ")}]":
            d -= 1
            if c == "}" and d == 0:
                # a block statement such as `if ... { ... }` ends here unless followed by else / ;
                rest = body[i+1:].lstrip()
                if not rest.startswith("else") and not rest.startswith(";") and not rest.startswith(")") and not rest.startswith(".") and not rest.startswith("="):
                    out.append(cur); cur = ""
        elif c == ";" and d == 0:
            out.append(cur); cur = ""
        i += 1
    if cur.strip(): out.append(cur)
    return [re.sub(r"\s+", " ", s).strip() for s in out if s.strip()]

def parse_write(body, fields, enums, aliases):
    ftypes = dict(fields)
    ops = []
    stmts = split_stmts(body)
    i = 0
    locals_ = {}    # local name -> struct field, from `let Self { a, b: c, .. } = self;`
    def norm(arg):
        # equivalent spellings of a field reference: *x, &x, (x), a destructured local
        a = arg.strip()
        changed = True
        while changed:
            changed = False
            for pre in ("*", "&"):
                if a.startswith(pre): a = a[1:].strip(); changed = True
            if a.startswith("(") and a.endswith(")") and a.count("(") == 1: a = a[1:-1].strip(); changed = True
            for suf in (".as_str()", ".as_slice()", ".as_ref()", ".clone()"):
                if a.endswith(suf): a = a[:-len(suf)].strip(); changed = True
        if a in locals_: return "self." + locals_[a]
        return a
    env = {}        # local name -> expression over self.* (from `let x[: T] = <expr>;`), substituted textually
    def strip_parens(a):
        a = a.strip()
        while a.startswith("(") and a.endswith(")") and match_brace_paren(a, 0) == len(a) - 1:
            a = a[1:-1].strip()
        return a
    def subst(expr):
        def rep(m):
            n = m.group(1)
            if n in env: return "(" + env[n] + ")"
            if n in locals_: return "self." + locals_[n]
            return n
        # identifiers not preceded by `.` or `::` and not followed by `(` / `::` (calls, paths)
        return re.sub(r"(?<![\w.:])([a-z_]\w*)\b(?!\s*(?:\(|::))", rep, expr)
    def canon(a):
        # bring an expression over one field into one of: self.f | self.f.0 | self.f.into() | VarInt::from(self.f) | self.f.is_some() | N
        prev = None
        a = a.strip()
        while prev != a:
            prev = a
            a = strip_parens(a)
            a = re.sub(r"^[*&]+\s*", "", a)
            a = re.sub(r"(?<![\w>])\(\s*[*&]*\s*(self\.\w+(?:\.0)?)\s*\)", r"\1", a)
            a = re.sub(r"[*&]+\s*(self\.\w+)", r"\1", a)
            a = re.sub(r"(self\.\w+)\.(?:as_str|as_slice|as_ref|clone|to_owned|as_bytes)\(\)", r"\1", a)
            a = re.sub(r"^VarInt::from\(\s*(.*)\s*\)$", lambda m: "VarInt::from(" + canon(m.group(1)) + ")", a)
            a = re.sub(r"^(.*)\.into\(\)$", lambda m: canon(m.group(1)) + ".into()", a)
            a = re.sub(r"^Into::<VarInt>::into\((.*)\)$", lambda m: canon(m.group(1)) + ".into()", a)
            a = re.sub(r"^(.*) as VarInt$", lambda m: "VarInt::from(" + canon(m.group(1)) + ")", a)
        return a
    while i < len(stmts):
        s = stmts[i]
        if s in ("Ok(())",):
            i += 1; continue
        ml = re.fullmatch(r"let (\w+)(?: ?: ?[&\w:<>\[\]; ']+)? = (.*);", s)
        if ml and "buffer." not in ml.group(2) and not re.match(r"(?:Self|[A-Z]\w*) \{", ml.group(1)):
            env[ml.group(1)] = canon(subst(ml.group(2)))
            i += 1; continue
        # match <opt> { Some(x) => { write_bool(true); write_K(x); } None => { write_bool(false); } } (arms in any order)
        mm = re.fullmatch(r"match (.+?) \{ (.*) \}", s)
        if mm:
            scrut = canon(subst(mm.group(1))); arms = mm.group(2)
            a_some = re.search(r"Some\((\w+)\) => \{ buffer\.write_bool\(true\)\.await\?; buffer\.write_(\w+)\(&?\*?(\w+)\)\.await\?; \}", arms)
            a_none = re.search(r"None => \{ buffer\.write_bool\(false\)\.await\?; \}|None => buffer\.write_bool\(false\)\.await\?,", arms)
            mf = re.fullmatch(r"self\.(\w+)", scrut)
            if a_some and a_none and mf and a_some.group(1) == a_some.group(3) and a_some.group(2) in WRITE_KINDS:
                rest_ = arms.replace(a_some.group(0), "").replace(a_none.group(0), "").strip(" ,")
                if rest_ == "":
                    ops.append((mf.group(1), "KOpt " + WRITE_KINDS[a_some.group(2)])); i += 1; continue
            raise Unparsed("write statement: " + s)
        md = re.fullmatch(r"let (?:Self|\w+) \{ (.*?),? \} = \*?&?self;", s)
        if md:
            for part in [x.strip() for x in md.group(1).split(",") if x.strip() and x.strip() != ".."]:
                if ":" in part:
                    f, l = [x.strip() for x in part.split(":", 1)]
                    mt_ = re.fullmatch(r"[A-Z]\w*\((\w+)\)", l)
                    if mt_: env[mt_.group(1)] = "self." + f + ".0"; continue
                    locals_[re.sub(r"^(ref|mut)\s+", "", l)] = f
                else:
                    locals_[re.sub(r"^(ref|mut)\s+", "", part)] = re.sub(r"^(ref|mut)\s+", "", part)
            i += 1; continue
        m = re.fullmatch(r"buffer\.write_(\w+)\((.*)\)\.await\?;", s)
        if m:
            k, arg = m.group(1), canon(subst(m.group(2).strip()))
            # normalise: VarInt::from(<field>) / <field>.into() / plain field, with the field spelled in any way
            mi = re.fullmatch(r"(.*)\.into\(\)", arg)
            mv = re.fullmatch(r"VarInt::from\((.*)\)", arg)
            if mi: arg = norm(mi.group(1)) + ".into()"
            elif mv:
                inner = norm(mv.group(1))
                mf = re.fullmatch(r"self\.(\w+)", inner)
                if mf and ftypes.get(mf.group(1)) in enums: arg = inner + ".into()"
                else: arg = "VarInt::from(" + inner + ")"
            else:
                na = norm(arg)
                if re.fullmatch(r"self\.\w+(\.0)?", na) or re.fullmatch(r"self\.\w+\.is_some\(\)", na): arg = na
            if k not in WRITE_KINDS: raise Unparsed("write kind " + k)
            kind = WRITE_KINDS[k]
            # optional: write_bool(self.f.is_some()) followed by `if let Some(x) = &self.f { write_K(x) }`
            mo = re.fullmatch(r"self\.(\w+)\.is_some\(\)", arg)
            if mo and k == "bool" and i + 1 < len(stmts):
                f = mo.group(1)
                m2 = re.fullmatch(r"if let Some\((\w+)\) = &self\." + f + r" \{ buffer\.write_(\w+)\((\w+)\)\.await\?; \}", stmts[i+1])
                if m2 and m2.group(1) == m2.group(3) and m2.group(2) in WRITE_KINDS:
                    ops.append((f, "KOpt " + WRITE_KINDS[m2.group(2)]))
                    i += 2; continue
                raise Unparsed("optional field pattern: " + stmts[i+1])
            ma = re.fullmatch(r"&?self\.(\w+)", arg)
            if ma:
                f = ma.group(1)
                t = ftypes.get(f)
                if t is None: raise Unparsed("unknown field " + f)
                if k == "bytes" and t in aliases:
                    kind = "KBytesN %d" % aliases[t]
                ops.append((f, kind)); i += 1; continue
            ma = re.fullmatch(r"self\.(\w+)\.into\(\)", arg)
            if ma and k == "varint":
                f = ma.group(1); t = ftypes.get(f)
                if t == "u16":
                    ops.append((f, "KVarIntU16")); i += 1; continue
                if t not in enums: raise Unparsed("into() on non-enum field %s: %s" % (f, t))
                if not enums[t].get("ok", True): raise Unparsed("enum %s: conversion impls not understood" % t)
                ops.append((f, "KEnum %s_tbl" % t)); i += 1; continue
            ma = re.fullmatch(r"self\.(\w+)\.0", arg)
            if ma:
                ops.append((ma.group(1), kind)); i += 1; continue
            ma = re.fullmatch(r"VarInt::from\(self\.(\w+)\)", arg)
            if ma and k == "varint" and ftypes.get(ma.group(1)) == "u16":
                ops.append((ma.group(1), "KVarIntU16")); i += 1; continue
            ma = re.fullmatch(r"-?\d+", arg)
            if ma and k == "varint":
                ops.append(("_const", "KConstVarInt (%s)" % arg)); i += 1; continue
            raise Unparsed("write argument: " + s + " [" + arg + "]")
        raise Unparsed("write statement: " + s)
    return ops

def parse_read(body, fields, enums, aliases):
    ftypes = dict(fields)
    stmts = split_stmts(body)
    binds = []      # (local name, kind)
    pending_opt = {}  # local var -> None (declared `let mut x = None`)
    flag_vars = {}  # bool local consumed by a following `if`
    ctor = None
    i = 0
    while i < len(stmts):
        s = stmts[i]
        m = re.fullmatch(r"Ok\((?:Self|[A-Z]\w*)( \{(.*)\})?\)", s)
        if m:
            ctor = m.group(2) or ""
            i += 1; continue
        # `let packet = Name { .. };` ... `Ok(packet)`
        m = re.fullmatch(r"let (\w+)(?: ?: ?\w+)? = (?:Self|[A-Z]\w*)( \{(.*)\})?;", s)
        if m and i + 1 < len(stmts) and stmts[i + 1] == "Ok(%s)" % m.group(1):
            ctor = m.group(3) or ""
            i += 2; continue
        # `let Ok(x) = T::try_from(y) else { return Err(Error::ArrayConversionFailed); };` on the bytes bound just before
        m = re.fullmatch(r"let Ok\((\w+)\) = \w+::try_from\((\w+)\) else \{ return Err\(Error::ArrayConversionFailed\); \};", s)
        if m and binds and binds[-1] == (m.group(2), "KBytes"):
            binds[-1] = (m.group(1), "BYTESN"); i += 1; continue
        m = re.fullmatch(r"let mut (\w+) = None;", s)
        if m:
            pending_opt[m.group(1)] = True; i += 1; continue
        # if <cond> { x = Some(buffer.read_K().await?); }
        m = re.fullmatch(r"if (.+?) \{ (\w+) = Some\(buffer\.read_(\w+)\(\)\.await\?\); \}", s)
        if m:
            cond, var, k = m.groups()
            if var not in pending_opt or k not in WRITE_KINDS: raise Unparsed("optional read: " + s)
            if cond == "buffer.read_bool().await?":
                pass
            elif cond in flag_vars:
                # the flag must be the immediately preceding bound value
                if not binds or binds[-1][0] != cond: raise Unparsed("flag not adjacent: " + s)
                binds.pop()
            else:
                raise Unparsed("optional read condition: " + s)
            binds.append((var, "KOpt " + WRITE_KINDS[k])); i += 1; continue
        m = re.fullmatch(r"let (\w+)(?: ?: ?[\w:<>]+)? = (.*);", s)
        if m:
            name, rhs = m.group(1), m.group(2).strip()
            # `let y = E::try_from(x)?;` / `let y = x.try_into()?;` on the VarInt bound just before
            mt = re.fullmatch(r"(?:\w+::try_from\((\w+)\)|(\w+)\.try_into\(\))\?", rhs)
            if mt and binds and binds[-1][0] == (mt.group(1) or mt.group(2)) and binds[-1][1] == "KVarInt":
                binds[-1] = (name, "ENUM"); i += 1; continue
            mr = re.fullmatch(r"buffer\.read_(\w+)\(\)\.await\?", rhs)
            if mr and mr.group(1) in WRITE_KINDS:
                k = mr.group(1)
                if name.startswith("_") and k == "varint":
                    binds.append(("_const", "KConstVarInt")); i += 1; continue
                if k == "bool": flag_vars[name] = True
                binds.append((name, WRITE_KINDS[k])); i += 1; continue
            mr = re.fullmatch(r"buffer\.read_varint\(\)\.await\?\.try_into\(\)\?", rhs)
            if mr:
                binds.append((name, "ENUM")); i += 1; continue
            mr = re.fullmatch(r"buffer\.read_varint\(\)\.await\? as u16", rhs)
            if mr:
                binds.append((name, "KVarIntU16")); i += 1; continue
            mr = re.fullmatch(r"buffer \.read_bytes\(\) \.await\? \.try_into\(\) \.map_err\(\|_\| Error::ArrayConversionFailed\)\?", rhs)
            if mr:
                binds.append((name, "BYTESN")); i += 1; continue
            # `?` spelled out: `let r = buffer.read_K().await;` `let x = match r { Ok(v) => v, Err(e) => return Err(..) };`
            mr = re.fullmatch(r"buffer\.read_(\w+)\(\)\.await", rhs)
            if mr and mr.group(1) in WRITE_KINDS and i + 1 < len(stmts):
                m2 = re.fullmatch(r"let (\w+)(?: ?: ?[\w:<>]+)? = match " + name + r" \{ Ok\((\w+)\) => (\w+), Err\((\w+)\) => return Err\((?:Error::from\(\4\)|\4\.into\(\)|\4)\),? \};", stmts[i + 1])
                if m2 and m2.group(2) == m2.group(3):
                    k = mr.group(1)
                    if k == "bool": flag_vars[m2.group(1)] = True
                    binds.append((m2.group(1), WRITE_KINDS[k])); i += 2; continue
            # optional as one expression: `match buffer.read_bool().await? { true => { let b = buffer.read_K().await?; Some(b) } false => None, }`
            mr = re.fullmatch(r"match buffer\.read_bool\(\)\.await\? \{ (.*) \}", rhs)
            if mr:
                arms = mr.group(1)
                a_t = re.search(r"true => (?:\{ let (\w+) = buffer\.read_(\w+)\(\)\.await\?; Some\(\1\) \}|Some\(buffer\.read_(\w+)\(\)\.await\?\)),?", arms)
                a_f = re.search(r"false => None,?", arms)
                if a_t and a_f and arms.replace(a_t.group(0), "").replace(a_f.group(0), "").strip() == "":
                    k = a_t.group(2) or a_t.group(3)
                    if k in WRITE_KINDS:
                        binds.append((name, "KOpt " + WRITE_KINDS[k])); i += 1; continue
            # a newtype wrapped around the value bound just before: `let y = Wrapper(x);`
            mr = re.fullmatch(r"[A-Z]\w*\((\w+)\)", rhs)
            if mr and binds and binds[-1][0] == mr.group(1):
                binds[-1] = (name, binds[-1][1]); i += 1; continue
            mr = re.fullmatch(r"(\w+)\(buffer\.read_(\w+)\(\)\.await\?\)", rhs)
            if mr and mr.group(2) in WRITE_KINDS:
                binds.append((name, WRITE_KINDS[mr.group(2)])); i += 1; continue
            raise Unparsed("read rhs: " + s)
        raise Unparsed("read statement: " + s)
    if ctor is None: raise Unparsed("no constructor")
    # map local names to struct fields through the constructor
    local2field = {}
    for part in [p.strip() for p in ctor.split(",") if p.strip()]:
        if ":" in part:
            f, e = [x.strip() for x in part.split(":", 1)]
            mi_ = re.fullmatch(r"buffer\.read_(\w+)\(\)\.await\?", e)
            if mi_ and mi_.group(1) in WRITE_KINDS:
                # evaluated in the order the fields are written in the constructor: after every earlier binding
                binds.append(("__inline_" + f, WRITE_KINDS[mi_.group(1)])); local2field["__inline_" + f] = f; continue
            if not re.fullmatch(r"\w+", e): raise Unparsed("constructor expr: " + part)
            local2field[e] = f
        else:
            local2field[part] = part
    ops = []
    for name, kind in binds:
        if name == "_const":
            ops.append(("_const", kind)); continue
        if name not in local2field: raise Unparsed("local %s not stored" % name)
        f = local2field[name]; t = ftypes.get(f)
        if t is None: raise Unparsed("unknown field " + f)
        if kind == "ENUM":
            if t not in enums: raise Unparsed("try_into on non-enum field %s: %s" % (f, t))
            if not enums[t].get("ok", True): raise Unparsed("enum %s: conversion impls not understood" % t)
            kind = "KEnum %s_tbl" % t
        elif kind == "BYTESN":
            if t not in aliases: raise Unparsed("array field %s: %s" % (f, t))
            kind = "KBytesN %d" % aliases[t]
        ops.append((f, kind))
    if set(local2field.values()) != set(f for f, _ in fields):
        raise Unparsed("constructor does not set every field")
    return ops

def parse_packets(src, state, enums, aliases):
    packets = []
    for dm in re.finditer(r"pub mod (clientbound|serverbound)\s*\{", src):
        direction = dm.group(1)
        end = match_brace(src, dm.end() - 1)
        mod = src[dm.end():end]
        structs = {}
        for m in re.finditer(r"pub struct (\w+)\s*(;|\{)", mod):
            name = m.group(1)
            if m.group(2) == ";":
                structs[name] = []
            else:
                e = match_brace(mod, m.end() - 1)
                structs[name] = parse_struct_fields(mod[m.end():e] + ",")
        ids = {m.group(1): int(m.group(2), 0) for m in
               re.finditer(r"impl Packet for (\w+)\s*\{\s*const ID: VarInt = (0x[0-9A-Fa-f]+|\d+);", mod)}
        def fn_body(trait, name, fn):
            m = re.search(r"impl " + trait + r" for " + name + r"\s*\{", mod)
            if not m: return None
            e = match_brace(mod, m.end() - 1)
            blk = mod[m.end():e]
            m2 = re.search(r"async fn " + fn + r"<S>\([^)]*\)\s*->\s*Result<[^{]*\{", blk)
            if not m2: return None
            # the opening brace of the fn body is the last char of the match
            e2 = match_brace(blk, m2.end() - 1)
            return blk[m2.end():e2]
        for name, fields in structs.items():
            if name not in ids: continue
            p = {"name": name, "state": state, "dir": direction, "id": ids[name],
                 "fields": [f for f, _ in fields], "write": None, "read": None, "err": None}
            try:
                wb = fn_body("WritePacket", name, "write_to_buffer")
                rb = fn_body("ReadPacket", name, "read_from_buffer")
                if wb is None or rb is None: raise Unparsed("missing impl")
                wb = re.sub(r"#\[[^\]]*\]", "", wb); rb = re.sub(r"#\[[^\]]*\]", "", rb)
                p["write"] = parse_write(wb, fields, enums, aliases)
                p["read"] = parse_read(rb, fields, enums, aliases)
                # the reader of a constant field carries the constant of the writer only for display
                consts = [k for f, k in p["write"] if f == "_const"]
                ci = 0
                for j, (f, k) in enumerate(p["read"]):
                    if k == "KConstVarInt":
                        p["read"][j] = (f, consts[ci] if ci < len(consts) else "KConstVarInt 0"); ci += 1
            except Unparsed as e:
                p["err"] = str(e)
                sys.stderr.write("translate_packets: %s::%s::%s: %s\n" % (state, direction, name, e))
            packets.append(p)
    return packets

def gen_packets():
    base = os.path.join(REPO, "passage-packets", "src")
    lib = strip_comments(open(os.path.join(base, "lib.rs")).read())
    enums = parse_enums(lib)
    aliases = {m.group(1): int(m.group(2)) for m in re.finditer(r"pub type (\w+) = \[u8; (\d+)\];", lib)}
    out = []
    out.append("(* GENERATED by tools/translate_packets.py from %s/passage-packets/src - do not edit *)" % REPO)
    out.append("From Passage Require Import Lib.Bytes Codec.Desc.")
    out.append("Local Open Scope string_scope.")
    out.append("")
    for name, e in sorted(enums.items()):
        tos = []
        ok = True
        for v in e["variants"]:
            if v not in e["to"]: ok = False; break
            tos.append(e["to"][v])
        frm = []
        for o, v in e["from"]:
            if v not in e["variants"]: ok = False; break
            frm.append((o, e["variants"].index(v)))
        if not e.get("ok", True): ok = False
        if not ok:
            sys.stderr.write("translate_packets: enum %s tables incomplete\n" % name)
            tos, frm = [], []
        out.append("Definition %s_tbl : enum_tbl := {| e_name := %s; e_to := [%s]; e_from := [%s] |}." % (
            name, coq_str(name), "; ".join("(%d)" % o for o in tos),
            "; ".join("((%d), %d)" % (o, i) for o, i in frm)))
    out.append("Definition all_enums : list enum_tbl := [%s]." % "; ".join(n + "_tbl" for n in sorted(enums)))
    out.append("")
    out.append("Record packet := { p_state : string; p_dir : string; p_name : string; p_id : Z;")
    out.append("  p_parsed : bool; p_fields : list string; p_write : list (string * fk); p_read : list (string * fk) }.")
    out.append("")
    allp = []
    summary = []
    for state, fn in (("handshake", "handshake.rs"), ("status", "status.rs"), ("login", "login.rs"), ("configuration", "configuration.rs")):
        src = strip_comments(open(os.path.join(base, fn)).read())
        for p in parse_packets(src, state, enums, aliases):
            ident = "%s_%s_%s" % (state, "cb" if p["dir"] == "clientbound" else "sb", p["name"])
            def ops(l): return "[" + "; ".join("(%s, %s)" % (coq_str(f), k) for f, k in l) + "]"
            parsed = p["err"] is None
            out.append("Definition %s : packet := {| p_state := %s; p_dir := %s; p_name := %s; p_id := %d;" % (
                ident, coq_str(state), coq_str(p["dir"]), coq_str(p["name"]), p["id"]))
            out.append("  p_parsed := %s; p_fields := [%s];" % ("true" if parsed else "false", "; ".join(coq_str(f) for f in p["fields"])))
            out.append("  p_write := %s;" % (ops(p["write"]) if parsed else "[]"))
            out.append("  p_read := %s |}." % (ops(p["read"]) if parsed else "[]"))
            allp.append(ident)
            summary.append({"ident": ident, "id": p["id"], "parsed": parsed, "err": p["err"],
                            "write": p["write"], "read": p["read"]})
    out.append("")
    out.append("Definition all_packets : list packet := [%s]." % ";\n  ".join(allp))
    return "\n".join(out) + "\n", summary

# ---------------------------------------------------------------- constants
def gen_consts():
    out = ["(* GENERATED by tools/translate_packets.py - numeric constants the models depend on *)",
           "From Passage Require Import Lib.Bytes.", ""]
    info = {}
    rd = strip_comments(open(os.path.join(REPO, "passage-packets/src/reader.rs")).read())
    def loop_bound(fn):
        m = re.search(r"async fn " + fn + r"\(&mut self\)[^{]*\{", rd)
        if not m: return None
        e = match_brace(rd, m.end() - 1)
        body = rd[m.end():e]
        # the loop forms the translator understands; anything else is "not found" (the models then use the
        # protocol's own bounds 5 / 10, C09's tie theorem fails, and the codec correspondence decides)
        m2 = re.search(r"for \w+ in 0\s*\.\.\s*(=?)\s*(\d+)", body)
        if m2: return int(m2.group(2)) + (1 if m2.group(1) else 0)
        m2 = re.search(r"while (\w+) < (\d+) \* 7\b", body) or re.search(r"while (\w+) < 7 \* (\d+)\b", body)
        if m2 and re.search(re.escape(m2.group(1)) + r"\s*\+=\s*7\b", body): return int(m2.group(2))
        m2 = re.search(r"while (\w+) < (\d+)\b", body)
        if m2 and re.search(re.escape(m2.group(1)) + r"\s*\+=\s*7\b", body): return (int(m2.group(2)) + 6) // 7
        if m2 and re.search(re.escape(m2.group(1)) + r"\s*\+=\s*1\b", body): return int(m2.group(2))
        return None
    for fn, nm, dflt in (("read_varint", "varint_read_iters", 5), ("read_varlong", "varlong_read_iters", 10)):
        b = loop_bound(fn)
        info[nm] = b
        out.append("Definition %s : nat := %s%%nat." % (nm, b if b is not None else dflt))
    out.append("Definition %s_found : bool := %s." % ("read_iters", "true" if None not in (info["varint_read_iters"], info["varlong_read_iters"]) else "false"))
    conn = strip_comments(open(os.path.join(REPO, "passage-protocol/src/connection.rs")).read())
    def const_expr(src, name):
        m = re.search(r"const " + name + r"\s*:\s*[\w:<>]+\s*=\s*([^;]+);", src)
        if not m: return None
        e = m.group(1).replace("_", "").strip()
        if re.fullmatch(r"[\d\s\*\+]+", e):
            return eval(e)
        m2 = re.fullmatch(r"Duration::fromsecs\((\d+)\)", e)
        if m2: return int(m2.group(1))
        return None
    for nm in ("DEFAULT_MAX_PACKET_LENGTH", "DEFAULT_AUTH_COOKIE_EXPIRY", "KEEP_ALIVE_INTERVAL"):
        v = const_expr(conn, nm); info[nm] = v
        out.append("Definition %s : Z := %s." % (nm.lower(), v if v is not None else "(-1)"))
    lst = strip_comments(open(os.path.join(REPO, "passage-protocol/src/listener.rs")).read())
    v = const_expr(lst, "DEFAULT_CONNECTION_TIMEOUT"); info["DEFAULT_CONNECTION_TIMEOUT"] = v
    out.append("Definition default_connection_timeout : Z := %s." % (v if v is not None else "(-1)"))
    ck = strip_comments(open(os.path.join(REPO, "passage-protocol/src/cookie.rs")).read())
    for nm in ("AUTH_COOKIE_KEY", "SESSION_COOKIE_KEY"):
        m = re.search(r"const " + nm + r'\s*:\s*&str\s*=\s*"([^"]*)";', ck)
        info[nm] = m.group(1) if m else None
        out.append("Definition %s : string := %s." % (nm.lower(), coq_str(m.group(1) if m else "?")))
    return "\n".join(out) + "\n", info

def write_if_changed(path, content):
    try:
        if open(path).read() == content: return False
    except FileNotFoundError:
        pass
    os.makedirs(os.path.dirname(path), exist_ok=True)
    open(path, "w").write(content)
    return True

def main():
    pk, summary = gen_packets()
    cs, info = gen_consts()
    write_if_changed(os.path.join(OUT, "PacketsGen.v"), pk)
    write_if_changed(os.path.join(OUT, "ConstsGen.v"), cs)
    json.dump({"packets": summary, "consts": info}, open(os.path.join(OUT, "translate_summary.json"), "w"), indent=1)
    bad = [p["ident"] for p in summary if not p["parsed"]]
    print("translate_packets: %d packets (%d unparsed), consts %s" % (len(summary), len(bad), info))

if __name__ == "__main__":
    main()
