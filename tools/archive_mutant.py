#!/usr/bin/env python3
"""archive_mutant.py <property> <src dir> <name> <caught-by text> : keep a confirmed seeded change under seeded/<property>/<name>/"""
import sys, os, json, shutil
pid, src, name, caught = sys.argv[1:5]
dst = os.path.join("/verif/seeded", pid, name)
os.makedirs(dst, exist_ok=True)
for f in os.listdir(src):
    if f.endswith(".diff") or f.endswith(".rs") or f == "meta.json":
        shutil.copy(os.path.join(src, f), dst)
m = json.load(open(os.path.join(dst, "meta.json")))
m["confirmed_by_coordinator"] = {
    "how": "tools/confirm_mutant.sh: fresh worktree of /repo HEAD, patch applied, `cargo test --workspace --no-fail-fast --offline` (77 passed, 0 failed), demonstration run with the patch (fails) and without it (passes)",
    "check_result": caught,
}
json.dump(m, open(os.path.join(dst, "meta.json"), "w"), indent=1)
print("archived", dst)
