#!/usr/bin/env python3
"""Regenerate MANIFEST.json from tools/props.py (claimed checks) and properties.jsonl."""
import json, os, sys
ROOT = os.path.dirname(os.path.dirname(os.path.abspath(__file__)))
sys.path.insert(0, os.path.join(ROOT, "tools"))
import props
ids = [json.loads(l)["id"] for l in open(os.path.join(ROOT, "properties.jsonl"))]
NA = getattr(props, "NOT_APPLICABLE", {})
checks = []
for pid in ids:
    if pid not in props.PROPS: continue
    sp = props.PROPS[pid]
    checks.append({
        "property_id": pid,
        "quick_cmd": "./check %s --tier quick" % pid,
        "thorough_cmd": "./check %s --tier thorough" % pid,
        "evidence_file": "evidence/%s.json" % pid,
        "replay_cmd_template": "./check %s --replay {path}" % pid,
        "engine": "coq-passage",
        "level_claimed": {"category": "proof", "text": sp.get("level_text") or ("Coq theorems (" + sp["props_file"] + ") over an executable Gallina model, tied to the code by " + "; ".join(sp.get("ties", []))), "design_ref": "DESIGN.md section 3, " + pid},
        "level_note": sp.get("level_note") or ("Trusted base: " + "; ".join(sp.get("trusted_base", [])) + ". Assumptions: " + "; ".join(sp.get("assumptions", []) or ["none beyond the trusted base"])),
        "technique": sp.get("technique", "Rocq/Coq proof over a Gallina model + vm_compute correspondence with the Rust implementation"),
    })
m = {
    "version": 1, "setup_cmd": "./setup.sh",
    "hooks": {"guard": "passage_verif",
              "enable": "RUSTFLAGS=\"--cfg passage_verif\" (set for the harness crates in harness*/.cargo/config.toml)",
              "baseline_off_cmd": "cd /repo && cargo test --workspace --no-fail-fast --offline",
              "source_commits": getattr(props, "HOOK_COMMITS", []), "add_only": True},
    "engines": [{"name": "coq-passage", "path": "coq/", "serves_properties": [c["property_id"] for c in checks],
                 "kind_free_text": "Coq 8.16.1 theory Passage (models, specifications, theorems) + Python translator from the Rust sources + Rust correspondence harnesses, driven by tools/driver.py"}],
    "checks": checks,
    "notes": "Every claimed check is a Coq proof over a model tied to /repo on each run (translator and/or correspondence). Properties listed under not_applicable with reason 'check under construction' are not yet claimed.",
    "not_applicable": [{"property_id": i, "reason": NA.get(i, "check under construction in this round (model and theorems not yet committed); not a claim that the technique cannot apply")} for i in ids if i not in props.PROPS],
}
json.dump(m, open(os.path.join(ROOT, "MANIFEST.json"), "w"), indent=1)
print("claimed:", [c["property_id"] for c in checks])
