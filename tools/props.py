"""Per-property configuration of the driver: which theorems, which harness binaries,
which Gallina checker evaluates which case family, what is a known finding."""
import re, os, json, subprocess

COMMON_TB = [
    "tools/translate_packets.py (regex/bracket translator from the Rust sources to Gen/*.v)",
    "harness/ (Rust correspondence harness, seeded generators, Gallina term printers)",
    "tools/driver.py (case files, result parsing, classification)",
]

PROPS = {
    "C09": {
        "props_file": "Props/C09.v",
        "run_files": ["Run/CaseC09.v"],
        "imports": ["Lib.Bytes", "Codec.VarInt", "Codec.Desc", "Gen.PacketsGen", "Run.CaseC09"],
        "case_type": "c09case",
        "checkers": {"RT": "check_c09", "DEC": "check_c09", "VI": "check_c09", "VL": "check_c09", "VR": "check_c09"},
        "harness": [{"bin": "codec"}],
        "quick_scale": 1, "thorough_scale": 12, "search_factor": 6,
        "ties": ["Gen/PacketsGen.v regenerated from passage-packets/src/{handshake,status,login,configuration,lib}.rs",
                 "Gen/ConstsGen.v: read_varint/read_varlong loop bounds from reader.rs"],
        "allowed_axioms": [],
        "rule": "codec binary: per packet type seeded boundary-dense values (RT: encode+decode with the real code) and mutated encodings (DEC), "
                "VarInt/VarLong values and raw byte strings (VI/VL/VR); non-trivial = distinct case whose packet has at least one field or which is a VarInt/VarLong case",
        "trusted_base": COMMON_TB + ["Spec/McLayout.v (hand-transcribed protocol layout table)", "Spec/Leb128.v",
                                     "hand model of reader.rs/writer.rs primitives in Codec/VarInt.v, Codec/Desc.v (tied by the codec correspondence)",
                                     "fastnbt/serde_json for '{'-JSON text components: outside the model (cases skipped and counted)"],
        "assumptions": ["values within protocol limits: strings/arrays shorter than 2^31 bytes, text components shorter than 2^16 bytes and not JSON-form"],
    },
}


def nontrivial(pid, fam, term):
    if pid == "C09":
        if fam in ("VI", "VL", "VR"): return True
        return "[]" not in term.split("(hx")[0] or fam == "DEC"
    return True


def match_known(pid, known, case):
    """case = (family, term, bin) -> finding dict if the failing case lies in a listed known class"""
    fam, term = case[0], case[1]
    for k in known:
        if k.get("status") != "known": continue
        m = k.get("match", {})
        if m.get("family") and m["family"] != fam: continue
        if m.get("regex") and not re.search(m["regex"], term): continue
        if m.get("family") or m.get("regex"):
            return k
    return None


def known_lines(pid, spec, known, cases, codes, res, root):
    """KNOWN-FINDING lines: one per listed finding that still reproduces on this tree"""
    lines = []
    hit_ids = {}
    for i, k in res["known"]:
        hit_ids[k["id"]] = hit_ids.get(k["id"], 0) + 1
    for k in known:
        if k.get("status") != "known": continue
        still = False
        if k.get("probe") == "c09_placeholders":
            still_list = c09_unimplemented(root)
            still = k["match_name"] in still_list
        else:
            still = hit_ids.get(k["id"], 0) > 0
        if still:
            lines.append("KNOWN-FINDING: property=%s %s" % (pid, k["text"]))
    return lines


_c09_cache = None
def c09_unimplemented(root):
    """evaluate Codec.PacketCheck.unimplemented_placeholders in Coq"""
    global _c09_cache
    if _c09_cache is not None: return _c09_cache
    wd = os.path.join(root, "work", "C09"); os.makedirs(wd, exist_ok=True)
    p = os.path.join(wd, "placeholders.v")
    open(p, "w").write("From Passage Require Import Lib.Bytes Codec.PacketCheck.\nEval vm_compute in unimplemented_placeholders.\n")
    out = subprocess.run(["coqc", "-noglob", "-Q", os.path.join(root, "coq"), "Passage", p], cwd=wd,
                         stdout=subprocess.PIPE, stderr=subprocess.STDOUT).stdout.decode()
    _c09_cache = re.findall(r'"([^"]+)"', out)
    return _c09_cache
