"""Per-property configuration of the driver: which theorems, which harness binaries,
which Gallina checker evaluates which case family, what is a known finding."""
import re, os, json, subprocess

COMMON_TB = [
    "tools/translate_packets.py (regex/bracket translator from the Rust sources to Gen/*.v)",
    "harness/ (Rust correspondence harness, seeded generators, Gallina term printers)",
    "tools/driver.py (case files, result parsing, classification)",
]

HOOK_COMMITS = ["4d6c2a5", "be1b687", "e88a172", "8d87278"]

# family WCAP (conn binary): a transport that refuses writes by a schedule, a localization adapter that suspends; compared with M3
WCAP_FT = {"case_type": "conn_case", "shard": 12,
           "imports": ["Lib.Bytes", "Codec.Desc", "Conn.Types", "Conn.Prog", "Conn.Sem1", "Conn.Sem3", "Run.CaseConn", "Run.CaseConn3"],
           "checkers": {"WCAP": "check_conn3"}}

# family ENV (listener binary): Config::read - what the operator wrote (secret file, environment) is what is read
ENV_FT = {"case_type": "envcase", "imports": ["Lib.Bytes", "Limiter.Limiter", "Listener.Machine", "Listener.Wire", "Run.CaseLst"], "checkers": {"ENV": "check_env"}, "shard": 50}

PROPS = {
    "C09": {
        "props_file": "Props/C09.v",
        "run_files": ["Run/CaseC09.v", "Run/CaseConn3.v"],
        "imports": ["Lib.Bytes", "Codec.VarInt", "Codec.Desc", "Gen.PacketsGen", "Run.CaseC09"],
        "case_type": "c09case",
        "checkers": {"RT": "check_c09", "DEC": "check_c09", "VI": "check_c09", "VL": "check_c09", "VR": "check_c09", "VX": "check_c09"},
        "family_types": {"WCAP": WCAP_FT},
        "harness": [{"bin": "codec"},
                    # every packet as it is SENT, also after an interrupted send: the frames a client receives under a transport
                    # that refuses writes (M3) must be complete canonical packets
                    {"bin": "conn", "max_scale": 2, "env": {"VERIF_FAMILIES": "WCAP"}, "case_type": "conn_case", "imports": WCAP_FT["imports"], "checkers": {"WCAP": "check_conn3"}, "shard": 12}],
        "quick_scale": 1, "thorough_scale": 12, "search_factor": 6,
        "ties": ["Gen/PacketsGen.v regenerated from passage-packets/src/{handshake,status,login,configuration,lib}.rs",
                 "Gen/ConstsGen.v: read_varint/read_varlong loop bounds from reader.rs"],
        "allowed_axioms": [],
        "rule": "codec binary: per packet type seeded boundary-dense values (RT: encode+decode with the real code) and mutated encodings (DEC), "
                "VarInt/VarLong values and raw byte strings (VI/VL/VR); non-trivial = distinct case whose packet has at least one field or which is a VarInt/VarLong case",
        "trusted_base": COMMON_TB + ["Spec/McLayout.v (hand-transcribed protocol layout table)", "Spec/Leb128.v",
                                     "hand model of reader.rs/writer.rs primitives in Codec/VarInt.v, Codec/Desc.v (tied by the codec correspondence)",
                                     "fastnbt/serde_json for '{'-JSON text components: outside the model (cases skipped and counted)"],
        "assumptions": ["values within protocol limits: strings/arrays shorter than 2^31 bytes, text components shorter than 2^16 bytes and not JSON-form"],
    },
    "C11": {
        "props_file": "Props/C11.v",
        "run_files": ["Run/CaseC11.v", "Run/CaseC12.v", "Run/CaseConn.v", "Run/CaseLst.v"],
        "imports": ["Lib.Bytes", "Run.CaseC11"],
        "case_type": "c11case",
        "checkers": {"H": "check_c11", "D": "check_c11"},
        "family_types": {"ENV": ENV_FT},
        "harness": [{"bin": "hash"},
                    # the server id as the application reads it from the environment (Config::read)
                    {"bin": "listener", "crate": "harness-app", "families": ["ENV"], "env": {"VERIF_FAMILY": "ENV"}, "case_type": "envcase", "imports": ["Lib.Bytes", "Limiter.Limiter", "Listener.Machine", "Listener.Wire", "Run.CaseLst"], "checkers": {"ENV": "check_env"}, "shard": 50},
                    # the hash as it is USED towards the session service: the real MojangAdapter's request
                    {"bin": "mojang", "crate": "harness-net", "case_type": "c12case", "imports": ["Lib.Bytes", "Run.CaseC12"],
                     "checkers": {"REQ": "check_c12"}, "shard": 50},
                    # ... computed over THIS connection's shared secret and the server key: the Auth call of the real handler
                    {"bin": "conn", "env": {"VERIF_FAMILIES": "C01"}, "case_type": "conn_case",
                     "imports": ["Lib.Bytes", "Codec.Desc", "Conn.Types", "Conn.Prog", "Conn.Sem1", "Run.CaseConn"],
                     "checkers": {"C01": "check_c01"}, "shard": 40}],
        "quick_scale": 1, "thorough_scale": 12, "search_factor": 6,
        "ties": ["Crypto/McHash.v: hand model of num-bigint 0.4.6 from_signed_bytes_be / to_str_radix(16) and of "
                 "passage-adapters/src/authentication/mod.rs minecraft_hash, tied by the hash binary (families H, D)", "mojang binary (REQ): the serverId the real MojangAdapter puts into its hasJoined request vs the Spec-level hash of the CONFIGURED server id, shared secret and key (ids with surrounding whitespace, NUL, mixed case included)"],
        "allowed_axioms": [],
        "rule": "hash binary: H = real minecraft_hash on fixed vectors, seeded (id, secret, key) triples and triples found by "
                "counter search per digest class (top bit, 00, 00 0x, nibble 0, ff, ff fx, 80, 7f, negative with low byte 00); "
                "D = BigInt::from_signed_bytes_be(d).to_str_radix(16) on chosen digests; every case is non-trivial "
                "(distinct digest); monitor = output equals show_signed_hex(twos_complement_be(sha1(..))) from Spec only",
        "trusted_base": COMMON_TB + ["Spec/Sha1.v (SHA-1 spec, FIPS vectors), Spec/SignedHex.v (notation spec, proved bijective)",
                                     "hand model of num-bigint 0.4.6 in Crypto/McHash.v (tied by the hash correspondence)",
                                     "sha1 0.10 crate = Spec/Sha1.v (tied by the H cases only)"],
        "assumptions": [],
    },
    "C18": {
        "props_file": "Props/C18.v",
        "run_files": ["Run/CaseC18.v"],
        "imports": ["Lib.Bytes", "Adapters.Filters", "Run.CaseC18"],
        "case_type": "c18case",
        "checkers": {"FS": "check_c18", "PU32": "check_c18"},
        "harness": [{"bin": "filters", "crate": "harness-app"}],
        "quick_scale": 1, "thorough_scale": 8, "search_factor": 4,
        "ties": ["harness-app/src/bin/filters.rs builds the adapters through DynFilterAdapters::from_config / DynStrategyAdapter::from_config "
                 "(config values via serde_json::from_value or the public config structs) and runs filter + select of the real code",
                 "regex answers recorded from the regex crate for exactly the (pattern, text) pairs of each case",
                 "PU32: str::parse::<u32> against Filters.parse_u32"],
        "allowed_axioms": [],
        "rule": "filters binary: deterministic grid (each operation x absent/equal/different/empty value x scope, each player-list criterion "
                "x allow/block x hit/miss, count sets x capacities) plus seeded chains of 0-4 filters over 0-6 targets with hostile metadata, "
                "ties and duplicates (FS); numeric strings around the u32 grammar and bound (PU32); non-trivial = FS case with at least one "
                "filter or a player_fill strategy and at least one target, or any PU32 case",
        "trusted_base": COMMON_TB + ["hand model of passage-adapters filter/{meta,option,player_allow,player_block,mod}.rs, strategy/{any,player_fill}.rs "
                                     "and src/adapter/{filter,strategy}.rs in Adapters/Filters.v (tied by the filters correspondence)",
                                     "regex crate: a Section variable in the theorems, a recorded finite table in executions",
                                     "uuid crate: UUID text -> u128 is done on the Rust side"],
        "assumptions": ["the configuration was accepted by from_config (valid regexes and UUID strings); built-in strategies only (not grpc)"],
    },
    "C13": {
        "props_file": "Props/C13.v",
        "run_files": ["Run/CaseC13.v", "Run/CaseLst.v"],
        "imports": ["Lib.Bytes", "Limiter.F32", "Limiter.Bucket", "Limiter.Limiter", "Run.CaseC13"],
        "case_type": "c13case",
        "checkers": {"RND": "check_c13", "BND": "check_c13", "SAT": "check_c13"},
        "harness": [{"bin": "limiter"},
                    # the limiter as the listener uses it: which key an attempt is charged to, and that nothing else is
                    {"bin": "listener", "crate": "harness-app", "families": ["ADM"], "env": {"VERIF_FAMILY": "ADM"}, "case_type": "lstcase", "imports": ["Lib.Bytes", "Limiter.Limiter", "Listener.Machine", "Listener.Wire", "Run.CaseLst"], "checkers": {"ADM": "check_c15"}, "shard": 20}],
        "shard": 14,                       # 213 cases -> 16 coqc processes
        "quick_scale": 1, "thorough_scale": 12, "search_factor": 6,
        "ties": ["harness limiter binary: RateLimiter<u64> under a paused tokio clock vs Limiter.enqueue (decisions, tracked keys after every attempt, per-key solo runs)", "every history is also replayed with each rejected attempt repeated at the same instant: the other decisions must not change (observable side of C13_reject_free)"],
        "allowed_axioms": ["ClassicalDedekindReals.sig_not_dec", "ClassicalDedekindReals.sig_forall_dec",
                           "FunctionalExtensionality.functional_extensionality_dep", "Classical_Prop.classic"],
        "rule": "limiter binary: seeded histories over 1-6 keys, limits {1,2,3,60}, durations {1 ms,1 s,1.5 s,10 s}, gaps {0,1 ns,d-1,d,d+1,2d-1,2d,2d+1,4d,random}, "
                "8 fixed boundary histories, bursts at one instant; non-trivial = distinct history with at least one rejection or one key dropped by the cleanup",
        "trusted_base": COMMON_TB + ["Flocq 4.1.0 binary32 (BinarySingleNaN) as the meaning of Rust f32 + - * / >= and `as f32`",
                                     "hand model of rate_limiter.rs in Limiter/{F32,Bucket,Limiter}.v (tied by the limiter correspondence)",
                                     "second Instant::now() of the cleanup modelled as the first (exact under the paused clock)"],
        "assumptions": ["1 <= limit <= 2^24 and 1 ns <= duration <= 2^24 s for the bounds; non-decreasing attempt times (monotonic clock)"],
    },
    "C01": {
        "props_file": "Props/C01.v",
        "run_files": ["Run/CaseConn.v", "Run/CaseC12.v"],
        "imports": ["Lib.Bytes", "Codec.Desc", "Conn.Types", "Conn.Prog", "Conn.Sem1", "Run.CaseConn"],
        "case_type": "conn_case",
        "checkers": {"BASE": "check_c01", "C01": "check_c01", "C02": "check_c01", "C10": "check_c01", "C03": "check_c01"},
        "harness": [{"bin": "conn", "env": {"VERIF_FAMILIES": "BASE,C01,C02,C10,C03"}},
                    # the question the authentication service is asked: the real MojangAdapter's request, for hostile names
                    {"bin": "mojang", "crate": "harness-net", "case_type": "c12case", "imports": ["Lib.Bytes", "Run.CaseC12"],
                     "checkers": {"REQ": "check_c12"}, "shard": 50}],
        "shard": 40,
        "quick_scale": 1, "thorough_scale": 4, "search_factor": 4,
        "ties": ["conn binary: real Connection::listen on a scripted transport/client/adapters in a paused runtime vs Conn.Sem1.run1 (sends, calls, outcome, virtual ms)",
                 "Gen/PacketsGen.v descriptors decode the client's frames and encode the model's packets"],
        "allowed_axioms": [],
        "rule": 'conn binary families BASE (seeded happy paths of all intents) and C01 (15 encryption-response modes x 4 authentication verdicts x Login/Transfer, with and without a valid cookie); non-trivial = distinct case that reaches the Encryption Request',
        "trusted_base": COMMON_TB + ["Conn/Prog.v: hand transcription of Connection::listen into the program datatype (tied by the conn correspondence: every case compares the model's sends, adapter calls, outcome and virtual times with the real Connection::listen)",
                                     "Conn/Sem1.v: frame-level semantics incl. a hand model of tokio 1.49 Interval (MissedTickBehavior::Skip), validated by every timed conn case",
                                     "RSA PKCS#1 v1.5, serde_json, uuid generation, SystemTime: oracles recorded per case / universally quantified in the theorems",
                                     "monitor on the implementation's trace: observable events are the implementation's, unobservable ones (frame consumption, fresh values) are aligned from the model's run"],
        "assumptions": ["frames delivered atomically (segmentation is C08's subject)", "event times distinct from tick instants and adapter completions"],
    },
    "C02": {
        "props_file": "Props/C02.v",
        "run_files": ["Run/CaseConn.v", "Run/CaseCookie.v", "Run/CaseConnJson.v", "Run/CaseLst.v"],
        "imports": ["Lib.Bytes", "Codec.Desc", "Conn.Types", "Conn.Prog", "Conn.Sem1", "Run.CaseConn", "Run.CaseConnJson"],
        "case_type": "conn_case",
        "checkers": {"BASE": "check_c02_json", "C02": "check_c02_json", "C01": "check_c02_json", "C10": "check_c02_json"},
        "harness": [{"bin": "conn", "env": {"VERIF_FAMILIES": "BASE,C02,C01,C10"}},
                    # which address the cookie is checked against and issued for when the client arrives through a balancer
                    {"bin": "listener", "crate": "harness-app", "families": ["ADM"], "env": {"VERIF_FAMILY": "ADM"}, "case_type": "lstcase", "imports": ["Lib.Bytes", "Limiter.Limiter", "Listener.Machine", "Listener.Wire", "Run.CaseLst"], "checkers": {"ADM": "check_c15"}, "shard": 20},
                    {"bin": "cookie", "case_type": "ckcase", "imports": ["Lib.Bytes", "Conn.Types", "Run.CaseCookie"], "checkers": {"SG": "check_cookie", "CK": "check_cookie", "JS": "check_cookie", "JP": "check_cookie"}, "shard": 100}],
        "shard": 20,
        "quick_scale": 1, "thorough_scale": 4, "search_factor": 4,
        "ties": ["cookie binary JS/JP: the real serde_json to_vec / from_slice on AuthCookie and SessionCookie vs the Gallina serde of Crypto/CookieJson.v (writer bytes equal; parser verdict and record equal whenever the model decides), and the serde tables recorded in every conn case vs the same model (Run/CaseConnJson.v)", "conn binary: real Connection::listen on a scripted transport/client/adapters in a paused runtime vs Conn.Sem1.run1 (sends, calls, outcome, virtual ms)",
                 "Gen/PacketsGen.v descriptors decode the client's frames and encode the model's packets"],
        "allowed_axioms": [],
        "rule": 'conn binary family C02: per secret a valid cookie and its variants (absent, empty, ages around the expiry, other IP, other secret, truncations, bit flips, signed non-cookie bodies) x intents x secret configured or not, under the clock hook; non-trivial = distinct case in which a cookie payload was presented',
        "trusted_base": COMMON_TB + ["Conn/Prog.v: hand transcription of Connection::listen into the program datatype (tied by the conn correspondence: every case compares the model's sends, adapter calls, outcome and virtual times with the real Connection::listen)",
                                     "Conn/Sem1.v: frame-level semantics incl. a hand model of tokio 1.49 Interval (MissedTickBehavior::Skip), validated by every timed conn case",
                                     "RSA PKCS#1 v1.5, serde_json, uuid generation, SystemTime: oracles recorded per case / universally quantified in the theorems",
                                     "monitor on the implementation's trace: observable events are the implementation's, unobservable ones (frame consumption, fresh values) are aligned from the model's run"],
        "assumptions": ["frames delivered atomically (segmentation is C08's subject)", "event times distinct from tick instants and adapter completions"],
    },
    "C03": {
        "props_file": "Props/C03.v",
        "run_files": ["Run/CaseConn.v", "Run/CaseIp.v", "Run/CaseLocale.v"],
        "imports": ["Lib.Bytes", "Codec.Desc", "Conn.Types", "Conn.Prog", "Conn.Sem1", "Run.CaseConn"],
        "case_type": "conn_case",
        "checkers": {"BASE": "check_c03", "C03": "check_c03", "C10": "check_c03", "C07": "check_c03", "WCAN": "check_c03"},
        "harness": [{"bin": "conn", "env": {"VERIF_FAMILIES": "BASE,C03,C10,C07,WCAN"}}, {"bin": "iptext", "case_type": "ipcase", "imports": ["Lib.Bytes", "Lib.IpText", "Run.CaseIp"], "checkers": {"SHOW": "check_ip", "PARSE": "check_ip", "SOCK": "check_ip"}, "shard": 300}, {"bin": "locale", "case_type": "loccase", "imports": ["Lib.Bytes", "Adapters.Locale", "Run.CaseLocale"], "checkers": {"LOC": "check_locale"}, "shard": 60}],
        "shard": 40,
        "quick_scale": 1, "thorough_scale": 8, "search_factor": 4,
        "ties": ["conn binary: real Connection::listen on a scripted transport/client/adapters in a paused runtime vs Conn.Sem1.run1 (sends, calls, outcome, virtual ms)",
                 "Gen/PacketsGen.v descriptors decode the client's frames and encode the model's packets"],
        "allowed_axioms": [],
        "rule": 'conn binary family C03: 0-7 targets (IPv4/IPv6, duplicates) x filter outcome {identity, mask, reverse, empty, foreign, error} x strategy {first, last, nth, none, foreign, error} x locales x localization tables (real FixedLocalizationAdapter); non-trivial = distinct case that reaches discovery',
        "trusted_base": COMMON_TB + ["Conn/Prog.v: hand transcription of Connection::listen into the program datatype (tied by the conn correspondence: every case compares the model's sends, adapter calls, outcome and virtual times with the real Connection::listen)",
                                     "Conn/Sem1.v: frame-level semantics incl. a hand model of tokio 1.49 Interval (MissedTickBehavior::Skip), validated by every timed conn case",
                                     "RSA PKCS#1 v1.5, serde_json, uuid generation, SystemTime: oracles recorded per case / universally quantified in the theorems",
                                     "monitor on the implementation's trace: observable events are the implementation's, unobservable ones (frame consumption, fresh values) are aligned from the model's run"],
        "assumptions": ["frames delivered atomically (segmentation is C08's subject)", "event times distinct from tick instants and adapter completions"],
    },
    "C06": {
        "props_file": "Props/C06.v",
        "run_files": ["Run/CaseConn.v", "Run/CaseConn3.v"],
        "imports": ["Lib.Bytes", "Codec.Desc", "Conn.Types", "Conn.Prog", "Conn.Sem1", "Run.CaseConn"],
        "case_type": "conn_case",
        "family_types": {"WCAP": WCAP_FT},
        "checkers": {"BASE": "check_c06", "C06": "check_c06", "C01": "check_c06", "C02": "check_c06", "C07": "check_c06", "C10": "check_c06", "C03": "check_c06", "WCAN": "check_c06"},
        "harness": [{"bin": "conn", "env": {"VERIF_FAMILIES": "BASE,C06,C01,C02,C07,C10,C03,WCAN,WCAP"}}],
        "shard": 40,
        "quick_scale": 1, "thorough_scale": 4, "search_factor": 4,
        "ties": ["conn binary: real Connection::listen on a scripted transport/client/adapters in a paused runtime vs Conn.Sem1.run1 (sends, calls, outcome, virtual ms)",
                 "Gen/PacketsGen.v descriptors decode the client's frames and encode the model's packets"],
        "allowed_axioms": [],
        "rule": 'conn binary family C06: at every protocol step of the status/login/transfer happy paths the expected frame replaced by each packet id 0..0x20,-1,0x7f,0x80 (a seeded third in the quick tier), the expected frame repeated, next-state ordinals -1..5; non-trivial = distinct case with at least two frames',
        "trusted_base": COMMON_TB + ["Conn/Prog.v: hand transcription of Connection::listen into the program datatype (tied by the conn correspondence: every case compares the model's sends, adapter calls, outcome and virtual times with the real Connection::listen)",
                                     "Conn/Sem1.v: frame-level semantics incl. a hand model of tokio 1.49 Interval (MissedTickBehavior::Skip), validated by every timed conn case",
                                     "RSA PKCS#1 v1.5, serde_json, uuid generation, SystemTime: oracles recorded per case / universally quantified in the theorems",
                                     "monitor on the implementation's trace: observable events are the implementation's, unobservable ones (frame consumption, fresh values) are aligned from the model's run"],
        "assumptions": ["frames delivered atomically (segmentation is C08's subject)", "event times distinct from tick instants and adapter completions"],
    },
    "C05": {
        "props_file": "Props/C05.v",
        "run_files": ["Run/CaseC05.v", "Run/CaseConn.v"],
        "imports": ["Lib.Bytes", "Crypto.CipherStream", "Run.CaseC05"],
        "case_type": "c05case",
        "checkers": {"WR": "check_c05", "RD": "check_c05", "SW": "check_c05"},
        "harness": [{"bin": "stream"},
                    # the connection-level switch: real Connection::listen; the harness client decrypts with an independent CFB8
                    {"bin": "conn", "env": {"VERIF_FAMILIES": "BASE,C01,C10,SEG"}, "case_type": "conn_case",
                     "imports": ["Lib.Bytes", "Codec.Desc", "Conn.Types", "Conn.Prog", "Conn.Sem1", "Run.CaseConn"],
                     "checkers": {"BASE": "check_c05c", "C01": "check_c05c", "C10": "check_c05c", "SEG": "check_c05c"}, "shard": 40}],
        "ignore_families": ["C10P", "SEGP"],
        "shard": 10,
        "quick_scale": 1, "thorough_scale": 8, "search_factor": 4,
        "ties": ["stream binary: the real CipherStream<_, cfb8::Encryptor<Aes128>, cfb8::Decryptor<Aes128>> polled by hand over a scripted inner transport vs Crypto/CipherStream.v; ciphertext recomputed with the Gallina AES-128 (FIPS-197 / SP 800-38A vectors as Examples)", "conn binary (BASE, C01, C10): real Connection::listen; the harness client decrypts everything after its Encryption Response with an independent CFB8, so the place of the switch is observed (check_c05c: Conn/Switch.v monitor on the observation)"],
        "allowed_axioms": [],
        "rule": "stream binary: WR = write schedules over {Pending, Ready 1, Ready k, Ready all, Err}* with write_all-like retries and buffer changes after Pending, payloads 0-300 bytes; SW = plaintext writes, set_encryption, more writes; RD = read chunkings {1,2,15,16,17,33,64, empty, Pending, Err} into a partly filled ReadBuf; non-trivial = distinct case with encryption on and at least one Pending or partial accept (WR/SW) or two data chunks (RD)",
        "trusted_base": COMMON_TB + ["Spec/Aes.v (FIPS-197 AES-128) and Spec/Cfb8Spec.v (SP 800-38A CFB-8), hand-written specifications",
                                     "hand model of crypto/stream.rs in Crypto/CipherStream.v (tied by the stream correspondence)",
                                     "aes/cfb8 crates = the Gallina AES/CFB8 (tied by every encrypted case)"],
        "assumptions": ["none beyond the trusted base"],
    },
    "C10": {
        "props_file": "Props/C10.v",
        "run_files": ["Run/CaseConn.v", "Run/CaseCookie.v", "Run/CaseConnJson.v", "Run/CaseLst.v"],
        "imports": ["Lib.Bytes", "Codec.Desc", "Conn.Types", "Conn.Prog", "Conn.Sem1", "Run.CaseConn", "Run.CaseConnJson"],
        "case_type": "conn_case",
        "checkers": {"BASE": "check_c10_json", "C10": "check_c10_json", "C02": "check_c10_json", "C03": "check_c10_json"},
        "harness": [{"bin": "conn", "env": {"VERIF_FAMILIES": "BASE,C10,C02,C03"}}, {"bin": "listener", "crate": "harness-app", "families": ["ADM"], "env": {"VERIF_FAMILY": "ADM"}, "case_type": "lstcase", "imports": ["Lib.Bytes", "Limiter.Limiter", "Listener.Machine", "Listener.Wire", "Run.CaseLst"], "checkers": {"ADM": "check_c15"}, "shard": 20}, {"bin": "cookie", "case_type": "ckcase", "imports": ["Lib.Bytes", "Conn.Types", "Run.CaseCookie"], "checkers": {"SG": "check_cookie", "CK": "check_cookie", "JS": "check_cookie", "JP": "check_cookie"}, "shard": 100}],
        "shard": 20,
        "quick_scale": 1, "thorough_scale": 4, "search_factor": 4,
        "ties": ["cookie binary JS/JP: the real serde_json to_vec / from_slice on AuthCookie and SessionCookie vs the Gallina serde of Crypto/CookieJson.v (writer bytes equal; parser verdict and record equal whenever the model decides), and the serde tables recorded in every conn case vs the same model (Run/CaseConnJson.v)", "conn binary: real Connection::listen on a scripted transport/client/adapters in a paused runtime vs the byte-level model Conn.Sem2.run2 on the delivered timed segments (sends, calls, outcome, virtual ms), with no class exempted",
                 "Conn.Sem2.run2 vs Conn.Sem1.run1 o Reader.frames_of on every case (equal on every schedule: C08_refines), and the implementation's untimed observation vs M1 o reader on every case (the property itself)",
                 "Gen/PacketsGen.v descriptors decode the client's frames and encode the model's packets"],
        "family_types": {"C10P": {"case_type": "pair_case", "imports": ["Lib.Bytes", "Run.CaseConn"], "checkers": {"C10P": "check_c10_pair"}}},
        "allowed_axioms": [],
        "rule": "conn binary family C10: two-connection histories (login with/without secret, prior session cookie none/null/valid, routed or not; then a Transfer-intent connection presenting what was stored, from the same or another IP, at clock offsets 0, 5, expiry-1, expiry, expiry+1, 3*expiry); each connection is a conn_case, each history a pair_case judged on the observations alone; non-trivial = distinct case that reaches routing, or any pair",
        "trusted_base": COMMON_TB + ["Conn/Prog.v: hand transcription of Connection::listen into the program datatype (tied by the conn correspondence: every case compares the model's sends, adapter calls, outcome and virtual times with the real Connection::listen)",
                                     "Conn/Sem1.v: frame-level semantics incl. a hand model of tokio 1.49 Interval (MissedTickBehavior::Skip), validated by every timed conn case",
                                     "RSA PKCS#1 v1.5, serde_json, uuid generation, SystemTime: oracles recorded per case / universally quantified in the theorems",
                                     "monitor on the implementation's trace: observable events are the implementation's, unobservable ones (frame consumption, fresh values) are aligned from the model's run"],
        "assumptions": ["frames delivered atomically (segmentation is C08's subject)", "event times distinct from tick instants and adapter completions"],
    },
    "C12": {
        "props_file": "Props/C12.v",
        "run_files": ["Run/CaseC12.v", "Run/CaseConn.v", "Run/CaseC11.v", "Run/CaseLst.v"],
        "imports": ["Lib.Bytes", "Run.CaseC12"],
        "case_type": "c12case",
        "checkers": {"REQ": "check_c12"},
        "family_types": {"ENV": ENV_FT},
        "harness": [{"bin": "mojang", "crate": "harness-net"},
                    # the server id as the application reads it from the environment (Config::read)
                    {"bin": "listener", "crate": "harness-app", "families": ["ENV"], "env": {"VERIF_FAMILY": "ENV"}, "case_type": "envcase", "imports": ["Lib.Bytes", "Limiter.Limiter", "Listener.Machine", "Listener.Wire", "Run.CaseLst"], "checkers": {"ENV": "check_env"}, "shard": 50}, {"bin": "conn", "max_scale": 2, "env": {"VERIF_FAMILIES": "C02,C01"}, "case_type": "conn_case", "imports": ["Lib.Bytes", "Codec.Desc", "Conn.Types", "Conn.Prog", "Conn.Sem1", "Run.CaseConn"], "checkers": {"C02": "check_c01", "C01": "check_c01"}, "shard": 40}, {"bin": "hash", "case_type": "c11case", "imports": ["Lib.Bytes", "Run.CaseC11"], "checkers": {"H": "check_c11", "D": "check_c11"}, "shard": 60}],
        "shard": 50,
        "quick_scale": 1, "thorough_scale": 10, "search_factor": 4,
        "ties": ["Adapters/MojangUrl.v: hand model of Url::parse_with_params + form_urlencoded::byte_serialize as used by "
                 "passage-adapters/http/src/mojang_adapter.rs, tied byte-exactly to the request line received by a loopback "
                 "mock (mojang binary, family REQ; needs the cfg(passage_verif) hook PASSAGE_VERIF_SESSION_BASE)"],
        "allowed_axioms": [],
        "rule": "mojang binary: real MojangAdapter::authenticate against a plain-HTTP loopback mock; 63 fixed names (delimiters, "
                "controls, CR/LF, non-ASCII, empty, 300 and 4000 bytes, injection look-alikes incl. the real hash) and 120*scale "
                "seeded (server id, name, secret, key) tuples; every case is non-trivial (a real request is made and recorded); "
                "monitor = target_ok on the recorded request target with the Spec-level hash; an empty target (no request) counts "
                "as a correspondence failure",
        "trusted_base": COMMON_TB + ["harness-net/ (loopback mock, request line capture)",
                                     "Spec/FormUrl.v (urlencoded serialiser/parser transcribed from form_urlencoded 1.2.2 / percent-encoding 2.3.2; crate doc tests as Examples)",
                                     "url 2.5.8 / reqwest 0.13 / hyper 1.8 emission of the request line (tied by every REQ case)",
                                     "Spec/Sha1.v, Spec/SignedHex.v for the expected serverId value (C11)"],
        "assumptions": ["the session server parses the query string as application/x-www-form-urlencoded"],
    },
    "C07": {
        "props_file": "Props/C07.v",
        "run_files": ["Run/CaseConn.v", "Run/CaseConn3.v"],
        "imports": ["Lib.Bytes", "Codec.Desc", "Conn.Types", "Conn.Prog", "Conn.Sem1", "Run.CaseConn"],
        "case_type": "conn_case",
        "family_types": {"WCAP": WCAP_FT},
        "checkers": {"BASE": "check_c07", "C07": "check_c07", "C03": "check_c07", "C10": "check_c07", "CAN": "check_c07", "SEG": "check_c07"},
        "harness": [{"bin": "conn", "env": {"VERIF_FAMILIES": "BASE,C07,C03,C10,CAN,SEG,WCAP"}}],
        "shard": 40,
        "quick_scale": 1, "thorough_scale": 8, "search_factor": 4,
        "ties": ["conn binary: real Connection::listen on a scripted transport/client/adapters in a paused runtime vs Conn.Sem1.run1 (sends, calls, outcome, virtual ms)",
                 "Gen/PacketsGen.v descriptors decode the client's frames and encode the model's packets", "the gap monitor of C07_whole_gap (no event later than P after the last Keep Alive until selection has answered) is evaluated on the implementation's own timed observation"],
        "allowed_axioms": [],
        "rule": "conn binary family C07: per-adapter latencies from 1 ms to 5 keep-alive periods x echo policy {prompt, delayed up to just under a period, never, wrong id, duplicate, stop after n} x Client Information arrival {immediate, after 1/2/3 periods} x slow authentication (missed-tick realignment), under virtual time with exact millisecond comparison; non-trivial = distinct case in which at least one Keep Alive was sent",
        "trusted_base": COMMON_TB + ["Conn/Prog.v: hand transcription of Connection::listen into the program datatype (tied by the conn correspondence: every case compares the model's sends, adapter calls, outcome and virtual times with the real Connection::listen)",
                                     "Conn/Sem1.v: frame-level semantics incl. a hand model of tokio 1.49 Interval (MissedTickBehavior::Skip), validated by every timed conn case",
                                     "RSA PKCS#1 v1.5, serde_json, uuid generation, SystemTime: oracles recorded per case / universally quantified in the theorems",
                                     "monitor on the implementation's trace: observable events are the implementation's, unobservable ones (frame consumption, fresh values) are aligned from the model's run"],
        "assumptions": ["frames delivered atomically (segmentation is C08's subject)", "event times distinct from tick instants and adapter completions"],
    },
    "C19": {
        "props_file": "Props/C19.v",
        "run_files": ["Run/CaseC19.v", "Run/CaseIp.v"],
        "imports": ["Lib.Bytes", "Lib.IpText", "Adapters.Grpc", "Run.CaseC19"],
        "case_type": "c19case",
        "checkers": {"DISC": "check_c19", "SEL": "check_c19"},
        "harness": [{"bin": "grpc", "crate": "harness-net"}, {"bin": "iptext", "case_type": "ipcase", "imports": ["Lib.Bytes", "Lib.IpText", "Run.CaseIp"], "checkers": {"SHOW": "check_ip", "PARSE": "check_ip", "SOCK": "check_ip"}, "shard": 300}],   # iptext: LIBIP tie of Lib/IpText.v (needs its own checker entry; or rely on LIBIP)
        "shard": 100,
        "quick_scale": 1, "thorough_scale": 8, "search_factor": 4,
        "ties": ["harness-net/src/bin/grpc.rs runs the real GrpcDiscoveryAdapter / GrpcStrategyAdapter against in-process tonic "
                 "Discovery / Strategy services generated from /repo/passage-adapters/grpc/proto; replies are scripted, the request is "
                 "recorded as the service decoded it",
                 "Lib/IpText.v (IpAddr text form) is tied to std by the iptext binary (LIBIP)"],
        "allowed_axioms": [],
        "rule": "grpc binary: DISC = grid of host forms x ports, bad hosts, duplicate-key metadata, seeded lists of 0-6 wire targets "
                "(mostly valid; exactly one malformed; several malformed); SEL = seeded select() calls (IPv4/IPv6 clients, host text, "
                "i32 protocol incl. negatives, UUIDs, 0-6 candidates) with the service echoing a candidate, answering a foreign or "
                "malformed target, or none; non-trivial = DISC with at least one target, SEL always",
        "trusted_base": COMMON_TB + ["harness-net/ (tonic mock services, build.rs server stubs)",
                                     "hand model Adapters/Grpc.v of passage-adapters/grpc/src/{proto,discovery_adapter,strategy_adapter}.rs "
                                     "(tied by the grpc correspondence)",
                                     "prost 0.14 / tonic 0.14 / hyper / h2 encoding and transport (tied by every case)",
                                     "hand model Lib/IpText.v of Rust std text form (tied by the iptext correspondence)",
                                     "uuid crate Display (tied by every SEL case)"],
        "assumptions": ["flowinfo / scope id of a SocketAddrV6 are not part of a target (dropped by ip().to_string(), zero after SocketAddr::new)",
                        "transport failures (FailedFetch) and the status adapter are outside the property"],
    },
    "C04": {
        "props_file": "Props/C04.v",
        "run_files": ["Run/CaseConn.v", "Run/CaseC09.v"],
        "imports": ["Lib.Bytes", "Codec.Desc", "Conn.Types", "Conn.Prog", "Conn.Sem1", "Run.CaseConn"],
        "case_type": "conn_case",
        "checkers": {"BASE": "check_c04c", "MAL": "check_c04c", "C06": "check_c04c", "C01": "check_c04c", "CAN": "check_c04c", "WCAN": "check_c04c"},
        "harness": [{"bin": "conn", "env": {"VERIF_FAMILIES": "BASE,MAL,C06,C01,CAN,WCAN"}}, {"bin": "codec", "families": ["DEC"], "case_type": "c09case", "imports": ["Lib.Bytes", "Codec.VarInt", "Codec.Desc", "Gen.PacketsGen", "Run.CaseC09"], "checkers": {"DEC": "check_c04_dec"}, "shard": 250}],
        "shard": 40,
        "quick_scale": 1, "thorough_scale": 8, "search_factor": 4,
        "ties": ["conn binary: real Connection::listen on a scripted transport/client/adapters in a paused runtime vs the byte-level model Conn.Sem2.run2 on the delivered timed segments (sends, calls, outcome, virtual ms), with no class exempted",
                 "Gen/PacketsGen.v descriptors decode the client's frames and encode the model's packets"],
        "allowed_axioms": [],
        "rule": 'conn binary family MAL: status/login/transfer transcripts with one frame mutated at every protocol state (hostile outer lengths -2^31,-1,0,2^31-1,over-long, max, max+1 followed by a 5 s pause before the body; declared length off by one; truncation + end of stream; hostile inner lengths; invalid UTF-8 / ordinals; random bytes; RSA blobs of 0/127/128/129/4096 bytes; frames of exactly max and max+1 bytes; mutations after encryption started) delivered as raw byte segments; plus the codec DEC cases (mutated encodings through every packet decoder with the counting allocator); non-trivial = distinct case that consumed at least one frame',
        "trusted_base": COMMON_TB + ["Conn/Prog.v: hand transcription of Connection::listen into the program datatype (tied by the conn correspondence: every case compares the model's sends, adapter calls, outcome and virtual times with the real Connection::listen)",
                                     "Conn/Sem1.v: frame-level semantics incl. a hand model of tokio 1.49 Interval (MissedTickBehavior::Skip), validated by every timed conn case",
                                     "RSA PKCS#1 v1.5, serde_json, uuid generation, SystemTime: oracles recorded per case / universally quantified in the theorems",
                                     "monitor on the implementation's trace: observable events are the implementation's, unobservable ones (frame consumption, fresh values) are aligned from the model's run"],
        "assumptions": ["frames delivered atomically (segmentation is C08's subject)", "event times distinct from tick instants and adapter completions"],
    },
    "C08": {
        "props_file": "Props/C08.v",
        "run_files": ["Run/CaseConn.v", "Run/CaseConn3.v", "Run/CaseLst.v"],
        "imports": ["Lib.Bytes", "Codec.Desc", "Conn.Types", "Conn.Prog", "Conn.Sem1", "Run.CaseConn"],
        "case_type": "conn_case",
        "checkers": {"BASE": "check_c08c", "SEG": "check_c08c", "MAL": "check_c08c", "CAN": "check_c08c", "WCAN": "check_c08c"},
        "harness": [{"bin": "conn", "env": {"VERIF_FAMILIES": "BASE,SEG,MAL,CAN,WCAN,WCAP"}},
                    # segmentation at the listener: the PROXY header and the first bytes of the session in one segment or in two
                    {"bin": "listener", "crate": "harness-app", "families": ["ADM"], "env": {"VERIF_FAMILY": "ADM"}, "case_type": "lstcase", "imports": ["Lib.Bytes", "Limiter.Limiter", "Listener.Machine", "Listener.Wire", "Run.CaseLst"], "checkers": {"ADM": "check_c15"}, "shard": 20}],
        "shard": 40,
        "quick_scale": 1, "thorough_scale": 8, "search_factor": 4,
        "ties": ["conn binary: real Connection::listen on a scripted transport/client/adapters in a paused runtime vs the byte-level model Conn.Sem2.run2 on the delivered timed segments (sends, calls, outcome, virtual ms), with no class exempted",
                 "Conn.Sem2.run2 vs Conn.Sem1.run1 o Reader.frames_of on every case (equal on every schedule: C08_refines), and the implementation's untimed observation vs M1 o reader on every case (the property itself)",
                 "Gen/PacketsGen.v descriptors decode the client's frames and encode the model's packets"],
        "family_types": {"WCAP": WCAP_FT, "SEGP": {"case_type": "seg_pair", "imports": ["Lib.Bytes", "Conn.Types", "Run.CaseConn"], "checkers": {"SEGP": "check_seg_pair"}}},
        "allowed_axioms": [],
        "rule": 'conn binary family SEG: each scenario run whole and again with every client frame cut (one byte at a time, after the length prefix, before the last byte, at seeded offsets, 3 cuts) with 3 ms gaps and, in a third of the cases, a transport that accepts 1 or 7 bytes per write; the pair is compared on packets sent, services consulted and outcome (SEGP); family CAN: logins in which a keep-alive tick or the completion of a raced adapter call is placed inside the length prefix / the body of a client frame, or the stream ends inside a frame (9 variants, seeded offsets: the schedules of the repaired classes K1 / K4); every run is compared with the byte-level model M2 exactly, with M1 applied to the byte-level reader, and judged by the segmentation-independence monitor; non-trivial = distinct segmented case; family WCAN: the transport accepts 3 bytes of the Keep Alive written at the first tick and refuses the rest for 2 ms while the raced adapter call completes 1 ms after the tick (class K3, repaired in 8ccd88e), with controls; monitor: every frame the client received is a complete canonical packet of its phase',
        "trusted_base": COMMON_TB + ["Conn/Prog.v: hand transcription of Connection::listen into the program datatype (tied by the conn correspondence: every case compares the model's sends, adapter calls, outcome and virtual times with the real Connection::listen)",
                                     "Conn/Sem1.v: frame-level semantics incl. a hand model of tokio 1.49 Interval (MissedTickBehavior::Skip), validated by every timed conn case",
                                     "RSA PKCS#1 v1.5, serde_json, uuid generation, SystemTime: oracles recorded per case / universally quantified in the theorems",
                                     "monitor on the implementation's trace: observable events are the implementation's, unobservable ones (frame consumption, fresh values) are aligned from the model's run"],
        "assumptions": ["frames delivered atomically (segmentation is C08's subject)", "event times distinct from tick instants and adapter completions"],
    },
    "C20": {
        "props_file": "Props/C20.v",
        "run_files": ["Run/CaseC20.v"],
        "imports": ["Lib.Bytes", "Lib.IpText", "Adapters.Agones", "Run.CaseC20"],
        "case_type": "c20case",
        "checkers": {f: "check_c20" for f in ("PLAIN", "DELETE", "UNCONV", "STATEKEY", "DROP", "GONE", "MIX")},
        "harness": [{"bin": "agones", "crate": "harness-k8s"}],
        "shard": 20,
        "quick_scale": 1, "thorough_scale": 8, "search_factor": 4,
        "ties": ["harness-k8s/src/bin/agones.rs: the real AgonesDiscoveryAdapter (kube client, watcher, default backoff) against a hand-written "
                 "HTTP mock of the Kubernetes API under a paused tokio clock; discover() after every digested step",
                 "kube-level events recorded from a second kube::runtime::watcher stream on the same mock"],
        "allowed_axioms": [],
        "rule": "agones binary: 7 witness histories + seeded histories per family over 1-5 GameServers (state changes, deletes while Ready, "
                "unconvertible objects, metadata key collisions incl. 'state', bookmarks, dropped connections with missed changes, 410 on the "
                "live and on the resumed watch, failed and paginated re-lists); non-trivial = history with at least one step and one non-empty offered set",
        "trusted_base": COMMON_TB + ["kube 3.0.1 client/runtime: translation of HTTP list/watch into watcher::Event (exercised by the mock, not proved)",
                                     "hand model of agones/src/{lib,discovery_adapter}.rs in Adapters/Agones.v (tied by the agones correspondence)",
                                     "Lib/IpText.v for IpAddr::from_str / Display (tied by the iptext harness)",
                                     "harness-k8s mock API server and its notion of the server's truth (latest object per name)"],
        "assumptions": ["identity of a GameServer is metadata.name (no equal names across namespaces)",
                        "the property speaks about the observed event history: staleness between a lost watch and InitDone is inherent to list/watch"],
    },
}

LST_COMMON = {
    "run_files": ["Run/CaseLst.v"],
    "imports": ["Lib.Bytes", "Limiter.Limiter", "Listener.Machine", "Listener.Wire", "Run.CaseLst"],
    "case_type": "lstcase",
    "shard": 20,
    "quick_scale": 1, "thorough_scale": 6, "search_factor": 3,
    "ties": ["harness-app/src/bin/listener.rs: the real Listener::listen / passage::start on loopback TCP in a paused runtime vs Listener/Machine.v (outcomes, order, windows)",
             "header classes by construction vs proxy_header::ProxyHeader::parse under the configured versions"],
    "trusted_base": COMMON_TB + ["hand model of listener.rs (after the C16 repair) in Listener/Machine.v and of the Config->Listener->Connection path in Listener/Wire.v",
                                 "tokio scheduler/timer/TCP, TaskTracker, CancellationToken, std Mutex, proxy-header: exercised, not modelled",
                                 "Limiter/Limiter.v as the meaning of RateLimiter::enqueue (C13)"],
    "level_text": "PARTIAL proof: the accept/admit/deadline/drain logic is an executable Gallina machine (Listener/Machine.v) with the theorems of Props/C14-C17.v proved for every event history; the configuration path is Listener/Wire.v. That tokio's timer fires, that the scheduler runs a spawned task, and that the kernel hands over accepted sockets is exercised by the listener harness (real Listener::listen / passage::start on loopback TCP under a paused clock), not proved.",
}
PROPS.update({
"C14": dict(LST_COMMON, props_file="Props/C14.v", checkers={"WIRE": "check_c14", "DL": "check_c14"}, family_types={"ENV": ENV_FT},
            harness=[{"bin": "listener", "crate": "harness-app", "families": ["WIRE", "DL", "ENV"], "env": {"VERIF_FAMILY": "WIRE,DL,ENV"}}],
            allowed_axioms=[], assumptions=["timer events are delivered (C14_deadline hypothesis)", "1 <= max_packet_length < 2^31"],
            rule="WIRE: passage::start with max {64,100,300,1000,10000,20000} x expiry {1,100,3600,21600,50000,86400}; DL: timeout {3,10,20,40} s x 11 client behaviours x PROXY; non-trivial = every case"),
"C15": dict(LST_COMMON, props_file="Props/C15.v", checkers={"ADM": "check_c15"},
            harness=[{"bin": "listener", "crate": "harness-app", "families": ["ADM"], "env": {"VERIF_FAMILY": "ADM"}}],
            allowed_axioms=[], assumptions=["see notes/Listener.md"],
            rule="ADM: arrival histories of 1-12 connections with PROXY v1/v2 headers (IPv4/IPv6 sources, several balancer peers, LOCAL, invalid, disabled version, none) and limits 1-3; non-trivial = case with a rate-limit rejection or an invalid header"),
"C16": dict(LST_COMMON, props_file="Props/C16.v", checkers={"STALL": "check_c16"},
            harness=[{"bin": "listener", "crate": "harness-app", "families": ["STALL"], "env": {"VERIF_FAMILY": "STALL"}}],
            allowed_axioms=["ClassicalDedekindReals.sig_not_dec", "ClassicalDedekindReals.sig_forall_dec",
                            "FunctionalExtensionality.functional_extensionality_dep", "Classical_Prop.classic"],
            assumptions=["scheduler fairness and the kernel accept queue are not modelled; the bound is measured under the paused clock"],
            rule="STALL: 6 stall points (before / inside the PROXY header, mid-frame, mid-login, ignoring keep-alives, silent) x k in 1..4 stalled clients x PROXY x limiter; a probe client must complete a status exchange within the bound; every case non-trivial"),
"C17": dict(LST_COMMON, props_file="Props/C17.v", checkers={"STOP": "check_c17", "SIG": "check_c17"},
            harness=[{"bin": "listener", "crate": "harness-app", "families": ["STOP", "SIG"], "env": {"VERIF_FAMILY": "STOP,SIG"}}],
            allowed_axioms=[], assumptions=["events are processed to quiescence: the instant at which the accept loop observes the token is a modelling assumption"],
            rule="STOP: 1-4 in-flight sessions, stop injected at a seeded instant, late arrivals; SIG: SIGINT through passage::start; every case non-trivial"),
})


_CONN_SK = ["passage-protocol/src/connection.rs", "passage-protocol/src/crypto/mod.rs"]
for _p in ("C01", "C02", "C03", "C04", "C06", "C07", "C08", "C10"):
    PROPS[_p]["skeleton"] = list(_CONN_SK)
    PROPS[_p]["ties"] = PROPS[_p].get("ties", []) + ["tools/skeleton.py: primitive sequence of Connection::listen / receive_packet / keep_alive / send_packet against the stored skeleton the model was transcribed from"]
for _p in ("C06", "C07", "C08", "C09"):
    PROPS[_p]["ties"] = PROPS[_p].get("ties", []) + ["conn binary family WCAP: real Connection::listen on a transport whose free room follows a schedule and a localization adapter that suspends vs Conn.Sem3.run3 exactly (frames by the instant their last byte was accepted, every adapter call started, the end, bytes accepted per instant); the five property monitors and the switch monitor on the implementation's observation aligned with M3's run"]
for _p in ("C01", "C02", "C03", "C04", "C06", "C07", "C08", "C10"):
    PROPS[_p]["max_skipped"] = 0      # no conn case may fall outside the model (e.g. because a packet impl became unparsable)
for _p in ("C01", "C02", "C03", "C06", "C07"):
    PROPS[_p]["ignore_families"] = ["C10P", "SEGP"]   # pair cases (C10 histories, SEG segmentation pairs) are judged by C10's / C08's own checker only
for _p in ("C02", "C10"):
    PROPS[_p]["skeleton"].append("passage-protocol/src/cookie.rs")
PROPS["C05"]["skeleton"] = ["passage-protocol/src/crypto/stream.rs", "passage-protocol/src/connection.rs::apply_encryption", "passage-protocol/src/connection.rs::listen"]
PROPS["C13"]["skeleton"] = ["passage-protocol/src/rate_limiter.rs"]
for _p in ("C14", "C15", "C16", "C17"):
    PROPS[_p]["skeleton"] = ["passage-protocol/src/listener.rs"]


def nontrivial(pid, fam, term):
    if pid == "C09":
        if fam in ("VI", "VL", "VR"): return True
        return "[]" not in term.split("(hx")[0] or fam == "DEC"
    if pid == "C13":
        return fam != "RND" or "false" in term
    if pid == "C07":
        return "cc_kaids := []" not in term
    if pid == "C05":
        if fam == "RD": return term.count("RData") >= 2
        return " true " in term and ("WPending" in term or "WReady 1" in term)
    if pid == "C18":
        if fam == "PU32": return True
        return ("mkFilter" in term or "SFill" in term) and "mkTarget" in term
    return True


def match_known(pid, known, case):
    """case = (family, term, bin) -> finding dict if the failing case lies in a listed known class"""
    fam, term = case[0], case[1]
    for k in known:
        if k.get("status") != "known": continue
        m = k.get("match", {})
        if m.get("family") and m["family"] != fam: continue
        if m.get("regex") and not re.search(m["regex"], term): continue
        if m.get("family") or m.get("regex"):
            return k
    return None


def match_known_class(pid, known, cls):
    for k in known:
        if k.get("status") == "known" and k.get("match", {}).get("class") == cls:
            return k
    return None


def known_lines(pid, spec, known, cases, codes, res, root):
    """KNOWN-FINDING lines: one per listed finding that still reproduces on this tree"""
    lines = []
    hit_ids = {}
    for i, k in res["known"]:
        hit_ids[k["id"]] = hit_ids.get(k["id"], 0) + 1
    for k in known:
        if k.get("status") != "known": continue
        still = False
        if k.get("probe") == "c09_placeholders":
            still_list = c09_unimplemented(root)
            still = k["match_name"] in still_list
        else:
            still = hit_ids.get(k["id"], 0) > 0
        if still:
            lines.append("KNOWN-FINDING: property=%s %s" % (pid, k["text"]))
    return lines


_c09_cache = None
def c09_unimplemented(root):
    """evaluate Codec.PacketCheck.unimplemented_placeholders in Coq"""
    global _c09_cache
    if _c09_cache is not None: return _c09_cache
    wd = os.path.join(root, "work", "C09"); os.makedirs(wd, exist_ok=True)
    p = os.path.join(wd, "placeholders.v")
    open(p, "w").write("From Passage Require Import Lib.Bytes Codec.PacketCheck.\nEval vm_compute in unimplemented_placeholders.\n")
    out = subprocess.run(["coqc", "-noglob", "-Q", os.path.join(root, "coq"), "Passage", p], cwd=wd,
                         stdout=subprocess.PIPE, stderr=subprocess.STDOUT).stdout.decode()
    _c09_cache = re.findall(r'"([^"]+)"', out)
    return _c09_cache
