#!/bin/bash
# run_all.sh [tier] : every registered check once, sequentially; one summary line each
cd "$(dirname "$0")/.."
TIER=${1:-quick}
for p in C01 C02 C03 C04 C05 C06 C07 C08 C09 C10 C11 C12 C13 C14 C15 C16 C17 C18 C19 C20; do
  s=$(date +%s); ./check $p --tier $TIER > work/all_$p.out 2>&1; rc=$?
  echo "$p exit=$rc $(( $(date +%s) - s ))s :: $(grep -E '^(OK|VIOLATION)' work/all_$p.out | head -2 | tr '\n' ' ')"
done
