#!/usr/bin/env python3
"""debug helper: run a conn family and print diagnostics for cases whose check is non-zero"""
import sys, subprocess, re, os
fam, checker = sys.argv[1], sys.argv[2]
seed = sys.argv[3] if len(sys.argv) > 3 else "1"
out = subprocess.run(["/verif/harness/target/debug/conn"], env=dict(os.environ, VERIF_SEED=seed, VERIF_FAMILIES=fam), stdout=subprocess.PIPE).stdout.decode()
cases = [l.split(" ", 2)[2] for l in out.split("\n") if l.startswith("CASE ") and "cc_cfg" in l]
os.makedirs("/tmp/dbg", exist_ok=True)
with open("/tmp/dbg/t.v", "w") as f:
    f.write("From Passage Require Import Lib.Bytes Codec.Desc Conn.Types Conn.Prog Conn.Sem1 Run.CaseConn.\nLocal Open Scope Z_scope.\nSet Printing Depth 100000. Set Printing Width 200.\n")
    for i, c in enumerate(cases): f.write("Definition c%d : conn_case := %s.\n" % (i, c))
    f.write("Eval vm_compute in [%s].\n" % "; ".join("(%d, %s c%d, corr_diag c%d)" % (i, checker, i, i) for i in range(len(cases))))
o = subprocess.run(["coqc", "-noglob", "-Q", "/verif/coq", "Passage", "/tmp/dbg/t.v"], stdout=subprocess.PIPE, stderr=subprocess.STDOUT).stdout.decode()
bad = [(int(a), int(b), int(c)) for a, b, c in re.findall(r"\(\s*(\d+),\s*(\d+),\s*(\d+)\s*\)", o) if int(b) not in (0, 4)]
print(len(cases), "cases;", len(bad), "non-zero", o[-300:] if "rror" in o else "")
for i, code, diag in bad[:int(sys.argv[4]) if len(sys.argv) > 4 else 6]:
    c = cases[i]
    note = re.search(r'cc_note := "([^"]*)"', c).group(1)
    outcome = re.search(r"cc_outcome := ([^;]*);", c).group(1)
    print("case", i, "code", code, "diag", diag, "(1 sends,2 calls,4 outcome,8 end time)", "|", note, "| impl outcome", outcome)
    with open("/tmp/dbg/one.v", "w") as f:
        f.write("From Passage Require Import Lib.Bytes Codec.Desc Conn.Types Conn.Prog Conn.Sem1 Run.CaseConn.\nLocal Open Scope Z_scope.\nSet Printing Depth 100000. Set Printing Width 200.\n")
        f.write("Definition c : conn_case := %s.\n" % c)
        f.write("Eval vm_compute in (tr_end (case_trace c), cc_end c, map (fun x => (fst (fst x), snd (fst x))) (match tr_sent (case_trace c) with Some l => l | None => [] end), map (fun x => (fst (fst x), snd (fst x))) (cc_sent c), map fst (tr_calls (case_trace c)), map fst (cc_calls c)).\n")
    o1 = subprocess.run(["coqc", "-noglob", "-Q", "/verif/coq", "Passage", "/tmp/dbg/one.v"], stdout=subprocess.PIPE, stderr=subprocess.STDOUT).stdout.decode()
    print("   model(end, sends(t,id), calls) vs impl:", re.sub(r"\s+", " ", o1)[:700])
