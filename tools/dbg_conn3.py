#!/usr/bin/env python3
"""debug helper for M3: run the WCAP family and print diagnostics for cases whose check is non-zero"""
import sys, subprocess, re, os
seed = sys.argv[1] if len(sys.argv) > 1 else "1"
scale = sys.argv[2] if len(sys.argv) > 2 else "1"
HDR = "From Passage Require Import Lib.Bytes Codec.Desc Conn.Types Conn.Prog Conn.Sem1 Conn.Sem3 Run.CaseConn Run.CaseConn3.\nLocal Open Scope Z_scope.\nSet Printing Depth 100000. Set Printing Width 200.\n"
out = subprocess.run(["/verif/harness/target/debug/conn"], env=dict(os.environ, VERIF_SEED=seed, VERIF_SCALE=scale, VERIF_FAMILIES="WCAP"), stdout=subprocess.PIPE).stdout.decode()
cases = [l.split(" ", 2)[2] for l in out.split("\n") if l.startswith("CASE ") and "cc_cfg" in l]
os.makedirs("/tmp/dbg", exist_ok=True)
with open("/tmp/dbg/t3.v", "w") as f:
    f.write(HDR)
    for i, c in enumerate(cases): f.write("Definition c%d : conn_case := %s.\n" % (i, c))
    f.write("Eval vm_compute in [%s].\n" % "; ".join("(%d, check_conn3 c%d, corr_diag3 c%d)" % (i, i, i) for i in range(len(cases))))
o = subprocess.run(["coqc", "-noglob", "-Q", "/verif/coq", "Passage", "/tmp/dbg/t3.v"], stdout=subprocess.PIPE, stderr=subprocess.STDOUT).stdout.decode()
bad = [(int(a), int(b), int(c)) for a, b, c in re.findall(r"\(\s*(\d+),\s*(\d+),\s*(\d+)\s*\)", o) if int(b) not in (0, 4)]
print(len(cases), "cases;", len(bad), "non-zero", o[-300:] if "rror" in o else "")
for i, code, diag in bad[:int(sys.argv[3]) if len(sys.argv) > 3 else 6]:
    c = cases[i]
    note = re.search(r'cc_note := "([^"]*)"', c).group(1)
    outcome = re.search(r"cc_outcome := ([^;]*);", c).group(1)
    print("case", i, "code", code, "diag", diag, "(1 sends,2 calls,4 outcome,8 end time,16 wire)", "|", note, "| impl outcome", outcome)
    with open("/tmp/dbg/one3.v", "w") as f:
        f.write(HDR)
        f.write("Definition c : conn_case := %s.\n" % c)
        f.write("Definition out := case_out3 c. Definition w := map (fun x => (fst x, Z.of_nat (length (snd x)))) (wire_of out).\n")
        f.write("Eval vm_compute in (tr_end (trace_of out), cc_end c, map (fun x => (fst (fst x), snd (fst x))) (match tr_sent (trace_of out) with Some l => delivered w 0 l | None => [] end), map (fun x => (fst (fst x), snd (fst x))) (cc_sent c), map fst (calls_of out), map fst (cc_calls c), coalesce (nonzero w), coalesce (nonzero (cc_wire c)), cc_wsched c, monitors3 c).\n")
    o1 = subprocess.run(["coqc", "-noglob", "-Q", "/verif/coq", "Passage", "/tmp/dbg/one3.v"], stdout=subprocess.PIPE, stderr=subprocess.STDOUT).stdout.decode()
    print("   model(end, sends(t,id), calls, wire) vs impl:", re.sub(r"\s+", " ", o1)[:1800])
