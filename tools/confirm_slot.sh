#!/bin/bash
# confirm_slot.sh <slot> <PID> <dir> ... : confirm seeded changes in a persistent scratch worktree /tmp/cm-slot<slot>
# (created on first use with a copy of /repo/target): the change applies, the existing suite passes with it, the
# demonstration fails with it and passes without it.  Prints one RESULT line per change; remove the worktree with
#   git -C /repo worktree remove --force /tmp/cm-slot<slot>
SLOT=$1; shift
WT=/tmp/cm-slot$SLOT
export CARGO_NET_OFFLINE=true
if [ ! -d $WT ]; then
  git -C /repo worktree add --detach $WT HEAD >/dev/null 2>&1 || exit 2
  cp -r /repo/target $WT/target
fi
while [ $# -ge 2 ]; do
  PID=$1; D=$2; shift 2
  cd $WT && git checkout -q -- . && git clean -fdq -e target
  DEMO_CMD=$(python3 - "$D/meta.json" "$WT" <<'PY'
import json, sys, re
m = json.load(open(sys.argv[1]))
cmd = m.get("commands", {}).get("demo", "")
if isinstance(cmd, dict): cmd = " ; ".join(str(v) for v in cmd.values())
cmd = re.sub(r"/tmp/wt-[A-Za-z0-9]*", sys.argv[2], cmd)
cmds = re.findall(r"((?:RUSTFLAGS=\"[^\"]*\" )?(?:CARGO_TARGET_DIR=\S+ )?(?:CARGO_NET_OFFLINE=true )?cargo test[^#(\n;&|]*)", cmd)
print(" && ".join(c.strip() for c in cmds) if cmds else "false")
PY
)
  git apply $D/patch.diff || { echo "RESULT $PID $D patch-does-not-apply"; continue; }
  T=$(cargo test --workspace --no-fail-fast --offline 2>&1 | grep -E "^test result" | awk '{p+=$4; f+=$6} END {print p" passed "f" failed"}')
  git apply $D/demo.diff 2>/dev/null || echo "  (demo.diff did not apply)"
  (eval "$DEMO_CMD") > $D/confirm_with.log 2>&1; W=$?
  git apply -R $D/patch.diff
  (eval "$DEMO_CMD") > $D/confirm_without.log 2>&1; WO=$?
  echo "RESULT $PID $D suite=[$T] demo_with=$W demo_without=$WO cmd=[$DEMO_CMD]"
  git checkout -q -- . && git clean -fdq -e target
done
