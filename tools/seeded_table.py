#!/usr/bin/env python3
"""seeded_table.py : write /verif/seeded/README.md - one row per archived seeded change with what it needs and which check caught it how."""
import json, glob, os, re
rows = []
for f in sorted(glob.glob("/verif/seeded/C??/*/meta.json")):
    m = json.load(open(f)); pid = f.split("/")[3]; name = f.split("/")[4]
    cc = m.get("confirmed_by_coordinator", {})
    chk = cc.get("checks_in_lab") or {}
    res = []
    for c, r in sorted(chk.items()):
        if r["exit"] == 0: res.append("%s: MISSED" % c)
        elif "no-failing-input-found" in r["first_line"]: res.append("%s: violation, no-failing-input-found (%s)" % (c, re.sub(r".*broken: ", "", r["first_line"])[:60]))
        else: res.append("%s: violation with replay" % c)
    if not res and cc.get("check_result"): res.append(str(cc["check_result"])[:160])
    needs = re.sub(r"\s+", " ", str(m.get("needs", "")))[:220]
    summ = re.sub(r"\s+", " ", str(m.get("summary", "")))[:200]
    rows.append("| %s | `%s` | %s | %s | %s |" % (pid, name, summ.replace("|", "/"), needs.replace("|", "/"), "; ".join(res)))
out = ["# Seeded changes", "",
       "Each directory holds `patch.diff` (the change), the demonstration (`demo.diff` or `demo/`) and `meta.json` (what it breaks, what it needs to manifest, what was run).",
       "Every change was confirmed in a scratch worktree: it applies, the 77 existing tests pass with it, its demonstration fails with it and passes without it.",
       "Last column: result of the property's quick check (`./check Cxx`) with the change applied, in the isolated lab (advisory skeleton mode, the default).", "",
       "| property | change | summary | needs | check result |", "|---|---|---|---|---|"] + rows
open("/verif/seeded/README.md", "w").write("\n".join(out) + "\n")
print(len(rows), "rows")
