#!/bin/bash
# lab_restart.sh <queue-prefix> : stop every lab queue, re-create labs 4-6 from the current /verif and /repo HEAD, and start
# /tmp/q/<prefix>_4 .. _6 (one queue file per lab, "PID dir" lines)
P=$1
pkill -f "lab_queue[.]sh" ; pkill -f "mutant_lab[.]sh"; sleep 2
for l in 4 5 6; do pkill -f "/tmp/mverif$l/" ; done; sleep 1
cd /verif
for l in 4 5 6; do LAB=$l tools/mutant_lab.sh setup 2>&1 | tail -1; done
for l in 4 5 6; do
  [ -f /tmp/q/${P}_$l ] || continue
  rm -f /tmp/q/${P}_$l.log
  (LAB=$l nohup tools/lab_queue.sh /tmp/q/${P}_$l > /dev/null 2>&1 &)
done
echo started
