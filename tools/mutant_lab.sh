#!/bin/bash
# mutant_lab.sh setup            : (re)create an isolated copy of /verif (/tmp/mverif) and a scratch worktree of /repo (/tmp/mrepo)
# mutant_lab.sh try <PID> <patch>: apply the seeded change in the scratch worktree, run the copied check there, undo it
# The registered checks themselves always run in /verif against /repo; the lab only exists so that seeded changes can
# be evaluated without touching /repo while other work goes on.
set -u
case "$1" in
setup)
  git -C /repo worktree remove --force /tmp/mrepo 2>/dev/null; git -C /repo worktree prune
  git -C /repo worktree add --detach /tmp/mrepo HEAD >/dev/null
  mkdir -p /tmp/mverif
  rsync -a --delete --exclude .git --exclude work --exclude replays /verif/ /tmp/mverif/
  for f in /tmp/mverif/harness*/Cargo.toml; do sed -i 's#"/repo#"/tmp/mrepo#g; s#/verif/harness#/tmp/mverif/harness#g' $f; done
  echo "lab ready at $(git -C /tmp/mrepo rev-parse --short HEAD)"
  ;;
try)
  PID=$2; PATCH=$3
  cd /tmp/mrepo && git checkout -q -- . && git clean -fdq && git apply $PATCH || { echo "RESULT $PID $PATCH patch-does-not-apply"; exit 2; }
  cd /tmp/mverif && PASSAGE_REPO=/tmp/mrepo ./check $PID > /tmp/mlab_$PID.out 2>&1; RC=$?
  cd /tmp/mrepo && git checkout -q -- . && git clean -fdq
  echo "RESULT $PID $(basename $(dirname $PATCH)) exit=$RC violations=$(grep -c VIOLATION /tmp/mlab_$PID.out) :: $(grep VIOLATION /tmp/mlab_$PID.out | head -1) :: $(grep 'broken:' /tmp/mlab_$PID.out | head -2 | tr '\n' ' ' | cut -c1-200)"
  ;;
esac
