#!/bin/bash
# mutant_lab.sh setup            : (re)create an isolated copy of /verif ($MV) and a scratch worktree of /repo ($MR)
# mutant_lab.sh try <PID> <patch>: apply the seeded change in the scratch worktree, run the copied check there, undo it
# The registered checks themselves always run in /verif against /repo; the lab only exists so that seeded changes can
# be evaluated without touching /repo while other work goes on.
set -u
L=${LAB:-}
MV=/tmp/mverif$L; MR=/tmp/mrepo$L
case "$1" in
setup)
  git -C /repo worktree remove --force $MR 2>/dev/null; git -C /repo worktree prune
  git -C /repo worktree add --detach $MR HEAD >/dev/null
  mkdir -p $MV
  rsync -a --delete --exclude .git --exclude work --exclude replays /verif/ $MV/
  for f in $MV/harness*/Cargo.toml; do sed -i "s#\"/repo#\"$MR#g; s#/verif/harness#$MV/harness#g" $f; done
  echo "lab ready at $(git -C $MR rev-parse --short HEAD)"
  ;;
try)
  PID=$2; PATCH=$3
  cd $MR && git reset -q --hard && git clean -fdq && (git apply $PATCH 2>/dev/null || git apply --3way $PATCH) || { echo "RESULT $PID $PATCH patch-does-not-apply"; exit 2; }
  cd $MV && PASSAGE_REPO=$MR ./check $PID > /tmp/mlab${L}_$PID.out 2>&1; RC=$?
  cd $MR && git reset -q --hard && git clean -fdq
  echo "RESULT $PID $(basename $(dirname $PATCH)) exit=$RC violations=$(grep -c VIOLATION /tmp/mlab${L}_$PID.out) :: $(grep VIOLATION /tmp/mlab${L}_$PID.out | head -1) :: $(grep 'broken:' /tmp/mlab${L}_$PID.out | head -2 | tr '\n' ' ' | cut -c1-200)"
  ;;
esac
